"""C02 / keep2: the bytes betterproto writes (per-field framing in _serialize_single, and
the matching size computation) are checked against an independent spec-level encoder and
against the reference implementation, for every proto type / wire type, small and large
field numbers, empty payloads, wrappers, maps, oneofs, optional fields, nested messages,
timestamps and durations."""
import io
import math
import random
import struct
from dataclasses import dataclass
from datetime import datetime, timedelta, timezone
from typing import Dict, List, Optional

import betterproto
from betterproto import _len_single, _serialize_single
from google.protobuf import (
    descriptor_pb2,
    descriptor_pool,
    duration_pb2,
    message_factory,
    timestamp_pb2,
    wrappers_pb2,
)

F = descriptor_pb2.FieldDescriptorProto
rnd = random.Random(777)
MAXNUM = (1 << 29) - 1


# ======================================================================================
# part 1: _serialize_single / _len_single against an independent encoder
# ======================================================================================
def varint(n):
    n &= (1 << 64) - 1
    out = bytearray()
    while True:
        b, n = n & 0x7F, n >> 7
        out.append(b | (0x80 if n else 0))
        if not n:
            return bytes(out)


def zigzag(n):
    return (n << 1) ^ (n >> 63)


VARINT = {"enum", "bool", "int32", "int64", "uint32", "uint64", "sint32", "sint64"}
FMT = {"float": "<f", "fixed32": "<I", "sfixed32": "<i", "double": "<d", "fixed64": "<Q", "sfixed64": "<q"}


def spec_field(number, proto_type, value, serialize_empty=False, wraps=""):
    """What the encoding spec says the field looks like on the wire."""
    if proto_type in VARINT:
        v = int(value)
        if proto_type in ("sint32", "sint64"):
            v = zigzag(v)
        return varint(number << 3 | 0) + varint(v)
    if proto_type in FMT:
        wt = 5 if FMT[proto_type] in ("<f", "<I", "<i") else 1
        return varint(number << 3 | wt) + struct.pack(FMT[proto_type], value)
    if proto_type == "string":
        payload = value.encode("utf-8")
    elif proto_type in ("bytes", "map"):
        payload = bytes(value)
    elif proto_type == "message":
        if wraps:
            if value is None:
                payload = b""
            else:
                payload = b"" if not value and wraps != "float" and wraps != "double" else spec_field(1, wraps, value)
                if wraps in ("float", "double") and value == 0 and math.copysign(1, value) > 0:
                    payload = b""
        else:
            payload = bytes(value)
    else:
        raise AssertionError(proto_type)
    if not (payload or serialize_empty or wraps):
        return b""
    return varint(number << 3 | 2) + varint(len(payload)) + payload


NUMBERS = [1, 2, 15, 16, 17, 127, 128, 2047, 2048, 16383, 16384, 262143, 262144, (1 << 21) - 1, 1 << 21,
           (1 << 25) - 1, 1 << 25, (1 << 28) - 1, 1 << 28, MAXNUM] + [rnd.randint(1, MAXNUM) for _ in range(30)]
S32 = [0, 1, -1, 63, 64, -64, -65, 127, 128, 300, (1 << 31) - 1, -(1 << 31)]
S64 = S32 + [1 << 31, -(1 << 31) - 1, (1 << 63) - 1, -(1 << 63), 1 << 62, -(1 << 62) - 1]
U32 = [0, 1, 127, 128, 16383, 16384, (1 << 32) - 1]
U64 = U32 + [1 << 32, (1 << 63) - 1, 1 << 63, (1 << 64) - 1]
FL = [0.0, -0.0, 1.0, -1.5, 0.1, math.inf, -math.inf, math.nan, 1e-45, 3.4028234663852886e38]
DB = FL + [1.7976931348623157e308, 5e-324, 1e39, -1e-300]
STR = ["", "a", "héllo wörld", "\U0001F600" * 3, "x" * 127, "y" * 128, "z" * 20000]
BYT = [b"", b"\x00", b"\xff" * 127, b"\x80" * 128, bytes(range(256)) * 70, bytearray(b"ba"), bytearray()]
VALUES = {
    "enum": S32, "bool": [False, True], "int32": S32, "int64": S64, "uint32": U32, "uint64": U64,
    "sint32": S32, "sint64": S64, "float": FL, "double": DB, "fixed32": U32, "fixed64": U64,
    "sfixed32": S32, "sfixed64": S64, "string": STR, "bytes": BYT, "map": BYT,
}


@dataclass(eq=False, repr=False)
class Inner(betterproto.Message):
    a: int = betterproto.int32_field(1)
    s: str = betterproto.string_field(2)


n_direct = 0
for number in NUMBERS:
    for proto_type, values in VALUES.items():
        for value in values:
            for serialize_empty in (False, True):
                got = _serialize_single(number, proto_type, value, serialize_empty=serialize_empty)
                assert type(got) is bytes, (proto_type, type(got))
                assert got == spec_field(number, proto_type, value, serialize_empty), (number, proto_type, value)
                assert _len_single(number, proto_type, value, serialize_empty=serialize_empty) == len(got)
                n_direct += 1
    for inner in (Inner(), Inner(a=5), Inner(s="q" * 200), Inner(a=-1, s="é")):
        for serialize_empty in (False, True):
            got = _serialize_single(number, "message", inner, serialize_empty=serialize_empty)
            assert type(got) is bytes
            assert got == spec_field(number, "message", inner, serialize_empty)
            assert _len_single(number, "message", inner, serialize_empty=serialize_empty) == len(got)
    for wraps, values in (("int32", [None, 0, 1, -1]), ("int64", [None, 0, -(1 << 63)]), ("uint32", [None, 0, 7]),
                          ("uint64", [None, 0, (1 << 64) - 1]), ("bool", [None, False, True]),
                          ("string", [None, "", "wrapped"]), ("bytes", [None, b"", b"\x00\x01"]),
                          ("float", [None, 0.0, 1.5]), ("double", [None, 0.0, -2.25])):
        for value in values:
            for serialize_empty in (False, True):
                got = _serialize_single(number, "message", value, serialize_empty=serialize_empty, wraps=wraps)
                assert type(got) is bytes
                assert got == spec_field(number, "message", value, serialize_empty, wraps), (number, wraps, value, got)
                assert _len_single(number, "message", value, serialize_empty=serialize_empty, wraps=wraps) == len(got)
                n_direct += 1
    # timestamps / durations are framed as messages
    for value, payload in ((datetime(1970, 1, 1, tzinfo=timezone.utc), b""),
                           (datetime(1970, 1, 1, 0, 0, 1, tzinfo=timezone.utc), b"\x08\x01"),
                           (timedelta(0), b""), (timedelta(seconds=2, microseconds=3), b"\x08\x02\x10\xb8\x17")):
        for serialize_empty in (False, True):
            got = _serialize_single(number, "message", value, serialize_empty=serialize_empty)
            want = b"" if not (payload or serialize_empty) else varint(number << 3 | 2) + varint(len(payload)) + payload
            assert got == want and type(got) is bytes
            assert _len_single(number, "message", value, serialize_empty=serialize_empty) == len(got)

for fn in (_serialize_single, _len_single):
    for bogus in ("group", "", "Int32", "MESSAGE"):
        try:
            fn(1, bogus, b"abc")
        except NotImplementedError as e:
            assert e.args == (bogus,)
        else:
            raise AssertionError("unknown proto type accepted: %r" % bogus)


# ======================================================================================
# part 2: whole messages against the reference implementation
# ======================================================================================
fdp = descriptor_pb2.FileDescriptorProto(
    name="c02_keep2.proto", package="c02k2", syntax="proto3",
    dependency=["google/protobuf/timestamp.proto", "google/protobuf/duration.proto", "google/protobuf/wrappers.proto"],
)
en = fdp.enum_type.add(name="Kind")
for n, v in (("K0", 0), ("K1", 1), ("KNEG", -3), ("KBIG", (1 << 31) - 1)):
    en.value.add(name=n, number=v)
inner = fdp.message_type.add(name="Inner")
inner.field.add(name="a", number=1, type=F.TYPE_INT32, label=F.LABEL_OPTIONAL)
inner.field.add(name="s", number=2, type=F.TYPE_STRING, label=F.LABEL_OPTIONAL)
m = fdp.message_type.add(name="All")
SCALARS = [("int32", F.TYPE_INT32), ("int64", F.TYPE_INT64), ("uint32", F.TYPE_UINT32), ("uint64", F.TYPE_UINT64),
           ("sint32", F.TYPE_SINT32), ("sint64", F.TYPE_SINT64), ("bool", F.TYPE_BOOL), ("fixed32", F.TYPE_FIXED32),
           ("sfixed32", F.TYPE_SFIXED32), ("float", F.TYPE_FLOAT), ("fixed64", F.TYPE_FIXED64),
           ("sfixed64", F.TYPE_SFIXED64), ("double", F.TYPE_DOUBLE), ("string", F.TYPE_STRING), ("bytes", F.TYPE_BYTES)]
for i, (name, t) in enumerate(SCALARS):
    m.field.add(name="f_" + name, number=1 + i, type=t, label=F.LABEL_OPTIONAL)
m.field.add(name="f_enum", number=16, type=F.TYPE_ENUM, type_name=".c02k2.Kind", label=F.LABEL_OPTIONAL)
m.field.add(name="f_msg", number=17, type=F.TYPE_MESSAGE, type_name=".c02k2.Inner", label=F.LABEL_OPTIONAL)
m.field.add(name="r_str", number=18, type=F.TYPE_STRING, label=F.LABEL_REPEATED)
m.field.add(name="r_bytes", number=19, type=F.TYPE_BYTES, label=F.LABEL_REPEATED)
m.field.add(name="r_msg", number=20, type=F.TYPE_MESSAGE, type_name=".c02k2.Inner", label=F.LABEL_REPEATED)
m.field.add(name="r_i64", number=21, type=F.TYPE_INT64, label=F.LABEL_REPEATED)
m.field.add(name="r_dbl", number=22, type=F.TYPE_DOUBLE, label=F.LABEL_REPEATED)
for ename, kt, vt, vtn in (("MSiEntry", F.TYPE_STRING, F.TYPE_INT32, None), ("MImEntry", F.TYPE_INT64, F.TYPE_MESSAGE, ".c02k2.Inner"),
                           ("MBsEntry", F.TYPE_BOOL, F.TYPE_STRING, None)):
    e = m.nested_type.add(name=ename)
    e.options.map_entry = True
    e.field.add(name="key", number=1, type=kt, label=F.LABEL_OPTIONAL)
    vf = e.field.add(name="value", number=2, type=vt, label=F.LABEL_OPTIONAL)
    if vtn:
        vf.type_name = vtn
m.field.add(name="m_si", number=23, type=F.TYPE_MESSAGE, type_name=".c02k2.All.MSiEntry", label=F.LABEL_REPEATED)
m.field.add(name="m_im", number=24, type=F.TYPE_MESSAGE, type_name=".c02k2.All.MImEntry", label=F.LABEL_REPEATED)
m.field.add(name="m_bs", number=25, type=F.TYPE_MESSAGE, type_name=".c02k2.All.MBsEntry", label=F.LABEL_REPEATED)
m.oneof_decl.add(name="pick")
m.field.add(name="o_i", number=26, type=F.TYPE_INT32, label=F.LABEL_OPTIONAL, oneof_index=0)
m.field.add(name="o_s", number=27, type=F.TYPE_STRING, label=F.LABEL_OPTIONAL, oneof_index=0)
m.field.add(name="o_m", number=28, type=F.TYPE_MESSAGE, type_name=".c02k2.Inner", label=F.LABEL_OPTIONAL, oneof_index=0)
m.field.add(name="o_b", number=29, type=F.TYPE_BYTES, label=F.LABEL_OPTIONAL, oneof_index=0)
m.oneof_decl.add(name="_opt_i")
m.oneof_decl.add(name="_opt_s")
m.field.add(name="opt_i", number=30, type=F.TYPE_INT32, label=F.LABEL_OPTIONAL, oneof_index=1, proto3_optional=True)
m.field.add(name="opt_s", number=31, type=F.TYPE_STRING, label=F.LABEL_OPTIONAL, oneof_index=2, proto3_optional=True)
m.field.add(name="ts", number=32, type=F.TYPE_MESSAGE, type_name=".google.protobuf.Timestamp", label=F.LABEL_OPTIONAL)
m.field.add(name="du", number=33, type=F.TYPE_MESSAGE, type_name=".google.protobuf.Duration", label=F.LABEL_OPTIONAL)
m.field.add(name="w_i", number=34, type=F.TYPE_MESSAGE, type_name=".google.protobuf.Int32Value", label=F.LABEL_OPTIONAL)
m.field.add(name="w_s", number=35, type=F.TYPE_MESSAGE, type_name=".google.protobuf.StringValue", label=F.LABEL_OPTIONAL)
m.field.add(name="w_b", number=36, type=F.TYPE_MESSAGE, type_name=".google.protobuf.BoolValue", label=F.LABEL_OPTIONAL)
m.field.add(name="x2047", number=2047, type=F.TYPE_UINT32, label=F.LABEL_OPTIONAL)
m.field.add(name="x2048", number=2048, type=F.TYPE_FIXED32, label=F.LABEL_OPTIONAL)
m.field.add(name="x262144", number=262144, type=F.TYPE_DOUBLE, label=F.LABEL_OPTIONAL)
m.field.add(name="xmax", number=MAXNUM, type=F.TYPE_STRING, label=F.LABEL_OPTIONAL)
pool = descriptor_pool.DescriptorPool()
for mod in (timestamp_pb2, duration_pb2, wrappers_pb2):
    pool.AddSerializedFile(mod.DESCRIPTOR.serialized_pb)
pool.Add(fdp)
RefAll = message_factory.GetMessageClass(pool.FindMessageTypeByName("c02k2.All"))


class Kind(betterproto.Enum):
    K0 = 0
    K1 = 1
    KNEG = -3
    KBIG = (1 << 31) - 1


@dataclass(eq=False, repr=False)
class All(betterproto.Message):
    f_int32: int = betterproto.int32_field(1)
    f_int64: int = betterproto.int64_field(2)
    f_uint32: int = betterproto.uint32_field(3)
    f_uint64: int = betterproto.uint64_field(4)
    f_sint32: int = betterproto.sint32_field(5)
    f_sint64: int = betterproto.sint64_field(6)
    f_bool: bool = betterproto.bool_field(7)
    f_fixed32: int = betterproto.fixed32_field(8)
    f_sfixed32: int = betterproto.sfixed32_field(9)
    f_float: float = betterproto.float_field(10)
    f_fixed64: int = betterproto.fixed64_field(11)
    f_sfixed64: int = betterproto.sfixed64_field(12)
    f_double: float = betterproto.double_field(13)
    f_string: str = betterproto.string_field(14)
    f_bytes: bytes = betterproto.bytes_field(15)
    f_enum: "Kind" = betterproto.enum_field(16)
    f_msg: "Inner" = betterproto.message_field(17)
    r_str: List[str] = betterproto.string_field(18)
    r_bytes: List[bytes] = betterproto.bytes_field(19)
    r_msg: List["Inner"] = betterproto.message_field(20)
    r_i64: List[int] = betterproto.int64_field(21)
    r_dbl: List[float] = betterproto.double_field(22)
    m_si: Dict[str, int] = betterproto.map_field(23, betterproto.TYPE_STRING, betterproto.TYPE_INT32)
    m_im: Dict[int, "Inner"] = betterproto.map_field(24, betterproto.TYPE_INT64, betterproto.TYPE_MESSAGE)
    m_bs: Dict[bool, str] = betterproto.map_field(25, betterproto.TYPE_BOOL, betterproto.TYPE_STRING)
    o_i: int = betterproto.int32_field(26, group="pick")
    o_s: str = betterproto.string_field(27, group="pick")
    o_m: "Inner" = betterproto.message_field(28, group="pick")
    o_b: bytes = betterproto.bytes_field(29, group="pick")
    opt_i: Optional[int] = betterproto.int32_field(30, optional=True)
    opt_s: Optional[str] = betterproto.string_field(31, optional=True)
    ts: datetime = betterproto.message_field(32)
    du: timedelta = betterproto.message_field(33)
    w_i: Optional[int] = betterproto.message_field(34, wraps=betterproto.TYPE_INT32)
    w_s: Optional[str] = betterproto.message_field(35, wraps=betterproto.TYPE_STRING)
    w_b: Optional[bool] = betterproto.message_field(36, wraps=betterproto.TYPE_BOOL)
    x2047: int = betterproto.uint32_field(2047)
    x2048: int = betterproto.fixed32_field(2048)
    x262144: float = betterproto.double_field(262144)
    xmax: str = betterproto.string_field(MAXNUM)


EPOCH = datetime(1970, 1, 1, tzinfo=timezone.utc)
POOL = {
    "int32": S32, "sint32": S32, "sfixed32": S32, "int64": S64, "sint64": S64, "sfixed64": S64,
    "uint32": U32, "fixed32": U32, "uint64": U64, "fixed64": U64, "bool": [False, True],
    # (signed zero in a singular field is left out: betterproto treats -0.0 as the default)
    "float": [0.0, 1.0, -1.5, math.inf, -math.inf, math.nan, 1e-45, 3.4028234663852886e38, 0.1],
    "double": [0.0, 1.0, -1.5, math.inf, -math.inf, math.nan, 5e-324, 1.7976931348623157e308, 0.1, 1e39],
    "string": ["", "a", "héllo", "\U0001F600", "x" * 127, "y" * 128, "z" * 300],
    "bytes": [b"", b"\x00", b"\xff" * 127, b"\x80" * 128, bytes(range(256))],
}


def rand_inner(allow_empty):
    while True:
        a, s = rnd.choice([0, 0, 1, -1, 1 << 30]), rnd.choice(["", "", "in", "ü" * 70])
        if allow_empty or a or s:
            return a, s


def build(trial):
    """The same logical message for both libraries."""
    bp, ref = All(), RefAll()

    def both(name, value):
        setattr(bp, name, value)
        setattr(ref, name, value)

    for name, _ in SCALARS:
        if rnd.random() < 0.6:
            both("f_" + name, rnd.choice(POOL[name]))
    if rnd.random() < 0.5:
        v = rnd.choice([0, 1, -3, (1 << 31) - 1, 77, -(1 << 31)])
        bp.f_enum = Kind.try_value(v)
        ref.f_enum = v
    if rnd.random() < 0.5:
        a, s = rand_inner(False)
        bp.f_msg = Inner(a=a, s=s)
        ref.f_msg.a, ref.f_msg.s = a, s
    for _ in range(rnd.choice([0, 0, 1, 3])):
        v = rnd.choice(POOL["string"])
        bp.r_str.append(v)
        ref.r_str.append(v)
    for _ in range(rnd.choice([0, 0, 1, 3])):
        v = rnd.choice(POOL["bytes"])
        bp.r_bytes.append(v)
        ref.r_bytes.append(v)
    for _ in range(rnd.choice([0, 0, 1, 4])):
        a, s = rand_inner(True)  # empty items are still items
        bp.r_msg.append(Inner(a=a, s=s))
        ref.r_msg.add(a=a, s=s)
    for _ in range(rnd.choice([0, 0, 1, 40])):
        v = rnd.choice(S64)
        bp.r_i64.append(v)
        ref.r_i64.append(v)
    for _ in range(rnd.choice([0, 0, 1, 20])):
        v = rnd.choice(DB)
        bp.r_dbl.append(v)
        ref.r_dbl.append(v)
    for _ in range(rnd.choice([0, 0, 1, 3])):
        k, v = rnd.choice(["", "k", "ключ", "k" * 200]), rnd.choice(S32)
        bp.m_si[k] = v
        ref.m_si[k] = v
    for _ in range(rnd.choice([0, 0, 1, 3])):
        k = rnd.choice(S64)
        a, s = rand_inner(True)
        bp.m_im[k] = Inner(a=a, s=s)
        ref.m_im[k].a, ref.m_im[k].s = a, s
    for _ in range(rnd.choice([0, 0, 1, 2])):
        k, v = rnd.choice([False, True]), rnd.choice(["", "v"])
        bp.m_bs[k] = v
        ref.m_bs[k] = v
    pick = rnd.choice([None, "o_i", "o_s", "o_m", "o_b"])
    if pick == "o_i":
        both(pick, rnd.choice([0, 0, 5, -5]))
    elif pick == "o_s":
        both(pick, rnd.choice(["", "", "s"]))
    elif pick == "o_b":
        both(pick, rnd.choice([b"", b"", b"b"]))
    elif pick == "o_m":
        a, s = rand_inner(True)
        bp.o_m = Inner(a=a, s=s)
        ref.o_m.SetInParent()
        ref.o_m.a, ref.o_m.s = a, s
    if rnd.random() < 0.5:
        both("opt_i", rnd.choice([0, 0, 9, -9]))
    if rnd.random() < 0.5:
        both("opt_s", rnd.choice(["", "", "o"]))
    if rnd.random() < 0.5:
        dt = EPOCH + timedelta(seconds=rnd.choice([1, -1, 1 << 31, -(1 << 31), 253402300799, -62135596800, 86400]),
                               microseconds=rnd.choice([0, 0, 1, 999999, 500000]))
        if datetime.min.replace(tzinfo=timezone.utc) <= dt:
            bp.ts = dt
            ref.ts.FromDatetime(dt)
    if rnd.random() < 0.5:
        td = rnd.choice([1, -1]) * timedelta(seconds=rnd.choice([0, 1, 59, 1 << 31, 86400 * 3650]),
                                             microseconds=rnd.choice([0, 1, 999999, 500000]))
        if td:
            bp.du = td
            ref.du.FromTimedelta(td)
    if rnd.random() < 0.5:
        v = rnd.choice([0, 0, 1, -1, (1 << 31) - 1])
        bp.w_i = v
        ref.w_i.value = v
        ref.w_i.SetInParent()
    if rnd.random() < 0.5:
        v = rnd.choice(["", "", "w", "w" * 130])
        bp.w_s = v
        ref.w_s.value = v
        ref.w_s.SetInParent()
    if rnd.random() < 0.5:
        v = rnd.choice([False, True])
        bp.w_b = v
        ref.w_b.value = v
        ref.w_b.SetInParent()
    if rnd.random() < 0.5:
        both("x2047", rnd.choice(U32))
    if rnd.random() < 0.5:
        both("x2048", rnd.choice(U32))
    if rnd.random() < 0.5:
        both("x262144", rnd.choice(POOL["double"]))
    if rnd.random() < 0.5:
        both("xmax", rnd.choice(POOL["string"]))
    return bp, ref


def canon(ref_msg):
    return ref_msg.SerializeToString(deterministic=True)


PRESENCE = ["f_msg", "o_i", "o_s", "o_m", "o_b", "opt_i", "opt_s", "ts", "du", "w_i", "w_s", "w_b"]
n_msgs = 0
for trial in range(1500):
    bp, ref = build(trial)
    data = bytes(bp)
    assert type(data) is bytes
    assert len(bp) == len(data), (len(bp), len(data))
    decoded = RefAll.FromString(data)
    # same values (canonical bytes: NaN-safe, map order independent; stray unknown fields
    # would show up here too) and same presence
    assert canon(decoded) == canon(ref), (bp, ref)
    for name in PRESENCE:
        assert decoded.HasField(name) == ref.HasField(name), name
    assert decoded.WhichOneof("pick") == ref.WhichOneof("pick")
    # size-delimited dump uses the computed length
    buf = io.BytesIO()
    bp.dump(buf, betterproto.SIZE_DELIMITED)
    assert buf.getvalue() == varint(len(data)) + data
    n_msgs += 1

print("C02 keep2 equiv: OK (%d single-field vectors, %d messages)" % (n_direct, n_msgs))
