import os, sys
if os.environ.get("PYTHONHASHSEED") != "0":
    # generated modules list their trailing imports in set order: pin the hash seed so that
    # the rendered text is reproducible and can be compared with the recorded digests
    os.environ["PYTHONHASHSEED"] = "0"
    os.execv(sys.executable, [sys.executable] + sys.argv)
import hashlib, importlib, itertools, os, sys, tempfile, shutil
from google.protobuf import descriptor_pb2 as dpb

import betterproto
from betterproto.plugin import compiler as plugin_compiler
plugin_compiler.subprocess.check_output = lambda cmd, input, encoding: input
from betterproto.plugin import parser as plugin_parser
from betterproto.lib.google.protobuf.compiler import CodeGeneratorRequest

F = dpb.FieldDescriptorProto
OPTIONS = [",".join(filter(None, (t, p))) for t in ("", "typing.direct", "typing.root", "typing.310")
           for p in ("", "pydantic_dataclasses")]


def msg(name, fields=(), nested=(), enums=(), oneofs=()):
    m = dpb.DescriptorProto(name=name)
    for od in oneofs:
        m.oneof_decl.add(name=od)
    for i, f in enumerate(fields, 1):
        fname, ftype, tname, extra = (list(f) + [None, {}])[:4] if len(f) < 4 else f
        fd = m.field.add(name=fname, number=i, type=ftype,
                         label=(extra or {}).get("label", F.LABEL_OPTIONAL))
        if tname:
            fd.type_name = tname
        if extra and "oneof" in extra:
            fd.oneof_index = extra["oneof"]
        if extra and extra.get("p3opt"):
            fd.proto3_optional = True
    for n in nested:
        m.nested_type.add().CopyFrom(n)
    for e in enums:
        m.enum_type.add().CopyFrom(e)
    return m


def enum(name, *values):
    e = dpb.EnumDescriptorProto(name=name)
    for i, v in enumerate(values):
        e.value.add(name=v, number=i)
    return e


def map_entry(name, ktype, vtype, vtname=None):
    m = dpb.DescriptorProto(name=name)
    m.options.map_entry = True
    m.field.add(name="key", number=1, type=ktype, label=F.LABEL_OPTIONAL)
    v = m.field.add(name="value", number=2, type=vtype, label=F.LABEL_OPTIONAL)
    if vtname:
        v.type_name = vtname
    return m


def service(name, methods):
    s = dpb.ServiceDescriptorProto(name=name)
    for mname, i, o, cs, ss in methods:
        s.method.add(name=mname, input_type=i, output_type=o, client_streaming=cs, server_streaming=ss)
    return s


def four(prefix, pairs):
    """One method per streaming cardinality for every (input, output) pair."""
    out = []
    for n, (i, o) in enumerate(pairs):
        for cs, ss in itertools.product((False, True), repeat=2):
            out.append((f"{prefix}{n}{'S' if cs else 'U'}{'S' if ss else 'U'}", i, o, cs, ss))
    return out


def fdp(name, package, messages=(), enums=(), services=(), deps=()):
    f = dpb.FileDescriptorProto(name=name, syntax="proto3")
    if package:
        f.package = package
    f.dependency.extend(deps)
    for m in messages:
        f.message_type.add().CopyFrom(m)
    for e in enums:
        f.enum_type.add().CopyFrom(e)
    for s in services:
        f.service.add().CopyFrom(s)
    return f


def build_files():
    REP = {"label": F.LABEL_REPEATED}
    files = []
    files.append(fdp("root.proto", "", messages=[
        msg("Ping", [("id", F.TYPE_INT32), ("deep", F.TYPE_MESSAGE, ".a.b.c.Deep"),
                     ("far", F.TYPE_MESSAGE, ".z.Far"), ("tags", F.TYPE_STRING, None, REP)]),
        msg("Pong", [("ok", F.TYPE_BOOL), ("ping", F.TYPE_MESSAGE, ".Ping"),
                     ("when", F.TYPE_MESSAGE, ".google.protobuf.Timestamp"),
                     ("maybe", F.TYPE_MESSAGE, ".google.protobuf.Int32Value")]),
    ], services=[service("Top", four("Call", [(".Ping", ".Pong"), (".a.Msg", ".a.b.c.Deep"),
                                              (".google.protobuf.Empty", ".z.Far")]))]))
    inner = msg("Inner", [("v", F.TYPE_SINT64)])
    files.append(fdp("a/x.proto", "a", messages=[
        msg("Msg", [("name", F.TYPE_STRING), ("inner", F.TYPE_MESSAGE, ".a.Msg.Inner"),
                    ("kind", F.TYPE_ENUM, ".a.Kind"),
                    ("counts", F.TYPE_MESSAGE, ".a.Msg.CountsEntry", REP),
                    ("opt", F.TYPE_INT32, None, {"oneof": 1, "p3opt": True}),
                    ("x", F.TYPE_STRING, None, {"oneof": 0}),
                    ("y", F.TYPE_MESSAGE, ".a.b.Mid", {"oneof": 0}),
                    ("root_ping", F.TYPE_MESSAGE, ".Ping"),
                    ("dur", F.TYPE_MESSAGE, ".google.protobuf.Duration"),
                    ("blobs", F.TYPE_BYTES, None, REP)],
            nested=[inner, map_entry("CountsEntry", F.TYPE_STRING, F.TYPE_MESSAGE, ".a.b.c.Deep")],
            oneofs=["choice", "_opt"]),
    ], enums=[enum("Kind", "KIND_UNSPECIFIED", "KIND_ONE", "KIND_TWO")],
        services=[service("Svc", four("Do", [
            (".a.Msg", ".a.Msg.Inner"), (".a.b.c.Deep", ".Ping"), (".a.b.Mid", ".a.b.c.e.Deeper"),
            (".google.protobuf.StringValue", ".google.protobuf.Timestamp"),
            (".google.protobuf.Empty", ".google.protobuf.Empty")])),
            service("second_svc", four("other_call", [(".a.Msg", ".a.Msg")]))]))
    files.append(fdp("a/b/y.proto", "a.b", messages=[
        msg("Mid", [("up", F.TYPE_MESSAGE, ".a.Msg"), ("down", F.TYPE_MESSAGE, ".a.b.c.Deep"),
                    ("downer", F.TYPE_MESSAGE, ".a.b.c.e.Deeper"), ("cousin", F.TYPE_MESSAGE, ".a.d.Cousin"),
                    ("far", F.TYPE_MESSAGE, ".z.Far"), ("rootp", F.TYPE_MESSAGE, ".Pong"),
                    ("kind", F.TYPE_ENUM, ".a.Kind", REP), ("inner", F.TYPE_MESSAGE, ".a.Msg.Inner"),
                    ("by_id", F.TYPE_MESSAGE, ".a.b.Mid.ByIdEntry", REP)],
            nested=[map_entry("ByIdEntry", F.TYPE_INT64, F.TYPE_ENUM, ".a.Kind")]),
    ], services=[service("MidService", four("Go", [
        (".a.b.Mid", ".a.Msg"), (".a.d.Cousin", ".a.b.c.Deep"), (".z.Far", ".a.b.c.e.Deeper"),
        (".Ping", ".a.d.f.SecondCousin")]))]))
    files.append(fdp("a/b/c/z.proto", "a.b.c", messages=[
        msg("Deep", [("n", F.TYPE_FIXED32), ("top", F.TYPE_MESSAGE, ".a.Msg"), ("mid", F.TYPE_MESSAGE, ".a.b.Mid"),
                     ("root", F.TYPE_MESSAGE, ".Ping"), ("c2", F.TYPE_MESSAGE, ".a.d.f.SecondCousin")]),
    ], services=[service("DeepSvc", four("M", [(".a.b.c.Deep", ".a.Msg"), (".Ping", ".a.b.Mid"),
                                               (".a.d.f.SecondCousin", ".a.b.c.e.Deeper")]))]))
    files.append(fdp("a/b/c/e/w.proto", "a.b.c.e", messages=[
        msg("Deeper", [("d", F.TYPE_DOUBLE), ("up3", F.TYPE_MESSAGE, ".a.Msg"), ("c", F.TYPE_MESSAGE, ".a.d.Cousin")])]))
    files.append(fdp("a/d/c.proto", "a.d", messages=[
        msg("Cousin", [("deep", F.TYPE_MESSAGE, ".a.b.c.Deep"), ("s", F.TYPE_MESSAGE, ".a.d.f.SecondCousin")])],
        services=[service("CousinSvc", four("C", [(".a.b.c.Deep", ".a.d.Cousin"), (".a.d.Cousin", ".z.Far")]))]))
    files.append(fdp("a/d/f/s.proto", "a.d.f", messages=[
        msg("SecondCousin", [("e", F.TYPE_MESSAGE, ".a.b.c.e.Deeper"), ("f", F.TYPE_FLOAT)])]))
    files.append(fdp("z.proto", "z", messages=[msg("Far", [("q", F.TYPE_UINT64), ("m", F.TYPE_MESSAGE, ".a.Msg")])],
                     services=[service("FarSvc", four("F", [(".z.Far", ".a.b.c.e.Deeper")]))]))
    return files


def generate(option):
    req = dpb_request(option)
    resp = plugin_parser.generate_code(req)
    return {f.name: f.content for f in resp.file}


def dpb_request(option):
    from google.protobuf.compiler import plugin_pb2
    r = plugin_pb2.CodeGeneratorRequest(parameter=option)
    for f in build_files():
        r.proto_file.add().CopyFrom(f)
        r.file_to_generate.append(f.name)
    return CodeGeneratorRequest().parse(r.SerializeToString())


def digest(files):
    h = hashlib.sha256()
    for name in sorted(files):
        h.update(name.encode() + b"\0" + files[name].encode() + b"\0")
    return h.hexdigest()


def import_tree(files, tag):
    """Write a generated tree under a unique top-level package and import every module."""
    root = tempfile.mkdtemp(prefix="c18_")
    top = os.path.join(root, tag)
    for name, content in files.items():
        path = os.path.join(top, name)
        os.makedirs(os.path.dirname(path), exist_ok=True)
        with open(path, "w") as fh:
            fh.write(content)
    sys.path.insert(0, root)
    mods = {}
    try:
        for name in sorted(files):
            modname = ".".join([tag] + name.split("/")[:-1])
            mods[modname[len(tag) + 1:]] = importlib.import_module(modname)
    finally:
        sys.path.remove(root)
        shutil.rmtree(root, ignore_errors=True)
    return mods

GOLDEN = {
    "": "77c15c7e5e5860dee3774ff085b03ae778ea4b994c8fe4bc3c541a59c1f22091",
    "pydantic_dataclasses": "8060a1ae228e3b6f7d4aa598e33d80bf602b7e1de40bb818ecd653b419daa822",
    "typing.direct": "77c15c7e5e5860dee3774ff085b03ae778ea4b994c8fe4bc3c541a59c1f22091",
    "typing.direct,pydantic_dataclasses": "8060a1ae228e3b6f7d4aa598e33d80bf602b7e1de40bb818ecd653b419daa822",
    "typing.root": "7f6e84b2e2179b6d65460e258f9ccdc7b77aa90758a169068fee1541d8f3db03",
    "typing.root,pydantic_dataclasses": "b80bb738536024d3c36ad098cfda55bc6c694ef99bc1367451c2b84ac18b9b04",
    "typing.310": "1707afdd3499041276b09f40a452dd8c7ea2946cd548d91e666815279f3e5e21",
    "typing.310,pydantic_dataclasses": "063f67e80840e19d21c8761ac0c32a34ae7ba8a61efd184aacae92d8bb6f0fc2",
}

TC_IMPORTS = {"import grpclib.server", "from betterproto.grpc.grpclib_client import MetadataLike",
              "from grpclib.metadata import Deadline"}

captured = []
_orig_compiler = plugin_parser.outputfile_compiler


def _capturing(output_file):
    captured.append(output_file)
    return _orig_compiler(output_file=output_file)


plugin_parser.outputfile_compiler = _capturing


def describe(mods):
    """Configuration independent description of every generated class."""
    out = {}
    for modname, mod in mods.items():
        for cname in mod.__all__:
            cls = getattr(mod, cname)
            if isinstance(cls, type) and issubclass(cls, betterproto.Message):
                meta = cls()._betterproto
                out[modname, cname] = sorted(
                    (m.number, n, m.proto_type, m.group, m.optional, m.map_types, m.wraps)
                    for n, m in meta.meta_by_field_name.items())
            elif isinstance(cls, type) and issubclass(cls, betterproto.Enum):
                out[modname, cname] = sorted((e.name, e.value) for e in cls)
            else:
                out[modname, cname] = sorted(n for n in vars(cls) if not n.startswith("__"))
    return out


def sample(mods):
    a, abc, root = mods["a"], mods["a.b.c"], mods[""]
    m = a.Msg(name="né", inner=a.MsgInner(v=-5), kind=a.Kind.TWO,
              counts={"k": abc.Deep(n=7, root=root.Ping(id=3, tags=["x", "y"]))},
              opt=0, y=mods["a.b"].Mid(kind=[a.Kind.ONE, a.Kind.TWO], by_id={4: a.Kind.ONE}),
              blobs=[b"\x00\xff", b""])
    return bytes(m), m.to_json(), bytes(a.Msg().parse(bytes(m)))


def check_all(unit_checks):
    descriptions, samples = {}, {}
    for i, opt in enumerate(OPTIONS):
        del captured[:]
        files = generate(opt)
        assert len(files) == 8, sorted(files)
        for name, content in files.items():
            compile(content, name, "exec")
        assert digest(files) == GOLDEN[opt], (opt, digest(files))
        unit_checks(opt, files, list(captured))
        mods = import_tree(files, f"c18gen{i}")
        descriptions[opt] = describe(mods)
        samples[opt] = sample(mods)
    assert all(d == descriptions[""] for d in descriptions.values())
    assert all(s == samples[""] for s in samples.values()), samples
    assert len(descriptions[""]) > 20
    print("ok:", len(OPTIONS), "configurations,", len(descriptions[""]), "classes, sample bytes",
          len(samples[""][0]))

import os.path
from betterproto.compile import importing
from betterproto.compile.importing import get_type_reference, parse_source_type_name
from betterproto.casing import safe_snake_case
from betterproto.plugin.typing_compiler import (
    DirectImportTypingCompiler, TypingImportTypingCompiler, NoTyping310TypingCompiler)


# ---- oracle: the documented behaviour of the four reference_* helpers, spelled out independently
def oracle(cur, py, py_type):
    if py[:1] == ["betterproto"]:
        mod = ".".join(py)
        alias = safe_snake_case(mod)
        return f'"{alias}.{py_type}"', {f"import {mod} as {alias}"}
    if py == cur:
        return f'"{py_type}"', set()
    if py[:len(cur)] == cur:
        rest = py[len(cur):]
        if len(rest) == 1:
            return f'"{rest[0]}.{py_type}"', {f"from . import {rest[0]}"}
        alias = "_".join(rest)
        return f'"{alias}.{py_type}"', {f"from .{'.'.join(rest[:-1])} import {rest[-1]} as {alias}"}
    if cur[:len(py)] == py:
        up = len(cur) - len(py)
        if py:
            alias = "_" + "_" * up + py[-1] + "__"
            return f'"{alias}.{py_type}"', {f"from ..{'.' * up} import {py[-1]} as {alias}"}
        alias = "_" * up + py_type + "__"
        return f'"{alias}"', {f"from .{'.' * up} import {py_type} as {alias}"}
    shared = os.path.commonprefix([cur, py])
    up = len(cur) - len(shared)
    alias = "_" * up + safe_snake_case(".".join(py[len(shared):])) + "__"
    frm = "." + "." * up + ".".join(py[len(shared):-1])
    return f'"{alias}.{py_type}"', {f"from {frm} import {py[-1]} as {alias}"}


def packages(max_depth):
    parts = ["a", "b", "ab", "a_b", "v1", "google", "protobuf", "betterproto"]
    out = [[]]
    level = [[]]
    for _ in range(max_depth):
        level = [p + [x] for p in level for x in parts]
        out.extend(level)
    return out


def check_references():
    pk = packages(3)
    small = packages(2)
    n = 0
    compilers = [DirectImportTypingCompiler(), TypingImportTypingCompiler(), NoTyping310TypingCompiler()]
    for cur in pk:
        for py in (pk if len(cur) <= 1 else small) + [cur + ["x"], cur + ["x", "y"], cur + ["x", "y", "z"],
                                                      cur[:-1] + ["zz"], cur[:-1] + ["zz", "q"], cur[:-2], cur[:-1],
                                                      ["b"] + cur, cur[:1] + ["q"] + cur[1:]]:
            if py == ["google", "protobuf"] and cur != py:
                continue  # rewritten to betterproto.lib by get_type_reference, checked below
            for type_name in ("Msg", "Outer.Inner", "lower_case"):
                source = "." + ".".join(py + [type_name])
                if parse_source_type_name(source) != (".".join(py), type_name):
                    continue
                py_type = "".join(x[:1].upper() + x[1:] for x in type_name.split("."))
                py_type = {"lower_case": "LowerCase"}.get(type_name, py_type)
                want_ref, want_imports = oracle(cur, py, py_type)
                for pyd in (False, True):
                    imports = set()
                    got = get_type_reference(package=".".join(cur), imports=imports, source_type=source,
                                             typing_compiler=compilers[n % 3], unwrap=bool(n % 2), pydantic=pyd)
                    assert got == want_ref, (cur, py, type_name, got, want_ref)
                    assert imports == want_imports, (cur, py, imports, want_imports)
                    n += 1
    assert n > 50000, n
    # the helpers called directly (they are module level functions)
    for cur in small:
        for py in small:
            for fn, ok in ((importing.reference_descendent, py[:len(cur)] == cur and py != cur),
                           (importing.reference_ancestor, cur[:len(py)] == py and py != cur),
                           (importing.reference_cousin, bool(py) and py[:len(cur)] != cur and cur[:len(py)] != py)):
                if ok and py[:1] != ["betterproto"]:
                    imports = set()
                    got = fn(list(cur), imports, list(py), "T")
                    assert (got, imports) == oracle(cur, py, "T"), (fn.__name__, cur, py, got, imports)
                    n += 1
    for fn in (importing.reference_descendent, importing.reference_cousin):
        for cur in ([], ["a"]):
            try:
                fn(cur, set(), list(cur) if fn is importing.reference_descendent else [], "T")
            except IndexError:
                pass
            else:
                raise AssertionError("expected IndexError")
    # literal expectations
    lit = [
        ("a.b", ".a.b.c.Deep", '"c.Deep"', "from . import c"),
        ("a.b", ".a.b.c.e.Deeper", '"c_e.Deeper"', "from .c import e as c_e"),
        ("a", ".a.b.c.e.Deeper", '"b_c_e.Deeper"', "from .b.c import e as b_c_e"),
        ("", ".a.b.c.Deep", '"a_b_c.Deep"', "from .a.b import c as a_b_c"),
        ("", ".z.Far", '"z.Far"', "from . import z"),
        ("a.b.c", ".a.Msg", '"___a__.Msg"', "from .... import a as ___a__"),
        ("a.b", ".a.Msg", '"__a__.Msg"', "from ... import a as __a__"),
        ("a.b.c", ".a.b.Mid", '"__b__.Mid"', "from ... import b as __b__"),
        ("a.b.c", ".Ping", '"___Ping__"', "from .... import Ping as ___Ping__"),
        ("a", ".Ping", '"_Ping__"', "from .. import Ping as _Ping__"),
        ("a.b", ".a.d.Cousin", '"_d__.Cousin"', "from .. import d as _d__"),
        ("a.b.c", ".a.d.f.SecondCousin", '"__d_f__.SecondCousin"', "from ...d import f as __d_f__"),
        ("a.b", ".z.Far", '"__z__.Far"', "from ... import z as __z__"),
        ("z", ".a.b.c.e.Deeper", '"_a_b_c_e__.Deeper"', "from ..a.b.c import e as _a_b_c_e__"),
        ("a", ".google.protobuf.Empty", '"betterproto_lib_google_protobuf.Empty"',
         "import betterproto.lib.google.protobuf as betterproto_lib_google_protobuf"),
        ("a.b", ".a.b.Mid.ByIdEntry", '"MidByIdEntry"', None),
    ]
    for package, source, ref, imp in lit:
        imports = set()
        got = get_type_reference(package=package, imports=imports, source_type=source,
                                 typing_compiler=compilers[0], unwrap=False)
        assert got == ref and imports == ({imp} if imp else set()), (package, source, got, imports)
    imports = set()
    assert get_type_reference(package="a", imports=imports, source_type=".google.protobuf.Empty",
                              typing_compiler=compilers[0], pydantic=True) == \
        '"betterproto_lib_pydantic_google_protobuf.Empty"'
    assert imports == {"import betterproto.lib.pydantic.google.protobuf as betterproto_lib_pydantic_google_protobuf"}
    print("ok: reference checks", n)


def unit_checks(opt, files, output_files):
    # every trailing import of a generated module is one the oracle predicts for some reference in it
    for of in output_files:
        cur = of.package.split(".") if of.package else []
        for line in of.imports_end:
            assert line.startswith(("from .", "import betterproto.lib")), line


check_references()
check_all(unit_checks)
