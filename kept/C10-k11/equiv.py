"""C10 / keep1: the reader's lookup of an incoming field number (known field? which
metadata? repeated? wire type acceptable?) must behave exactly as before.

Exercises Message.load on delimited streams with a reader schema equal to and
older than the writer schema (unknown numbers, known numbers arriving with another
wire type, packed / unpacked, oneof, map, nested, multi-byte tags), on truncated
streams, and cross-checks the framing with google.protobuf.
Runs unchanged on the pristine tree and on the refactored one.
"""
import io
import random
import struct
from dataclasses import dataclass
from typing import Dict, List, Optional

import betterproto
from betterproto import SIZE_DELIMITED

from google.protobuf import descriptor_pb2, descriptor_pool, message_factory
from google.protobuf import proto as gproto

FDP = descriptor_pb2.FieldDescriptorProto


# --------------------------------------------------------------------------- schemas
class Color(betterproto.Enum):
    ZERO = 0
    RED = 1
    BLUE = 2
    NEG = -3


@dataclass(eq=False, repr=False)
class Inner(betterproto.Message):
    a: int = betterproto.int32_field(1)
    s: str = betterproto.string_field(2)


@dataclass(eq=False, repr=False)
class OldInner(betterproto.Message):
    a: int = betterproto.int32_field(1)


@dataclass(eq=False, repr=False)
class New(betterproto.Message):
    i32: int = betterproto.int32_field(1)
    s: str = betterproto.string_field(2)
    rep: List[int] = betterproto.int32_field(3)
    reps: List[str] = betterproto.string_field(4)
    inner: Inner = betterproto.message_field(5)
    m: Dict[str, int] = betterproto.map_field(
        6, betterproto.TYPE_STRING, betterproto.TYPE_SINT32
    )
    o1: int = betterproto.uint64_field(7, group="g")
    o2: str = betterproto.string_field(8, group="g")
    dbl: float = betterproto.double_field(9)
    fx: List[float] = betterproto.float_field(10)
    b: bytes = betterproto.bytes_field(11)
    f32: int = betterproto.fixed32_field(12)
    en: Color = betterproto.enum_field(13)
    inners: List[Inner] = betterproto.message_field(14)
    opt: Optional[int] = betterproto.int32_field(15, optional=True)
    big: int = betterproto.sint64_field(1000)


@dataclass(eq=False, repr=False)
class Old(betterproto.Message):
    i32: int = betterproto.int32_field(1)
    s: bytes = betterproto.bytes_field(2)  # string read as bytes: same wire type
    rep: List[int] = betterproto.int32_field(3)
    inner: OldInner = betterproto.message_field(5)
    o1: int = betterproto.uint64_field(7, group="g")
    dbl: int = betterproto.fixed64_field(9)  # same wire type, other python type
    fx: float = betterproto.float_field(10)  # packed run arrives: wire type mismatch
    b: int = betterproto.int32_field(11)  # length-delimited arrives: mismatch
    f32: float = betterproto.double_field(12)  # fixed32 arrives: mismatch
    en: int = betterproto.int32_field(13)


# (number, wire type) pairs that Old decodes; everything else must be kept verbatim
OLD_ACCEPTS = {(1, 0), (2, 2), (3, 0), (3, 2), (5, 2), (7, 0), (9, 1), (13, 0)}


@dataclass(eq=False, repr=False)
class Empty(betterproto.Message):
    pass


@dataclass(eq=False, repr=False)
class Dup(betterproto.Message):
    # two python fields sharing one number: the later definition owns the number
    a: int = betterproto.int32_field(1)
    b: int = betterproto.int32_field(1)


# ------------------------------------------------------------------ google counterpart
def build_google():
    f = descriptor_pb2.FileDescriptorProto(
        name="c10_keep1.proto", package="c10k1", syntax="proto3"
    )
    e = f.enum_type.add(name="Color")
    for n, v in (("ZERO", 0), ("RED", 1), ("BLUE", 2), ("NEG", -3)):
        e.value.add(name=n, number=v)
    inner = f.message_type.add(name="Inner")
    inner.field.add(name="a", number=1, type=FDP.TYPE_INT32, label=FDP.LABEL_OPTIONAL)
    inner.field.add(name="s", number=2, type=FDP.TYPE_STRING, label=FDP.LABEL_OPTIONAL)
    new = f.message_type.add(name="New")
    entry = new.nested_type.add(name="MEntry")
    entry.options.map_entry = True
    entry.field.add(name="key", number=1, type=FDP.TYPE_STRING, label=FDP.LABEL_OPTIONAL)
    entry.field.add(name="value", number=2, type=FDP.TYPE_SINT32, label=FDP.LABEL_OPTIONAL)
    new.oneof_decl.add(name="g")
    new.oneof_decl.add(name="_opt")
    O, R = FDP.LABEL_OPTIONAL, FDP.LABEL_REPEATED
    new.field.add(name="i32", number=1, type=FDP.TYPE_INT32, label=O)
    new.field.add(name="s", number=2, type=FDP.TYPE_STRING, label=O)
    new.field.add(name="rep", number=3, type=FDP.TYPE_INT32, label=R)
    new.field.add(name="reps", number=4, type=FDP.TYPE_STRING, label=R)
    new.field.add(name="inner", number=5, type=FDP.TYPE_MESSAGE, label=O, type_name=".c10k1.Inner")
    new.field.add(name="m", number=6, type=FDP.TYPE_MESSAGE, label=R, type_name=".c10k1.New.MEntry")
    new.field.add(name="o1", number=7, type=FDP.TYPE_UINT64, label=O, oneof_index=0)
    new.field.add(name="o2", number=8, type=FDP.TYPE_STRING, label=O, oneof_index=0)
    new.field.add(name="dbl", number=9, type=FDP.TYPE_DOUBLE, label=O)
    new.field.add(name="fx", number=10, type=FDP.TYPE_FLOAT, label=R)
    new.field.add(name="b", number=11, type=FDP.TYPE_BYTES, label=O)
    new.field.add(name="f32", number=12, type=FDP.TYPE_FIXED32, label=O)
    new.field.add(name="en", number=13, type=FDP.TYPE_ENUM, label=O, type_name=".c10k1.Color")
    new.field.add(name="inners", number=14, type=FDP.TYPE_MESSAGE, label=R, type_name=".c10k1.Inner")
    new.field.add(name="opt", number=15, type=FDP.TYPE_INT32, label=O, oneof_index=1, proto3_optional=True)
    new.field.add(name="big", number=1000, type=FDP.TYPE_SINT64, label=O)
    pool = descriptor_pool.DescriptorPool()
    pool.Add(f)
    return (
        message_factory.GetMessageClass(pool.FindMessageTypeByName("c10k1.New")),
        message_factory.GetMessageClass(pool.FindMessageTypeByName("c10k1.Inner")),
    )


GNew, GInner = build_google()


# ------------------------------------------------------------------------ generators
rnd = random.Random(0xC10)

INTS32 = [0, 1, -1, 127, 128, -128, 300, 16383, 16384, 2**31 - 1, -(2**31)]
INTS64 = [0, 1, -1, 63, 64, -64, -65, 2**35, -(2**35), 2**63 - 1, -(2**63)]
STRS = ["", "a", "héllo", "x" * 127, "y" * 128, "z" * 300]
FLOATS = [0.0, 1.5, -2.25, 2.0**34, float("inf")]  # exact as float32


def rand_inner():
    return Inner(a=rnd.choice(INTS32), s=rnd.choice(STRS[:4]))


def rand_new():
    m = New()
    if rnd.random() < 0.6:
        m.i32 = rnd.choice(INTS32)
    if rnd.random() < 0.5:
        m.s = rnd.choice(STRS)
    if rnd.random() < 0.5:
        m.rep = [rnd.choice(INTS32) for _ in range(rnd.randrange(1, 40))]
    if rnd.random() < 0.4:
        m.reps = [rnd.choice(STRS[:4]) for _ in range(rnd.randrange(1, 4))]
    if rnd.random() < 0.5:
        m.inner = rand_inner() if rnd.random() < 0.8 else Inner()
    if rnd.random() < 0.4:
        m.m = {rnd.choice(STRS[:5]): rnd.choice(INTS32) for _ in range(3)}
    r = rnd.random()
    if r < 0.3:
        m.o1 = rnd.choice([0, 1, 2**64 - 1, 1 << 40])
    elif r < 0.6:
        m.o2 = rnd.choice(STRS[:3])
    if rnd.random() < 0.4:
        m.dbl = rnd.choice(FLOATS)
    if rnd.random() < 0.4:
        m.fx = [rnd.choice(FLOATS) for _ in range(rnd.randrange(1, 5))]
    if rnd.random() < 0.4:
        m.b = bytes(rnd.randrange(256) for _ in range(rnd.choice([0, 1, 5, 130])))
    if rnd.random() < 0.4:
        m.f32 = rnd.choice([0, 1, 2**32 - 1])
    if rnd.random() < 0.4:
        m.en = rnd.choice(list(Color))
    if rnd.random() < 0.3:
        m.inners = [rand_inner() if rnd.random() < 0.7 else Inner() for _ in range(3)]
    if rnd.random() < 0.3:
        m.opt = rnd.choice([0, 5, -5])
    if rnd.random() < 0.4:
        m.big = rnd.choice(INTS64)
    return m


def rand_seq():
    seq = []
    for _ in range(rnd.randrange(1, 7)):
        r = rnd.random()
        if r < 0.65:
            seq.append(rand_new())
        elif r < 0.8:
            seq.append(rand_inner())
        elif r < 0.9:
            seq.append(New())
        else:
            seq.append(Empty())
    return seq


def write(seq):
    buf = io.BytesIO()
    ends = []
    for m in seq:
        m.dump(buf, SIZE_DELIMITED)
        ends.append(buf.tell())
    return buf.getvalue(), ends


def old_reader_for(m):
    return {New: Old, Inner: OldInner, Empty: Empty}[type(m)]


def expected_old(m):
    """What an Old reader must make of the bytes of ``m``: computed from the wire
    with the buffer parser, independently of Message.load."""
    body = bytes(m)
    unknown = b""
    vals = {}
    for f in betterproto.parse_fields(body):
        if isinstance(m, Inner):
            accepted = (f.number, f.wire_type) == (1, 0)
        elif isinstance(m, New):
            accepted = (f.number, f.wire_type) in OLD_ACCEPTS
        else:
            accepted = False
        if not accepted:
            unknown += f.raw
            continue
        vals.setdefault(f.number, []).append(f.value)
    return vals, unknown


def sx32(v):
    v &= 0xFFFFFFFF
    return v - (1 << 32) if v >> 31 else v


def check_old(m, got):
    vals, unknown = expected_old(m)
    assert got._unknown_fields == unknown, (got._unknown_fields, unknown)
    if isinstance(m, Inner):
        assert got.a == m.a
        return
    if isinstance(m, Empty):
        assert bytes(got) == b""
        return
    assert got.i32 == m.i32
    assert got.s == m.s.encode("utf-8")
    assert got.rep == m.rep
    assert got.inner.a == m.inner.a
    assert got.inner._unknown_fields == (
        betterproto._serialize_single(2, betterproto.TYPE_STRING, m.inner.s)
    )
    which, val = betterproto.which_one_of(m, "g")
    if which == "o1":
        assert betterproto.which_one_of(got, "g") == ("o1", val)
    else:
        assert betterproto.which_one_of(got, "g") == ("", None)
    assert got.dbl == struct.unpack("<Q", struct.pack("<d", m.dbl))[0]
    # mismatching wire types: field keeps its default, data kept as unknown
    assert got.fx == 0.0 and got.b == 0 and got.f32 == 0.0
    assert got.en == int(m.en)
    # nothing is lost: the new schema still reads everything back from the old
    # reader's re-serialisation
    again = New().parse(bytes(got))
    assert again == m, (again, m)
    assert len(got) == len(bytes(got)) == len(bytes(m))


# ------------------------------------------------------------------------------ tests
def test_streams():
    n_cut = 0
    for it in range(250):
        seq = rand_seq()
        data, ends = write(seq)
        expect = b"".join(
            betterproto.encode_varint(len(bytes(m))) + bytes(m) for m in seq
        )
        assert data == expect

        # same schema
        st = io.BytesIO(data)
        for m, end in zip(seq, ends):
            got = type(m)().load(st, SIZE_DELIMITED)
            assert got == m and bytes(got) == bytes(m), (got, m)
            assert got._unknown_fields == b""
            assert st.tell() == end
        assert st.read() == b""

        # older reader
        st = io.BytesIO(data)
        for m, end in zip(seq, ends):
            got = old_reader_for(m)().load(st, SIZE_DELIMITED)
            assert st.tell() == end
            check_old(m, got)
        assert st.read() == b""

        # google reads the same frames, and we read google's frames
        st = io.BytesIO(data)
        gout = io.BytesIO()
        for m in seq:
            gcls = {New: GNew, Inner: GInner, Empty: GInner}[type(m)]
            g = gproto.parse_length_prefixed(gcls, st)
            assert g is not None
            back = type(m)().parse(g.SerializeToString())
            assert back == m, (back, m)
            gproto.serialize_length_prefixed(g, gout)
        assert st.read() == b""
        st = io.BytesIO(gout.getvalue())
        for m in seq:
            assert type(m)().load(st, SIZE_DELIMITED) == m
            # and the old reader copes with google's field order as well
        assert st.read() == b""

        # truncation: every load equals the written message or raises
        if it % 5 == 0 and len(data) < 900:
            n_cut += 1
            for readers in (lambda m: type(m), old_reader_for):
                full = []
                st = io.BytesIO(data)
                for m in seq:
                    full.append(bytes(readers(m)().load(st, SIZE_DELIMITED)))
                for cut in range(len(data) + 1):
                    st = io.BytesIO(data[:cut])
                    for idx, m in enumerate(seq):
                        try:
                            got = readers(m)().load(st, SIZE_DELIMITED)
                        except (EOFError, ValueError, struct.error):
                            assert cut < ends[idx], (cut, ends, idx)
                            break
                        assert cut >= ends[idx]
                        assert bytes(got) == full[idx]
                        assert st.tell() == ends[idx]
    assert n_cut >= 10


def test_handmade_wire():
    key = betterproto.encode_varint
    # unknown numbers of every wire type, single and multi byte tags
    chunks = [
        key(20 << 3 | 0) + key(300),
        key(21 << 3 | 1) + b"12345678",
        key(22 << 3 | 2) + key(3) + b"abc",
        key(23 << 3 | 5) + b"1234",
        key(5000 << 3 | 2) + key(0),
        key((2**29 - 1) << 3 | 0) + key(2**64 - 1),
    ]
    known = key(1 << 3) + key(42)
    body = chunks[0] + known + b"".join(chunks[1:])
    frame = key(len(body)) + body
    st = io.BytesIO(frame * 3)
    for i in range(3):
        got = Old().load(st, SIZE_DELIMITED)
        assert got.i32 == 42
        assert got._unknown_fields == b"".join(chunks)
        assert st.tell() == len(frame) * (i + 1)
        assert bytes(got) == known + b"".join(chunks)

    # known numbers with every non matching wire type are kept, not decoded
    for number, good in ((1, 0), (2, 2), (5, 2), (7, 0), (9, 1), (10, 5), (12, 1)):
        for wt, payload in (
            (0, key(7)),
            (1, b"\x01" * 8),
            (2, key(2) + b"\x08\x01"),
            (5, b"\x02" * 4),
        ):
            raw = key(number << 3 | wt) + payload
            st = io.BytesIO(key(len(raw)) + raw + b"\x00")
            got = Old().load(st, SIZE_DELIMITED)
            assert st.tell() == len(raw) + 1
            if wt == good:
                assert got._unknown_fields == b"", (number, wt)
                assert bytes(got) == raw, (number, wt, bytes(got), raw)
            else:
                assert got._unknown_fields == raw, (number, wt)
                assert got == Old(), (number, wt)
            assert Old().load(st, SIZE_DELIMITED) == Old()
            assert st.read() == b""

    # repeated scalar: unpacked occurrences, packed runs and mixtures all decode
    raw = key(3 << 3) + key(1) + key(3 << 3 | 2) + key(2) + b"\x02\x03" + key(3 << 3) + key(4)
    for cls in (Old, New):
        got = cls().load(io.BytesIO(key(len(raw)) + raw), SIZE_DELIMITED)
        assert got.rep == [1, 2, 3, 4] and got._unknown_fields == b""
    # ... but a fixed-width occurrence of it is not
    raw = key(3 << 3 | 5) + b"\x00" * 4
    got = New().load(io.BytesIO(key(len(raw)) + raw), SIZE_DELIMITED)
    assert got.rep == [] and got._unknown_fields == raw
    # singular scalar never takes a packed run
    raw = key(1 << 3 | 2) + key(1) + b"\x05"
    got = New().load(io.BytesIO(key(len(raw)) + raw), SIZE_DELIMITED)
    assert got.i32 == 0 and got._unknown_fields == raw
    # map entries and oneof members of the same group (last one wins)
    raw = (
        key(6 << 3 | 2) + key(5) + b"\x0a\x01k\x10\x03"
        + key(7 << 3) + key(9)
        + key(8 << 3 | 2) + key(2) + b"hi"
    )
    got = New().load(io.BytesIO(key(len(raw)) + raw), SIZE_DELIMITED)
    assert got.m == {"k": -2}
    assert betterproto.which_one_of(got, "g") == ("o2", "hi")
    assert got._unknown_fields == b""

    # field number 0 and group wire types are rejected whatever the schema
    for bad in (b"\x00\x00", b"\x0b", b"\x0c", b"\x0e\x00", b"\x0f\x00"):
        for cls in (Old, New, Empty):
            try:
                cls().load(io.BytesIO(key(len(bad)) + bad), SIZE_DELIMITED)
            except ValueError:
                pass
            else:
                raise AssertionError(bad)

    # a class without fields keeps everything
    body = b"".join(chunks)
    got = Empty().load(io.BytesIO(key(len(body)) + body), SIZE_DELIMITED)
    assert got._unknown_fields == body and bytes(got) == body and len(got) == len(body)

    # two python fields on one number: the later one owns it, as before
    got = Dup().load(io.BytesIO(b"\x02\x08\x05"), SIZE_DELIMITED)
    assert got.b == 5 and got.a == 0 and got._unknown_fields == b""


def test_metadata_tables():
    for cls in (New, Old, Inner, OldInner, Empty, Dup):
        bp = cls()._betterproto
        for number, name in bp.field_name_by_number.items():
            meta = bp.meta_by_field_name[name]
            assert meta.number == number
            assert (bp.default_gen[name] is list) == (
                name in ("rep", "reps", "fx", "inners") and cls in (New, Old)
                and not (cls is Old and name == "fx")
            )


test_streams()
test_handmade_wire()
test_metadata_tables()
print("C10 keep1 equiv OK")
