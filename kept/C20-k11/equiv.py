"""C20 / keep1: which class every field position resolves to (ProtoClassMetadata.cls_by_field)
and, through it, which enum class decodes the numbers in singular, optional, repeated,
map-value and oneof positions.  Checked against an oracle built on typing.get_type_hints /
typing.get_args and against google.protobuf."""
from __future__ import annotations  # every annotation below is a string: forward references

import copy
import dataclasses
import json
import pickle
import random
import typing
from dataclasses import dataclass
from datetime import datetime, timedelta, timezone
from typing import Dict, List, Optional

import betterproto
from betterproto import FieldMetadata, TYPE_MAP

random.seed(20)


class Colour(betterproto.Enum):
    BLACK = 0
    RED = 1
    CRIMSON = 1  # alias
    COLD = -3
    TOP = 2147483647
    BOTTOM = -2147483648


class NoZero(betterproto.Enum):
    FIVE = 5
    MINUS = -7
    SEPT = -7  # alias of a negative number


class Lonely(betterproto.Enum):
    ONLY = -1


@dataclass(eq=False, repr=False)
class Leaf(betterproto.Message):
    tint: Colour = betterproto.enum_field(1)
    n: int = betterproto.int32_field(2)


@dataclass(eq=False, repr=False)
class Empty(betterproto.Message):
    pass


@dataclass(eq=False, repr=False)
class Msg(betterproto.Message):
    single: Colour = betterproto.enum_field(1)
    many: List[Colour] = betterproto.enum_field(2)
    by_key: Dict[str, Colour] = betterproto.map_field(
        3, betterproto.TYPE_STRING, betterproto.TYPE_ENUM
    )
    maybe: Optional[Colour] = betterproto.enum_field(4, optional=True)
    pick_a: Colour = betterproto.enum_field(5, group="pick")
    pick_b: Colour = betterproto.enum_field(6, group="pick")
    by_num: Dict[int, Colour] = betterproto.map_field(
        8, betterproto.TYPE_INT32, betterproto.TYPE_ENUM
    )


@dataclass(eq=False, repr=False)
class Mixed(betterproto.Message):
    """Two more enum classes side by side, and every other kind of annotation."""

    a: NoZero = betterproto.enum_field(1)
    b: Lonely = betterproto.enum_field(2)
    c: list[NoZero] = betterproto.enum_field(3)
    d: "List[Lonely]" = betterproto.enum_field(4)
    e: dict[int, NoZero] = betterproto.map_field(
        5, betterproto.TYPE_SINT32, betterproto.TYPE_ENUM
    )
    f: Dict[bool, Lonely] = betterproto.map_field(
        6, betterproto.TYPE_BOOL, betterproto.TYPE_ENUM
    )
    g: Optional[NoZero] = betterproto.enum_field(7, optional=True)
    h: Lonely | None = betterproto.enum_field(8, optional=True)
    i: NoZero = betterproto.enum_field(9, group="x")
    j: Lonely = betterproto.enum_field(10, group="x")
    k: Colour = betterproto.enum_field(11, group="x")
    # non-enum neighbours
    num: int = betterproto.int64_field(12)
    text: str = betterproto.string_field(13)
    raw: bytes = betterproto.bytes_field(14)
    leaf: Leaf = betterproto.message_field(15)
    leaves: List[Leaf] = betterproto.message_field(16)
    leaf_by: Dict[str, Leaf] = betterproto.map_field(
        17, betterproto.TYPE_STRING, betterproto.TYPE_MESSAGE
    )
    when: datetime = betterproto.message_field(18)
    span: timedelta = betterproto.message_field(19)
    wrapped: Optional[int] = betterproto.message_field(
        20, wraps=betterproto.TYPE_INT32
    )
    opt_leaf: Optional[Leaf] = betterproto.message_field(21, optional=True)
    flags: List[bool] = betterproto.bool_field(22)
    names: Dict[str, str] = betterproto.map_field(
        23, betterproto.TYPE_STRING, betterproto.TYPE_STRING
    )
    whens: List[datetime] = betterproto.message_field(24)
    span_by: Dict[int, timedelta] = betterproto.map_field(
        25, betterproto.TYPE_INT64, betterproto.TYPE_MESSAGE
    )
    me: Optional[Mixed] = betterproto.message_field(26, optional=True)  # recursive


# ---------------------------------------------------------------------------
# 1. cls_by_field against an independent oracle
# ---------------------------------------------------------------------------
def oracle(cls):
    hints = typing.get_type_hints(cls, globals(), {})
    out = {}
    for field in dataclasses.fields(cls):
        hint = hints[field.name]
        args = typing.get_args(hint)
        meta = FieldMetadata.get(field)
        if meta.proto_type == TYPE_MAP:
            out[field.name] = ("entry", args[0], args[1], meta.map_types)
            out[f"{field.name}.value"] = args[1]
        else:
            out[field.name] = args[0] if args else hint
    return out


EXPECTED_MIXED = {
    "a": NoZero, "b": Lonely, "c": NoZero, "d": Lonely, "e.value": NoZero,
    "f.value": Lonely, "g": NoZero, "h": Lonely, "i": NoZero, "j": Lonely,
    "k": Colour, "num": int, "text": str, "raw": bytes, "leaf": Leaf, "leaves": Leaf,
    "leaf_by.value": Leaf, "when": datetime, "span": timedelta, "wrapped": int,
    "opt_leaf": Leaf, "flags": bool, "names.value": str, "whens": datetime,
    "span_by.value": timedelta, "me": Mixed,
}


def check_cls_by_field(cls):
    table = cls._betterproto.cls_by_field
    want = oracle(cls)
    assert list(table) == list(want), (list(table), list(want))  # same keys, same order
    for key, expected in want.items():
        got = table[key]
        if isinstance(expected, tuple):
            _, kt, vt, (key_type, value_type) = expected
            assert isinstance(got, type) and issubclass(got, betterproto.Message)
            assert got.__name__ == "Entry"
            entry_fields = dataclasses.fields(got)
            assert [f.name for f in entry_fields] == ["key", "value"]
            assert entry_fields[0].type is kt and entry_fields[1].type is vt
            metas = [FieldMetadata.get(f) for f in entry_fields]
            assert [m.number for m in metas] == [1, 2]
            assert [m.proto_type for m in metas] == [key_type, value_type]
            assert got._betterproto.cls_by_field == {"key": kt, "value": vt}
        else:
            assert got is expected, (cls.__name__, key, got, expected)
    return table


assert Empty._betterproto.cls_by_field == {}
assert check_cls_by_field(Leaf) == {"tint": Colour, "n": int}
check_cls_by_field(Msg)
mixed_table = check_cls_by_field(Mixed)
for key, expected in EXPECTED_MIXED.items():
    assert mixed_table[key] is expected, (key, mixed_table[key])
assert set(mixed_table) == set(EXPECTED_MIXED) | {"e", "f", "leaf_by", "names", "span_by"}
# metadata is built once per class and instances share it
assert Mixed()._betterproto is Mixed._betterproto
assert Mixed._betterproto.cls_by_field is mixed_table

# ---------------------------------------------------------------------------
# 2. every position decodes with its own enum class
# ---------------------------------------------------------------------------
INT32 = [0, 1, -1, 2, -3, 5, -7, 7, -9, 127, 128, -128, 300, 65535, 2147483646,
         2147483647, -2147483647, -2147483648]
INT32 += [random.randint(-(2**31), 2**31 - 1) for _ in range(40)]


def expect_value(got, enum_cls, n):
    assert isinstance(got, enum_cls) and type(got) is enum_cls, (got, enum_cls)
    assert got == n and int(got) == n and got.value == n
    if n in enum_cls._value_map_:
        assert got is enum_cls(n)  # the one canonical member
        assert got is enum_cls[got.name] and got is enum_cls.from_string(got.name)
        assert got is copy.copy(got) and got is copy.deepcopy(got)
        clone = pickle.loads(pickle.dumps(got))
        assert (clone.name, clone.value) == (got.name, got.value)
    else:
        assert got.name is None


for n in INT32:
    for oneof, oneof_cls in (("i", NoZero), ("j", Lonely), ("k", Colour)):
        src = Mixed(a=n, b=n, c=[n, 5, n], d=[n], e={n: n, 3: -7}, f={True: n},
                    g=n, h=n, **{oneof: n})
        for back in (Mixed().parse(bytes(src)), Mixed.FromString(bytes(src)),
                     copy.deepcopy(Mixed().parse(bytes(src))),
                     pickle.loads(pickle.dumps(src))):
            expect_value(back.a, NoZero, n)
            expect_value(back.b, Lonely, n)
            assert len(back.c) == 3 and len(back.d) == 1
            expect_value(back.c[0], NoZero, n)
            expect_value(back.c[1], NoZero, 5)
            assert back.c[1] is NoZero.FIVE
            expect_value(back.c[2], NoZero, n)
            expect_value(back.d[0], Lonely, n)
            assert set(back.e) == {n, 3}
            expect_value(back.e[n], NoZero, n)
            assert back.e[3] is NoZero.MINUS and back.e[3] is NoZero.SEPT
            expect_value(back.f[True], Lonely, n)
            expect_value(back.g, NoZero, n)
            expect_value(back.h, Lonely, n)
            assert betterproto.which_one_of(back, "x")[0] == oneof
            expect_value(getattr(back, oneof), oneof_cls, n)
            assert bytes(back) == bytes(src)
            # JSON side uses the same classes
            again = Mixed().from_dict(json.loads(json.dumps(back.to_dict())))
            assert again == back and bytes(again) == bytes(src)
            d = back.to_dict()
            want_a = NoZero(n).name if n in NoZero._value_map_ else n
            if n != 0:
                assert d["a"] == want_a
            assert d["c"] == [want_a, "FIVE", want_a]
            assert d["g"] == want_a
            want_b = "ONLY" if n == -1 else n
            assert d["d"] == [want_b] and d["h"] == want_b and d["f"] == {True: want_b}

# non-enum neighbours still decode with their classes
full = Mixed(
    num=-5, text="x", raw=b"\x00\x01", leaf=Leaf(tint=7, n=1),
    leaves=[Leaf(tint=-3), Leaf()], leaf_by={"k": Leaf(tint=1)},
    when=datetime(2020, 1, 2, tzinfo=timezone.utc), span=timedelta(seconds=3), wrapped=0,
    opt_leaf=Leaf(), flags=[True, False], names={"a": "b"},
    whens=[datetime(1999, 1, 1, tzinfo=timezone.utc)], span_by={4: timedelta(days=1)},
    me=Mixed(a=9, me=Mixed(b=-1)),
)
back = Mixed().parse(bytes(full))
assert back == full and bytes(back) == bytes(full)
assert type(back.leaf) is Leaf and type(back.leaves[0]) is Leaf
assert type(back.leaf_by["k"]) is Leaf and back.leaf_by["k"].tint is Colour.RED
assert back.leaf.tint == 7 and back.leaf.tint.name is None
assert back.leaves[0].tint is Colour.COLD
assert type(back.me) is Mixed and type(back.me.me) is Mixed
assert back.me.a == 9 and isinstance(back.me.a, NoZero) and back.me.me.b is Lonely.ONLY
assert back.wrapped == 0 and back.when.year == 2020 and back.span_by[4].days == 1
assert Mixed().from_dict(back.to_dict()) == full

# ---------------------------------------------------------------------------
# 3. cross-check the wire and JSON behaviour with google.protobuf
# ---------------------------------------------------------------------------
from google.protobuf import descriptor_pb2, descriptor_pool, json_format, message_factory

F = descriptor_pb2.FieldDescriptorProto
fdp = descriptor_pb2.FileDescriptorProto(name="c20_keep1.proto", package="c20k1", syntax="proto3")
enum = fdp.enum_type.add(name="Colour")
enum.options.allow_alias = True
for name, number in (("BLACK", 0), ("RED", 1), ("CRIMSON", 1), ("COLD", -3),
                     ("TOP", 2147483647), ("BOTTOM", -2147483648)):
    enum.value.add(name=name, number=number)
msg = fdp.message_type.add(name="Msg")
ENUM = ".c20k1.Colour"
msg.field.add(name="single", number=1, type=F.TYPE_ENUM, type_name=ENUM, label=F.LABEL_OPTIONAL)
msg.field.add(name="many", number=2, type=F.TYPE_ENUM, type_name=ENUM, label=F.LABEL_REPEATED)
for fname, number, key_type in (("by_key", 3, F.TYPE_STRING), ("by_num", 8, F.TYPE_INT32)):
    entry_name = "".join(p.capitalize() for p in fname.split("_")) + "Entry"
    entry = msg.nested_type.add(name=entry_name)
    entry.options.map_entry = True
    entry.field.add(name="key", number=1, type=key_type, label=F.LABEL_OPTIONAL)
    entry.field.add(name="value", number=2, type=F.TYPE_ENUM, type_name=ENUM, label=F.LABEL_OPTIONAL)
    msg.field.add(name=fname, number=number, type=F.TYPE_MESSAGE, label=F.LABEL_REPEATED,
                  type_name=f".c20k1.Msg.{entry_name}")
msg.oneof_decl.add(name="pick")
msg.oneof_decl.add(name="_maybe")
msg.field.add(name="maybe", number=4, type=F.TYPE_ENUM, type_name=ENUM, label=F.LABEL_OPTIONAL,
              oneof_index=1, proto3_optional=True)
msg.field.add(name="pick_a", number=5, type=F.TYPE_ENUM, type_name=ENUM, label=F.LABEL_OPTIONAL, oneof_index=0)
msg.field.add(name="pick_b", number=6, type=F.TYPE_ENUM, type_name=ENUM, label=F.LABEL_OPTIONAL, oneof_index=0)
pool = descriptor_pool.DescriptorPool()
pool.Add(fdp)
GMsg = message_factory.GetMessageClass(pool.FindMessageTypeByName("c20k1.Msg"))


def numbers(m, is_google):
    if is_google:
        pick = m.WhichOneof("pick")
        maybe = m.maybe if m.HasField("maybe") else None
    else:
        pick = betterproto.which_one_of(m, "pick")[0] or None
        maybe = m.maybe
    return {
        "single": int(m.single),
        "many": [int(x) for x in m.many],
        "by_key": {k: int(v) for k, v in m.by_key.items()},
        "by_num": {int(k): int(v) for k, v in m.by_num.items()},
        "maybe": None if maybe is None else int(maybe),
        "pick": (pick, int(getattr(m, pick))) if pick else None,
    }


for n in INT32:
    for oneof in ("pick_a", "pick_b", None):
        kwargs = dict(single=n, many=[n, 1, -3, n], by_key={"k": n}, by_num={n: n}, maybe=n)
        if oneof:
            kwargs[oneof] = n
        ours = Msg(**kwargs)
        theirs = GMsg()
        theirs.ParseFromString(bytes(ours))
        assert numbers(theirs, True) == numbers(ours, False), (n, oneof)
        from_theirs = Msg().parse(theirs.SerializeToString())
        assert numbers(from_theirs, False) == numbers(ours, False), (n, oneof)
        assert bytes(from_theirs) == bytes(ours)
        for value in [from_theirs.single, from_theirs.many[0], from_theirs.many[3], from_theirs.by_key["k"],
                      from_theirs.by_num[n], from_theirs.maybe]:
            expect_value(value, Colour, n)
        assert from_theirs.many[1] is Colour.RED and from_theirs.many[1] is Colour.CRIMSON
        assert from_theirs.many[2] is Colour.COLD
        if oneof:
            expect_value(getattr(from_theirs, oneof), Colour, n)
        # JSON: same document as the reference implementation produces
        g_dict = json_format.MessageToDict(theirs)
        o_dict = json.loads(from_theirs.to_json())
        assert {k: v for k, v in o_dict.items()} == {
            k: ({str(kk): vv for kk, vv in v.items()} if isinstance(v, dict) else v)
            for k, v in g_dict.items()
        }, (n, o_dict, g_dict)
        assert numbers(Msg().from_dict(g_dict), False) == numbers(ours, False)

print("C20 keep1 equiv: OK")
