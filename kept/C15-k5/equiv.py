"""C15 equivalence check for the decode side: length-delimited message fields are
post-processed into datetime / timedelta / wrapped scalar / sub-message exactly as the
reference implementation (google.protobuf) reads the same bytes.

Run as:  PYTHONPATH=/tmp/wt/R6C15/src /venv/bin/python equiv.py
"""
import io
import random
from dataclasses import dataclass
from datetime import datetime, timedelta, timezone
from typing import Dict, List, Optional

import betterproto
from google.protobuf import descriptor_pb2, descriptor_pool, message_factory
from google.protobuf import duration_pb2, timestamp_pb2, wrappers_pb2  # noqa: F401

# ----------------------------------------------------------------------------------------
# betterproto side
# ----------------------------------------------------------------------------------------


@dataclass(eq=False, repr=False)
class Inner(betterproto.Message):
    ts: datetime = betterproto.message_field(1)
    d: timedelta = betterproto.message_field(2)
    n: int = betterproto.int32_field(3)


@dataclass(eq=False, repr=False)
class M(betterproto.Message):
    ts: datetime = betterproto.message_field(1)
    d: timedelta = betterproto.message_field(2)
    tss: List[datetime] = betterproto.message_field(3)
    ds: List[timedelta] = betterproto.message_field(4)
    tm: Dict[str, datetime] = betterproto.map_field(
        5, betterproto.TYPE_STRING, betterproto.TYPE_MESSAGE
    )
    dm: Dict[str, timedelta] = betterproto.map_field(
        6, betterproto.TYPE_STRING, betterproto.TYPE_MESSAGE
    )
    ots: datetime = betterproto.message_field(7, group="o")
    od: timedelta = betterproto.message_field(8, group="o")
    w: Optional[int] = betterproto.message_field(9, wraps=betterproto.TYPE_INT32)
    inner: Inner = betterproto.message_field(10)
    opt_ts: Optional[datetime] = betterproto.message_field(11, optional=True)
    opt_d: Optional[timedelta] = betterproto.message_field(12, optional=True)
    ws: Optional[str] = betterproto.message_field(13, wraps=betterproto.TYPE_STRING)
    inners: List[Inner] = betterproto.message_field(14)


# ----------------------------------------------------------------------------------------
# reference side: the same schema as a dynamic google.protobuf message
# ----------------------------------------------------------------------------------------
F = descriptor_pb2.FieldDescriptorProto
TS, DUR = ".google.protobuf.Timestamp", ".google.protobuf.Duration"


def _field(msg, name, number, type_name=None, ftype=F.TYPE_MESSAGE, repeated=False, **kw):
    f = msg.field.add(name=name, number=number, type=ftype,
                      label=F.LABEL_REPEATED if repeated else F.LABEL_OPTIONAL, **kw)
    if type_name:
        f.type_name = type_name
    return f


def _map_entry(msg, name, number, value_type):
    entry = msg.nested_type.add(name=name.capitalize() + "Entry")
    entry.options.map_entry = True
    _field(entry, "key", 1, ftype=F.TYPE_STRING)
    _field(entry, "value", 2, value_type)
    _field(msg, name, number, ".c15." + msg.name + "." + entry.name, repeated=True)


fdp = descriptor_pb2.FileDescriptorProto(name="c15.proto", package="c15", syntax="proto3")
fdp.dependency.extend([
    "google/protobuf/timestamp.proto",
    "google/protobuf/duration.proto",
    "google/protobuf/wrappers.proto",
])
inner = fdp.message_type.add(name="Inner")
_field(inner, "ts", 1, TS)
_field(inner, "d", 2, DUR)
_field(inner, "n", 3, ftype=F.TYPE_INT32)
m = fdp.message_type.add(name="M")
_field(m, "ts", 1, TS)
_field(m, "d", 2, DUR)
_field(m, "tss", 3, TS, repeated=True)
_field(m, "ds", 4, DUR, repeated=True)
_map_entry(m, "tm", 5, TS)
_map_entry(m, "dm", 6, DUR)
m.oneof_decl.add(name="o")
_field(m, "ots", 7, TS, oneof_index=0)
_field(m, "od", 8, DUR, oneof_index=0)
_field(m, "w", 9, ".google.protobuf.Int32Value")
_field(m, "inner", 10, ".c15.Inner")
m.oneof_decl.add(name="_opt_ts")
_field(m, "opt_ts", 11, TS, oneof_index=1, proto3_optional=True)
m.oneof_decl.add(name="_opt_d")
_field(m, "opt_d", 12, DUR, oneof_index=2, proto3_optional=True)
_field(m, "ws", 13, ".google.protobuf.StringValue")
_field(m, "inners", 14, ".c15.Inner", repeated=True)

pool = descriptor_pool.Default()
pool.Add(fdp)
RefM = message_factory.GetMessageClass(pool.FindMessageTypeByName("c15.M"))

EPOCH = datetime(1970, 1, 1, tzinfo=timezone.utc)
US = timedelta(microseconds=1)
MAX_S = 315_576_000_000
TS_MIN_US = (datetime(1, 1, 1, tzinfo=timezone.utc) - EPOCH) // US
TS_MAX_US = (datetime(9999, 12, 31, 23, 59, 59, 999999, tzinfo=timezone.utc) - EPOCH) // US


def set_ts(ref_ts, us):
    """Reference normalisation: floor division, nanos in [0, 1e9)."""
    ref_ts.seconds, rem = divmod(us, 10**6)
    ref_ts.nanos = rem * 1000


def set_dur(ref_d, us):
    """Reference normalisation: seconds and nanos never of opposite sign."""
    s, rem = divmod(abs(us), 10**6)
    sign = -1 if us < 0 else 1
    ref_d.seconds, ref_d.nanos = sign * s, sign * rem * 1000


def dt_of(us):
    return EPOCH + us * US


def td_of(us):
    return us * US


rnd = random.Random(1501)

TS_POINTS = [
    0, 1, -1, 999, 1000, 999_999, -999_999, 10**6, -(10**6), 10**6 + 1, -(10**6) - 1,
    -500_000, 500_000, -1_500_000, 1_500_000, TS_MIN_US, TS_MIN_US + 1, TS_MAX_US,
    TS_MAX_US - 1, TS_MAX_US - 999_999, 2**53, 2**53 + 1, -(2**53) - 1,
    2**31 * 10**6, 2**31 * 10**6 - 1, -(2**31) * 10**6 - 1, 2**32 * 10**6 + 7,
    951_782_400_000_000, 1_709_164_800_123_456,
]
D_POINTS = [
    0, 1, -1, 999, -999, 1000, -1000, 999_999, -999_999, 10**6, -(10**6), 10**6 + 1,
    -(10**6) - 1, 1_500_000, -1_500_000, 2**53 + 1, -(2**53) - 1, MAX_S * 10**6,
    -MAX_S * 10**6, MAX_S * 10**6 - 1, -MAX_S * 10**6 + 1, 86_400 * 10**6, -86_400 * 10**6,
]


def rand_ts():
    if rnd.random() < 0.3:
        return rnd.choice(TS_POINTS)
    if rnd.random() < 0.3:
        return rnd.randint(-3 * 10**6, 3 * 10**6)
    return rnd.randint(TS_MIN_US, TS_MAX_US)


def rand_d():
    if rnd.random() < 0.3:
        return rnd.choice(D_POINTS)
    if rnd.random() < 0.3:
        return rnd.randint(-3 * 10**6, 3 * 10**6)
    scale = rnd.choice([10**9, 10**13, 2**54, MAX_S * 10**6])
    return rnd.randint(-scale, scale)


def ref_view(msg):
    """Field values of a reference message (presence only where the schema tracks it)."""
    sn = lambda x: (x.seconds, x.nanos)  # noqa: E731
    inner_view = lambda x: (sn(x.ts), sn(x.d), x.n)  # noqa: E731
    return {
        "ts": sn(msg.ts),
        "d": sn(msg.d),
        "tss": [sn(x) for x in msg.tss],
        "ds": [sn(x) for x in msg.ds],
        "tm": {k: sn(v) for k, v in msg.tm.items()},
        "dm": {k: sn(v) for k, v in msg.dm.items()},
        "o": msg.WhichOneof("o"),
        "ots": sn(msg.ots),
        "od": sn(msg.od),
        "w": (msg.HasField("w"), msg.w.value),
        "ws": (msg.HasField("ws"), msg.ws.value),
        "inner": (msg.HasField("inner"), inner_view(msg.inner)),
        "opt_ts": (msg.HasField("opt_ts"), sn(msg.opt_ts)),
        "opt_d": (msg.HasField("opt_d"), sn(msg.opt_d)),
        "inners": [inner_view(x) for x in msg.inners],
    }


def check(ref, expect):
    """Decode the reference's bytes with betterproto and compare field by field."""
    data = ref.SerializeToString()
    got = M().parse(data)
    for name, value in expect.items():
        actual = getattr(got, name)
        assert actual == value, (name, actual, value)
        assert type(actual) is type(value), (name, type(actual), type(value))
        if isinstance(value, datetime):
            assert actual.tzinfo is timezone.utc and actual.utcoffset() == timedelta(0)
        if isinstance(value, list):
            assert [type(x) for x in actual] == [type(x) for x in value], name
    # betterproto's re-encoding is read back by the reference as the same message
    again = RefM()
    again.ParseFromString(bytes(got))
    assert ref_view(again) == ref_view(ref), (ref_view(again), ref_view(ref))
    # and delimited streams use the same decoder
    buf = io.BytesIO()
    got.dump(buf, betterproto.SIZE_DELIMITED)
    buf.seek(0)
    assert bytes(M().load(buf, betterproto.SIZE_DELIMITED)) == bytes(got)
    return got


# 1. singular fields, every boundary point
for us in TS_POINTS:
    ref = RefM()
    set_ts(ref.ts, us)
    ref.ts.SetInParent()
    got = check(ref, {"ts": dt_of(us)})
    assert got.d == timedelta(0) and got.tss == [] and got.w is None and got.opt_ts is None
for us in D_POINTS:
    ref = RefM()
    set_dur(ref.d, us)
    ref.d.SetInParent()
    got = check(ref, {"d": td_of(us)})
    assert got.ts == EPOCH and got.ds == [] and got.opt_d is None

# 2. random mixtures of every field kind
for i in range(1500):
    ref = RefM()
    expect = {}
    if rnd.random() < 0.7:
        us = rand_ts()
        set_ts(ref.ts, us)
        ref.ts.SetInParent()
        expect["ts"] = dt_of(us)
    if rnd.random() < 0.7:
        us = rand_d()
        set_dur(ref.d, us)
        ref.d.SetInParent()
        expect["d"] = td_of(us)
    n = rnd.randint(0, 4)
    vals = [rand_ts() for _ in range(n)]
    for us in vals:
        set_ts(ref.tss.add(), us)
    expect["tss"] = [dt_of(us) for us in vals]
    n = rnd.randint(0, 4)
    vals = [rand_d() for _ in range(n)]
    for us in vals:
        set_dur(ref.ds.add(), us)
    expect["ds"] = [td_of(us) for us in vals]
    expect["tm"], expect["dm"] = {}, {}
    for k in rnd.sample(["", "a", "b", "c"], rnd.randint(0, 3)):
        us = rand_ts()
        set_ts(ref.tm[k], us)
        expect["tm"][k] = dt_of(us)
    for k in rnd.sample(["", "x", "y", "z"], rnd.randint(0, 3)):
        us = rand_d()
        set_dur(ref.dm[k], us)
        expect["dm"][k] = td_of(us)
    pick = rnd.random()
    if pick < 0.35:
        us = rand_ts()
        set_ts(ref.ots, us)
        ref.ots.SetInParent()
        expect["ots"] = dt_of(us)
    elif pick < 0.7:
        us = rand_d()
        set_dur(ref.od, us)
        ref.od.SetInParent()
        expect["od"] = td_of(us)
    if rnd.random() < 0.5:
        ref.w.value = rnd.choice([0, 1, -1, 2**31 - 1, -(2**31)])
        ref.w.SetInParent()
        expect["w"] = ref.w.value
    if rnd.random() < 0.5:
        ref.ws.value = rnd.choice(["", "x", "été"])
        ref.ws.SetInParent()
        expect["ws"] = ref.ws.value
    if rnd.random() < 0.5:
        us_t, us_d = rand_ts(), rand_d()
        set_ts(ref.inner.ts, us_t)
        set_dur(ref.inner.d, us_d)
        ref.inner.n = rnd.randint(-5, 5)
        ref.inner.SetInParent()
        expect["inner"] = Inner(ts=dt_of(us_t), d=td_of(us_d), n=ref.inner.n)
    if rnd.random() < 0.5:
        us = rand_ts()
        set_ts(ref.opt_ts, us)
        ref.opt_ts.SetInParent()
        expect["opt_ts"] = dt_of(us)
    if rnd.random() < 0.5:
        us = rand_d()
        set_dur(ref.opt_d, us)
        ref.opt_d.SetInParent()
        expect["opt_d"] = td_of(us)
    n = rnd.randint(0, 2)
    expect["inners"] = []
    for _ in range(n):
        us_t, us_d = rand_ts(), rand_d()
        item = ref.inners.add()
        set_ts(item.ts, us_t)
        set_dur(item.d, us_d)
        expect["inners"].append(Inner(ts=dt_of(us_t), d=td_of(us_d)))
    got = check(ref, expect)
    if "ots" in expect:
        assert betterproto.which_one_of(got, "o") == ("ots", expect["ots"])
    elif "od" in expect:
        assert betterproto.which_one_of(got, "o") == ("od", expect["od"])
    else:
        assert betterproto.which_one_of(got, "o") == ("", None)
    if "inner" in expect:
        assert betterproto.serialized_on_wire(got.inner)
    for item in got.inners:
        assert betterproto.serialized_on_wire(item)
    assert ("opt_ts" in expect) == (got.opt_ts is not None)
    assert ("opt_d" in expect) == (got.opt_d is not None)

# 3. independence of successive decodes: a value whose seconds or nanos is absent from
#    the wire does not inherit anything from the previously decoded value
ref = RefM()
set_ts(ref.tss.add(), 5 * 10**6 + 123_456)
set_ts(ref.tss.add(), 7 * 10**6)
set_ts(ref.tss.add(), 999_999)
set_ts(ref.tss.add(), 0)
set_dur(ref.ds.add(), -5 * 10**6 - 250_000)
set_dur(ref.ds.add(), -7 * 10**6)
set_dur(ref.ds.add(), -250_000)
set_dur(ref.ds.add(), 0)
check(ref, {
    "tss": [dt_of(5_123_456), dt_of(7_000_000), dt_of(999_999), EPOCH],
    "ds": [td_of(-5_250_000), td_of(-7_000_000), td_of(-250_000), timedelta(0)],
})

# 4. hand-made payloads: an empty Timestamp / Duration payload, the last of several
#    occurrences of a singular field wins, malformed payloads are rejected
assert M().parse(bytes.fromhex("0a00")).ts == EPOCH
assert M().parse(bytes.fromhex("1200")).d == timedelta(0)
assert M().parse(bytes.fromhex("0a020805" "0a020807")).ts == dt_of(7 * 10**6)
assert M().parse(bytes.fromhex("12020805" "120310e807")).d == timedelta(microseconds=1)
assert M().parse(bytes.fromhex("4a00")).w == 0
assert M().parse(bytes.fromhex("4a020807")).w == 7
for bad in ("0a0108", "12020a05", "0a03080508", "120108"):
    try:
        M().parse(bytes.fromhex(bad))
    except EOFError:
        pass
    else:
        raise AssertionError("malformed payload accepted: " + bad)

print("C15 keep1 equiv OK")
