"""Equivalence checks for the extraction of Message._fields_on_wire (the walk that
decides which fields are written, shared by Message.dump and Message.__len__).
Exits 0 on the pristine tree and with the refactor applied.

Part A: random + corner-case messages compared with google.protobuf, and the C09
relations (len / dump / SIZE_DELIMITED / SerializeToString) on each.
Part B: golden bytes (recorded on the reference tree) for presence corner cases:
oneof members holding defaults, proto3 optional, wrappers, timestamps/durations,
empty nested messages (set / received / in-place filled), repeated and map
members with default items, unknown fields, and multi-step mutation sequences.
Part C: the order and content of the stream writes of dump().
"""
import random
from dataclasses import dataclass
from datetime import datetime, timedelta, timezone
from io import BytesIO
from typing import Dict, List, Optional

import betterproto
from betterproto import TYPE_INT32, TYPE_MESSAGE, TYPE_STRING
from google.protobuf import descriptor_pb2, descriptor_pool, message_factory
from google.protobuf.internal import encoder as pb_encoder

rng = random.Random(0xC0902)


def ref_varint(value: int) -> bytes:
    if value < 0:
        value += 1 << 64
    return pb_encoder._VarintBytes(value)

# --------------------------------------------------------------------------
# Part A: whole messages against google.protobuf + property C09
# --------------------------------------------------------------------------


class Color(betterproto.Enum):
    ZERO = 0
    ONE = 1
    BIG = 1000
    NEG = -5


@dataclass(eq=False, repr=False)
class Inner(betterproto.Message):
    a: int = betterproto.int32_field(1)
    s: str = betterproto.string_field(2)


@dataclass(eq=False, repr=False)
class All(betterproto.Message):
    f_int32: int = betterproto.int32_field(1)
    f_int64: int = betterproto.int64_field(2)
    f_uint32: int = betterproto.uint32_field(3)
    f_uint64: int = betterproto.uint64_field(4)
    f_sint32: int = betterproto.sint32_field(5)
    f_sint64: int = betterproto.sint64_field(6)
    f_bool: bool = betterproto.bool_field(7)
    f_fixed32: int = betterproto.fixed32_field(8)
    f_sfixed32: int = betterproto.sfixed32_field(9)
    f_fixed64: int = betterproto.fixed64_field(10)
    f_sfixed64: int = betterproto.sfixed64_field(11)
    f_float: float = betterproto.float_field(12)
    f_double: float = betterproto.double_field(13)
    f_string: str = betterproto.string_field(14)
    f_bytes: bytes = betterproto.bytes_field(15)
    inner: Inner = betterproto.message_field(16)
    color: Color = betterproto.enum_field(17)
    r_int32: List[int] = betterproto.int32_field(18)
    r_str: List[str] = betterproto.string_field(19)
    r_inner: List[Inner] = betterproto.message_field(20)
    r_double: List[float] = betterproto.double_field(21)
    r_sint64: List[int] = betterproto.sint64_field(22)
    m_si: Dict[str, int] = betterproto.map_field(23, TYPE_STRING, TYPE_INT32)
    m_ii: Dict[int, Inner] = betterproto.map_field(24, TYPE_INT32, TYPE_MESSAGE)
    o_int: int = betterproto.int32_field(25, group="choice")
    o_str: str = betterproto.string_field(26, group="choice")
    o_inner: Inner = betterproto.message_field(27, group="choice")
    opt_int: Optional[int] = betterproto.int32_field(28, optional=True)
    opt_str: Optional[str] = betterproto.string_field(29, optional=True)
    opt_inner: Optional[Inner] = betterproto.message_field(30, optional=True)
    big_packed: List[int] = betterproto.uint32_field(300)
    big_tag: int = betterproto.int32_field(2048)
    big_tag_s: str = betterproto.string_field(70000)
    big_tag_r: List[Inner] = betterproto.message_field(70001)


def build_google_class():
    F = descriptor_pb2.FieldDescriptorProto
    fdp = descriptor_pb2.FileDescriptorProto(name="c09_equiv.proto", package="c09e", syntax="proto3")
    en = fdp.enum_type.add(name="Color")
    for name, num in [("ZERO", 0), ("ONE", 1), ("BIG", 1000), ("NEG", -5)]:
        en.value.add(name=name, number=num)
    inner = fdp.message_type.add(name="Inner")
    inner.field.add(name="a", number=1, type=F.TYPE_INT32, label=F.LABEL_OPTIONAL)
    inner.field.add(name="s", number=2, type=F.TYPE_STRING, label=F.LABEL_OPTIONAL)
    msg = fdp.message_type.add(name="All")
    scalars = [
        ("f_int32", 1, F.TYPE_INT32), ("f_int64", 2, F.TYPE_INT64), ("f_uint32", 3, F.TYPE_UINT32),
        ("f_uint64", 4, F.TYPE_UINT64), ("f_sint32", 5, F.TYPE_SINT32), ("f_sint64", 6, F.TYPE_SINT64),
        ("f_bool", 7, F.TYPE_BOOL), ("f_fixed32", 8, F.TYPE_FIXED32), ("f_sfixed32", 9, F.TYPE_SFIXED32),
        ("f_fixed64", 10, F.TYPE_FIXED64), ("f_sfixed64", 11, F.TYPE_SFIXED64), ("f_float", 12, F.TYPE_FLOAT),
        ("f_double", 13, F.TYPE_DOUBLE), ("f_string", 14, F.TYPE_STRING), ("f_bytes", 15, F.TYPE_BYTES),
    ]
    for name, num, typ in scalars:
        msg.field.add(name=name, number=num, type=typ, label=F.LABEL_OPTIONAL)
    msg.field.add(name="inner", number=16, type=F.TYPE_MESSAGE, type_name=".c09e.Inner", label=F.LABEL_OPTIONAL)
    msg.field.add(name="color", number=17, type=F.TYPE_ENUM, type_name=".c09e.Color", label=F.LABEL_OPTIONAL)
    msg.field.add(name="r_int32", number=18, type=F.TYPE_INT32, label=F.LABEL_REPEATED)
    msg.field.add(name="r_str", number=19, type=F.TYPE_STRING, label=F.LABEL_REPEATED)
    msg.field.add(name="r_inner", number=20, type=F.TYPE_MESSAGE, type_name=".c09e.Inner", label=F.LABEL_REPEATED)
    msg.field.add(name="r_double", number=21, type=F.TYPE_DOUBLE, label=F.LABEL_REPEATED)
    msg.field.add(name="r_sint64", number=22, type=F.TYPE_SINT64, label=F.LABEL_REPEATED)
    e1 = msg.nested_type.add(name="MSiEntry")
    e1.options.map_entry = True
    e1.field.add(name="key", number=1, type=F.TYPE_STRING, label=F.LABEL_OPTIONAL)
    e1.field.add(name="value", number=2, type=F.TYPE_INT32, label=F.LABEL_OPTIONAL)
    e2 = msg.nested_type.add(name="MIiEntry")
    e2.options.map_entry = True
    e2.field.add(name="key", number=1, type=F.TYPE_INT32, label=F.LABEL_OPTIONAL)
    e2.field.add(name="value", number=2, type=F.TYPE_MESSAGE, type_name=".c09e.Inner", label=F.LABEL_OPTIONAL)
    msg.field.add(name="m_si", number=23, type=F.TYPE_MESSAGE, type_name=".c09e.All.MSiEntry", label=F.LABEL_REPEATED)
    msg.field.add(name="m_ii", number=24, type=F.TYPE_MESSAGE, type_name=".c09e.All.MIiEntry", label=F.LABEL_REPEATED)
    msg.oneof_decl.add(name="choice")
    msg.oneof_decl.add(name="_opt_int")
    msg.oneof_decl.add(name="_opt_str")
    msg.oneof_decl.add(name="_opt_inner")
    msg.field.add(name="o_int", number=25, type=F.TYPE_INT32, label=F.LABEL_OPTIONAL, oneof_index=0)
    msg.field.add(name="o_str", number=26, type=F.TYPE_STRING, label=F.LABEL_OPTIONAL, oneof_index=0)
    msg.field.add(name="o_inner", number=27, type=F.TYPE_MESSAGE, type_name=".c09e.Inner", label=F.LABEL_OPTIONAL, oneof_index=0)
    msg.field.add(name="opt_int", number=28, type=F.TYPE_INT32, label=F.LABEL_OPTIONAL, oneof_index=1, proto3_optional=True)
    msg.field.add(name="opt_str", number=29, type=F.TYPE_STRING, label=F.LABEL_OPTIONAL, oneof_index=2, proto3_optional=True)
    msg.field.add(name="opt_inner", number=30, type=F.TYPE_MESSAGE, type_name=".c09e.Inner", label=F.LABEL_OPTIONAL, oneof_index=3, proto3_optional=True)
    msg.field.add(name="big_packed", number=300, type=F.TYPE_UINT32, label=F.LABEL_REPEATED)
    msg.field.add(name="big_tag", number=2048, type=F.TYPE_INT32, label=F.LABEL_OPTIONAL)
    msg.field.add(name="big_tag_s", number=70000, type=F.TYPE_STRING, label=F.LABEL_OPTIONAL)
    msg.field.add(name="big_tag_r", number=70001, type=F.TYPE_MESSAGE, type_name=".c09e.Inner", label=F.LABEL_REPEATED)
    pool = descriptor_pool.DescriptorPool()
    pool.Add(fdp)
    return message_factory.GetMessageClass(pool.FindMessageTypeByName("c09e.All"))


GAll = build_google_class()


def check_c09(m: betterproto.Message) -> bytes:
    data = bytes(m)
    assert type(data) is bytes
    assert m.SerializeToString() == data
    assert len(m) == len(data), (len(m), len(data), m)
    plain = BytesIO()
    m.dump(plain)
    assert plain.getvalue() == data
    delim = BytesIO()
    m.dump(delim, betterproto.SIZE_DELIMITED)
    assert delim.getvalue() == ref_varint(len(data)) + data
    return data


def rand_int(bits, signed):
    k = rng.choice([0, 1, 6, 7, 8, 13, 14, 15, 20, 21, 27, 28, 31, 32, 35, 42, 49, 56, 62, 63, 64])
    k = min(k, bits - (1 if signed else 0))
    v = rng.getrandbits(k) if k else 0
    if signed and rng.random() < 0.5:
        v = -v - (1 if rng.random() < 0.3 and v < (1 << (bits - 1)) - 1 else 0)
        v = max(v, -(1 << (bits - 1)))
    return v


def rand_text():
    n = rng.choice([1, 2, 5, 126, 127, 128, 129, 300])
    return "".join(rng.choice("abcé€\U0001F600 ") for _ in range(n))


def rand_inner_kwargs():
    kw = {}
    if rng.random() < 0.7:
        kw["a"] = rand_int(32, True) or 1
    if rng.random() < 0.5:
        kw["s"] = rand_text()
    return kw


def rand_message():
    """Returns (betterproto message, google message) built from the same values.
    Only non-default scalar / key / value data is used where the two libraries
    intentionally agree; presence corner cases are checked separately below."""
    kw = {}
    g = GAll()

    def put(name, value):
        kw[name] = value
        setattr(g, name, value)

    scal = {
        "f_int32": lambda: rand_int(32, True), "f_int64": lambda: rand_int(64, True),
        "f_uint32": lambda: rand_int(32, False), "f_uint64": lambda: rand_int(64, False),
        "f_sint32": lambda: rand_int(32, True), "f_sint64": lambda: rand_int(64, True),
        "f_bool": lambda: rng.random() < 0.5, "f_fixed32": lambda: rand_int(32, False),
        "f_sfixed32": lambda: rand_int(32, True), "f_fixed64": lambda: rand_int(64, False),
        "f_sfixed64": lambda: rand_int(64, True),
        "f_float": lambda: rng.choice([0.0, 1.5, -2.25, 1024.0, float("inf")]),
        "f_double": lambda: rng.choice([0.0, 1.5, -2.25, 1e300, float("-inf"), rng.random()]),
        "f_string": rand_text, "f_bytes": lambda: rand_text().encode("utf-8"),
        "big_tag": lambda: rand_int(32, True), "big_tag_s": rand_text,
    }
    for name, gen in scal.items():
        if rng.random() < 0.5:
            put(name, gen())
    if rng.random() < 0.5:
        # (a plain Inner() that was never touched is "not set" for betterproto)
        ikw = rand_inner_kwargs() or {"a": 2}
        kw["inner"] = Inner(**ikw)
        g.inner.SetInParent()
        for k, v in ikw.items():
            setattr(g.inner, k, v)
    if rng.random() < 0.5:
        c = rng.choice(list(Color))
        kw["color"] = c
        g.color = int(c)
    for name, gen in [
        ("r_int32", lambda: rand_int(32, True)), ("r_double", lambda: rng.random()),
        ("r_sint64", lambda: rand_int(64, True)), ("big_packed", lambda: rand_int(32, False)),
        ("r_str", lambda: rng.choice(["", "a", rand_text()])),
    ]:
        if rng.random() < 0.5:
            n = rng.choice([1, 2, 3, 15, 16, 17, 64, 127, 128, 129])
            vals = [gen() for _ in range(n)]
            kw[name] = list(vals)
            getattr(g, name).extend(vals)
    for name in ("r_inner", "big_tag_r"):
        if rng.random() < 0.5:
            items = []
            for _ in range(rng.choice([1, 2, 5])):
                ikw = rand_inner_kwargs() if rng.random() < 0.8 else {}
                items.append(Inner(**ikw))
                getattr(g, name).add(**ikw)
            kw[name] = items
    if rng.random() < 0.5:
        keys = [rand_text()]  # one entry: map order differs between libraries
        kw["m_si"] = {}
        for k in keys:
            v = rand_int(32, True) or 3
            kw["m_si"][k] = v
            g.m_si[k] = v
    if rng.random() < 0.5:
        keys = [rand_int(31, False) or 9]  # one entry: map order differs between libraries
        kw["m_ii"] = {}
        for k in keys:
            ikw = rand_inner_kwargs() or {"a": 1}
            kw["m_ii"][k] = Inner(**ikw)
            for ik, iv in ikw.items():
                setattr(g.m_ii[k], ik, iv)
    which = rng.choice([None, "o_int", "o_str", "o_inner"])
    if which == "o_int":
        put("o_int", rng.choice([0, 1, -1, rand_int(32, True)]))
    elif which == "o_str":
        put("o_str", rng.choice(["", "x", rand_text()]))
    elif which == "o_inner":
        ikw = rand_inner_kwargs() if rng.random() < 0.7 else {}
        kw["o_inner"] = Inner(**ikw)
        g.o_inner.SetInParent()
        for k, v in ikw.items():
            setattr(g.o_inner, k, v)
    if rng.random() < 0.4:
        put("opt_int", rng.choice([0, 1, rand_int(32, True)]))
    if rng.random() < 0.4:
        put("opt_str", rng.choice(["", rand_text()]))
    if rng.random() < 0.4:
        ikw = rand_inner_kwargs() if rng.random() < 0.7 else {}
        kw["opt_inner"] = Inner(**ikw)
        g.opt_inner.SetInParent()
        for k, v in ikw.items():
            setattr(g.opt_inner, k, v)
    return All(**kw), g


n_msgs = 0
for _ in range(400):
    bm, gm = rand_message()
    data = check_c09(bm)
    gd = gm.SerializeToString(deterministic=True)
    if data != gd:
        i = next((k for k in range(min(len(data), len(gd))) if data[k] != gd[k]), min(len(data), len(gd)))
        raise AssertionError((len(data), len(gd), i, data[max(0, i - 8):i + 24].hex(), gd[max(0, i - 8):i + 24].hex()))
    # a parsed copy (unknown fields none) serialises the same and keeps the property
    assert check_c09(All().parse(data)) == data
    n_msgs += 1

# presence corner cases: empty-but-present members, defaults in oneofs, unknown fields
cases = [
    All(),
    All(inner=Inner()),
    All(o_int=0), All(o_str=""), All(o_inner=Inner()),
    All(opt_int=0), All(opt_str=""), All(opt_inner=Inner()),
    All(r_inner=[Inner(), Inner()], big_tag_r=[Inner(), Inner(a=1), Inner()]),
    All(r_str=["", "", "x"]),
    All(m_si={"": 0}, m_ii={0: Inner()}),
    All(m_si={"": 5, "k": 0}, m_ii={0: Inner(a=1), 7: Inner()}),
    All(f_double=-0.0, f_float=-0.0),
    All(color=Color.NEG, r_int32=[-1] * 13, r_double=[0.25] * 16, big_packed=[1 << 31] * 26),
    All(big_tag=0, big_tag_s="", f_string="x" * 127),
    All(f_string="x" * 128, f_bytes=b"\x00" * 16384),
]
for bm in cases:
    check_c09(bm)
assert bytes(cases[1]) == b""  # an untouched Inner() is not "set"
received_empty = All().parse(bytes.fromhex("820100"))
assert check_c09(received_empty).hex() == "820100"  # received empty stays on the wire
assert bytes(cases[2]).hex() == "c80100"
assert bytes(cases[3]).hex() == "d20100"
assert bytes(cases[4]).hex() == "da0100"
assert bytes(cases[5]).hex() == "e00100"
assert bytes(cases[6]).hex() == "ea0100"
assert bytes(cases[7]).hex() == "f20100"
t20 = pb_encoder.TagBytes(20, 2)
t70001 = pb_encoder.TagBytes(70001, 2)
assert bytes(cases[8]) == (
    t20 + b"\x00" + t20 + b"\x00"
    + t70001 + b"\x00" + t70001 + b"\x02\x08\x01" + t70001 + b"\x00"
)
assert bytes(cases[9]) == b"\x9a\x01\x00\x9a\x01\x00\x9a\x01\x01x"

# messages carrying unknown fields
unknown_sources = [
    All(big_tag=5, big_tag_s="hello", big_packed=[1, 2, 3], f_int32=9, inner=Inner(a=3)),
    All(o_str="", opt_inner=Inner(), r_inner=[Inner()], m_si={"a": 1}),
]
for src in unknown_sources:
    raw = bytes(src)
    leaf = Inner().parse(raw)  # nearly everything is unknown to Inner
    assert leaf._unknown_fields
    check_c09(leaf)
    holder = All(inner=leaf, r_inner=[leaf, Inner()], o_inner=leaf, m_ii={3: leaf})
    check_c09(holder)

# --------------------------------------------------------------------------
# Part B: golden bytes for presence corner cases and mutation sequences
# --------------------------------------------------------------------------


@dataclass(eq=False, repr=False)
class Empty(betterproto.Message):
    pass


@dataclass(eq=False, repr=False)
class Node(betterproto.Message):
    """Recursive message with every kind of member the field walk distinguishes."""

    label: str = betterproto.string_field(1)
    child: "Node" = betterproto.message_field(2)
    kids: List["Node"] = betterproto.message_field(3)
    w_int: Optional[int] = betterproto.message_field(4, wraps=betterproto.TYPE_INT32)
    w_str: Optional[str] = betterproto.message_field(5, wraps=betterproto.TYPE_STRING)
    w_bool: Optional[bool] = betterproto.message_field(6, wraps=betterproto.TYPE_BOOL)
    ts: datetime = betterproto.message_field(7)
    dur: timedelta = betterproto.message_field(8)
    empty: Empty = betterproto.message_field(9)
    x_int: int = betterproto.sint32_field(10, group="x")
    x_bytes: bytes = betterproto.bytes_field(11, group="x")
    x_node: "Node" = betterproto.message_field(12, group="x")
    x_color: Color = betterproto.enum_field(13, group="x")
    x_bool: bool = betterproto.bool_field(14, group="x")
    x_double: float = betterproto.double_field(15, group="x")
    y_str: str = betterproto.string_field(16, group="y")
    y_empty: Empty = betterproto.message_field(17, group="y")
    opt_bool: Optional[bool] = betterproto.bool_field(18, optional=True)
    opt_bytes: Optional[bytes] = betterproto.bytes_field(19, optional=True)
    opt_color: Optional[Color] = betterproto.enum_field(20, optional=True)
    opt_double: Optional[float] = betterproto.double_field(21, optional=True)
    opt_node: Optional["Node"] = betterproto.message_field(22, optional=True)
    colors: List[Color] = betterproto.enum_field(23)
    flags: List[bool] = betterproto.bool_field(24)
    blobs: List[bytes] = betterproto.bytes_field(25)
    by_name: Dict[str, "Node"] = betterproto.map_field(26, TYPE_STRING, TYPE_MESSAGE)
    by_flag: Dict[bool, str] = betterproto.map_field(27, betterproto.TYPE_BOOL, TYPE_STRING)
    w_list: List[Optional[int]] = betterproto.message_field(28, wraps=betterproto.TYPE_INT32)
    far: int = betterproto.uint64_field(536870911)


def seq_switch_oneof():
    n = Node(x_int=5)
    n.x_bytes = b""
    return n


def seq_switch_back():
    n = Node(x_bytes=b"abc", y_str="q")
    n.x_int = 0
    n.y_empty = Empty()
    return n


def seq_fill_child_in_place():
    n = Node()
    n.child.label = "c"
    n.child.kids.append(Node())
    return n


def seq_touch_child_only():
    n = Node()
    n.child  # a read is not a set
    n.kids
    n.by_name
    return n


def seq_fill_collections_in_place():
    n = Node()
    n.kids.append(Node(label="k"))
    n.kids.append(Node())
    n.by_name["a"] = Node()
    n.by_flag[False] = ""
    n.flags.extend([False, True])
    n.blobs.append(b"")
    return n


def seq_optional_set_and_clear():
    n = Node(opt_bool=False, opt_bytes=b"", opt_double=0.0)
    n.opt_bytes = None
    n.opt_color = Color.ZERO
    return n


def seq_assign_empty_child():
    n = Node()
    n.child = Node()
    n.empty = Empty()
    return n


def seq_parse_then_mutate():
    n = Node().parse(bytes(Node(x_node=Node(), opt_node=Node(), child=Node(label="z"))))
    n.child.label = ""
    n.y_str = ""
    return n


def seq_unknown_then_more():
    n = Node().parse(bytes(All(f_int32=7, big_tag_s="u", r_double=[1.0])))
    n.label = "known"
    n2 = Node().parse(bytes(n) + bytes(All(f_fixed64=1)))
    n2.kids.append(n)
    return n2


def seq_deepcopy():
    from copy import deepcopy

    n = seq_unknown_then_more()
    n.x_color = Color.ZERO
    return deepcopy(n)


UTC = timezone.utc
GOLDEN_CASES = [
    ("empty", lambda: Node()),
    ("label", lambda: Node(label="é")),
    ("x_int0", lambda: Node(x_int=0)),
    ("x_int-1", lambda: Node(x_int=-1)),
    ("x_bytes_empty", lambda: Node(x_bytes=b"")),
    ("x_node_empty", lambda: Node(x_node=Node())),
    ("x_node_nested", lambda: Node(x_node=Node(x_node=Node(x_bool=False)))),
    ("x_color_zero", lambda: Node(x_color=Color.ZERO)),
    ("x_color_neg", lambda: Node(x_color=Color.NEG)),
    ("x_bool_false", lambda: Node(x_bool=False)),
    ("x_double_zero", lambda: Node(x_double=0.0)),
    ("x_double_negzero", lambda: Node(x_double=-0.0)),
    ("y_str_empty", lambda: Node(y_str="")),
    ("y_empty", lambda: Node(y_empty=Empty())),
    ("both_groups", lambda: Node(x_bytes=b"", y_str="")),
    ("opt_all_default", lambda: Node(opt_bool=False, opt_bytes=b"", opt_color=Color.ZERO, opt_double=0.0, opt_node=Node())),
    ("opt_values", lambda: Node(opt_bool=True, opt_bytes=b"\x00", opt_color=Color.BIG, opt_double=-0.0, opt_node=Node(label="o"))),
    ("wrap_zero", lambda: Node(w_int=0, w_str="", w_bool=False)),
    ("wrap_values", lambda: Node(w_int=-1, w_str="wrapped", w_bool=True)),
    ("wrap_list", lambda: Node(w_list=[0, 1, 0, 300])),
    ("ts_epoch", lambda: Node(ts=datetime(1970, 1, 1, tzinfo=UTC))),
    ("ts_value", lambda: Node(ts=datetime(2020, 5, 17, 1, 2, 3, 456789, tzinfo=UTC))),
    ("ts_before_epoch", lambda: Node(ts=datetime(1969, 12, 31, 23, 59, 59, 500000, tzinfo=UTC))),
    ("dur_zero", lambda: Node(dur=timedelta())),
    ("dur_value", lambda: Node(dur=timedelta(days=3, seconds=4, microseconds=5))),
    ("dur_negative", lambda: Node(dur=timedelta(seconds=-1, microseconds=-250000))),
    ("empty_member", lambda: Node(empty=Empty())),
    ("child_unset_ctor", lambda: Node(child=Node())),
    ("child_value", lambda: Node(child=Node(child=Node(label="deep")))),
    ("kids_empty_items", lambda: Node(kids=[Node(), Node(label="k"), Node()])),
    ("packed_defaults", lambda: Node(colors=[Color.ZERO, Color.NEG, Color.BIG], flags=[False, False, True])),
    ("blobs", lambda: Node(blobs=[b"", b"a", b""])),
    ("maps_default_entries", lambda: Node(by_name={"": Node()}, by_flag={False: "", True: "t"})),
    ("maps_values", lambda: Node(by_name={"a": Node(label="x"), "b": Node()}, by_flag={True: ""})),
    ("far", lambda: Node(far=(1 << 64) - 1)),
    ("far_zero", lambda: Node(far=0)),
    ("seq_switch_oneof", seq_switch_oneof),
    ("seq_switch_back", seq_switch_back),
    ("seq_fill_child_in_place", seq_fill_child_in_place),
    ("seq_touch_child_only", seq_touch_child_only),
    ("seq_fill_collections_in_place", seq_fill_collections_in_place),
    ("seq_optional_set_and_clear", seq_optional_set_and_clear),
    ("seq_assign_empty_child", seq_assign_empty_child),
    ("seq_parse_then_mutate", seq_parse_then_mutate),
    ("seq_unknown_then_more", seq_unknown_then_more),
    ("seq_deepcopy", seq_deepcopy),
]

GOLDEN = {
    "empty": "",
    "label": "0a02c3a9",
    "x_int0": "5000",
    "x_int-1": "5001",
    "x_bytes_empty": "5a00",
    "x_node_empty": "6200",
    "x_node_nested": "620462027000",
    "x_color_zero": "6800",
    "x_color_neg": "68fbffffffffffffffff01",
    "x_bool_false": "7000",
    "x_double_zero": "790000000000000000",
    "x_double_negzero": "790000000000000080",
    "y_str_empty": "820100",
    "y_empty": "8a0100",
    "both_groups": "5a00820100",
    "opt_all_default": "9001009a0100a00100a9010000000000000000b20100",
    "opt_values": "9001019a010100a001e807a9010000000000000080b201030a016f",
    "wrap_zero": "22002a003200",
    "wrap_values": "220b08ffffffffffffffffff012a090a077772617070656432020801",
    "wrap_list": "e20100e201020801e20100e2010308ac02",
    "ts_epoch": "",
    "ts_value": "3a0c088b9a82f605108898e8d901",
    "ts_before_epoch": "3a1108ffffffffffffffffff011080cab5ee01",
    "dur_zero": "",
    "dur_value": "42070884e90f108827",
    "dur_negative": "421608ffffffffffffffffff0110809be588ffffffffff01",
    "empty_member": "4a00",
    "child_unset_ctor": "",
    "child_value": "120812060a0464656570",
    "kids_empty_items": "1a001a030a016b1a00",
    "packed_defaults": "ba010d00fbffffffffffffffff01e807c20103000001",
    "blobs": "ca0100ca010161ca0100",
    "maps_default_entries": "d20100da01020800da01050801120174",
    "maps_values": "d201080a016112030a0178d201030a0162da01020801",
    "far": "f8ffffff0fffffffffffffffffff01",
    "far_zero": "",
    "seq_switch_oneof": "5a00",
    "seq_switch_back": "50008a0100",
    "seq_fill_child_in_place": "12050a01631a00",
    "seq_touch_child_only": "",
    "seq_fill_collections_in_place": "1a030a016b1a00c201020001ca0100d201030a0161da01020800",
    "seq_optional_set_and_clear": "900100a00100a9010000000000000000",
    "seq_assign_empty_child": "4a00",
    "seq_parse_then_mutate": "12006200820100b20100",
    "seq_unknown_then_more": "0a056b6e6f776e1a190a056b6e6f776e0807aa0108000000000000f03f82972201750807aa0108000000000000f03f8297220175510100000000000000",
    "seq_deepcopy": "0a056b6e6f776e1a1b0a056b6e6f776e4a000807aa0108000000000000f03f829722017568000807aa0108000000000000f03f8297220175510100000000000000",
}

if __name__ == "__main__" and __import__("os").environ.get("C09_RECORD"):
    for name, make in GOLDEN_CASES:
        print(f'    "{name}": "{bytes(make()).hex()}",')
    raise SystemExit(0)

assert set(GOLDEN) == {name for name, _ in GOLDEN_CASES}
for name, make in GOLDEN_CASES:
    m = make()
    data = check_c09(m)
    assert data.hex() == GOLDEN[name], (name, data.hex(), GOLDEN[name])
    # serialising is repeatable and does not change the message
    assert check_c09(m) == data
    # a parsed copy keeps the relations too (it may legitimately differ in bytes
    # only by nothing: betterproto re-emits what it parsed for these cases)
    again = type(m)().parse(data)
    assert check_c09(again) == data, name

# --------------------------------------------------------------------------
# Part C: what dump() hands to the stream
# --------------------------------------------------------------------------


class Recorder:
    def __init__(self):
        self.chunks = []

    def write(self, data):
        assert isinstance(data, (bytes, bytearray))
        self.chunks.append(bytes(data))
        return len(data)


for name, make in GOLDEN_CASES:
    m = make()
    data = bytes(m)
    rec = Recorder()
    assert m.dump(rec) is None
    assert b"".join(rec.chunks) == data
    # the unknown fields are the last thing written
    assert rec.chunks[-1] == m._unknown_fields

    rec2 = Recorder()
    m.dump(rec2, betterproto.SIZE_DELIMITED)
    prefix = ref_varint(len(data))
    # the delimiter is written first, one byte per write, then the same chunks
    assert rec2.chunks[: len(prefix)] == [prefix[i : i + 1] for i in range(len(prefix))], name
    assert rec2.chunks[len(prefix) :] == rec.chunks, name

    # delimit=False / True-ish values other than SIZE_DELIMITED write no prefix
    for flag in (False, 0, True, 1):
        rec3 = Recorder()
        m.dump(rec3, flag)
        assert rec3.chunks == rec.chunks

# a larger message: one write per singular field / repeated item / map entry
big = All(f_int32=1, f_string="s", r_str=["a", "", "b"], r_int32=[1, 2, 3], m_si={"k": 1, "": 0}, o_str="", opt_int=0)
rec = Recorder()
big.dump(rec)
assert rec.chunks == [
    b"\x08\x01",
    b"\x72\x01s",
    b"\x92\x01\x03\x01\x02\x03",
    b"\x9a\x01\x01a",
    b"\x9a\x01\x00",
    b"\x9a\x01\x01b",
    b"\xba\x01\x05\x0a\x01k\x10\x01",
    b"\xba\x01\x02\x10\x00",
    b"\xd2\x01\x00",
    b"\xe0\x01\x00",
    b"",
], rec.chunks

# a stream failing mid-way leaves exactly the fields before it written
class Failing(Recorder):
    def write(self, data):
        if len(self.chunks) == 2:
            raise OSError("disk full")
        return super().write(data)


f = Failing()
try:
    big.dump(f)
except OSError:
    pass
else:
    raise AssertionError("no error")
assert f.chunks == [b"\x08\x01", b"\x72\x01s"]
assert len(big) == len(bytes(big)) == sum(map(len, rec.chunks))

print(f"ok: {n_msgs} random messages, {len(GOLDEN_CASES)} golden cases")
