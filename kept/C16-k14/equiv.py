"""C16 keep2: field selection shared by Message.dump and Message.__len__.

Single-field (and multi-field) messages over all 15 scalar kinds are compared byte
for byte with google.protobuf (dynamic descriptors): plain proto3 fields (defaults
skipped), proto3 optional fields, oneof members (defaults emitted), repeated/packed,
maps, nested and wrapper messages; len(msg) must equal len(bytes(msg)); delimited
dumps and the sequence of stream writes are checked too."""
import io
import random
import struct
from dataclasses import dataclass
from typing import Dict, List, Optional

from google.protobuf import descriptor_pb2, descriptor_pool, message_factory

import betterproto
from betterproto import encode_varint, load_varint, size_varint

FD = descriptor_pb2.FieldDescriptorProto
KINDS = [
    ("int32", FD.TYPE_INT32), ("int64", FD.TYPE_INT64), ("uint32", FD.TYPE_UINT32),
    ("uint64", FD.TYPE_UINT64), ("sint32", FD.TYPE_SINT32), ("sint64", FD.TYPE_SINT64),
    ("bool", FD.TYPE_BOOL), ("fixed32", FD.TYPE_FIXED32), ("fixed64", FD.TYPE_FIXED64),
    ("sfixed32", FD.TYPE_SFIXED32), ("sfixed64", FD.TYPE_SFIXED64),
    ("float", FD.TYPE_FLOAT), ("double", FD.TYPE_DOUBLE), ("string", FD.TYPE_STRING),
    ("bytes", FD.TYPE_BYTES),
]

# ------------------------------------------------------------------ reference schema
fdp = descriptor_pb2.FileDescriptorProto(name="c16_keep2.proto", package="c16k2", syntax="proto3")
inner = fdp.message_type.add(name="Inner")
inner.field.add(name="x", number=1, type=FD.TYPE_INT32, label=FD.LABEL_OPTIONAL)
m = fdp.message_type.add(name="M")
m.oneof_decl.add(name="grp")  # index 0: the real oneof
for i, (name, t) in enumerate(KINDS, start=1):
    m.field.add(name="p_" + name, number=i, type=t, label=FD.LABEL_OPTIONAL)
for i, (name, t) in enumerate(KINDS, start=21):
    m.field.add(name="g_" + name, number=i, type=t, label=FD.LABEL_OPTIONAL, oneof_index=0)
for i, (name, t) in enumerate(KINDS, start=41):
    if name in ("string", "bytes"):
        m.field.add(name="r_" + name, number=i, type=t, label=FD.LABEL_REPEATED)
    else:
        m.field.add(name="r_" + name, number=i, type=t, label=FD.LABEL_REPEATED)
m.field.add(name="inner", number=61, type=FD.TYPE_MESSAGE, type_name=".c16k2.Inner", label=FD.LABEL_OPTIONAL)
m.field.add(name="inners", number=62, type=FD.TYPE_MESSAGE, type_name=".c16k2.Inner", label=FD.LABEL_REPEATED)
m.field.add(name="g_inner", number=63, type=FD.TYPE_MESSAGE, type_name=".c16k2.Inner", label=FD.LABEL_OPTIONAL, oneof_index=0)
# proto3 optional fields live in synthetic oneofs
for j, (i, name, t) in enumerate(((71, "o_int32", FD.TYPE_INT32), (72, "o_sint64", FD.TYPE_SINT64),
                                  (73, "o_bool", FD.TYPE_BOOL), (74, "o_double", FD.TYPE_DOUBLE),
                                  (75, "o_string", FD.TYPE_STRING), (76, "o_fixed32", FD.TYPE_FIXED32)), start=1):
    m.oneof_decl.add(name="_" + name)
    m.field.add(name=name, number=i, type=t, label=FD.LABEL_OPTIONAL, oneof_index=j, proto3_optional=True)
entry = m.nested_type.add(name="MpEntry")
entry.options.map_entry = True
entry.field.add(name="key", number=1, type=FD.TYPE_SINT32, label=FD.LABEL_OPTIONAL)
entry.field.add(name="value", number=2, type=FD.TYPE_UINT64, label=FD.LABEL_OPTIONAL)
m.field.add(name="mp", number=81, type=FD.TYPE_MESSAGE, type_name=".c16k2.M.MpEntry", label=FD.LABEL_REPEATED)
pool = descriptor_pool.DescriptorPool()
pool.Add(fdp)
RefM = message_factory.GetMessageClass(pool.FindMessageTypeByName("c16k2.M"))
RefInner = message_factory.GetMessageClass(pool.FindMessageTypeByName("c16k2.Inner"))


# ------------------------------------------------------------------ betterproto schema
@dataclass(eq=False, repr=False)
class Inner(betterproto.Message):
    x: int = betterproto.int32_field(1)


@dataclass(eq=False, repr=False)
class M(betterproto.Message):
    p_int32: int = betterproto.int32_field(1)
    p_int64: int = betterproto.int64_field(2)
    p_uint32: int = betterproto.uint32_field(3)
    p_uint64: int = betterproto.uint64_field(4)
    p_sint32: int = betterproto.sint32_field(5)
    p_sint64: int = betterproto.sint64_field(6)
    p_bool: bool = betterproto.bool_field(7)
    p_fixed32: int = betterproto.fixed32_field(8)
    p_fixed64: int = betterproto.fixed64_field(9)
    p_sfixed32: int = betterproto.sfixed32_field(10)
    p_sfixed64: int = betterproto.sfixed64_field(11)
    p_float: float = betterproto.float_field(12)
    p_double: float = betterproto.double_field(13)
    p_string: str = betterproto.string_field(14)
    p_bytes: bytes = betterproto.bytes_field(15)
    g_int32: int = betterproto.int32_field(21, group="grp")
    g_int64: int = betterproto.int64_field(22, group="grp")
    g_uint32: int = betterproto.uint32_field(23, group="grp")
    g_uint64: int = betterproto.uint64_field(24, group="grp")
    g_sint32: int = betterproto.sint32_field(25, group="grp")
    g_sint64: int = betterproto.sint64_field(26, group="grp")
    g_bool: bool = betterproto.bool_field(27, group="grp")
    g_fixed32: int = betterproto.fixed32_field(28, group="grp")
    g_fixed64: int = betterproto.fixed64_field(29, group="grp")
    g_sfixed32: int = betterproto.sfixed32_field(30, group="grp")
    g_sfixed64: int = betterproto.sfixed64_field(31, group="grp")
    g_float: float = betterproto.float_field(32, group="grp")
    g_double: float = betterproto.double_field(33, group="grp")
    g_string: str = betterproto.string_field(34, group="grp")
    g_bytes: bytes = betterproto.bytes_field(35, group="grp")
    r_int32: List[int] = betterproto.int32_field(41)
    r_int64: List[int] = betterproto.int64_field(42)
    r_uint32: List[int] = betterproto.uint32_field(43)
    r_uint64: List[int] = betterproto.uint64_field(44)
    r_sint32: List[int] = betterproto.sint32_field(45)
    r_sint64: List[int] = betterproto.sint64_field(46)
    r_bool: List[bool] = betterproto.bool_field(47)
    r_fixed32: List[int] = betterproto.fixed32_field(48)
    r_fixed64: List[int] = betterproto.fixed64_field(49)
    r_sfixed32: List[int] = betterproto.sfixed32_field(50)
    r_sfixed64: List[int] = betterproto.sfixed64_field(51)
    r_float: List[float] = betterproto.float_field(52)
    r_double: List[float] = betterproto.double_field(53)
    r_string: List[str] = betterproto.string_field(54)
    r_bytes: List[bytes] = betterproto.bytes_field(55)
    inner: Inner = betterproto.message_field(61)
    inners: List[Inner] = betterproto.message_field(62)
    g_inner: Inner = betterproto.message_field(63, group="grp")
    o_int32: Optional[int] = betterproto.int32_field(71, optional=True, group="_o_int32")
    o_sint64: Optional[int] = betterproto.sint64_field(72, optional=True, group="_o_sint64")
    o_bool: Optional[bool] = betterproto.bool_field(73, optional=True, group="_o_bool")
    o_double: Optional[float] = betterproto.double_field(74, optional=True, group="_o_double")
    o_string: Optional[str] = betterproto.string_field(75, optional=True, group="_o_string")
    o_fixed32: Optional[int] = betterproto.fixed32_field(76, optional=True, group="_o_fixed32")
    mp: Dict[int, int] = betterproto.map_field(81, betterproto.TYPE_SINT32, betterproto.TYPE_UINT64)


rng = random.Random(1602)


def around(points, lo, hi):
    out = set()
    for p in points:
        for d in range(-2, 3):
            if lo <= p + d <= hi:
                out.add(p + d)
    return sorted(out)


def ints(lo, hi, n=60):
    pts = [0, lo, hi] + [s * (1 << k) for k in (7, 14, 21, 28, 31, 32, 35, 42, 49, 56, 63, 64) for s in (1, -1)]
    return around(pts, lo, hi) + [rng.randint(lo, hi) for _ in range(n)]


def f32(bits):
    return struct.unpack("<f", struct.pack("<I", bits))[0]


def f64(bits):
    return struct.unpack("<d", struct.pack("<Q", bits))[0]


SAMPLES = {
    "int32": ints(-2**31, 2**31 - 1), "int64": ints(-2**63, 2**63 - 1),
    "uint32": ints(0, 2**32 - 1), "uint64": ints(0, 2**64 - 1),
    "sint32": ints(-2**31, 2**31 - 1), "sint64": ints(-2**63, 2**63 - 1),
    "bool": [False, True],
    "fixed32": ints(0, 2**32 - 1), "fixed64": ints(0, 2**64 - 1),
    "sfixed32": ints(-2**31, 2**31 - 1), "sfixed64": ints(-2**63, 2**63 - 1),
    "float": [0.0, 1.0, -1.5, f32(1), f32(0x00800000), f32(0x7F7FFFFF), f32(0xFF7FFFFF), float("inf"), float("-inf")]
    + [f32(rng.getrandbits(32) & ~0x7F800000 | (rng.randrange(0, 255) << 23)) for _ in range(100)],
    "double": [0.0, 1.0, -1.5, 5e-324, 1.7976931348623157e308, float("inf"), float("-inf"), 1e39]
    + [f64(rng.getrandbits(64) & ~(0x7FF << 52) | (rng.randrange(0, 2047) << 52)) for _ in range(100)],
    "string": ["", "a", "héllo", "x" * 127, "y" * 128, "€" * 50, "z" * 2000],
    "bytes": [b"", b"\x00", b"\xff" * 127, b"\x80" * 128, bytes(range(256)) * 8],
}


class Recorder:
    def __init__(self):
        self.writes = []

    def write(self, data):
        assert isinstance(data, (bytes, bytearray)), type(data)
        self.writes.append(bytes(data))
        return len(data)


checked = 0


def check(bp, ref, expect_fields=None, wire=None):
    """bytes / len / dump / delimited dump of ``bp`` against the reference message."""
    global checked
    wire = ref.SerializeToString() if wire is None else wire
    got = bytes(bp)
    assert got == wire, (got.hex()[:200], wire.hex()[:200])
    assert len(bp) == len(wire) == ref.ByteSize()  # noqa
    assert bp.SerializeToString() == wire
    rec = Recorder()
    bp.dump(rec)
    assert b"".join(rec.writes) == wire
    # one write per emitted singular field / packed run, plus the unknown-field tail
    assert rec.writes[-1] == b"" and all(rec.writes[:-1]), rec.writes
    if expect_fields is not None:
        assert len(rec.writes) == expect_fields + 1, (len(rec.writes), expect_fields)
    rec = Recorder()
    bp.dump(rec, delimit=betterproto.SIZE_DELIMITED)
    joined = b"".join(rec.writes)
    assert joined == encode_varint(len(wire)) + wire
    assert len(rec.writes[0]) == 1 and len(b"".join(rec.writes[: size_varint(len(wire))])) == size_varint(len(wire))
    n, raw = load_varint(io.BytesIO(joined))
    assert n == len(wire) and joined[len(raw):] == wire
    # and what we emit is parsed back by both implementations to the same bytes
    assert bytes(type(bp)().parse(wire)) == wire
    checked += 1


def is_default(kind, v):
    if kind in ("float", "double"):
        return v == 0  # betterproto treats -0.0 as the default as well
    return not v


# ---- plain proto3 singular fields: defaults skipped, everything else identical
for kind, _ in KINDS:
    for v in SAMPLES[kind]:
        bp = M(**{"p_" + kind: v})
        ref = RefM(**{"p_" + kind: v})
        check(bp, ref, expect_fields=0 if is_default(kind, v) else 1)
        if is_default(kind, v):
            assert bytes(bp) == b"" and len(bp) == 0

# ---- oneof members: emitted even when equal to the default
for kind, _ in KINDS:
    for v in SAMPLES[kind]:
        bp = M(**{"g_" + kind: v})
        ref = RefM(**{"g_" + kind: v})
        check(bp, ref, expect_fields=1)
        assert betterproto.which_one_of(bp, "grp")[0] == "g_" + kind
        assert bytes(bp) != b""
    # switching the selected member emits only the last one
    bp = M(g_int32=5)
    setattr(bp, "g_" + kind, SAMPLES[kind][0])
    ref = RefM(g_int32=5)
    setattr(ref, "g_" + kind, SAMPLES[kind][0])
    check(bp, ref, expect_fields=1)

# ---- proto3 optional: None skipped, explicit defaults emitted
for name, kind in (("o_int32", "int32"), ("o_sint64", "sint64"), ("o_bool", "bool"),
                   ("o_double", "double"), ("o_string", "string"), ("o_fixed32", "fixed32")):
    check(M(**{name: None}), RefM(), expect_fields=0)
    for v in SAMPLES[kind][:60]:
        check(M(**{name: v}), RefM(**{name: v}), expect_fields=1)

# ---- repeated (packed for scalars, one record per element otherwise)
for kind, _ in KINDS:
    vals = SAMPLES[kind]
    for lst in [vals, vals[:1], vals[:3]] + [rng.sample(vals, min(len(vals), rng.randint(1, 9))) for _ in range(25)]:
        bp = M(**{"r_" + kind: list(lst)})
        ref = RefM(**{"r_" + kind: list(lst)})
        check(bp, ref, expect_fields=len(lst) if kind in ("string", "bytes") else 1)
    check(M(**{"r_" + kind: []}), RefM(), expect_fields=0)

# ---- nested messages: unset, set-but-empty, set; repeated incl. empty elements; oneof
check(M(), RefM(), expect_fields=0)
# (a never-touched empty sub-message passed to the constructor is not emitted)
unset_inner = M(inner=Inner())
assert bytes(unset_inner) == b"" and len(unset_inner) == 0
rec = Recorder()
unset_inner.dump(rec)
assert rec.writes == [b""]
check(M(inner=Inner(x=0)), RefM(inner=RefInner(x=0)), expect_fields=1)
for x in SAMPLES["int32"][:40]:
    check(M(inner=Inner(x=x)), RefM(inner=RefInner(x=x)), expect_fields=1)
    check(M(g_inner=Inner(x=x)), RefM(g_inner=RefInner(x=x)), expect_fields=1)
    check(M(inners=[Inner(x=x), Inner(), Inner(x=~x)]),
          RefM(inners=[RefInner(x=x), RefInner(), RefInner(x=~x)]), expect_fields=3)
check(M(g_inner=Inner()), RefM(g_inner=RefInner()), expect_fields=1)
parsed = M().parse(RefM(inner=RefInner()).SerializeToString())
check(parsed, RefM(inner=RefInner()), expect_fields=1)

# ---- maps (sint32 -> uint64), incl. the all-default entry
for _ in range(60):
    d = {rng.choice(SAMPLES["sint32"]): rng.choice(SAMPLES["uint64"]) for _ in range(rng.randint(1, 6))}
    # betterproto keeps insertion order, the reference has its own entry order:
    # the expected bytes are the reference's single-entry encodings in insertion order
    wire = b"".join(RefM(mp={k: v}).SerializeToString() for k, v in d.items())
    assert sorted(wire) == sorted(RefM(mp=d).SerializeToString())
    check(M(mp=dict(d)), RefM(mp=d), expect_fields=len(d), wire=wire)
check(M(mp={0: 0}), RefM(mp={0: 0}), expect_fields=1)
check(M(mp={}), RefM(), expect_fields=0)

# ---- several fields at once, in declaration (= field number) order, plus unknown fields
for _ in range(400):
    kw = {}
    for kind, _t in KINDS:
        r = rng.random()
        if r < 0.35:
            kw["p_" + kind] = rng.choice(SAMPLES[kind][:-1] if kind in ("string", "bytes") else SAMPLES[kind])
        if rng.random() < 0.15 and kind not in ("string", "bytes"):
            kw["r_" + kind] = rng.sample(SAMPLES[kind], min(len(SAMPLES[kind]), rng.randint(0, 4)))
    if rng.random() < 0.5:
        gk = rng.choice(KINDS)[0]
        kw["g_" + gk] = rng.choice(SAMPLES[gk][:5])
    if rng.random() < 0.3:
        kw["o_int32"] = rng.choice([0, 1, -1, 2**31 - 1])
    if rng.random() < 0.3:
        kw["o_string"] = rng.choice(["", "s"])
    bp = M(**kw)
    ref = RefM(**kw)
    check(bp, ref)
    # unknown fields are appended verbatim after the known ones
    unknown = encode_varint((200 << 3) | 0) + encode_varint(rng.getrandbits(rng.choice((1, 20, 64))))
    wire = ref.SerializeToString() + unknown
    re = M().parse(wire)
    assert bytes(re) == wire and len(re) == len(wire)
    rec = Recorder()
    re.dump(rec)
    assert rec.writes[-1] == unknown and b"".join(rec.writes) == wire

# ---- a message whose fields were never initialised serialises to nothing
assert bytes(M()) == b"" and len(M()) == 0
assert bytes(Inner()) == b"" and len(Inner()) == 0

# ---- error paths surface from both bytes() and len()
def raises(fn):
    try:
        fn()
    except Exception as exc:  # noqa: BLE001
        return type(exc).__name__
    return None


for kw, exc in (({"p_int64": -(2**63) - 1}, "ValueError"), ({"p_uint64": -(2**63) - 1}, "ValueError"),
                ({"p_fixed32": 2**32}, "error"), ({"p_sfixed64": 2**63}, "error"),
                ({"p_fixed64": -1}, "error"), ({"p_float": 1e39}, "OverflowError"),
                ({"g_int64": -(2**64)}, "ValueError"), ({"r_int64": [1, -(2**63) - 1]}, "ValueError")):
    assert raises(lambda: bytes(M(**kw))) == exc, (kw, raises(lambda: bytes(M(**kw))))
    assert raises(lambda: len(M(**kw))) == exc, (kw, raises(lambda: len(M(**kw))))
    rec = Recorder()
    assert raises(lambda: M(p_int32=1, **kw).dump(rec)) == exc
    # the fields before the offending one were already written
    assert rec.writes == [b"\x08\x01"], rec.writes

print(f"C16 keep2 equiv: OK ({checked} messages compared with the reference)")
