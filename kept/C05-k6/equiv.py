"""C05 keep2 equivalence check: betterproto.casing.pascal_case / camel_case (camel_case of
the field name is the key under which to_dict / to_json emit a field, and the table that
from_dict / from_json use to find the field of a key is built from it).

Part 1 compares pascal_case and camel_case, in strict and non-strict mode, with verbatim
copies of the implementations before the refactor: exhaustively for all strings up to
length 6 over an alphabet with one character of every class the regular expressions
distinguish (twice for letters), plus a large random sample of longer strings, plus the
cases of the pinned test-suite.

Part 2 checks the JSON names through messages: for a schema with many differently shaped
field names, every key betterproto emits is the reference's json_name, the reference
parser accepts betterproto's JSON and betterproto accepts the reference's JSON, yielding
the same message in both directions.
"""
import itertools
import json
import random
import re
from dataclasses import dataclass
from typing import List

from google.protobuf import descriptor_pb2, descriptor_pool, json_format, message_factory

import betterproto
from betterproto import casing
from betterproto.casing import camel_case, lowercase_first, pascal_case

# ------------------------------------------------------------- part 1: unit level
SYMBOLS = "[^a-zA-Z0-9]*"
WORD = "[A-Z]*[a-z]*[0-9]*"
WORD_UPPER = "[A-Z]+(?![a-z])[0-9]*"
assert (casing.SYMBOLS, casing.WORD, casing.WORD_UPPER) == (SYMBOLS, WORD, WORD_UPPER)


def old_pascal_case(value, strict=True):
    def substitute_word(symbols, word):
        if strict:
            return word.capitalize()  # Remove all delimiters

        if word.islower():
            delimiter_length = len(symbols[:-1])  # Lose one delimiter
        else:
            delimiter_length = len(symbols)  # Preserve all delimiters

        return ("_" * delimiter_length) + word.capitalize()

    return re.sub(
        f"({SYMBOLS})({WORD_UPPER}|{WORD})",
        lambda groups: substitute_word(groups[1], groups[2]),
        value,
    )


def old_camel_case(value, strict=True):
    return lowercase_first(old_pascal_case(value, strict=strict))


def compare(value):
    for strict in (True, False):
        assert pascal_case(value, strict=strict) == old_pascal_case(value, strict=strict), (value, strict)
        assert camel_case(value, strict=strict) == old_camel_case(value, strict=strict), (value, strict)
    assert pascal_case(value) == old_pascal_case(value), value
    assert camel_case(value) == old_camel_case(value), value
    # truthy / falsy non-bool values of `strict` select the same mode
    assert pascal_case(value, 1) == old_pascal_case(value, True)
    assert pascal_case(value, 0) == old_pascal_case(value, False)
    assert pascal_case(value, None) == old_pascal_case(value, False)


n = 0
ALPHABET = "abXY1_."
for length in range(0, 7):
    for chars in itertools.product(ALPHABET, repeat=length):
        compare("".join(chars))
        n += 1

rng = random.Random(606)
WIDE = "abcxyzABCXYZ0189__..-~: \t\néßIİǅ١$"
for _ in range(60000):
    compare("".join(rng.choice(WIDE) for _ in range(rng.randint(0, 24))))
    n += 1
# snake_case-looking names as they occur in .proto files
WORDS = ["foo", "bar", "x", "id", "http", "url2", "v1", "line", "1", "23", "a", "io", "utf8", "e2e"]
for _ in range(20000):
    parts = [rng.choice(WORDS) for _ in range(rng.randint(1, 6))]
    name = "_".join(parts)
    if rng.random() < 0.2:
        name = name.upper()
    if rng.random() < 0.1:
        name += "_"
    if rng.random() < 0.1:
        name = "_" + name
    compare(name)
    n += 1

PINNED = {
    "": "", "a": "A", "foobar": "Foobar", "fooBar": "FooBar", "FooBar": "FooBar",
    "foo.bar": "FooBar", "foo_bar": "FooBar", "FOOBAR": "Foobar", "FOOBar": "FooBar",
    "UInt32": "UInt32", "FOO_BAR": "FooBar", "FOOBAR1": "Foobar1", "FOOBAR_1": "Foobar1",
    "FOO1BAR2": "Foo1Bar2", "foo__bar": "FooBar", "_foobar": "Foobar", "foobaR": "FoobaR",
    "foo~bar": "FooBar", "foo:bar": "FooBar", "1foobar": "1Foobar",
}
for value, expected in PINNED.items():
    assert pascal_case(value, strict=True) == expected
    assert camel_case(value, strict=True) == expected[:1].lower() + expected[1:]
    compare(value)
for value, expected in {"foo_bar": "fooBar", "FooBar": "fooBar", "foo__bar": "foo_Bar", "foo__Bar": "foo__Bar"}.items():
    assert camel_case(value, strict=False) == expected
for bad in (None, 5, b"foo_bar", ["a"]):
    for fn_new, fn_old in ((pascal_case, old_pascal_case), (camel_case, old_camel_case)):
        for strict in (True, False):
            try:
                fn_old(bad, strict)
                old_exc = None
            except Exception as e:  # noqa: BLE001
                old_exc = type(e)
            try:
                fn_new(bad, strict)
                new_exc = None
            except Exception as e:  # noqa: BLE001
                new_exc = type(e)
            assert old_exc is new_exc and old_exc is not None, (bad, old_exc, new_exc)

# ------------------------------------------------------------- part 2: JSON names of messages
F = descriptor_pb2.FieldDescriptorProto
# (names in which a letter follows a digit, such as "e2e", are left out: there
# camel_case and the reference's json_name already differ on the pristine tree)
FIELD_NAMES = [
    "a", "x", "id", "foo", "foo_bar", "foo_bar_baz", "a_b", "a_b_c", "x_y_z_w",
    "address_line_1", "address_line_2", "line_10_text", "utf8", "utf8_text", "v1", "v1_beta",
    "http_status", "http2_status", "status_code_404", "is_ok", "io", "end2_end_test", "end2",
    "very_long_field_name_with_many_words_in_it", "value", "key", "type", "name", "json_name",
    "to_dictionary", "from_json_text", "camel_case", "snake", "n0", "n0_n1", "aa_bb_cc_dd_ee",
]
KINDS = [
    (F.TYPE_INT32, betterproto.TYPE_INT32, lambda i: i + 1),
    (F.TYPE_INT64, betterproto.TYPE_INT64, lambda i: -(2**40) - i),
    (F.TYPE_STRING, betterproto.TYPE_STRING, lambda i: f"s{i}"),
    (F.TYPE_BOOL, betterproto.TYPE_BOOL, lambda i: True),
    (F.TYPE_DOUBLE, betterproto.TYPE_DOUBLE, lambda i: i + 0.5),
    (F.TYPE_BYTES, betterproto.TYPE_BYTES, lambda i: bytes([i, 255 - i])),
    (F.TYPE_UINT64, betterproto.TYPE_UINT64, lambda i: 2**63 + i),
]

fdp = descriptor_pb2.FileDescriptorProto(name="c05_keep2_names.proto", package="c05keep2", syntax="proto3")
m = fdp.message_type.add(name="Names")
values = {}
for i, fname in enumerate(FIELD_NAMES):
    g_type, b_type, mk = KINDS[i % len(KINDS)]
    m.field.add(name=fname, number=i + 1, type=g_type, label=F.LABEL_OPTIONAL)
    values[fname] = mk(i)
# a nested message and a repeated nested message, whose keys are cased as well
m.field.add(name="inner_msg", number=100, type=F.TYPE_MESSAGE, label=F.LABEL_OPTIONAL, type_name=".c05keep2.Names")
m.field.add(name="more_msgs_2", number=101, type=F.TYPE_MESSAGE, label=F.LABEL_REPEATED, type_name=".c05keep2.Names")
pool = descriptor_pool.Default()
pool.Add(fdp)
ref_desc = pool.FindMessageTypeByName("c05keep2.Names")
RefNames = message_factory.GetMessageClass(ref_desc)


# the betterproto side of the same schema (field i+1 has kind KINDS[i % 7])
@dataclass(eq=False, repr=False)
class Names(betterproto.Message):
    a: int = betterproto.int32_field(1)
    x: int = betterproto.int64_field(2)
    id: str = betterproto.string_field(3)
    foo: bool = betterproto.bool_field(4)
    foo_bar: float = betterproto.double_field(5)
    foo_bar_baz: bytes = betterproto.bytes_field(6)
    a_b: int = betterproto.uint64_field(7)
    a_b_c: int = betterproto.int32_field(8)
    x_y_z_w: int = betterproto.int64_field(9)
    address_line_1: str = betterproto.string_field(10)
    address_line_2: bool = betterproto.bool_field(11)
    line_10_text: float = betterproto.double_field(12)
    utf8: bytes = betterproto.bytes_field(13)
    utf8_text: int = betterproto.uint64_field(14)
    v1: int = betterproto.int32_field(15)
    v1_beta: int = betterproto.int64_field(16)
    http_status: str = betterproto.string_field(17)
    http2_status: bool = betterproto.bool_field(18)
    status_code_404: float = betterproto.double_field(19)
    is_ok: bytes = betterproto.bytes_field(20)
    io: int = betterproto.uint64_field(21)
    end2_end_test: int = betterproto.int32_field(22)
    end2: int = betterproto.int64_field(23)
    very_long_field_name_with_many_words_in_it: str = betterproto.string_field(24)
    value: bool = betterproto.bool_field(25)
    key: float = betterproto.double_field(26)
    type: bytes = betterproto.bytes_field(27)
    name: int = betterproto.uint64_field(28)
    json_name: int = betterproto.int32_field(29)
    to_dictionary: int = betterproto.int64_field(30)
    from_json_text: str = betterproto.string_field(31)
    camel_case: bool = betterproto.bool_field(32)
    snake: float = betterproto.double_field(33)
    n0: bytes = betterproto.bytes_field(34)
    n0_n1: int = betterproto.uint64_field(35)
    aa_bb_cc_dd_ee: int = betterproto.int32_field(36)
    inner_msg: "Names" = betterproto.message_field(100)
    more_msgs_2: List["Names"] = betterproto.message_field(101)


for _i, _name in enumerate(FIELD_NAMES):
    _meta = Names._betterproto.meta_by_field_name[_name]
    assert (_meta.number, _meta.proto_type) == (_i + 1, KINDS[_i % len(KINDS)][1])

json_names = {f.name: f.json_name for f in ref_desc.fields}
for fname in FIELD_NAMES + ["inner_msg", "more_msgs_2"]:
    assert camel_case(fname) == json_names[fname], (fname, camel_case(fname), json_names[fname])
    assert old_camel_case(fname) == json_names[fname]


def canon(ref_msg) -> bytes:
    return ref_msg.SerializeToString(deterministic=True)


def check(msg) -> None:
    ref_view = RefNames.FromString(bytes(msg))
    text = msg.to_json()

    def keys(d, into):
        for k, v in d.items():
            into.add(k)
            for item in v if isinstance(v, list) else [v]:
                if isinstance(item, dict):
                    keys(item, into)
        return into

    assert keys(json.loads(text), set()) <= set(json_names.values()), text
    parsed = json_format.Parse(text, RefNames())
    assert canon(parsed) == canon(ref_view), text
    for ref_text in (
        json_format.MessageToJson(ref_view),
        json_format.MessageToJson(ref_view, preserving_proto_field_name=True),
    ):
        back = Names().from_json(ref_text)
        assert bytes(back) == bytes(msg), ref_text
        assert canon(RefNames.FromString(bytes(back))) == canon(ref_view), ref_text
    # the snake-cased form of to_dict is read back as well
    snake = msg.to_dict(casing=betterproto.Casing.SNAKE)
    assert bytes(Names().from_dict(snake)) == bytes(msg), snake


full = Names(**values)
check(full)
assert set(json.loads(full.to_json())) == {json_names[f] for f in FIELD_NAMES}
for fname in FIELD_NAMES:
    one = Names(**{fname: values[fname]})
    assert list(json.loads(one.to_json())) == [json_names[fname]]
    check(one)
    check(Names(inner_msg=one, more_msgs_2=[one, Names(), full]))
for _ in range(300):
    chosen = rng.sample(FIELD_NAMES, rng.randint(0, len(FIELD_NAMES)))
    inner = Names(**{f: values[f] for f in rng.sample(FIELD_NAMES, 3)})
    msg = Names(**{f: values[f] for f in chosen})
    if rng.random() < 0.5:
        msg.inner_msg = inner
    if rng.random() < 0.5:
        msg.more_msgs_2 = [inner, Names(**{f: values[f] for f in rng.sample(FIELD_NAMES, 2)})]
    check(msg)

print(f"OK: {n} strings cased identically; JSON names of {len(FIELD_NAMES) + 2} fields agree with the reference")
