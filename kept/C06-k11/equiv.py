"""C06 keep1 equivalence check: the wire-level part of the 'via parse' path
(_wire_type_matches, load_fields) against an in-script copy of the original logic,
and the presence matrix after decoding against google.protobuf."""
import io
import itertools
import random
from dataclasses import dataclass
from typing import Dict, List, Optional

import betterproto
from betterproto import (
    PACKED_TYPES,
    WIRE_FIXED_32,
    WIRE_FIXED_32_TYPES,
    WIRE_FIXED_64,
    WIRE_FIXED_64_TYPES,
    WIRE_LEN_DELIM,
    WIRE_LEN_DELIM_TYPES,
    WIRE_VARINT,
    WIRE_VARINT_TYPES,
    ParsedField,
    _wire_type_matches,
    encode_varint,
    load_fields,
    load_varint,
    parse_fields,
)
from google.protobuf import descriptor_pb2, descriptor_pool, message_factory, wrappers_pb2

rng = random.Random(606)

ALL_TYPES = [
    getattr(betterproto, n)
    for n in dir(betterproto)
    if n.startswith("TYPE_") and isinstance(getattr(betterproto, n), str)
]
assert len(ALL_TYPES) == 18


# ------------------------------------------------------------------ 1. _wire_type_matches
def oracle_matches(wire_type, proto_type, repeated):
    if wire_type == WIRE_VARINT:
        return proto_type in WIRE_VARINT_TYPES
    if wire_type == WIRE_FIXED_32:
        return proto_type in WIRE_FIXED_32_TYPES
    if wire_type == WIRE_FIXED_64:
        return proto_type in WIRE_FIXED_64_TYPES
    if wire_type == WIRE_LEN_DELIM:
        return proto_type in WIRE_LEN_DELIM_TYPES or (
            repeated and proto_type in PACKED_TYPES
        )
    return False


n = 0
for wire_type in range(-1, 9):
    for proto_type in ALL_TYPES + ["group", "", "unknown"]:
        for repeated in (False, True):
            got = _wire_type_matches(wire_type, proto_type, repeated)
            want = oracle_matches(wire_type, proto_type, repeated)
            assert got is want, (wire_type, proto_type, repeated, got, want)
            n += 1
assert n == 10 * 21 * 2


# ------------------------------------------------------------------ 2. load_fields
def oracle_read_exact(stream, size):
    data = stream.read(size)
    if len(data) != size:
        raise EOFError("short")
    return data


def oracle_load_fields(stream):
    while True:
        first = stream.read(1)
        if not first:
            return
        num_wire, raw = load_varint(stream, first)
        number = num_wire >> 3
        wire_type = num_wire & 0x7
        if number == 0:
            raise ValueError("Invalid field number 0.")
        decoded = None
        if wire_type == WIRE_VARINT:
            decoded, r = load_varint(stream)
            raw += r
        elif wire_type == WIRE_FIXED_64:
            decoded = oracle_read_exact(stream, 8)
            raw += decoded
        elif wire_type == WIRE_LEN_DELIM:
            length, r = load_varint(stream)
            decoded = oracle_read_exact(stream, length)
            raw += r
            raw += decoded
        elif wire_type == WIRE_FIXED_32:
            decoded = oracle_read_exact(stream, 4)
            raw += decoded
        else:
            raise ValueError(f"Unsupported wire type {wire_type} in field {number}.")
        yield (number, wire_type, decoded, raw)


def run(gen_factory, data):
    """All fields with the stream position after each one, then how it ended."""
    stream = io.BytesIO(data)
    out = []
    try:
        for item in gen_factory(stream):
            if isinstance(item, ParsedField):
                item = (item.number, item.wire_type, item.value, item.raw)
            out.append((item, stream.tell()))
        out.append(("end", stream.tell()))
    except (ValueError, EOFError, OverflowError, MemoryError) as e:
        msg = str(e) if isinstance(e, ValueError) else ""
        out.append((type(e).__name__, msg, stream.tell()))
    return out


def random_field():
    number = rng.choice([1, 2, 15, 16, 2047, 2048, 2**29 - 1, rng.randrange(1, 5000)])
    wire_type = rng.choice([0, 0, 1, 2, 2, 2, 5])
    tag = encode_varint((number << 3) | wire_type)
    if wire_type == 0:
        return tag + encode_varint(
            rng.choice([0, 1, 127, 128, 2**32 - 1, 2**63, 2**64 - 1, rng.randrange(2**64)])
        )
    if wire_type == 1:
        return tag + bytes(rng.randrange(256) for _ in range(8))
    if wire_type == 5:
        return tag + bytes(rng.randrange(256) for _ in range(4))
    length = rng.choice([0, 0, 1, 2, 127, 128, 300])
    return tag + encode_varint(length) + bytes(rng.randrange(256) for _ in range(length))


streams = [b"", b"\x00", b"\x08", b"\x08\x00", b"\x0a\x00", b"\x0a", b"\x0a\x05ab"]
streams += [b"\x0d\x01\x02\x03", b"\x09" + b"\x01" * 7, b"\x80", b"\xff" * 10 + b"\x01"]
streams += [b"\x00\x00", b"\x02\x00", b"\x08" + b"\xff" * 10 + b"\x01", b"\x08\x80"]
for bad_wire in (3, 4, 6, 7):
    for number in (1, 16, 300):
        streams.append(encode_varint((number << 3) | bad_wire) + b"\x00\x00")
        streams.append(b"\x08\x01" + encode_varint((number << 3) | bad_wire))
for _ in range(1500):
    data = b"".join(random_field() for _ in range(rng.randrange(0, 6)))
    streams.append(data)
    if data:
        streams.append(data[: rng.randrange(len(data))])  # truncated
        pos = rng.randrange(len(data))
        streams.append(data[:pos] + bytes([rng.randrange(256)]) + data[pos + 1 :])
for _ in range(1500):
    streams.append(bytes(rng.randrange(256) for _ in range(rng.randrange(0, 12))))

errors = 0
for data in streams:
    got = run(load_fields, data)
    want = run(oracle_load_fields, data)
    assert got == want, (data, got, want)
    if got[-1][0] != "end":
        errors += 1
    else:
        # well-formed: the raw chunks tile the input and agree with parse_fields
        assert b"".join(item[3] for item, _ in got[:-1]) == data
        assert [item for item, _ in got[:-1]] == [
            (f.number, f.wire_type, f.value, f.raw) for f in parse_fields(data)
        ]
assert errors > 100 and len(streams) - errors > 1000

# the generator does not read ahead: after a field was handed out, the stream sits
# right behind it (Message.load relies on this for size-delimited input)
stream = io.BytesIO(b"\x08\x01\x12\x01a\x1d\x01\x02\x03\x04rest")
gen = load_fields(stream)
assert next(gen).raw == b"\x08\x01" and stream.tell() == 2
assert next(gen).raw == b"\x12\x01a" and stream.tell() == 5
assert next(gen).raw == b"\x1d\x01\x02\x03\x04" and stream.tell() == 10


# ------------------------------------------------------------------ 3. presence after parse
F = descriptor_pb2.FieldDescriptorProto
fdp = descriptor_pb2.FileDescriptorProto(
    name="c06_keep1.proto",
    package="c06k1",
    syntax="proto3",
    dependency=["google/protobuf/wrappers.proto"],
)
sub = fdp.message_type.add(name="Sub")
sub.field.add(name="val", number=1, type=F.TYPE_INT32, label=F.LABEL_OPTIONAL)
sub.field.add(name="name", number=2, type=F.TYPE_STRING, label=F.LABEL_OPTIONAL)
m = fdp.message_type.add(name="Msg")
SCALARS = [
    ("int32", F.TYPE_INT32),
    ("int64", F.TYPE_INT64),
    ("uint32", F.TYPE_UINT32),
    ("uint64", F.TYPE_UINT64),
    ("sint32", F.TYPE_SINT32),
    ("sint64", F.TYPE_SINT64),
    ("bool", F.TYPE_BOOL),
    ("fixed32", F.TYPE_FIXED32),
    ("sfixed32", F.TYPE_SFIXED32),
    ("fixed64", F.TYPE_FIXED64),
    ("sfixed64", F.TYPE_SFIXED64),
    ("float", F.TYPE_FLOAT),
    ("double", F.TYPE_DOUBLE),
    ("string", F.TYPE_STRING),
    ("bytes", F.TYPE_BYTES),
]
m.oneof_decl.add(name="kind")  # real oneofs come before the synthetic ones
kind_index = 0
number = 0
for kind, ftype in SCALARS:
    number += 1
    m.field.add(name=f"p_{kind}", number=number, type=ftype, label=F.LABEL_OPTIONAL)
for kind, ftype in SCALARS:
    number += 1
    m.oneof_decl.add(name=f"_o_{kind}")
    m.field.add(
        name=f"o_{kind}",
        number=number,
        type=ftype,
        label=F.LABEL_OPTIONAL,
        proto3_optional=True,
        oneof_index=len(m.oneof_decl) - 1,
    )
for kind, ftype in SCALARS:
    number += 1
    m.field.add(
        name=f"g_{kind}", number=number, type=ftype, label=F.LABEL_OPTIONAL,
        oneof_index=kind_index,
    )
number += 1
m.field.add(
    name="g_sub", number=number, type=F.TYPE_MESSAGE, type_name=".c06k1.Sub",
    label=F.LABEL_OPTIONAL, oneof_index=kind_index,
)
number += 1
m.field.add(
    name="sub", number=number, type=F.TYPE_MESSAGE, type_name=".c06k1.Sub",
    label=F.LABEL_OPTIONAL,
)
number += 1
m.field.add(
    name="w_int", number=number, type=F.TYPE_MESSAGE,
    type_name=".google.protobuf.Int32Value", label=F.LABEL_OPTIONAL,
)
number += 1
m.field.add(
    name="w_str", number=number, type=F.TYPE_MESSAGE,
    type_name=".google.protobuf.StringValue", label=F.LABEL_OPTIONAL,
)
number += 1
m.field.add(name="r_int", number=number, type=F.TYPE_INT32, label=F.LABEL_REPEATED)
number += 1
m.field.add(name="r_str", number=number, type=F.TYPE_STRING, label=F.LABEL_REPEATED)
pool = descriptor_pool.Default()
pool.Add(fdp)
RefMsg = message_factory.GetMessageClass(pool.FindMessageTypeByName("c06k1.Msg"))


@dataclass(eq=False, repr=False)
class Sub(betterproto.Message):
    val: int = betterproto.int32_field(1)
    name: str = betterproto.string_field(2)


PY = {"bool": bool, "float": float, "double": float, "string": str, "bytes": bytes}
namespace = {"__annotations__": {}}
number = 0
for prefix, kwargs in (("p_", {}), ("o_", {"optional": True}), ("g_", {"group": "kind"})):
    for kind, _ in SCALARS:
        number += 1
        py = PY.get(kind, int)
        namespace["__annotations__"][prefix + kind] = Optional[py] if prefix == "o_" else py
        namespace[prefix + kind] = getattr(betterproto, kind + "_field")(number, **kwargs)
number += 1
namespace["__annotations__"]["g_sub"] = Sub
namespace["g_sub"] = betterproto.message_field(number, group="kind")
number += 1
namespace["__annotations__"]["sub"] = Sub
namespace["sub"] = betterproto.message_field(number)
number += 1
namespace["__annotations__"]["w_int"] = Optional[int]
namespace["w_int"] = betterproto.message_field(number, wraps=betterproto.TYPE_INT32)
number += 1
namespace["__annotations__"]["w_str"] = Optional[str]
namespace["w_str"] = betterproto.message_field(number, wraps=betterproto.TYPE_STRING)
number += 1
namespace["__annotations__"]["r_int"] = List[int]
namespace["r_int"] = betterproto.int32_field(number)
number += 1
namespace["__annotations__"]["r_str"] = List[str]
namespace["r_str"] = betterproto.string_field(number)
Msg = dataclass(eq=False, repr=False)(type("Msg", (betterproto.Message,), namespace))

NONDEFAULT = {"bool": True, "float": 1.5, "double": -2.25, "string": "x", "bytes": b"\x00"}
ZERO = {"bool": False, "float": 0.0, "double": 0.0, "string": "", "bytes": b""}
GROUP_MEMBERS = [f"g_{k}" for k, _ in SCALARS] + ["g_sub"]
PRESENCE_FIELDS = [f"o_{k}" for k, _ in SCALARS] + ["sub", "w_int", "w_str"]


def check_against_reference(data):
    ref = RefMsg.FromString(data)
    msg = Msg().parse(data)
    selected = ref.WhichOneof("kind")
    assert betterproto.which_one_of(msg, "kind")[0] == (selected or ""), data
    for name in GROUP_MEMBERS:
        assert msg.is_set(name) == (name == selected), (name, data)
    for name in PRESENCE_FIELDS:
        assert msg.is_set(name) == ref.HasField(name), (name, data)
    assert betterproto.serialized_on_wire(msg.sub) == ref.HasField("sub"), data
    for kind, _ in SCALARS:
        for prefix in ("p_", "o_"):
            if prefix == "o_" and not ref.HasField("o_" + kind):
                assert getattr(msg, "o_" + kind) is None
                continue
            assert getattr(msg, prefix + kind) == getattr(ref, prefix + kind), (kind, data)
    assert list(msg.r_int) == list(ref.r_int) and list(msg.r_str) == list(ref.r_str)
    # re-encoding keeps exactly what the reference sees in the original bytes
    again = RefMsg.FromString(bytes(msg))
    assert again == ref, data
    assert len(msg) == len(bytes(msg))
    return ref


# fresh message: defaults everywhere, zero bytes
fresh = Msg()
assert bytes(fresh) == b"" and len(fresh) == 0
check_against_reference(b"")

# one field at a time: default and non-default value, bytes produced by the reference
for kind, _ in SCALARS:
    for value in (ZERO.get(kind, 0), NONDEFAULT.get(kind, 3)):
        for prefix in ("p_", "o_", "g_"):
            ref = RefMsg(**{prefix + kind: value})
            check_against_reference(ref.SerializeToString())
for payload in (
    RefMsg(sub={}), RefMsg(sub={"val": 0}), RefMsg(sub={"val": 4}), RefMsg(g_sub={}),
    RefMsg(g_sub={"name": "n"}), RefMsg(w_int=wrappers_pb2.Int32Value(value=0)),
    RefMsg(w_int=wrappers_pb2.Int32Value(value=9)), RefMsg(w_str=wrappers_pb2.StringValue()),
    RefMsg(w_str=wrappers_pb2.StringValue(value="s")), RefMsg(r_int=[0]), RefMsg(r_int=[1, 2]),
    RefMsg(r_str=[""]), RefMsg(r_str=["a", ""]),
):
    check_against_reference(payload.SerializeToString())
# the reference does not emit an empty sub-message it merely mentions; force the bytes
sub_no = Msg._betterproto.meta_by_field_name["sub"].number
check_against_reference(encode_varint((sub_no << 3) | 2) + b"\x00")
check_against_reference(encode_varint((sub_no << 3) | 2) + b"\x02\x08\x00")

# random combinations, plus chunks with foreign wire types on known numbers and
# unknown numbers in between (the reference keeps those as unknown fields)
# (message-typed numbers are left out: a second occurrence of a singular message is
# merged by the reference, which is outside this property)
all_numbers = [
    meta.number
    for meta in Msg._betterproto.meta_by_field_name.values()
    if meta.proto_type != betterproto.TYPE_MESSAGE
]
for _ in range(400):
    kwargs = {}
    for kind, _t in SCALARS:
        for prefix in ("p_", "o_"):
            r = rng.random()
            if r < 0.15:
                kwargs[prefix + kind] = ZERO.get(kind, 0)
            elif r < 0.3:
                kwargs[prefix + kind] = NONDEFAULT.get(kind, rng.randrange(1, 100))
    r = rng.random()
    if r < 0.7:
        member = rng.choice(GROUP_MEMBERS)
        if member == "g_sub":
            kwargs[member] = rng.choice([{}, {"val": 1}])
        else:
            kind = member[2:]
            kwargs[member] = rng.choice([ZERO.get(kind, 0), NONDEFAULT.get(kind, 5)])
    if rng.random() < 0.4:
        kwargs["sub"] = rng.choice([{}, {"val": 0}, {"name": "q"}])
    if rng.random() < 0.3:
        kwargs["w_int"] = wrappers_pb2.Int32Value(value=rng.choice([0, 1]))
    if rng.random() < 0.3:
        kwargs["r_int"] = [rng.randrange(3) for _ in range(rng.randrange(3))]
    chunks = [RefMsg(**kwargs).SerializeToString()]
    for _ in range(rng.randrange(3)):
        number = rng.choice(all_numbers + [900, 901])
        wire = rng.choice([0, 1, 2, 5])
        tag = encode_varint((number << 3) | wire)
        body = {0: b"\x00", 1: b"\x00" * 8, 2: b"\x00", 5: b"\x00" * 4}[wire]
        # a length-delimited zero byte is a valid (empty-ish) payload for every
        # length-delimited kind; for other kinds it is a foreign wire type
        chunks.append(tag + body)
    rng.shuffle(chunks)
    check_against_reference(b"".join(chunks))

print("OK")
