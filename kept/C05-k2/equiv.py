"""C05 keep2: Message.from_json / from_dict (_from_dict_init) must accept the JSON text the
reference implementation (google.protobuf.json_format.MessageToJson) emits and yield the
same message, for every kind of field: all scalar types singular / repeated / optional /
in a oneof, enums (by name, unknown numbers as numbers), nested messages, wrappers,
Timestamp, Duration, and maps with every key kind and many value kinds.  The opposite
direction (to_json -> json_format.Parse) is checked on the same values."""
import json
import math
import random
import struct
from dataclasses import dataclass
from datetime import datetime, timedelta, timezone
from typing import Dict, List, Optional

import betterproto
from google.protobuf import (  # noqa: F401  (the imports register the WKT files)
    descriptor_pb2,
    descriptor_pool,
    duration_pb2,
    json_format,
    message_factory,
    timestamp_pb2,
    wrappers_pb2,
)

F = descriptor_pb2.FieldDescriptorProto
UTC = timezone.utc
rng = random.Random(50502)

SCALARS = [
    ("int32", F.TYPE_INT32),
    ("int64", F.TYPE_INT64),
    ("uint32", F.TYPE_UINT32),
    ("uint64", F.TYPE_UINT64),
    ("sint32", F.TYPE_SINT32),
    ("sint64", F.TYPE_SINT64),
    ("fixed32", F.TYPE_FIXED32),
    ("fixed64", F.TYPE_FIXED64),
    ("sfixed32", F.TYPE_SFIXED32),
    ("sfixed64", F.TYPE_SFIXED64),
    ("float", F.TYPE_FLOAT),
    ("double", F.TYPE_DOUBLE),
    ("bool", F.TYPE_BOOL),
    ("string", F.TYPE_STRING),
    ("bytes", F.TYPE_BYTES),
]
SCALAR_TYPE = dict(SCALARS)
WRAPPERS = [
    ("bool", "BoolValue"),
    ("bytes", "BytesValue"),
    ("double", "DoubleValue"),
    ("float", "FloatValue"),
    ("int32", "Int32Value"),
    ("int64", "Int64Value"),
    ("string", "StringValue"),
    ("uint32", "UInt32Value"),
    ("uint64", "UInt64Value"),
]
# (field name, key type, value kind)
MAPS = [
    ("m_string_int64", "string", "int64"),
    ("m_int32_string", "int32", "string"),
    ("m_int64_bytes", "int64", "bytes"),
    ("m_bool_double", "bool", "double"),
    ("m_string_enum", "string", "enum"),
    ("m_string_inner", "string", "inner"),
    ("m_string_ts", "string", "ts"),
    ("m_string_dur", "string", "dur"),
    ("m_uint64_sfixed64", "uint64", "sfixed64"),
    ("m_string_float", "string", "float"),
    ("m_sint32_fixed64", "sint32", "fixed64"),
    ("m_fixed32_sint64", "fixed32", "sint64"),
    ("m_sfixed64_uint64", "sfixed64", "uint64"),
    ("m_uint32_bool", "uint32", "bool"),
    ("m_sint64_int32", "sint64", "int32"),
]
ONEOF = [
    ("o_int64", "int64"),
    ("o_enum", "enum"),
    ("o_inner", "inner"),
    ("o_bytes", "bytes"),
    ("o_double", "double"),
    ("o_dur", "dur"),
    ("o_ts", "ts"),
    ("o_sfixed64", "sfixed64"),
]
OPTIONALS = [
    ("opt_int64", "int64"),
    ("opt_enum", "enum"),
    ("opt_double", "double"),
    ("opt_bytes", "bytes"),
    ("opt_fixed64", "fixed64"),
    ("opt_float", "float"),
]

# ---------------------------------------------------------------------------------------
# reference schema
# ---------------------------------------------------------------------------------------
PKG = "c05keep2"
fdp = descriptor_pb2.FileDescriptorProto(
    name="c05_keep2.proto",
    package=PKG,
    syntax="proto3",
    dependency=[
        "google/protobuf/timestamp.proto",
        "google/protobuf/duration.proto",
        "google/protobuf/wrappers.proto",
    ],
)
enum = fdp.enum_type.add(name="Color")
for ename, enumber in [("ZERO", 0), ("RED", 1), ("GREEN", 2), ("NEG", -1), ("DEEP_BLUE", 7)]:
    enum.value.add(name=ename, number=enumber)
inner = fdp.message_type.add(name="Inner")
inner.field.add(name="a", number=1, type=F.TYPE_INT32, label=F.LABEL_OPTIONAL)
inner.field.add(name="s", number=2, type=F.TYPE_STRING, label=F.LABEL_OPTIONAL)
inner.field.add(name="big_num", number=3, type=F.TYPE_INT64, label=F.LABEL_OPTIONAL)
inner.field.add(name="nums", number=4, type=F.TYPE_SFIXED64, label=F.LABEL_REPEATED)

allm = fdp.message_type.add(name="All")


def add_field(name, number, kind, label=F.LABEL_OPTIONAL, **kw):
    if kind == "enum":
        return allm.field.add(name=name, number=number, type=F.TYPE_ENUM, label=label,
                              type_name=f".{PKG}.Color", **kw)
    type_name = {
        "inner": f".{PKG}.Inner",
        "ts": ".google.protobuf.Timestamp",
        "dur": ".google.protobuf.Duration",
    }.get(kind)
    if type_name is None and kind.startswith("."):
        type_name = kind
    if type_name is not None:
        return allm.field.add(name=name, number=number, type=F.TYPE_MESSAGE, label=label,
                              type_name=type_name, **kw)
    return allm.field.add(name=name, number=number, type=SCALAR_TYPE[kind], label=label, **kw)


KINDS = [k for k, _ in SCALARS] + ["enum", "inner", "ts", "dur"]
for i, kind in enumerate(KINDS):
    add_field(f"f_{kind}", 1 + i, kind)
    add_field(f"r_{kind}", 21 + i, kind, label=F.LABEL_REPEATED)
for i, (kind, wname) in enumerate(WRAPPERS):
    add_field(f"w_{kind}", 41 + i, f".google.protobuf.{wname}")
add_field("rw_int64", 51, ".google.protobuf.Int64Value", label=F.LABEL_REPEATED)
add_field("rw_bytes", 52, ".google.protobuf.BytesValue", label=F.LABEL_REPEATED)
add_field("rw_double", 53, ".google.protobuf.DoubleValue", label=F.LABEL_REPEATED)
for i, (name, ktype, vkind) in enumerate(MAPS):
    ename = "".join(p.capitalize() for p in name.split("_")) + "Entry"
    entry = allm.nested_type.add(name=ename)
    entry.options.map_entry = True
    entry.field.add(name="key", number=1, type=SCALAR_TYPE[ktype], label=F.LABEL_OPTIONAL)
    if vkind == "enum":
        entry.field.add(name="value", number=2, type=F.TYPE_ENUM, label=F.LABEL_OPTIONAL,
                        type_name=f".{PKG}.Color")
    elif vkind in ("inner", "ts", "dur"):
        entry.field.add(
            name="value", number=2, type=F.TYPE_MESSAGE, label=F.LABEL_OPTIONAL,
            type_name={"inner": f".{PKG}.Inner", "ts": ".google.protobuf.Timestamp",
                       "dur": ".google.protobuf.Duration"}[vkind],
        )
    else:
        entry.field.add(name="value", number=2, type=SCALAR_TYPE[vkind], label=F.LABEL_OPTIONAL)
    add_field(name, 61 + i, f".{PKG}.All.{ename}", label=F.LABEL_REPEATED)
allm.oneof_decl.add(name="choice")
for i, (name, kind) in enumerate(ONEOF):
    add_field(name, 81 + i, kind, oneof_index=0)
for i, (name, kind) in enumerate(OPTIONALS):
    allm.oneof_decl.add(name=f"_{name}")
    add_field(name, 91 + i, kind, oneof_index=1 + i, proto3_optional=True)
add_field("address_line_1", 99, "string")
add_field("x_2_y", 100, "int64")

pool = descriptor_pool.Default()
pool.Add(fdp)
RefAll = message_factory.GetMessageClass(pool.FindMessageTypeByName(f"{PKG}.All"))


# ---------------------------------------------------------------------------------------
# the same schema for betterproto
# ---------------------------------------------------------------------------------------
class Color(betterproto.Enum):
    ZERO = 0
    RED = 1
    GREEN = 2
    NEG = -1
    DEEP_BLUE = 7


@dataclass(eq=False, repr=False)
class Inner(betterproto.Message):
    a: int = betterproto.int32_field(1)
    s: str = betterproto.string_field(2)
    big_num: int = betterproto.int64_field(3)
    nums: List[int] = betterproto.sfixed64_field(4)


B = betterproto


@dataclass(eq=False, repr=False)
class All(betterproto.Message):
    f_int32: int = B.int32_field(1)
    f_int64: int = B.int64_field(2)
    f_uint32: int = B.uint32_field(3)
    f_uint64: int = B.uint64_field(4)
    f_sint32: int = B.sint32_field(5)
    f_sint64: int = B.sint64_field(6)
    f_fixed32: int = B.fixed32_field(7)
    f_fixed64: int = B.fixed64_field(8)
    f_sfixed32: int = B.sfixed32_field(9)
    f_sfixed64: int = B.sfixed64_field(10)
    f_float: float = B.float_field(11)
    f_double: float = B.double_field(12)
    f_bool: bool = B.bool_field(13)
    f_string: str = B.string_field(14)
    f_bytes: bytes = B.bytes_field(15)
    f_enum: Color = B.enum_field(16)
    f_inner: Inner = B.message_field(17)
    f_ts: datetime = B.message_field(18)
    f_dur: timedelta = B.message_field(19)

    r_int32: List[int] = B.int32_field(21)
    r_int64: List[int] = B.int64_field(22)
    r_uint32: List[int] = B.uint32_field(23)
    r_uint64: List[int] = B.uint64_field(24)
    r_sint32: List[int] = B.sint32_field(25)
    r_sint64: List[int] = B.sint64_field(26)
    r_fixed32: List[int] = B.fixed32_field(27)
    r_fixed64: List[int] = B.fixed64_field(28)
    r_sfixed32: List[int] = B.sfixed32_field(29)
    r_sfixed64: List[int] = B.sfixed64_field(30)
    r_float: List[float] = B.float_field(31)
    r_double: List[float] = B.double_field(32)
    r_bool: List[bool] = B.bool_field(33)
    r_string: List[str] = B.string_field(34)
    r_bytes: List[bytes] = B.bytes_field(35)
    r_enum: List[Color] = B.enum_field(36)
    r_inner: List[Inner] = B.message_field(37)
    r_ts: List[datetime] = B.message_field(38)
    r_dur: List[timedelta] = B.message_field(39)

    w_bool: Optional[bool] = B.message_field(41, wraps=B.TYPE_BOOL)
    w_bytes: Optional[bytes] = B.message_field(42, wraps=B.TYPE_BYTES)
    w_double: Optional[float] = B.message_field(43, wraps=B.TYPE_DOUBLE)
    w_float: Optional[float] = B.message_field(44, wraps=B.TYPE_FLOAT)
    w_int32: Optional[int] = B.message_field(45, wraps=B.TYPE_INT32)
    w_int64: Optional[int] = B.message_field(46, wraps=B.TYPE_INT64)
    w_string: Optional[str] = B.message_field(47, wraps=B.TYPE_STRING)
    w_uint32: Optional[int] = B.message_field(48, wraps=B.TYPE_UINT32)
    w_uint64: Optional[int] = B.message_field(49, wraps=B.TYPE_UINT64)
    rw_int64: List[int] = B.message_field(51, wraps=B.TYPE_INT64)
    rw_bytes: List[bytes] = B.message_field(52, wraps=B.TYPE_BYTES)
    rw_double: List[float] = B.message_field(53, wraps=B.TYPE_DOUBLE)

    m_string_int64: Dict[str, int] = B.map_field(61, B.TYPE_STRING, B.TYPE_INT64)
    m_int32_string: Dict[int, str] = B.map_field(62, B.TYPE_INT32, B.TYPE_STRING)
    m_int64_bytes: Dict[int, bytes] = B.map_field(63, B.TYPE_INT64, B.TYPE_BYTES)
    m_bool_double: Dict[bool, float] = B.map_field(64, B.TYPE_BOOL, B.TYPE_DOUBLE)
    m_string_enum: Dict[str, Color] = B.map_field(65, B.TYPE_STRING, B.TYPE_ENUM)
    m_string_inner: Dict[str, Inner] = B.map_field(66, B.TYPE_STRING, B.TYPE_MESSAGE)
    m_string_ts: Dict[str, datetime] = B.map_field(67, B.TYPE_STRING, B.TYPE_MESSAGE)
    m_string_dur: Dict[str, timedelta] = B.map_field(68, B.TYPE_STRING, B.TYPE_MESSAGE)
    m_uint64_sfixed64: Dict[int, int] = B.map_field(69, B.TYPE_UINT64, B.TYPE_SFIXED64)
    m_string_float: Dict[str, float] = B.map_field(70, B.TYPE_STRING, B.TYPE_FLOAT)
    m_sint32_fixed64: Dict[int, int] = B.map_field(71, B.TYPE_SINT32, B.TYPE_FIXED64)
    m_fixed32_sint64: Dict[int, int] = B.map_field(72, B.TYPE_FIXED32, B.TYPE_SINT64)
    m_sfixed64_uint64: Dict[int, int] = B.map_field(73, B.TYPE_SFIXED64, B.TYPE_UINT64)
    m_uint32_bool: Dict[int, bool] = B.map_field(74, B.TYPE_UINT32, B.TYPE_BOOL)
    m_sint64_int32: Dict[int, int] = B.map_field(75, B.TYPE_SINT64, B.TYPE_INT32)

    o_int64: int = B.int64_field(81, group="choice")
    o_enum: Color = B.enum_field(82, group="choice")
    o_inner: Inner = B.message_field(83, group="choice")
    o_bytes: bytes = B.bytes_field(84, group="choice")
    o_double: float = B.double_field(85, group="choice")
    o_dur: timedelta = B.message_field(86, group="choice")
    o_ts: datetime = B.message_field(87, group="choice")
    o_sfixed64: int = B.sfixed64_field(88, group="choice")

    opt_int64: Optional[int] = B.int64_field(91, optional=True, group="_opt_int64")
    opt_enum: Optional[Color] = B.enum_field(92, optional=True, group="_opt_enum")
    opt_double: Optional[float] = B.double_field(93, optional=True, group="_opt_double")
    opt_bytes: Optional[bytes] = B.bytes_field(94, optional=True, group="_opt_bytes")
    opt_fixed64: Optional[int] = B.fixed64_field(95, optional=True, group="_opt_fixed64")
    opt_float: Optional[float] = B.float_field(96, optional=True, group="_opt_float")

    address_line_1: str = B.string_field(99)
    x_2_y: int = B.int64_field(100)


# ---------------------------------------------------------------------------------------
# value generators (always with the boundary values first)
# ---------------------------------------------------------------------------------------
def f32(x: float) -> float:
    return struct.unpack("<f", struct.pack("<f", x))[0]


INF = float("inf")
NAN = float("nan")
POOL = {
    "int32": [0, 1, -1, 2**31 - 1, -(2**31), 123456],
    "int64": [0, 1, -1, 2**63 - 1, -(2**63), 2**53, 2**53 + 1, -(2**53) - 1],
    "uint32": [0, 1, 2**32 - 1, 2**31],
    "uint64": [0, 1, 2**64 - 1, 2**63, 2**53 + 1],
    "sint32": [0, 1, -1, 2**31 - 1, -(2**31)],
    "sint64": [0, 1, -1, 2**63 - 1, -(2**63), 2**53 + 1],
    "fixed32": [0, 1, 2**32 - 1],
    "fixed64": [0, 1, 2**64 - 1, 2**53 + 1],
    "sfixed32": [0, 1, -1, 2**31 - 1, -(2**31)],
    "sfixed64": [0, 1, -1, 2**63 - 1, -(2**63), 2**53 + 1],
    "float": [0.0, 1.0, -1.5, INF, -INF, NAN, f32(0.1), f32(3.4028234663852886e38),
              f32(1e-45), f32(-2.5e-5), 16777216.0, f32(1e10)],
    "double": [0.0, 1.0, -1.5, INF, -INF, NAN, 0.1, 1e-7, 5e-324, 1.7976931348623157e308,
               -1e22, 1e16, 123456789.123456789, 2.0**53],
    "bool": [False, True],
    "string": ["", "a", "héllo wörld", "☃ \U0001f600", 'quo"te\\back\nnl', "Infinity", "0"],
    "bytes": [b"", b"\x00", b"\xff\xfe\xfd", b"\xfb\xff\xbf", b"abc", b"abcd", b"abcde",
              bytes(range(256))],
    "enum": [Color.ZERO, Color.RED, Color.GREEN, Color.NEG, Color.DEEP_BLUE],
}
DATETIMES = [
    datetime(1970, 1, 1, tzinfo=UTC),
    datetime(1, 1, 1, tzinfo=UTC),
    datetime(9999, 12, 31, 23, 59, 59, 999999, tzinfo=UTC),
    datetime(1969, 12, 31, 23, 59, 59, 999999, tzinfo=UTC),
    datetime(1970, 1, 1, 0, 0, 0, 1, tzinfo=UTC),
    datetime(2023, 10, 11, 9, 41, 12, 123000, tzinfo=UTC),
    datetime(2038, 1, 19, 3, 14, 8, 500000, tzinfo=UTC),
    datetime(999, 12, 31, 23, 59, 59, tzinfo=UTC),
]
DURATIONS = [
    timedelta(0),
    timedelta(microseconds=1),
    timedelta(microseconds=-1),
    timedelta(seconds=1),
    timedelta(seconds=-1, microseconds=-500000),
    timedelta(milliseconds=1500),
    timedelta(seconds=315576000000),
    timedelta(seconds=-315576000000),
    timedelta(seconds=315575999999, microseconds=999999),
    timedelta(days=1, microseconds=123456),
    timedelta(microseconds=-100),
]


def value_of(kind: str, boundary_index: Optional[int] = None):
    if kind == "inner":
        return Inner(
            a=rng.choice(POOL["int32"]),
            s=rng.choice(POOL["string"]),
            big_num=rng.choice(POOL["int64"]),
            nums=[rng.choice(POOL["sfixed64"]) for _ in range(rng.randrange(0, 3))],
        )
    if kind == "ts":
        choices = DATETIMES
    elif kind == "dur":
        choices = DURATIONS
    else:
        choices = POOL[kind]
    if boundary_index is not None:
        return choices[boundary_index % len(choices)]
    if rng.random() < 0.5:
        return rng.choice(choices)
    if kind in ("int32", "sint32", "sfixed32"):
        return rng.randrange(-(2**31), 2**31)
    if kind in ("int64", "sint64", "sfixed64"):
        return rng.randrange(-(2**63), 2**63)
    if kind in ("uint32", "fixed32"):
        return rng.randrange(0, 2**32)
    if kind in ("uint64", "fixed64"):
        return rng.randrange(0, 2**64)
    if kind == "float":
        return f32(rng.uniform(-1e6, 1e6))
    if kind == "double":
        return rng.uniform(-1e12, 1e12) * 10 ** rng.randrange(-20, 20)
    if kind == "string":
        return "".join(rng.choice("abcXYZ09 _-/+é中") for _ in range(rng.randrange(0, 12)))
    if kind == "bytes":
        return bytes(rng.randrange(256) for _ in range(rng.randrange(0, 20)))
    if kind == "ts":
        return datetime(1, 1, 1, tzinfo=UTC) + timedelta(
            seconds=rng.randrange(0, 315537897599), microseconds=rng.choice([0, 1000, 999999, 123456, 120000])
        )
    if kind == "dur":
        return timedelta(
            seconds=rng.randrange(-315576000000, 315576000000),
            microseconds=rng.choice([0, 1000, 999999, 123456, 120000]),
        )
    return rng.choice(choices)


def key_of(ktype: str, j: int):
    if ktype == "string":
        return ["", "a", "k 1", "true", "1", "ключ"][j % 6] + ("" if j < 6 else str(j))
    if ktype == "bool":
        return bool(j % 2)
    return value_of(ktype, j) if j < len(POOL[ktype]) else value_of(ktype)


def nonzero(kind: str, v) -> bool:
    """proto3 implicit presence: the value that is not sent (and -0.0, which the two
    implementations treat differently and which this script leaves out)."""
    if kind in ("float", "double"):
        return v != 0 or math.isnan(v)
    if kind == "enum":
        return int(v) != 0
    if kind in ("ts", "dur", "inner"):
        return True
    return bool(v) or v is True


def build(i: int) -> dict:
    kw = {}
    for kind in KINDS:
        if rng.random() < 0.45 or i < 16:
            v = value_of(kind, i if i < 16 else None)
            if kind in ("ts", "dur", "inner") or nonzero(kind, v):
                kw[f"f_{kind}"] = v
        if rng.random() < 0.35 or i < 16:
            n = rng.randrange(1, 5)
            kw[f"r_{kind}"] = [
                value_of(kind, (i + j) if i < 16 else None) for j in range(n)
            ]
    for kind, _ in WRAPPERS:
        if rng.random() < 0.4 or i < 16:
            kw[f"w_{kind}"] = value_of(kind, i if i < 16 else None)
    for name, kind in (("rw_int64", "int64"), ("rw_bytes", "bytes"), ("rw_double", "double")):
        if rng.random() < 0.3:
            kw[name] = [value_of(kind) for _ in range(rng.randrange(1, 4))]
    for name, ktype, vkind in MAPS:
        if rng.random() < 0.4 or i < 16:
            n = rng.randrange(1, 5)
            kw[name] = {
                key_of(ktype, i + j if i < 16 else rng.randrange(12)): value_of(
                    vkind, (i + j) if i < 16 else None
                )
                for j in range(n)
            }
    if i % 9 != 8:
        name, kind = ONEOF[i % len(ONEOF)]
        # includes set-to-default oneof members (boundary index 0)
        kw[name] = value_of(kind, (i // len(ONEOF)) if i < 64 else None)
    for j, (name, kind) in enumerate(OPTIONALS):
        if (i + j) % 3 == 0:
            kw[name] = value_of(kind, (i // 3) if i < 48 else None)
    if i % 2:
        kw["address_line_1"] = value_of("string") or "x"
    if i % 4 == 1:
        kw["x_2_y"] = value_of("int64") or 1
    return kw


def canon(data: bytes) -> bytes:
    return RefAll.FromString(data).SerializeToString(deterministic=True)


def same_json(a, b) -> bool:
    """JSON equality where numbers compare by value (1 == 1.0) and NaN strings match."""
    if isinstance(a, dict) and isinstance(b, dict):
        return a.keys() == b.keys() and all(same_json(a[k], b[k]) for k in a)
    if isinstance(a, list) and isinstance(b, list):
        return len(a) == len(b) and all(same_json(x, y) for x, y in zip(a, b))
    if isinstance(a, bool) or isinstance(b, bool):
        return a is b
    return a == b


N = 700
for i in range(N):
    kwargs = build(i)
    bp = All(**kwargs)
    wire = bytes(bp)
    ref = RefAll.FromString(wire)
    ref_wire = ref.SerializeToString(deterministic=True)

    # reference -> JSON -> betterproto (class-level from_json/from_dict and instance-level)
    ref_text = json_format.MessageToJson(ref)
    back = All().from_json(ref_text)
    assert canon(bytes(back)) == ref_wire, (i, ref_text)
    back2 = All.from_dict(json.loads(ref_text))
    assert canon(bytes(back2)) == ref_wire, (i, ref_text)
    # ... also with the original proto field names as keys
    ref_text_snake = json_format.MessageToJson(ref, preserving_proto_field_name=True)
    back3 = All().from_json(ref_text_snake)
    assert canon(bytes(back3)) == ref_wire, (i, ref_text_snake)

    # the parsed values have the right Python types
    for name, value in kwargs.items():
        got = getattr(back, name)
        if isinstance(value, list):
            assert isinstance(got, list) and len(got) == len(value), name
            for g, v in zip(got, value):
                assert type(g) is type(v) or isinstance(v, (datetime, Color)), (name, g, v)
        elif isinstance(value, dict):
            assert isinstance(got, dict) and len(got) == len(value), (name, got, value)
            for k in value:
                assert k in got, (name, k, got)
                assert type(got[k]) is type(value[k]) or isinstance(value[k], (datetime, Color)), (name, k)
        elif isinstance(value, (int, str, bytes)) and not isinstance(value, (bool, Color)):
            assert got == value and type(got) is type(value), (name, got, value)

    # betterproto -> JSON -> reference
    text = bp.to_json()
    parsed = json_format.Parse(text, RefAll())
    assert parsed.SerializeToString(deterministic=True) == ref_wire, (i, text)
    # and betterproto reads back its own text
    own = All().from_json(text)
    assert canon(bytes(own)) == ref_wire, (i, text)

# ---------------------------------------------------------------------------------------
# hand-written canonical JSON for the corner forms
# ---------------------------------------------------------------------------------------
# (a singular Timestamp / Duration field outside a oneof that holds the zero value is not
# distinguishable from an absent one in betterproto, so none is used here)
HAND = [
    '{"fEnum": 2, "rEnum": ["RED", 2, "NEG", 7, 0], "mStringEnum": {"a": "DEEP_BLUE", "b": 1}}',
    '{"fEnum": "DEEP_BLUE", "oEnum": "ZERO", "optEnum": "ZERO"}',
    '{"fInt64": "-9223372036854775808", "rInt64": ["1", "-1", "9223372036854775807"], "oInt64": "0"}',
    '{"fUint64": "18446744073709551615", "rFixed64": ["18446744073709551615", "0"]}',
    '{"fFloat": "NaN", "rFloat": ["Infinity", "-Infinity", 1.5, 0], "fDouble": "-Infinity", "rDouble": ["NaN", 1e300]}',
    '{"wDouble": "Infinity", "wFloat": "NaN", "rwDouble": ["-Infinity", 2.5], "oDouble": 0}',
    '{"fBytes": "+/+/", "rBytes": ["", "AA==", "//79"], "wBytes": "", "oBytes": "", "optBytes": ""}',
    '{"mInt64Bytes": {"-9223372036854775808": "AA==", "5": ""}, "mBoolDouble": {"true": "NaN", "false": 0.5}}',
    '{"mUint64Sfixed64": {"18446744073709551615": "-1", "0": "0"}, "mSint32Fixed64": {"-1": "18446744073709551615"}}',
    '{"mFixed32Sint64": {"4294967295": "-9223372036854775808"}, "mSfixed64Uint64": {"-1": "1"}, "mUint32Bool": {"0": false, "1": true}}',
    '{"fTs": "1970-01-01T00:00:01Z", "rTs": ["0001-01-01T00:00:00Z", "9999-12-31T23:59:59.999999Z", "2000-01-01T00:00:00.120Z"]}',
    '{"fDur": "0.001s", "rDur": ["-1.500s", "1s", "0.000001s", "-315576000000s", "3.000001s"], "oDur": "0s"}',
    '{"mStringTs": {"a": "1969-12-31T23:59:59.999999Z"}, "mStringDur": {"a": "-0.000001s", "": "1.5s"}}',
    '{"fInner": {}, "rInner": [{}, {"a": 1, "bigNum": "-5", "nums": ["1", "-2"]}], "mStringInner": {"x": {}, "y": {"s": "t"}}, "oInner": {}}',
    '{"wBool": false, "wInt32": 0, "wInt64": "0", "wString": "", "wUint32": 0, "wUint64": "0", "rwInt64": ["0", "-1"], "rwBytes": ["", "/w=="]}',
    '{"optInt64": "0", "optDouble": 0, "optFixed64": "0", "optFloat": "-Infinity", "addressLine1": "x", "x2Y": "7"}',
    '{"fInt32": null, "rInt64": null, "fInner": null, "mStringInt64": null, "oSfixed64": "0"}',
    '{"oTs": "1970-01-01T00:00:00Z"}',
    '{}',
]
for text in HAND:
    ref = json_format.Parse(text, RefAll())
    ref_wire = ref.SerializeToString(deterministic=True)
    for got in (All().from_json(text), All.from_dict(json.loads(text))):
        assert canon(bytes(got)) == ref_wire, text
    # the text each side emits for it is read identically by the other side
    again = All().from_json(json_format.MessageToJson(ref))
    assert canon(bytes(again)) == ref_wire, text
    reparsed = json_format.Parse(All().from_json(text).to_json(), RefAll())
    assert reparsed.SerializeToString(deterministic=True) == ref_wire, text

# unknown keys are skipped, known keys are still found
got = All().from_json('{"noSuchField": 1, "fInt32": 5, "no_such_field": {"a": []}}')
assert got.f_int32 == 5 and bytes(got) == bytes(All(f_int32=5))

print(f"C05 keep2 equiv: OK ({N} random messages, {len(HAND)} hand-written texts)")
