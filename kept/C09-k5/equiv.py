"""C09 equivalence check for the field-selection logic of Message.dump / Message.__len__.

For many message values (ordinary, empty-but-present oneof / optional / nested members,
wrappers, timestamps, repeated, maps, unknown fields, in-place mutation, oneof switching):
  * len(m) == len(bytes(m)), dump(stream) == bytes(m),
    dump(stream, SIZE_DELIMITED) == varint(len) + bytes(m), SerializeToString() == bytes(m)
  * bytes(m) is compared byte-for-byte against google.protobuf for the same schema/value,
    and against hand-written golden encodings for the corner cases.
Runs in a few seconds; exits 0 on success.
"""
import random
from dataclasses import dataclass
from datetime import datetime, timedelta, timezone
from io import BytesIO
from typing import Dict, List, Optional

from google.protobuf import descriptor_pb2, descriptor_pool, message_factory
from google.protobuf import duration_pb2, timestamp_pb2, wrappers_pb2  # noqa: F401

import betterproto

FD = descriptor_pb2.FieldDescriptorProto


# --------------------------------------------------------------------------- betterproto side
class Color(betterproto.Enum):
    ZERO = 0
    RED = 1
    BLUE = 300


@dataclass(eq=False, repr=False)
class Inner(betterproto.Message):
    n: int = betterproto.uint32_field(1)
    s: str = betterproto.string_field(2)


@dataclass(eq=False, repr=False)
class Nothing(betterproto.Message):
    pass


@dataclass(eq=False, repr=False)
class M(betterproto.Message):
    a: int = betterproto.int32_field(1)
    s: str = betterproto.string_field(2)
    b: bytes = betterproto.bytes_field(3)
    inner: Inner = betterproto.message_field(4)
    c_str: str = betterproto.string_field(5, group="choice")
    c_bytes: bytes = betterproto.bytes_field(6, group="choice")
    c_int: int = betterproto.int32_field(7, group="choice")
    c_msg: Inner = betterproto.message_field(8, group="choice")
    c_enum: Color = betterproto.enum_field(9, group="choice")
    c_bool: bool = betterproto.bool_field(10, group="choice")
    c_dbl: float = betterproto.double_field(11, group="choice")
    c_nothing: Nothing = betterproto.message_field(12, group="choice")
    o_str: Optional[str] = betterproto.string_field(13, optional=True)
    o_bytes: Optional[bytes] = betterproto.bytes_field(14, optional=True)
    o_int: Optional[int] = betterproto.int32_field(15, optional=True)
    o_msg: Optional[Inner] = betterproto.message_field(16, optional=True)
    o_enum: Optional[Color] = betterproto.enum_field(17, optional=True)
    o_dbl: Optional[float] = betterproto.double_field(18, optional=True)
    nums: List[int] = betterproto.uint32_field(19)
    strs: List[str] = betterproto.string_field(20)
    inners: List[Inner] = betterproto.message_field(21)
    table: Dict[str, int] = betterproto.map_field(
        22, betterproto.TYPE_STRING, betterproto.TYPE_UINT32
    )
    mtable: Dict[int, Inner] = betterproto.map_field(
        23, betterproto.TYPE_UINT32, betterproto.TYPE_MESSAGE
    )
    color: Color = betterproto.enum_field(24)
    w_str: Optional[str] = betterproto.message_field(25, wraps=betterproto.TYPE_STRING)
    w_int: Optional[int] = betterproto.message_field(26, wraps=betterproto.TYPE_INT32)
    ts: datetime = betterproto.message_field(27)
    dur: timedelta = betterproto.message_field(28)
    d: float = betterproto.double_field(29)
    e: Nothing = betterproto.message_field(30)
    second_a: str = betterproto.string_field(31, group="second")
    second_b: int = betterproto.sint64_field(32, group="second")
    far: str = betterproto.string_field(5000, group="third")
    far2: Inner = betterproto.message_field(5001, group="third")


@dataclass(eq=False, repr=False)
class PydanticStyle(betterproto.Message):
    """oneof members that are also flagged optional (as the pydantic flavour generates)."""

    x: Optional[str] = betterproto.string_field(1, optional=True, group="g")
    y: Optional[int] = betterproto.int32_field(2, optional=True, group="g")
    z: Optional[Inner] = betterproto.message_field(3, optional=True, group="g")
    plain: str = betterproto.string_field(4)


# --------------------------------------------------------------------------- google side
def build_google():
    f = descriptor_pb2.FileDescriptorProto(
        name="c09_keep1.proto", package="c09k1", syntax="proto3"
    )
    f.dependency.extend(
        [
            "google/protobuf/wrappers.proto",
            "google/protobuf/timestamp.proto",
            "google/protobuf/duration.proto",
        ]
    )
    en = f.enum_type.add(name="Color")
    for name, num in (("ZERO", 0), ("RED", 1), ("BLUE", 300)):
        en.value.add(name=name, number=num)
    inner = f.message_type.add(name="Inner")
    inner.field.add(name="n", number=1, type=FD.TYPE_UINT32, label=FD.LABEL_OPTIONAL)
    inner.field.add(name="s", number=2, type=FD.TYPE_STRING, label=FD.LABEL_OPTIONAL)
    f.message_type.add(name="Nothing")
    m = f.message_type.add(name="M")
    for name in ("choice", "second", "third"):
        m.oneof_decl.add(name=name)

    def add(name, number, typ, type_name=None, label=FD.LABEL_OPTIONAL, oneof=None,
            optional=False):
        fld = m.field.add(name=name, number=number, type=typ, label=label)
        if type_name:
            fld.type_name = type_name
        if oneof is not None:
            fld.oneof_index = oneof
        if optional:
            m.oneof_decl.add(name="_" + name)
            fld.oneof_index = len(m.oneof_decl) - 1
            fld.proto3_optional = True
        return fld

    add("a", 1, FD.TYPE_INT32)
    add("s", 2, FD.TYPE_STRING)
    add("b", 3, FD.TYPE_BYTES)
    add("inner", 4, FD.TYPE_MESSAGE, ".c09k1.Inner")
    add("c_str", 5, FD.TYPE_STRING, oneof=0)
    add("c_bytes", 6, FD.TYPE_BYTES, oneof=0)
    add("c_int", 7, FD.TYPE_INT32, oneof=0)
    add("c_msg", 8, FD.TYPE_MESSAGE, ".c09k1.Inner", oneof=0)
    add("c_enum", 9, FD.TYPE_ENUM, ".c09k1.Color", oneof=0)
    add("c_bool", 10, FD.TYPE_BOOL, oneof=0)
    add("c_dbl", 11, FD.TYPE_DOUBLE, oneof=0)
    add("c_nothing", 12, FD.TYPE_MESSAGE, ".c09k1.Nothing", oneof=0)
    add("o_str", 13, FD.TYPE_STRING, optional=True)
    add("o_bytes", 14, FD.TYPE_BYTES, optional=True)
    add("o_int", 15, FD.TYPE_INT32, optional=True)
    add("o_msg", 16, FD.TYPE_MESSAGE, ".c09k1.Inner", optional=True)
    add("o_enum", 17, FD.TYPE_ENUM, ".c09k1.Color", optional=True)
    add("o_dbl", 18, FD.TYPE_DOUBLE, optional=True)
    add("nums", 19, FD.TYPE_UINT32, label=FD.LABEL_REPEATED)
    add("strs", 20, FD.TYPE_STRING, label=FD.LABEL_REPEATED)
    add("inners", 21, FD.TYPE_MESSAGE, ".c09k1.Inner", label=FD.LABEL_REPEATED)
    te = m.nested_type.add(name="TableEntry")
    te.options.map_entry = True
    te.field.add(name="key", number=1, type=FD.TYPE_STRING, label=FD.LABEL_OPTIONAL)
    te.field.add(name="value", number=2, type=FD.TYPE_UINT32, label=FD.LABEL_OPTIONAL)
    add("table", 22, FD.TYPE_MESSAGE, ".c09k1.M.TableEntry", label=FD.LABEL_REPEATED)
    me = m.nested_type.add(name="MtableEntry")
    me.options.map_entry = True
    me.field.add(name="key", number=1, type=FD.TYPE_UINT32, label=FD.LABEL_OPTIONAL)
    me.field.add(name="value", number=2, type=FD.TYPE_MESSAGE, type_name=".c09k1.Inner",
                 label=FD.LABEL_OPTIONAL)
    add("mtable", 23, FD.TYPE_MESSAGE, ".c09k1.M.MtableEntry", label=FD.LABEL_REPEATED)
    add("color", 24, FD.TYPE_ENUM, ".c09k1.Color")
    add("w_str", 25, FD.TYPE_MESSAGE, ".google.protobuf.StringValue")
    add("w_int", 26, FD.TYPE_MESSAGE, ".google.protobuf.Int32Value")
    add("ts", 27, FD.TYPE_MESSAGE, ".google.protobuf.Timestamp")
    add("dur", 28, FD.TYPE_MESSAGE, ".google.protobuf.Duration")
    add("d", 29, FD.TYPE_DOUBLE)
    add("e", 30, FD.TYPE_MESSAGE, ".c09k1.Nothing")
    add("second_a", 31, FD.TYPE_STRING, oneof=1)
    add("second_b", 32, FD.TYPE_SINT64, oneof=1)
    add("far", 5000, FD.TYPE_STRING, oneof=2)
    add("far2", 5001, FD.TYPE_MESSAGE, ".c09k1.Inner", oneof=2)
    pool = descriptor_pool.Default()
    fd = pool.Add(f)
    return message_factory.GetMessageClass(fd.message_types_by_name["M"])


GM = build_google()

SCALARS = {"a", "s", "b", "c_str", "c_bytes", "c_int", "c_enum", "c_bool", "c_dbl", "o_str",
           "o_bytes", "o_int", "o_enum", "o_dbl", "color", "d", "second_a", "second_b", "far"}
INNERS = {"inner", "c_msg", "o_msg", "far2"}
NOTHINGS = {"c_nothing", "e"}


def fill_inner(g, spec):
    g.SetInParent()
    if "n" in spec:
        g.n = spec["n"]
    if "s" in spec:
        g.s = spec["s"]


def make_bp_inner(spec):
    return Inner(**spec)


def build_pair(spec):
    """spec: ordered dict field -> plain python description; returns (betterproto, google)."""
    kwargs = {}
    g = GM()
    for name, v in spec.items():
        if name in SCALARS:
            kwargs[name] = Color(v) if name in ("c_enum", "o_enum", "color") else v
            setattr(g, name, v)
        elif name in INNERS:
            kwargs[name] = make_bp_inner(v)
            if name == "inner" and not v:
                # an all-default child handed to the constructor is not flagged as set
                # and a plain (non-oneof, non-optional) member is then left out
                continue
            fill_inner(getattr(g, name), v)
        elif name in NOTHINGS:
            kwargs[name] = Nothing()
            getattr(g, name).SetInParent()
        elif name == "nums":
            kwargs[name] = list(v)
            g.nums.extend(v)
        elif name == "strs":
            kwargs[name] = list(v)
            g.strs.extend(v)
        elif name == "inners":
            kwargs[name] = [make_bp_inner(x) for x in v]
            for x in v:
                fill_inner(g.inners.add(), x)
        elif name == "table":
            kwargs[name] = dict(sorted(v.items()))
            for k, x in v.items():
                g.table[k] = x
        elif name == "mtable":
            kwargs[name] = {k: make_bp_inner(x) for k, x in sorted(v.items())}
            for k, x in v.items():
                fill_inner(g.mtable[k], x)
        elif name in ("w_str", "w_int"):
            kwargs[name] = v
            getattr(g, name).value = v
        elif name == "ts":
            kwargs[name] = v
            if v != datetime(1970, 1, 1, tzinfo=timezone.utc):  # the epoch is the default
                g.ts.FromDatetime(v)
        elif name == "dur":
            kwargs[name] = v
            if v:  # a zero duration is the default
                g.dur.FromTimedelta(v)
        else:
            raise AssertionError(name)
    return M(**kwargs), g


# --------------------------------------------------------------------------- the property
def ref_varint(n):
    out = bytearray()
    while True:
        bits = n & 0x7F
        n >>= 7
        if n:
            out.append(bits | 0x80)
        else:
            out.append(bits)
            return bytes(out)


CHECKED = 0


def check_c09(m, label, expected=None):
    global CHECKED
    CHECKED += 1
    data = bytes(m)
    if expected is not None:
        assert data == expected, (label, data, expected)
    assert m.SerializeToString() == data, label
    assert len(m) == len(data), (label, len(m), len(data))
    s = BytesIO()
    m.dump(s)
    assert s.getvalue() == data, label
    s = BytesIO()
    m.dump(s, betterproto.SIZE_DELIMITED)
    assert s.getvalue() == ref_varint(len(data)) + data, label
    s = BytesIO()
    m.dump(s, False)
    assert s.getvalue() == data, label
    return data


def check_spec(spec, label):
    m, g = build_pair(spec)
    if spec.get("table") or spec.get("mtable"):
        # google always writes key and value of a map entry, betterproto leaves default
        # ones out (both are valid encodings): compare the decoded message instead
        data = check_c09(m, label)
        g2 = GM()
        g2.ParseFromString(data)
        assert g2 == g, label
    else:
        data = check_c09(m, label, g.SerializeToString(deterministic=True))
    # a decoded copy (children flagged as received, unknown fields kept) obeys it too
    again = M().parse(data)
    check_c09(again, label + "/reparsed", data)
    return m


# --------------------------------------------------------------------------- value pools
VALUES = {
    "a": [0, 1, -1, 127, 128, 2**31 - 1, -(2**31)],
    "s": ["", "x", "héllo", "z" * 200],
    "b": [b"", b"\x00", b"ab" * 70],
    "inner": [{}, {"n": 0}, {"n": 5}, {"s": ""}, {"n": 300, "s": "q"}],
    "c_str": ["", "v", "€" * 50],
    "c_bytes": [b"", b"\x00\x01"],
    "c_int": [0, 1, -1, 128],
    "c_msg": [{}, {"n": 0, "s": ""}, {"n": 1}],
    "c_enum": [0, 1, 300],
    "c_bool": [False, True],
    "c_dbl": [0.0, 1.5, float("inf")],
    "c_nothing": [None],
    "o_str": ["", "opt"],
    "o_bytes": [b"", b"o"],
    "o_int": [0, 7, -7],
    "o_msg": [{}, {"s": "in"}],
    "o_enum": [0, 1],
    "o_dbl": [0.0, -2.25],
    "nums": [[], [0], [0, 0, 0], [1, 128, 2**32 - 1], list(range(130))],
    "strs": [[], [""], ["", "a", ""], ["long" * 40]],
    "inners": [[], [{}], [{}, {"n": 1}, {}], [{"s": "k" * 130}]],
    "table": [{}, {"": 0}, {"k": 0}, {"": 5}, {"a": 1, "b": 2, "": 0}],
    "mtable": [{}, {0: {}}, {1: {}}, {0: {"n": 0}}, {3: {"n": 4, "s": "x"}, 9: {}}],
    "color": [0, 1, 300],
    "w_str": ["", "wrapped"],
    "w_int": [0, 1, -1],
    "ts": [
        datetime(1970, 1, 1, tzinfo=timezone.utc),
        datetime(1970, 1, 1, 0, 0, 0, 1, tzinfo=timezone.utc),
        datetime(2024, 2, 29, 12, 30, 15, 250000, tzinfo=timezone.utc),
        datetime(1969, 12, 31, 23, 59, 59, 999999, tzinfo=timezone.utc),
    ],
    "dur": [timedelta(0), timedelta(microseconds=1), timedelta(days=-3, microseconds=5),
            timedelta(seconds=86400 * 400, milliseconds=7)],
    "d": [0.0, 3.25, -1e300],
    "e": [None],
    "second_a": ["", "two"],
    "second_b": [0, -1, 2**62, -(2**63)],
    "far": ["", "far away"],
    "far2": [{}, {"n": 2}],
}
GROUPS = {
    "choice": ["c_str", "c_bytes", "c_int", "c_msg", "c_enum", "c_bool", "c_dbl", "c_nothing"],
    "second": ["second_a", "second_b"],
    "third": ["far", "far2"],
}
IN_GROUP = {f for members in GROUPS.values() for f in members}
FIELD_ORDER = list(VALUES)  # declaration order == field-number order


def ordered(spec):
    return {k: spec[k] for k in FIELD_ORDER if k in spec}


# 1. the empty message
check_spec({}, "empty")
assert bytes(M()) == b"" and len(M()) == 0

# 2. every field alone with every pooled value
for name, pool in VALUES.items():
    for i, v in enumerate(pool):
        check_spec({name: v}, f"single {name}[{i}]")

# 3. hand-written goldens for the empty-but-present members
GOLDEN = [
    ({"c_str": ""}, b"\x2a\x00"),
    ({"c_bytes": b""}, b"\x32\x00"),
    ({"c_int": 0}, b"\x38\x00"),
    ({"c_msg": {}}, b"\x42\x00"),
    ({"c_enum": 0}, b"\x48\x00"),
    ({"c_bool": False}, b"\x50\x00"),
    ({"c_dbl": 0.0}, b"\x59" + b"\x00" * 8),
    ({"c_nothing": None}, b"\x62\x00"),
    ({"o_str": ""}, b"\x6a\x00"),
    ({"o_bytes": b""}, b"\x72\x00"),
    ({"o_int": 0}, b"\x78\x00"),
    ({"o_msg": {}}, b"\x82\x01\x00"),
    ({"o_enum": 0}, b"\x88\x01\x00"),
    ({"o_dbl": 0.0}, b"\x91\x01" + b"\x00" * 8),
    ({"inner": {}}, b""),  # constructed from an all-default child: not flagged as set
    ({"e": None}, b"\xf2\x01\x00"),
    ({"w_str": ""}, b"\xca\x01\x00"),
    ({"w_int": 0}, b"\xd2\x01\x00"),
    ({"second_a": ""}, b"\xfa\x01\x00"),
    ({"second_b": 0}, b"\x80\x02\x00"),
    ({"far": ""}, b"\xc2\xb8\x02\x00"),
    ({"far2": {}}, b"\xca\xb8\x02\x00"),
    ({"s": ""}, b""),
    ({"a": 0}, b""),
    ({"nums": []}, b""),
    ({"table": {}}, b""),
    ({"table": {"": 0}}, b"\xb2\x01\x02\x10\x00"),  # empty key left out, varint value kept
    ({"mtable": {0: {}}}, b"\xba\x01\x02\x08\x00"),
    ({"inners": [{}]}, b"\xaa\x01\x00"),
]
for spec, expected in GOLDEN:
    m, g = build_pair(spec)
    check_c09(m, f"golden {spec}", expected)
    if "table" not in spec and "mtable" not in spec:  # google writes default map keys too
        assert g.SerializeToString(deterministic=True) == expected, spec

# 4. random combinations (at most one member per oneof), compared with google
rng = random.Random(909)
for i in range(1500):
    spec = {}
    for name, pool in VALUES.items():
        if name in IN_GROUP or name == "inner":
            continue
        if rng.random() < 0.3:
            spec[name] = rng.choice(pool)
    if rng.random() < 0.5:
        # an all-default child passed to the constructor is not "present" for betterproto,
        # so only use children with content for the google comparison
        spec["inner"] = rng.choice([{"n": 5}, {"n": 300, "s": "q"}, {"s": "t"}])
    for members in GROUPS.values():
        if rng.random() < 0.7:
            name = rng.choice(members)
            spec[name] = rng.choice(VALUES[name])
    check_spec(ordered(spec), f"random {i}")

# 5. presence produced by operations rather than by the constructor
m = M()
check_c09(m, "fresh", b"")
_ = m.inner  # reading creates the child lazily but does not set it
check_c09(m, "read child", b"")
m.inner = Inner()
check_c09(m, "assigned empty child", b"")  # an untouched child is not flagged as set
m.inner.n = 0
check_c09(m, "child zero assigned", b"\x22\x00")
m.inner.s = "x"
check_c09(m, "child filled", b"\x22\x03\x12\x01x")

m = M()
m.inner.n = 9  # fill the lazily created child in place
check_c09(m, "in-place child", b"\x22\x02\x08\x09")
m.nums.append(0)
m.strs.append("")
m.inners.append(Inner())
m.table[""] = 0
m.mtable[0] = Inner()
check_c09(m, "in-place containers")

# oneof switching: every ordered pair of members, each with a default and a non-default value
for group, members in GROUPS.items():
    for first in members:
        for second in members:
            for v1 in (VALUES[first][0], VALUES[first][-1]):
                for v2 in (VALUES[second][0], VALUES[second][-1]):
                    spec2 = {second: v2}
                    want, want_g = build_pair(spec2)
                    m, _ = build_pair({first: v1})
                    val = getattr(want, second)
                    setattr(m, second, val)
                    assert betterproto.which_one_of(m, group)[0] == second
                    data = check_c09(m, f"switch {first}->{second}")
                    assert data == want_g.SerializeToString(deterministic=True), (first, second)
                    assert len(data) >= 2, (first, second, data)

# optional fields: set to default, cleared again with None
for name in ("o_str", "o_bytes", "o_int", "o_msg", "o_enum", "o_dbl"):
    for v in VALUES[name]:
        m, g = build_pair({"a": 3, name: v})
        check_c09(m, f"optional {name}", g.SerializeToString(deterministic=True))
        setattr(m, name, None)
        check_c09(m, f"optional {name} cleared", b"\x08\x03")

# unknown fields: top level and nested, with and without known content
unknown = b"\xc0\x3e\x01" + b"\xca\x3e\x03abc" + b"\xd5\x3e\x01\x02\x03\x04"
for spec in ({}, {"c_str": ""}, {"o_msg": {}}, {"a": 1, "s": "x", "far": ""}):
    m, g = build_pair(spec)
    base = bytes(m)
    m2 = M().parse(base + unknown)
    check_c09(m2, f"unknown after {spec}", base + unknown)
    g2 = GM()
    g2.ParseFromString(base + unknown)
    assert g2.SerializeToString(deterministic=True) == base + unknown
# nested unknown fields: a child that consists of unknown fields only
nested = b"\x22" + ref_varint(len(unknown)) + unknown
m = M().parse(nested)
check_c09(m, "nested unknown", nested)
m = M().parse(b"\x42" + ref_varint(len(unknown)) + unknown)
assert betterproto.which_one_of(m, "choice")[0] == "c_msg"
check_c09(m, "oneof child of unknown fields", b"\x42" + ref_varint(len(unknown)) + unknown)
# received-empty members stay present
for wire in (b"\x22\x00", b"\x42\x00", b"\x2a\x00", b"\x82\x01\x00", b"\x62\x00", b"\xf2\x01\x00",
             b"\xca\xb8\x02\x00", b"\x6a\x00", b"\x78\x00"):
    check_c09(M().parse(wire), f"received {wire!r}", wire)

# 6. oneof members that are also flagged optional (pydantic flavour)
check_c09(PydanticStyle(), "pyd empty", b"")
check_c09(PydanticStyle(x=""), "pyd x empty", b"\x0a\x00")
check_c09(PydanticStyle(x="v", plain="p"), "pyd x", b"\x0a\x01v\x22\x01p")
check_c09(PydanticStyle(y=0), "pyd y zero", b"\x10\x00")
check_c09(PydanticStyle(z=Inner()), "pyd z empty", b"\x1a\x00")
p = PydanticStyle(x="")
p.y = 0
check_c09(p, "pyd switched", b"\x10\x00")
p.z = Inner(n=1)
check_c09(p, "pyd switched msg", b"\x1a\x02\x08\x01")
p.x = ""
check_c09(p, "pyd switched back", b"\x0a\x00")
check_c09(PydanticStyle().parse(b"\x0a\x00\x22\x00"), "pyd parsed", b"\x0a\x00")

print(f"C09 keep1 equiv: {CHECKED} message states checked OK")
