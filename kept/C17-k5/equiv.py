"""Equivalence check for the table-driven _wire_type_matches.

1. _wire_type_matches itself, exhaustively over wire types x proto types x repeated,
   against a specification table written down independently here.
2. Decoding level: every wire-type substitution on every field kind (singular and
   repeated, map, message, enum) with many payloads: a non-fitting occurrence is kept as
   an unknown field and alters no known field, a fitting one is decoded (or rejected);
   the accept/reject decision and the decoded values are compared with google.protobuf.
"""
import struct
from dataclasses import dataclass, field as dc_field
from io import BytesIO
from typing import Dict, List

import betterproto
from betterproto import _wire_type_matches

from google.protobuf import descriptor_pb2, descriptor_pool, message_factory
from google.protobuf.message import DecodeError

VARINT, FIXED64, LEN, SGROUP, EGROUP, FIXED32 = 0, 1, 2, 3, 4, 5

VARINT_KINDS = ["int32", "int64", "uint32", "uint64", "sint32", "sint64", "bool", "enum"]
F32_KINDS = ["fixed32", "sfixed32", "float"]
F64_KINDS = ["fixed64", "sfixed64", "double"]
LEN_KINDS = ["string", "bytes", "message"]
KINDS = VARINT_KINDS + F32_KINDS + F64_KINDS + LEN_KINDS


def spec(wire_type, kind, repeated):
    if kind in VARINT_KINDS:
        return wire_type == VARINT or (wire_type == LEN and repeated)
    if kind in F32_KINDS:
        return wire_type == FIXED32 or (wire_type == LEN and repeated)
    if kind in F64_KINDS:
        return wire_type == FIXED64 or (wire_type == LEN and repeated)
    if kind in LEN_KINDS + ["map"]:
        return wire_type == LEN
    return False


# ---------------------------------------------------------------- 1. the function itself
n = 0
for wt in range(-3, 12):
    for kind in KINDS + ["map", "group", "", "INT32", "nonsense"]:
        for rep in (False, True):
            got = _wire_type_matches(wt, kind, rep)
            assert got is spec(wt, kind, rep), (wt, kind, rep, got)
            n += 1
for name, const in (
    ("int32", betterproto.TYPE_INT32), ("enum", betterproto.TYPE_ENUM),
    ("message", betterproto.TYPE_MESSAGE), ("map", betterproto.TYPE_MAP),
    ("double", betterproto.TYPE_DOUBLE), ("sfixed32", betterproto.TYPE_SFIXED32),
):
    assert name == const
assert (betterproto.WIRE_VARINT, betterproto.WIRE_FIXED_64, betterproto.WIRE_LEN_DELIM,
        betterproto.WIRE_FIXED_32) == (VARINT, FIXED64, LEN, FIXED32)
print("function level:", n, "combinations ok")


# ---------------------------------------------------------------- 2. decoding level
class Color(betterproto.Enum):
    ZERO = 0
    ONE = 1
    TWO = 2


@dataclass(eq=False, repr=False)
class Sub(betterproto.Message):
    x: int = betterproto.int32_field(1)


@dataclass(eq=False, repr=False)
class All(betterproto.Message):
    s_int32: int = betterproto.int32_field(1)
    s_int64: int = betterproto.int64_field(2)
    s_uint32: int = betterproto.uint32_field(3)
    s_uint64: int = betterproto.uint64_field(4)
    s_sint32: int = betterproto.sint32_field(5)
    s_sint64: int = betterproto.sint64_field(6)
    s_bool: bool = betterproto.bool_field(7)
    s_enum: "Color" = betterproto.enum_field(8)
    s_fixed32: int = betterproto.fixed32_field(9)
    s_sfixed32: int = betterproto.sfixed32_field(10)
    s_float: float = betterproto.float_field(11)
    s_fixed64: int = betterproto.fixed64_field(12)
    s_sfixed64: int = betterproto.sfixed64_field(13)
    s_double: float = betterproto.double_field(14)
    s_string: str = betterproto.string_field(15)
    s_bytes: bytes = betterproto.bytes_field(16)
    s_message: "Sub" = betterproto.message_field(17)
    r_int32: List[int] = betterproto.int32_field(21)
    r_int64: List[int] = betterproto.int64_field(22)
    r_uint32: List[int] = betterproto.uint32_field(23)
    r_uint64: List[int] = betterproto.uint64_field(24)
    r_sint32: List[int] = betterproto.sint32_field(25)
    r_sint64: List[int] = betterproto.sint64_field(26)
    r_bool: List[bool] = betterproto.bool_field(27)
    r_enum: List["Color"] = betterproto.enum_field(28)
    r_fixed32: List[int] = betterproto.fixed32_field(29)
    r_sfixed32: List[int] = betterproto.sfixed32_field(30)
    r_float: List[float] = betterproto.float_field(31)
    r_fixed64: List[int] = betterproto.fixed64_field(32)
    r_sfixed64: List[int] = betterproto.sfixed64_field(33)
    r_double: List[float] = betterproto.double_field(34)
    r_string: List[str] = betterproto.string_field(35)
    r_bytes: List[bytes] = betterproto.bytes_field(36)
    r_message: List["Sub"] = betterproto.message_field(37)
    m: Dict[int, str] = betterproto.map_field(
        41, betterproto.TYPE_INT32, betterproto.TYPE_STRING
    )
    anchor: int = betterproto.int32_field(50)


FIELDS = {}  # number -> (name, kind, repeated)
for i, kind in enumerate(KINDS):
    FIELDS[1 + i] = ("s_" + kind, kind, False)
    FIELDS[21 + i] = ("r_" + kind, kind, True)
FIELDS[41] = ("m", "map", False)


def build_reference():
    F = descriptor_pb2.FieldDescriptorProto
    fd = descriptor_pb2.FileDescriptorProto(
        name="c17_keep1.proto", package="c17k1", syntax="proto3"
    )
    e = fd.enum_type.add(name="Color")
    for nm, num in (("ZERO", 0), ("ONE", 1), ("TWO", 2)):
        e.value.add(name=nm, number=num)
    sub = fd.message_type.add(name="Sub")
    sub.field.add(name="x", number=1, type=F.TYPE_INT32, label=F.LABEL_OPTIONAL)
    m = fd.message_type.add(name="All")
    for num, (name, kind, rep) in FIELDS.items():
        if kind == "map":
            ent = m.nested_type.add(name="MEntry")
            ent.options.map_entry = True
            ent.field.add(name="key", number=1, type=F.TYPE_INT32, label=F.LABEL_OPTIONAL)
            ent.field.add(name="value", number=2, type=F.TYPE_STRING, label=F.LABEL_OPTIONAL)
            m.field.add(name="m", number=num, type=F.TYPE_MESSAGE, label=F.LABEL_REPEATED,
                        type_name=".c17k1.All.MEntry")
            continue
        f = m.field.add(name=name, number=num, type=getattr(F, "TYPE_" + kind.upper()),
                        label=F.LABEL_REPEATED if rep else F.LABEL_OPTIONAL)
        if kind == "enum":
            f.type_name = ".c17k1.Color"
        elif kind == "message":
            f.type_name = ".c17k1.Sub"
    m.field.add(name="anchor", number=50, type=F.TYPE_INT32, label=F.LABEL_OPTIONAL)
    pool = descriptor_pool.DescriptorPool()
    pool.Add(fd)
    return message_factory.GetMessageClass(pool.FindMessageTypeByName("c17k1.All"))


RefAll = build_reference()


def varint(v):
    out = bytearray()
    while True:
        b = v & 0x7F
        v >>= 7
        if v:
            out.append(b | 0x80)
        else:
            out.append(b)
            return bytes(out)


def tag(number, wt):
    return varint(number << 3 | wt)


PAYLOADS = {
    VARINT: [varint(v) for v in (0, 1, 2, 3, 127, 128, 300, 2**31 - 1, 2**31, 2**32 - 1,
                                 2**32, 2**63 - 1, 2**63, 2**64 - 1)],
    FIXED32: [b"\0\0\0\0", b"\1\0\0\0", b"\xff\xff\xff\xff", struct.pack("<f", 1.5),
              b"\0\0\xc0\x7f", b"abcd"],
    FIXED64: [b"\0" * 8, b"\1" + b"\0" * 7, b"\xff" * 8, struct.pack("<d", -2.25),
              b"\0\0\0\0\0\0\xf8\x7f", b"abcdefgh"],
    LEN: [varint(len(p)) + p for p in (
        b"", b"\x00", b"\x01", b"\x08\x01", b"\x08\x96\x01", b"abc", b"abcd", b"abcdefgh",
        b"\x80", b"\xff", b"\xff\xff\xff\xff", b"\x01\x02\x03", b"\x01\x02\x03\x04\x05",
        b"\0" * 8, b"\0" * 12, b"\0" * 16, b"\x08\x05\x12\x02hi", b"\x12\x01z", b"\x0a\x00",
        b"\x80\x80\x80\x80\x80\x80\x80\x80\x80\x01", b"\x96\x01\x00\x7f", b"\xc3\xa9",
        b"\x08", b"\x0d\x01\x02", b"\x03", b"\x0c",
    )],
}


def norm(value):
    """Comparable form of a decoded value of either library."""
    if isinstance(value, betterproto.Message):
        return ("msg", bytes(value))
    if hasattr(value, "SerializeToString"):
        return ("msg", value.SerializeToString())
    if isinstance(value, bool):
        return value
    if isinstance(value, float):
        return ("f", struct.pack("<d", value))
    if isinstance(value, int):  # also enum members of either library
        return int(value)
    if isinstance(value, (str, bytes)):
        return value
    if isinstance(value, dict) or hasattr(value, "items"):
        return {k: norm(v) for k, v in value.items()}
    return [norm(v) for v in value]


PY_TYPES = {"bool": bool, "float": float, "double": float, "string": str, "bytes": bytes,
            "message": Sub}


def check_value_type(kind, rep, value):
    typ = PY_TYPES.get(kind, int)
    items = value if rep else [value]
    if rep:
        assert type(value) is list, value
    for it in items:
        assert isinstance(it, typ), (kind, it)
        if typ is int and kind != "bool":
            assert not isinstance(it, bool)


EXPECTED_DIGEST = "27e004d71d8f44e0d76063341024fe981a30ecdd4e8065280ce718bacab371c9"
DEFAULTS = {name: norm(getattr(All(), name)) for name, _, _ in FIELDS.values()}
ANCHOR = tag(50, VARINT) + varint(77)

import hashlib

digest = hashlib.sha256()
diverging = {}
stats = {"mismatch": 0, "decoded": 0, "rejected": 0, "agree_reject": 0, "agree_value": 0}
for number, (name, kind, rep) in FIELDS.items():
    for wt in (VARINT, FIXED64, LEN, FIXED32):
        for payload in PAYLOADS[wt]:
            occ = tag(number, wt) + payload
            for data in (occ, ANCHOR + occ, occ + ANCHOR, occ + occ):
                try:
                    ref = RefAll.FromString(data)
                except DecodeError:
                    ref = None
                results = []
                for decode in (lambda b: All().parse(b), All.FromString,
                               lambda b: All().load(BytesIO(b))):
                    try:
                        results.append(decode(data))
                    except Exception as exc:
                        results.append(type(exc))
                kinds_of_result = {r if isinstance(r, type) else bytes(r) for r in results}
                assert len(kinds_of_result) == 1, (data.hex(), results)
                msg = results[0]
                digest.update(data + b"=>" + (msg.__name__.encode() if isinstance(msg, type)
                                              else b"ok" + bytes(msg) + repr(msg).encode()))

                if not spec(wt, kind, rep):
                    # kept as unknown field; no known field altered
                    stats["mismatch"] += 1
                    assert isinstance(msg, All), (data.hex(), msg)
                    for other, _, _ in FIELDS.values():
                        assert norm(getattr(msg, other)) == DEFAULTS[other], (data.hex(), other)
                    has_anchor = ANCHOR in (data[: len(ANCHOR)], data[-len(ANCHOR):])
                    assert msg.anchor == (77 if has_anchor else 0)
                    unknown = data.replace(ANCHOR, b"") if has_anchor else data
                    assert bytes(msg) == (ANCHOR if has_anchor else b"") + unknown, data.hex()
                    assert ref is not None, data.hex()
                    assert ref.anchor == msg.anchor
                    for other, _, _ in FIELDS.values():
                        assert norm(getattr(ref, other)) == DEFAULTS[other], (data.hex(), other)
                    continue

                if isinstance(msg, type):
                    stats["rejected"] += 1
                    assert issubclass(msg, (ValueError, EOFError, struct.error)), msg
                    if ref is None:
                        stats["agree_reject"] += 1
                    continue
                stats["decoded"] += 1
                value = getattr(msg, name)
                if kind != "map":
                    check_value_type(kind, rep, value)
                else:
                    assert type(value) is dict
                    assert all(type(k) is int and type(v) is str for k, v in value.items())
                again = bytes(msg)
                assert bytes(All().parse(again)) == again
                for other, _, _ in FIELDS.values():
                    if other != name:
                        assert norm(getattr(msg, other)) == DEFAULTS[other], (data.hex(), other)
                if ref is not None:
                    got, want = norm(value), norm(getattr(ref, name))
                    assert msg.anchor == ref.anchor
                    if got == want:
                        stats["agree_value"] += 1
                    else:
                        diverging.setdefault(kind, []).append((data.hex(), got, want))
                else:
                    diverging.setdefault("accepted:" + kind, []).append(data.hex())

print("decoding level:", stats)
for k, v in diverging.items():
    print("  diverging from reference:", k, len(v), v[:3])
assert stats["mismatch"] > 2000 and stats["decoded"] > 1000 and stats["rejected"] > 100
assert stats["agree_value"] > 1000 and stats["agree_reject"] > 100
# accept/reject always agrees with the reference; the value differences are the known,
# unrelated ones (no 32-bit truncation of uint32/sint32, singular sub-messages are
# replaced instead of merged, map entry with a mismatched key)
assert set(diverging) <= {"uint32", "sint32", "message", "map"}, diverging.keys()
print("digest of all outcomes:", digest.hexdigest())
assert digest.hexdigest() == EXPECTED_DIGEST, "outcomes differ from the pristine tree"
print("ok")
