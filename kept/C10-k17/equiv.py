"""Equivalence script for refactor keep1 (C10).

Touched code: the packed-repeated decoding and the merge tail (map / list / scalar,
unset oneof member) of Message.load.  Everything is observed through
dump(..., SIZE_DELIMITED) / load(..., SIZE_DELIMITED) / stream.tell() and compared
with an independent decoder in this file and with google.protobuf.
"""
import io
import random
import struct
from dataclasses import dataclass
from typing import Dict, List

import betterproto
from betterproto import SIZE_DELIMITED
from google.protobuf import descriptor_pb2, descriptor_pool, message_factory, proto

rnd = random.Random(0xC10)


# ----------------------------------------------------------------------------- schema
class Color(betterproto.Enum):
    ZERO = 0
    ONE = 1
    TWO = 2


@dataclass(eq=False, repr=False)
class Sub(betterproto.Message):
    x: int = betterproto.int32_field(1)
    t: str = betterproto.string_field(2)


@dataclass(eq=False, repr=False)
class Rep(betterproto.Message):
    f_enum: List[Color] = betterproto.enum_field(1)
    f_bool: List[bool] = betterproto.bool_field(2)
    f_int32: List[int] = betterproto.int32_field(3)
    f_int64: List[int] = betterproto.int64_field(4)
    f_uint32: List[int] = betterproto.uint32_field(5)
    f_uint64: List[int] = betterproto.uint64_field(6)
    f_sint32: List[int] = betterproto.sint32_field(7)
    f_sint64: List[int] = betterproto.sint64_field(8)
    f_float: List[float] = betterproto.float_field(9)
    f_double: List[float] = betterproto.double_field(10)
    f_fixed32: List[int] = betterproto.fixed32_field(11)
    f_sfixed32: List[int] = betterproto.sfixed32_field(12)
    f_fixed64: List[int] = betterproto.fixed64_field(13)
    f_sfixed64: List[int] = betterproto.sfixed64_field(14)
    f_str: List[str] = betterproto.string_field(15)
    f_msg: List[Sub] = betterproto.message_field(16)
    f_map: Dict[int, str] = betterproto.map_field(
        17, betterproto.TYPE_INT32, betterproto.TYPE_STRING
    )
    o_int: int = betterproto.int32_field(18, group="o")
    o_str: str = betterproto.string_field(19, group="o")
    o_msg: Sub = betterproto.message_field(20, group="o")
    s: str = betterproto.string_field(21)
    single: Sub = betterproto.message_field(22)


@dataclass(eq=False, repr=False)
class Old(betterproto.Message):
    """An older reader: knows only a few of Rep's fields."""

    f_int32: List[int] = betterproto.int32_field(3)
    s: str = betterproto.string_field(21)


@dataclass(eq=False, repr=False)
class Empty(betterproto.Message):
    pass


PACKED = [
    ("f_enum", 1, "enum"), ("f_bool", 2, "bool"), ("f_int32", 3, "int32"),
    ("f_int64", 4, "int64"), ("f_uint32", 5, "uint32"), ("f_uint64", 6, "uint64"),
    ("f_sint32", 7, "sint32"), ("f_sint64", 8, "sint64"), ("f_float", 9, "float"),
    ("f_double", 10, "double"), ("f_fixed32", 11, "fixed32"),
    ("f_sfixed32", 12, "sfixed32"), ("f_fixed64", 13, "fixed64"),
    ("f_sfixed64", 14, "sfixed64"),
]
FIXED_FMT = {"float": "<f", "double": "<d", "fixed32": "<I", "sfixed32": "<i",
             "fixed64": "<Q", "sfixed64": "<q"}


def build_google():
    F = descriptor_pb2.FieldDescriptorProto
    fd = descriptor_pb2.FileDescriptorProto(name="c10k1.proto", package="c10k1", syntax="proto3")
    en = fd.enum_type.add(name="Color")
    for i, n in enumerate(["ZERO", "ONE", "TWO"]):
        en.value.add(name=n, number=i)
    sub = fd.message_type.add(name="Sub")
    sub.field.add(name="x", number=1, type=F.TYPE_INT32, label=F.LABEL_OPTIONAL)
    sub.field.add(name="t", number=2, type=F.TYPE_STRING, label=F.LABEL_OPTIONAL)
    rep = fd.message_type.add(name="Rep")
    for name, number, t in PACKED:
        f = rep.field.add(name=name, number=number, label=F.LABEL_REPEATED,
                          type=getattr(F, "TYPE_" + t.upper()))
        if t == "enum":
            f.type_name = ".c10k1.Color"
    rep.field.add(name="f_str", number=15, type=F.TYPE_STRING, label=F.LABEL_REPEATED)
    rep.field.add(name="f_msg", number=16, type=F.TYPE_MESSAGE, label=F.LABEL_REPEATED,
                  type_name=".c10k1.Sub")
    entry = rep.nested_type.add(name="FMapEntry")
    entry.options.map_entry = True
    entry.field.add(name="key", number=1, type=F.TYPE_INT32, label=F.LABEL_OPTIONAL)
    entry.field.add(name="value", number=2, type=F.TYPE_STRING, label=F.LABEL_OPTIONAL)
    rep.field.add(name="f_map", number=17, type=F.TYPE_MESSAGE, label=F.LABEL_REPEATED,
                  type_name=".c10k1.Rep.FMapEntry")
    rep.oneof_decl.add(name="o")
    rep.field.add(name="o_int", number=18, type=F.TYPE_INT32, label=F.LABEL_OPTIONAL, oneof_index=0)
    rep.field.add(name="o_str", number=19, type=F.TYPE_STRING, label=F.LABEL_OPTIONAL, oneof_index=0)
    rep.field.add(name="o_msg", number=20, type=F.TYPE_MESSAGE, label=F.LABEL_OPTIONAL,
                  type_name=".c10k1.Sub", oneof_index=0)
    rep.field.add(name="s", number=21, type=F.TYPE_STRING, label=F.LABEL_OPTIONAL)
    rep.field.add(name="single", number=22, type=F.TYPE_MESSAGE, label=F.LABEL_OPTIONAL,
                  type_name=".c10k1.Sub")
    pool = descriptor_pool.DescriptorPool()
    pool.Add(fd)
    return message_factory.GetMessageClass(pool.FindMessageTypeByName("c10k1.Rep"))


GRep = build_google()


# -------------------------------------------------------------- independent wire helpers
def varint(n):
    if n < 0:
        n += 1 << 64
    out = bytearray()
    while True:
        b = n & 0x7F
        n >>= 7
        if n:
            out.append(b | 0x80)
        else:
            out.append(b)
            return bytes(out)


def zz(n):
    return (n << 1) ^ (n >> 63)


def enc_item(t, v):
    if t in FIXED_FMT:
        return struct.pack(FIXED_FMT[t], v)
    if t in ("sint32", "sint64"):
        return varint(zz(v))
    return varint(int(v))


def wire_type_of(t):
    if t in ("float", "fixed32", "sfixed32"):
        return 5
    if t in ("double", "fixed64", "sfixed64"):
        return 1
    return 0


def tag(number, wt):
    return varint((number << 3) | wt)


def ld(number, payload):
    return tag(number, 2) + varint(len(payload)) + payload


def rand_value(t):
    edge = rnd.random() < 0.4
    if t == "enum":
        return rnd.choice([0, 1, 2, 1, 2, 7, 300, -1])
    if t == "bool":
        return rnd.random() < 0.5
    if t in ("int32", "sint32", "sfixed32"):
        return rnd.choice([0, 1, -1, 127, 128, -128, 2**31 - 1, -(2**31)]) if edge else rnd.randint(-(2**31), 2**31 - 1)
    if t in ("int64", "sint64", "sfixed64"):
        return rnd.choice([0, 1, -1, 2**63 - 1, -(2**63), 2**32, -(2**32)]) if edge else rnd.randint(-(2**63), 2**63 - 1)
    if t in ("uint32", "fixed32"):
        return rnd.choice([0, 1, 127, 128, 2**32 - 1]) if edge else rnd.randint(0, 2**32 - 1)
    if t in ("uint64", "fixed64"):
        return rnd.choice([0, 1, 2**63, 2**64 - 1]) if edge else rnd.randint(0, 2**64 - 1)
    if t == "float":
        v = rnd.choice([0.0, -0.0, 1.5, -2.25, float("inf"), 3.0e38]) if edge else rnd.uniform(-1e6, 1e6)
        return struct.unpack("<f", struct.pack("<f", v))[0]
    if t == "double":
        return rnd.choice([0.0, -0.0, 1e308, float("-inf"), 5e-324]) if edge else rnd.uniform(-1e12, 1e12)
    raise AssertionError(t)


def rand_text():
    return rnd.choice(["", "a", "héllo", "x" * rnd.randint(0, 200), "€\U0001F600"])


def same(a, b):
    """Value equality that tells -0.0 from 0.0 and True from 1."""
    if isinstance(a, float) or isinstance(b, float):
        return struct.pack("<d", a) == struct.pack("<d", b)
    return a == b and isinstance(a, bool) == isinstance(b, bool)


def random_frame():
    """A hand-built Rep body: list of wire chunks plus the expected decoded content."""
    chunks = []
    exp = {name: [] for name, _, _ in PACKED}
    exp.update(f_str=[], f_msg=[], f_map={}, oneof=None, s="", single=None)
    for _ in range(rnd.randint(0, 14)):
        k = rnd.random()
        if k < 0.55:
            name, number, t = rnd.choice(PACKED)
            vals = [rand_value(t) for _ in range(rnd.choice([0, 1, 1, 2, 3, 9, 40]))]
            if rnd.random() < 0.65:
                chunks.append(ld(number, b"".join(enc_item(t, v) for v in vals)))
            else:
                chunks.extend(tag(number, wire_type_of(t)) + enc_item(t, v) for v in vals)
            exp[name].extend(vals)
        elif k < 0.62:
            v = rand_text()
            chunks.append(ld(15, v.encode()))
            exp["f_str"].append(v)
        elif k < 0.70:
            x, t = rnd.choice([0, 5, -3]), rnd.choice(["", "sub"])
            body = (tag(1, 0) + varint(x) if x else b"") + (ld(2, t.encode()) if t else b"")
            chunks.append(ld(16, body))
            exp["f_msg"].append((x, t))
        elif k < 0.80:
            key, val = rnd.choice([0, 1, 2, -1, 99]), rand_text()
            body = (tag(1, 0) + varint(key) if key or rnd.random() < 0.5 else b"")
            body += ld(2, val.encode()) if val or rnd.random() < 0.5 else b""
            chunks.append(ld(17, body))
            exp["f_map"][key] = val
        elif k < 0.92:
            which = rnd.choice(["o_int", "o_str", "o_msg"])
            if which == "o_int":
                v = rnd.choice([0, 1, -1, 2**31 - 1])
                chunks.append(tag(18, 0) + varint(v))
                exp["oneof"] = (which, v)
            elif which == "o_str":
                v = rand_text()
                chunks.append(ld(19, v.encode()))
                exp["oneof"] = (which, v)
            else:
                x = rnd.choice([0, 4])
                chunks.append(ld(20, tag(1, 0) + varint(x) if x else b""))
                exp["oneof"] = (which, (x, ""))
        elif k < 0.96:
            v = rand_text()
            chunks.append(ld(21, v.encode()))
            exp["s"] = v
        else:
            x = rnd.choice([0, 8])
            chunks.append(ld(22, tag(1, 0) + varint(x) if x else b""))
            exp["single"] = (x, "")
    return b"".join(chunks), exp


def check_bp(msg, exp):
    for name, _, t in PACKED:
        got = getattr(msg, name)
        want = exp[name]
        assert isinstance(got, list) and len(got) == len(want), (name, got, want)
        for g, w in zip(got, want):
            if t == "enum":
                assert int(g) == w and isinstance(g, Color), (name, g, w)
            else:
                assert same(g, w), (name, g, w)
    assert msg.f_str == exp["f_str"]
    assert [(m.x, m.t) for m in msg.f_msg] == exp["f_msg"]
    assert all(betterproto.serialized_on_wire(m) for m in msg.f_msg)
    assert msg.f_map == exp["f_map"] and list(msg.f_map) == list(exp["f_map"])
    name, _ = betterproto.which_one_of(msg, "o")
    if exp["oneof"] is None:
        assert name == ""
    else:
        assert name == exp["oneof"][0], (name, exp["oneof"])
        v = getattr(msg, name)
        v = (v.x, v.t) if isinstance(v, Sub) else v
        assert v == exp["oneof"][1] and type(v) is type(exp["oneof"][1])
        for other in ("o_int", "o_str", "o_msg"):
            if other != name:
                try:
                    getattr(msg, other)
                    raise SystemExit("unset oneof member readable")
                except AttributeError:
                    pass
    assert msg.s == exp["s"]
    if exp["single"] is None:
        assert not betterproto.serialized_on_wire(msg.single)
    else:
        assert (msg.single.x, msg.single.t) == exp["single"]
        assert betterproto.serialized_on_wire(msg.single)


def check_google(g, exp):
    for name, _, t in PACKED:
        got = list(getattr(g, name))
        assert len(got) == len(exp[name])
        for a, w in zip(got, exp[name]):
            assert same(a, w) if t != "bool" else a == w, (name, a, w)
    assert list(g.f_str) == exp["f_str"]
    assert dict(g.f_map) == exp["f_map"]
    assert (g.WhichOneof("o") or None) == (exp["oneof"][0] if exp["oneof"] else None)
    assert g.s == exp["s"]


# -------------------------------------------------------------- 1. random delimited streams
N_STREAMS = 120
frames_total = 0
for _ in range(N_STREAMS):
    frames = [random_frame() for _ in range(rnd.randint(0, 5))]
    data = b"".join(varint(len(b)) + b for b, _ in frames)
    stream = io.BytesIO(data + b"\xff-trailing")
    pos = 0
    loaded = []
    for body, exp in frames:
        m = Rep().load(stream, SIZE_DELIMITED)
        pos += len(varint(len(body))) + len(body)
        assert stream.tell() == pos
        assert m._unknown_fields == b""
        check_bp(m, exp)
        loaded.append(m)
        frames_total += 1
    assert stream.read() == b"\xff-trailing"

    # the same frames are what the reference implementation reads
    gs = io.BytesIO(data)
    for body, exp in frames:
        g = proto.parse_length_prefixed(GRep, gs)
        check_google(g, exp)

    # write back with betterproto, read with google and with betterproto again
    out = io.BytesIO()
    for m in loaded:
        before = out.tell()
        m.dump(out, SIZE_DELIMITED)
        assert out.tell() - before == len(varint(len(m))) + len(m)
    written = out.getvalue()
    gs = io.BytesIO(written)
    rs = io.BytesIO(written)
    for (body, exp), m in zip(frames, loaded):
        check_google(proto.parse_length_prefixed(GRep, gs), exp)
        again = Rep().load(rs, SIZE_DELIMITED)
        check_bp(again, exp)
        assert again == m and bytes(again) == bytes(m)
    assert rs.read() == b"" and gs.read() == b""

    # older reader: everything it does not know stays in _unknown_fields, byte-exact
    os_ = io.BytesIO(data)
    for body, exp in frames:
        o = Old().load(os_, SIZE_DELIMITED)
        assert o.f_int32 == exp["f_int32"] and o.s == exp["s"]
        assert len(bytes(o)) == len(o)
        back = Rep().parse(bytes(o))
        for name, _, t in PACKED:
            assert len(getattr(back, name)) == len(exp[name])
    assert os_.read() == b""

    # truncation at every cut point: equal message or an exception, never a short one
    if len(data) <= 600:
        for cut in range(len(data) + 1):
            ts = io.BytesIO(data[:cut])
            for m in loaded:
                try:
                    got = Rep().load(ts, SIZE_DELIMITED)
                except (EOFError, ValueError, struct.error):
                    break
                assert got == m and bytes(got) == bytes(m), cut
assert frames_total > 150

# -------------------------------------------------------------- 2. google -> betterproto
for _ in range(150):
    g = GRep()
    exp_lists = {}
    for name, _, t in PACKED:
        vals = [rand_value(t) for _ in range(rnd.choice([0, 0, 1, 2, 17]))]
        if t == "enum":
            vals = [v for v in vals if v >= 0]
        getattr(g, name).extend(vals)
        exp_lists[name] = vals
    for k in range(rnd.randint(0, 3)):
        g.f_map[k] = rand_text()
    if rnd.random() < 0.5:
        g.o_str = rand_text()
    s = io.BytesIO()
    proto.serialize_length_prefixed(g, s)
    proto.serialize_length_prefixed(GRep(), s)  # an empty frame
    proto.serialize_length_prefixed(g, s)
    s.seek(0)
    a = Rep().load(s, SIZE_DELIMITED)
    mid = s.tell()
    e = Rep().load(s, SIZE_DELIMITED)
    assert s.tell() == mid + 1 and bytes(e) == b"" and e == Rep()
    b = Rep().load(s, SIZE_DELIMITED)
    assert s.read() == b"" and a == b
    for name, _, t in PACKED:
        got = getattr(a, name)
        assert len(got) == len(exp_lists[name])
        assert all(same(x if t != "enum" else int(x), y) for x, y in zip(got, exp_lists[name])), name
    assert a.f_map == dict(g.f_map)
    back = GRep()
    back.ParseFromString(bytes(a))
    assert back == g

# -------------------------------------------------------------- 3. malformed packed payloads
def outcome(body):
    s = io.BytesIO(varint(len(body)) + body + b"Z")
    try:
        m = Rep().load(s, SIZE_DELIMITED)
    except Exception as exc:  # noqa: BLE001 - the exact type is compared below
        return type(exc).__name__, s.tell()
    return m, s.tell()


for name, number, t in PACKED:
    if t in FIXED_FMT:
        width = struct.calcsize(FIXED_FMT[t])
        for n_items in (0, 1, 3):
            good = b"".join(enc_item(t, rand_value(t)) for _ in range(n_items))
            for extra in range(1, width):
                body = ld(number, good + b"\x01" * extra)
                res, pos = outcome(body)
                # the whole field had been read from the stream before it was rejected
                assert res == "error" and pos == 1 + len(body), (name, res, pos)
        m, pos = outcome(ld(number, b""))
        assert getattr(m, name) == [] and pos == 3
    else:
        body = ld(number, enc_item(t, 1) + b"\x80")  # last varint cut short
        res, pos = outcome(body)
        assert res == "EOFError" and pos == 1 + len(body), (name, res, pos)
        body = ld(number, b"\xff" * 10 + b"\x01")  # 11-byte varint
        res, pos = outcome(body)
        assert res == "ValueError", (name, res)
        m, pos = outcome(ld(number, b""))
        assert getattr(m, name) == [] and pos == 3

# packed payload sent for a non-repeated / non-packable field is kept as unknown data
@dataclass(eq=False, repr=False)
class Scalar(betterproto.Message):
    v: int = betterproto.int32_field(3)
    w: float = betterproto.double_field(10)


body = ld(3, b"\x01\x02") + ld(10, struct.pack("<d", 1.0)) + tag(3, 0) + b"\x07"
sc = Scalar().load(io.BytesIO(varint(len(body)) + body), SIZE_DELIMITED)
assert sc.v == 7 and sc.w == 0.0
assert sc._unknown_fields == ld(3, b"\x01\x02") + ld(10, struct.pack("<d", 1.0))

# -------------------------------------------------------------- 4. merge tail, directed
# scalar: last one wins; oneof: last member wins and the others become unset
body = (ld(21, b"first") + ld(21, b"second") + tag(18, 0) + b"\x05" + ld(19, b"")
        + ld(20, b"") + ld(19, b"") )
m, _ = outcome(body)
assert m.s == "second" and betterproto.which_one_of(m, "o") == ("o_str", "")
assert bytes(m) == ld(19, b"") + ld(21, b"second")
body = ld(19, b"zz") + ld(20, b"")
m, _ = outcome(body)
assert betterproto.which_one_of(m, "o")[0] == "o_msg" and bytes(m) == ld(20, b"")
# loading into an instance that already holds values: lists grow, maps update, scalars replaced
m = Rep(f_int32=[1], f_double=[0.5], f_map={1: "a"}, s="old", o_int=3)
body = (ld(3, b"\x02\x03") + tag(3, 0) + b"\x04" + ld(10, struct.pack("<dd", 1.0, 2.0))
        + ld(17, tag(1, 0) + b"\x01" + ld(2, b"b")) + ld(17, b"") + ld(19, b"x"))
m.load(io.BytesIO(varint(len(body)) + body), SIZE_DELIMITED)
assert m.f_int32 == [1, 2, 3, 4] and m.f_double == [0.5, 1.0, 2.0]
assert m.f_map == {1: "b", 0: ""} and m.s == "old"
assert betterproto.which_one_of(m, "o") == ("o_str", "x")

# -------------------------------------------------------------- 5. mixed types, empty frames
s = io.BytesIO()
seq = [Empty(), Sub(x=1), Rep(f_float=[1.5, -0.0]), Empty(), Sub(), Rep(f_sint64=[-1, 2**62], o_int=0)]
for x in seq:
    x.dump(s, SIZE_DELIMITED)
data = s.getvalue()
s.seek(0)
for x in seq:
    y = type(x)().load(s, SIZE_DELIMITED)
    assert y == x and bytes(y) == bytes(x)
assert s.read() == b""
for cut in range(len(data) + 1):
    ts = io.BytesIO(data[:cut])
    for x in seq:
        try:
            y = type(x)().load(ts, SIZE_DELIMITED)
        except (EOFError, ValueError, struct.error):
            break
        assert y == x and bytes(y) == bytes(x)

print("equiv keep1 OK: frames", frames_total)
