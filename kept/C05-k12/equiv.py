"""C05 keep2 equivalence check: Message._get_field_default_gen (the per-field default
value factory; to_dict reads `default_gen[name] is list` to tell repeated fields and
compares every scalar with the generated default, from_json / parse fill unset fields
from it).

 1. the factory chosen for every annotation shape (typing.List / list[...],
    typing.Dict / dict[...], Optional / Union / X | None, enums, datetime, timedelta,
    messages, scalars, string annotations)
 2. resulting defaults and to_dict() / to_dict(include_default_values=True) outputs
 3. JSON cross-check against google.protobuf.json_format in both directions
"""
import dataclasses
import json
import random
import typing
from dataclasses import dataclass
from datetime import datetime, timedelta, timezone
from typing import Dict, List, Optional, Union

import betterproto
from betterproto import Casing
from google.protobuf import descriptor_pb2, descriptor_pool, json_format, message_factory
from google.protobuf import duration_pb2, timestamp_pb2, wrappers_pb2  # noqa: F401

NoneType = type(None)
EPOCH = datetime(1970, 1, 1, tzinfo=timezone.utc)


class Kind(betterproto.Enum):
    K_ZERO = 0
    K_ONE = 1
    K_NEG = -5


@dataclass(eq=False, repr=False)
class Leaf(betterproto.Message):
    n: int = betterproto.sint64_field(1)
    names: "List[str]" = betterproto.string_field(2)


@dataclass(eq=False, repr=False)
class Shapes(betterproto.Message):
    # repeated, in every spelling
    r_typing: List[int] = betterproto.int32_field(1)
    r_builtin: list[int] = betterproto.fixed64_field(2)
    r_string: "List[float]" = betterproto.double_field(3)
    r_enum: List[Kind] = betterproto.enum_field(4)
    r_msg: List["Leaf"] = betterproto.message_field(5)
    r_ts: "list[datetime]" = betterproto.message_field(6)
    r_dur: List[timedelta] = betterproto.message_field(7)
    r_bytes: typing.List[bytes] = betterproto.bytes_field(8)
    # maps
    m_typing: Dict[str, int] = betterproto.map_field(9, betterproto.TYPE_STRING, betterproto.TYPE_INT64)
    m_builtin: dict[int, str] = betterproto.map_field(10, betterproto.TYPE_SFIXED32, betterproto.TYPE_STRING)
    m_msg: "Dict[bool, Leaf]" = betterproto.map_field(11, betterproto.TYPE_BOOL, betterproto.TYPE_MESSAGE)
    m_enum: Dict[int, Kind] = betterproto.map_field(12, betterproto.TYPE_UINT64, betterproto.TYPE_ENUM)
    m_ts: Dict[str, datetime] = betterproto.map_field(13, betterproto.TYPE_STRING, betterproto.TYPE_MESSAGE)
    # optional, in every spelling
    o_typing: Optional[int] = betterproto.int32_field(14, optional=True)
    o_union: Union[str, None] = betterproto.string_field(15, optional=True)
    o_pipe: int | None = betterproto.uint64_field(16, optional=True)
    o_string: "Optional[bytes]" = betterproto.bytes_field(17, optional=True)
    o_pipe_string: "float | None" = betterproto.float_field(18, optional=True)
    o_enum: Optional[Kind] = betterproto.enum_field(19, optional=True)
    o_msg: Optional["Leaf"] = betterproto.message_field(20, optional=True)
    o_ts: Optional[datetime] = betterproto.message_field(21, optional=True)
    o_dur: "timedelta | None" = betterproto.message_field(22, optional=True)
    w_int: Optional[int] = betterproto.message_field(23, wraps=betterproto.TYPE_INT64)
    w_bool: "bool | None" = betterproto.message_field(24, wraps=betterproto.TYPE_BOOL)
    w_double: Union[None, float] = betterproto.message_field(25, wraps=betterproto.TYPE_DOUBLE)
    # plain
    p_int: int = betterproto.sfixed64_field(26)
    p_str: str = betterproto.string_field(27)
    p_bytes: bytes = betterproto.bytes_field(28)
    p_bool: bool = betterproto.bool_field(29)
    p_float: float = betterproto.double_field(30)
    p_enum: Kind = betterproto.enum_field(31)
    p_msg: Leaf = betterproto.message_field(32)
    p_ts: datetime = betterproto.message_field(33)
    p_dur: "timedelta" = betterproto.message_field(34)
    # oneof
    c_int: int = betterproto.int32_field(35, group="pick")
    c_enum: "Kind" = betterproto.enum_field(36, group="pick")
    c_msg: "Leaf" = betterproto.message_field(37, group="pick")
    c_ts: datetime = betterproto.message_field(38, group="pick")


# ------------------------------------------------------------- 1. the chosen factories
EXPECTED_GEN = {}
for f in dataclasses.fields(Shapes):
    if f.name.startswith("r_"):
        EXPECTED_GEN[f.name] = list
    elif f.name.startswith("m_"):
        EXPECTED_GEN[f.name] = dict
    elif f.name.startswith(("o_", "w_")):
        EXPECTED_GEN[f.name] = NoneType
EXPECTED_GEN.update(
    p_int=int, p_str=str, p_bytes=bytes, p_bool=bool, p_float=float, p_enum=Kind.try_value,
    p_msg=Leaf, p_ts=betterproto.datetime_default_gen, p_dur=timedelta,
    c_int=int, c_enum=Kind.try_value, c_msg=Leaf, c_ts=betterproto.datetime_default_gen,
)
assert set(EXPECTED_GEN) == {f.name for f in dataclasses.fields(Shapes)}
for f in dataclasses.fields(Shapes):
    got = Shapes._get_field_default_gen(f)
    want = EXPECTED_GEN[f.name]
    assert got == want and type(got) is type(want), (f.name, got, want)
    if want in (list, dict, NoneType, int, str, bytes, bool, float, Leaf, timedelta):
        assert got is want, (f.name, got)
    assert Shapes._betterproto.default_gen[f.name] == want
assert list(Shapes._betterproto.default_gen) == [f.name for f in dataclasses.fields(Shapes)]
assert Leaf._betterproto.default_gen == {"n": int, "names": list}

# other generic aliases are their own factory; classes are called as they are
@dataclass(eq=False, repr=False)
class Odd(betterproto.Message):
    t: typing.Tuple[int, ...] = betterproto.int32_field(1)
    s: typing.Set[int] = betterproto.int32_field(2)
    fs: frozenset[str] = betterproto.string_field(3)
    bare_list: list = betterproto.int32_field(4)
    bare_typing_list: typing.List = betterproto.int32_field(5)
    bare_typing_dict: typing.Dict = betterproto.int32_field(6)
    three: Union[int, str, None] = betterproto.int32_field(7)
    nested_opt: Optional[List[int]] = betterproto.int32_field(8)


odd = {f.name: Odd._get_field_default_gen(f) for f in dataclasses.fields(Odd)}
assert odd["t"] == typing.Tuple[int, ...] and odd["s"] == typing.Set[int]
assert odd["fs"] == frozenset[str]
assert odd["bare_list"] is list and odd["bare_typing_list"] is list
assert odd["bare_typing_dict"] is dict
assert odd["three"] is NoneType and odd["nested_opt"] is NoneType

# --------------------------------------------------------------- 2. defaults / to_dict
m = Shapes()
for name, gen in EXPECTED_GEN.items():
    d = m._get_field_default(name)
    if gen is list:
        assert d == [] and type(d) is list
    elif gen is dict:
        assert d == {} and type(d) is dict
    elif gen is NoneType:
        assert d is None
assert m._get_field_default("p_enum") is Kind.K_ZERO
assert m._get_field_default("p_ts") == EPOCH
assert m._get_field_default("p_dur") == timedelta(0)
assert m._get_field_default("p_msg") == Leaf()
assert m.to_dict() == {} and bytes(m) == b""
ALL_DEFAULT = {
    "rTyping": [], "rBuiltin": [], "rString": [], "rEnum": [], "rMsg": [], "rTs": [], "rDur": [],
    "rBytes": [], "mTyping": {}, "mBuiltin": {}, "mMsg": {}, "mEnum": {}, "mTs": {},
    "oTyping": None, "oUnion": None, "oPipe": None, "oString": None, "oPipeString": None,
    "oEnum": None, "oMsg": None, "oTs": None, "oDur": None, "wInt": None, "wBool": None,
    "wDouble": None, "pInt": "0", "pStr": "", "pBytes": "", "pBool": False, "pFloat": 0.0,
    "pEnum": "K_ZERO", "pMsg": {"n": "0", "names": []}, "pTs": "1970-01-01T00:00:00Z",
    "pDur": "0.000s", "cInt": 0, "cEnum": "K_ZERO", "cMsg": {"n": "0", "names": []},
    "cTs": "1970-01-01T00:00:00Z",
}
assert m.to_dict(include_default_values=True) == ALL_DEFAULT
assert list(m.to_dict(include_default_values=True)) == list(ALL_DEFAULT)

full = Shapes(
    r_typing=[0, -1], r_builtin=[2**64 - 1, 0], r_string=[0.0, float("inf"), -2.5],
    r_enum=[Kind.K_ZERO, Kind.K_NEG], r_msg=[Leaf(), Leaf(n=-3, names=["a"])],
    r_ts=[EPOCH, EPOCH + timedelta(microseconds=1)], r_dur=[timedelta(0), timedelta(seconds=-2)],
    r_bytes=[b"", b"\xfb\xff"],
    m_typing={"": 0, "k": -2**63}, m_builtin={0: "", -7: "x"}, m_msg={False: Leaf(), True: Leaf(n=1)},
    m_enum={0: Kind.K_ZERO, 2**64 - 1: Kind.K_ONE}, m_ts={"t": EPOCH},
    o_typing=0, o_union="", o_pipe=0, o_string=b"", o_pipe_string=0.0, o_enum=Kind.K_ZERO,
    o_msg=Leaf(), o_ts=EPOCH, o_dur=timedelta(0), w_int=0, w_bool=False, w_double=0.0,
    p_int=-2**63, p_str="s", p_bytes=b"\x01", p_bool=True, p_float=0.5, p_enum=Kind.K_ONE,
    p_msg=Leaf(n=2**63 - 1), p_ts=EPOCH - timedelta(seconds=1), p_dur=timedelta(microseconds=-1),
    c_ts=EPOCH,
)
FULL_JSON = {
    "rTyping": [0, -1], "rBuiltin": [str(2**64 - 1), "0"], "rString": [0.0, "Infinity", -2.5],
    "rEnum": ["K_ZERO", "K_NEG"], "rMsg": [{}, {"n": "-3", "names": ["a"]}],
    "rTs": ["1970-01-01T00:00:00Z", "1970-01-01T00:00:00.000001Z"], "rDur": ["0.000s", "-2.000s"],
    "rBytes": ["", "+/8="],
    "mTyping": {"": "0", "k": str(-2**63)}, "mBuiltin": {0: "", -7: "x"},
    "mMsg": {False: {}, True: {"n": "1"}}, "mEnum": {0: "K_ZERO", 2**64 - 1: "K_ONE"},
    "mTs": {"t": "1970-01-01T00:00:00Z"},
    "oTyping": 0, "oUnion": "", "oPipe": "0", "oString": "", "oPipeString": 0.0, "oEnum": "K_ZERO",
    "oMsg": {}, "oTs": "1970-01-01T00:00:00Z", "oDur": "0.000s", "wInt": "0", "wBool": False,
    "wDouble": 0.0,
    "pInt": str(-2**63), "pStr": "s", "pBytes": "AQ==", "pBool": True, "pFloat": 0.5,
    "pEnum": "K_ONE", "pMsg": {"n": str(2**63 - 1)}, "pTs": "1969-12-31T23:59:59Z",
    "pDur": "-0.000001s", "cTs": "1970-01-01T00:00:00Z",
}
assert full.to_dict() == FULL_JSON, full.to_dict()
assert list(full.to_dict()) == list(FULL_JSON)
assert Shapes().from_json(full.to_json()).to_dict() == FULL_JSON
assert Shapes().parse(bytes(full)).to_dict() == FULL_JSON
assert full.to_dict(casing=Casing.SNAKE).keys() == {
    f.name for f in dataclasses.fields(Shapes)} - {"c_int", "c_enum", "c_msg"}

# ------------------------------------------------------------ 3. reference cross-check
F = descriptor_pb2.FieldDescriptorProto
OPT, REP = F.LABEL_OPTIONAL, F.LABEL_REPEATED
PB = {
    "int32": F.TYPE_INT32, "int64": F.TYPE_INT64, "uint64": F.TYPE_UINT64, "sint64": F.TYPE_SINT64,
    "fixed64": F.TYPE_FIXED64, "sfixed64": F.TYPE_SFIXED64, "sfixed32": F.TYPE_SFIXED32,
    "double": F.TYPE_DOUBLE, "float": F.TYPE_FLOAT, "string": F.TYPE_STRING, "bytes": F.TYPE_BYTES,
    "bool": F.TYPE_BOOL, "enum": F.TYPE_ENUM, "message": F.TYPE_MESSAGE,
}
WRAP = {"int64": "Int64Value", "bool": "BoolValue", "double": "DoubleValue"}
fdp = descriptor_pb2.FileDescriptorProto(
    name="c05_keep2.proto", package="c05k2", syntax="proto3",
    dependency=["google/protobuf/wrappers.proto", "google/protobuf/timestamp.proto",
                "google/protobuf/duration.proto"],
)
en = fdp.enum_type.add(name="Kind")
for member in Kind:
    en.value.add(name=member.name, number=member.value)
leaf = fdp.message_type.add(name="Leaf")
leaf.field.add(name="n", number=1, type=F.TYPE_SINT64, label=OPT, json_name="n")
leaf.field.add(name="names", number=2, type=F.TYPE_STRING, label=REP, json_name="names")
shapes = fdp.message_type.add(name="Shapes")
shapes.oneof_decl.add(name="pick")
hints = typing.get_type_hints(Shapes)


def type_name_for(py):
    if py is datetime:
        return ".google.protobuf.Timestamp"
    if py is timedelta:
        return ".google.protobuf.Duration"
    if py is Leaf:
        return ".c05k2.Leaf"
    if py is Kind:
        return ".c05k2.Kind"
    raise AssertionError(py)


def inner(hint):
    args = [a for a in typing.get_args(hint) if a is not NoneType]
    return args[-1] if args else hint


for f in dataclasses.fields(Shapes):
    meta = betterproto.FieldMetadata.get(f)
    json_name = betterproto.casing.camel_case(f.name)
    if meta.proto_type == "map":
        entry = json_name[0].upper() + json_name[1:] + "Entry"
        e = shapes.nested_type.add(name=entry)
        e.options.map_entry = True
        e.field.add(name="key", number=1, type=PB[meta.map_types[0]], label=OPT, json_name="key")
        v = e.field.add(name="value", number=2, type=PB[meta.map_types[1]], label=OPT, json_name="value")
        if meta.map_types[1] in ("message", "enum"):
            v.type_name = type_name_for(inner(hints[f.name]))
        shapes.field.add(name=f.name, number=meta.number, type=F.TYPE_MESSAGE, label=REP,
                         type_name=f".c05k2.Shapes.{entry}", json_name=json_name)
        continue
    repeated = f.name.startswith("r_")
    fd = shapes.field.add(name=f.name, number=meta.number, type=PB[meta.proto_type],
                          label=REP if repeated else OPT, json_name=json_name)
    if meta.wraps:
        fd.type_name = ".google.protobuf." + WRAP[meta.wraps]
    elif meta.proto_type in ("message", "enum"):
        fd.type_name = type_name_for(inner(hints[f.name]))
    if meta.group:
        fd.oneof_index = 0
    if meta.optional:
        shapes.oneof_decl.add(name="_" + f.name)
        fd.oneof_index = len(shapes.oneof_decl) - 1
        fd.proto3_optional = True
# synthetic oneofs must come after the real ones: already the case (pick is index 0)
pool = descriptor_pool.Default()
pool.Add(fdp)
RefShapes = message_factory.GetMessageClass(pool.FindMessageTypeByName("c05k2.Shapes"))


def canon(ref_msg):
    return ref_msg.SerializeToString(deterministic=True)


def cross_check(msg):
    ref = RefShapes.FromString(bytes(msg))
    text = msg.to_json()
    assert canon(json_format.Parse(text, RefShapes())) == canon(ref), text
    ref_text = json_format.MessageToJson(ref)
    for back in (Shapes().from_json(ref_text), Shapes.from_dict(json.loads(ref_text)),
                 Shapes().from_json(text)):
        assert canon(RefShapes.FromString(bytes(back))) == canon(ref), ref_text
    assert Shapes().parse(bytes(msg)).to_dict() == msg.to_dict()


cross_check(Shapes())
cross_check(full)
assert json.loads(json_format.MessageToJson(RefShapes.FromString(bytes(full)))).keys() == {
    str(k) for k in FULL_JSON}

rng = random.Random(777)
f32 = [0.0, 0.5, -1.25, 1024.0, float("inf"), float("-inf")]


def r_ts():
    return EPOCH + timedelta(seconds=rng.randint(-62135596800, 253402300799),
                             microseconds=rng.choice([0, 1, 999999, 123000, rng.randrange(10**6)]))


def r_dur():
    return timedelta(microseconds=1) * rng.choice(
        [0, 1, -1, 10**6, -(10**6), rng.randint(-10**16, 10**16)])


def r_i64():
    return rng.choice([0, 1, -1, 2**63 - 1, -2**63, rng.randint(-2**63, 2**63 - 1)])


def r_u64():
    return rng.choice([0, 1, 2**64 - 1, rng.randrange(2**64)])


def r_str():
    return "".join(rng.choice("aZ_ 0\"\\é中\n") for _ in range(rng.randint(0, 5)))


def r_bytes():
    return bytes(rng.randrange(256) for _ in range(rng.randint(0, 6)))


def r_kind():
    return rng.choice(list(Kind))


def r_leaf():
    return Leaf(n=r_i64(), names=[r_str() for _ in range(rng.randint(0, 2))])


def r_dbl():
    return rng.choice([0.0, 1.0, -0.5, 1e308, 5e-324, float("inf"), float("-inf"), rng.uniform(-1e9, 1e9)])


def r_i32():
    return rng.choice([0, 1, -1, 2**31 - 1, -2**31])


def lst(make):
    return [make() for _ in range(rng.randint(0, 3))]


GEN = dict(
    r_typing=lambda: lst(r_i32), r_builtin=lambda: lst(r_u64), r_string=lambda: lst(r_dbl),
    r_enum=lambda: lst(r_kind), r_msg=lambda: lst(r_leaf), r_ts=lambda: lst(r_ts),
    r_dur=lambda: lst(r_dur), r_bytes=lambda: lst(r_bytes),
    m_typing=lambda: {r_str(): r_i64() for _ in range(rng.randint(0, 3))},
    m_builtin=lambda: {r_i32(): r_str() for _ in range(rng.randint(0, 3))},
    m_msg=lambda: {rng.random() < 0.5: r_leaf() for _ in range(rng.randint(0, 2))},
    m_enum=lambda: {r_u64(): r_kind() for _ in range(rng.randint(0, 3))},
    m_ts=lambda: {r_str(): r_ts() for _ in range(rng.randint(0, 3))},
    o_typing=r_i32, o_union=r_str, o_pipe=r_u64, o_string=r_bytes,
    o_pipe_string=lambda: rng.choice(f32), o_enum=r_kind, o_msg=r_leaf, o_ts=r_ts, o_dur=r_dur,
    w_int=r_i64, w_bool=lambda: rng.random() < 0.5, w_double=r_dbl,
    p_int=r_i64, p_str=r_str, p_bytes=r_bytes, p_bool=lambda: rng.random() < 0.5, p_float=r_dbl,
    p_enum=r_kind, p_msg=r_leaf, p_ts=r_ts, p_dur=r_dur,
)
PICK = dict(c_int=r_i32, c_enum=r_kind, c_msg=r_leaf, c_ts=r_ts)
for i in range(1200):
    kw = {name: make() for name, make in GEN.items() if rng.random() < 0.45}
    if rng.random() < 0.7:
        name = rng.choice(list(PICK))
        kw[name] = PICK[name]()
    msg = Shapes(**kw)
    cross_check(msg)
    out = msg.to_dict(include_default_values=True)
    assert list(out) == list(ALL_DEFAULT), i
    for key, default in ALL_DEFAULT.items():
        name = betterproto.casing.snake_case(key)
        if name not in kw and not name.startswith("c_"):
            assert out[key] == default, (i, key)

print("ok")
