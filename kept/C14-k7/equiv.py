"""Exercises Message.__setattr__ (presence flag, oneof bookkeeping, the field-less
child rule) directly and through everything that is built on it: construction,
copy / deepcopy (which rebuild through the constructor), parsing / pickling (which
assign every decoded field) and from_dict.  All expectations are spelled out
explicitly or computed by a tiny independent model, so the script has to pass
unchanged on every behaviour-preserving variant of __setattr__.
"""
import copy
import itertools
import pickle
import random
from dataclasses import dataclass
from typing import Dict, List, Optional

import betterproto
from betterproto import PLACEHOLDER, which_one_of


@dataclass(eq=False, repr=False)
class Empty(betterproto.Message):
    pass


@dataclass(eq=False, repr=False)
class Leaf(betterproto.Message):
    x: int = betterproto.int32_field(1)
    s: str = betterproto.string_field(2)


@dataclass(eq=False, repr=False)
class Multi(betterproto.Message):
    # plain fields
    n: int = betterproto.int32_field(1)
    leaf: Leaf = betterproto.message_field(2)
    marker: Empty = betterproto.message_field(3)
    items: List[int] = betterproto.int32_field(4)
    table: Dict[str, int] = betterproto.map_field(
        5, betterproto.TYPE_STRING, betterproto.TYPE_INT32
    )
    # first oneof: three members of different kinds
    a_int: int = betterproto.int32_field(10, group="a")
    a_str: str = betterproto.string_field(11, group="a")
    a_msg: Leaf = betterproto.message_field(12, group="a")
    # second oneof: two members, one of them a field-less message
    b_ping: Empty = betterproto.message_field(20, group="b")
    b_flag: bool = betterproto.bool_field(21, group="b")
    # proto3 optional
    opt: Optional[int] = betterproto.int32_field(30, optional=True)


GROUPS = {"a": ("a_int", "a_str", "a_msg"), "b": ("b_ping", "b_flag")}
GROUP_OF = {f: g for g, fs in GROUPS.items() for f in fs}


def raw(m, name):
    return object.__getattribute__(m, name)


def check_groups(m, expected):
    """expected: {group: selected field name or None}"""
    for group, members in GROUPS.items():
        sel = expected[group]
        assert m._group_current[group] == sel, (group, m._group_current, expected)
        name, value = which_one_of(m, group)
        assert name == (sel or ""), (name, sel)
        for f in members:
            if f == sel:
                assert raw(m, f) is not PLACEHOLDER
                assert getattr(m, f) is value or getattr(m, f) == value
                assert m.is_set(f)
            else:
                assert raw(m, f) is PLACEHOLDER, (f, raw(m, f))
                assert not m.is_set(f)
                try:
                    getattr(m, f)
                except AttributeError:
                    pass
                else:
                    raise AssertionError(f"{f} readable although {sel} is selected")


# --------------------------------------------------------------------------
# 1. during construction nothing is displaced and the flag follows the arguments
# --------------------------------------------------------------------------
m = Multi()
assert m.__dict__["_serialized_on_wire"] is False
assert m._group_current == {"a": None, "b": None}
assert list(m._group_current) == ["a", "b"]
check_groups(m, {"a": None, "b": None})
assert bytes(m) == b""

m = Multi(a_str="", b_flag=False)
assert m._serialized_on_wire is True
check_groups(m, {"a": "a_str", "b": "b_flag"})
assert bytes(m) == b"\x5a\x00\xa8\x01\x00"

m = Multi(n=0)
assert m._serialized_on_wire is True  # an explicit argument counts
assert bytes(m) == b""

# --------------------------------------------------------------------------
# 2. assignment after construction: all sequences of oneof assignments up to
#    length 4, compared against a model
# --------------------------------------------------------------------------
VALUES = {
    "a_int": [0, 5],
    "a_str": ["", "t"],
    "a_msg": [Leaf(), Leaf(x=1)],
    "b_ping": [Empty()],
    "b_flag": [False, True],
    "n": [0, 3],
    "opt": [None, 0, 4],
}
steps = [(f, i) for f, vs in VALUES.items() for i in range(len(vs))]
count = 0
for length in range(1, 4):
    for seq in itertools.product(steps, repeat=length):
        m = Multi()
        model = {"a": None, "b": None}
        plain = {"n": 0, "opt": None}
        assert m._serialized_on_wire is False
        for f, i in seq:
            v = copy.deepcopy(VALUES[f][i])
            setattr(m, f, v)
            assert m._serialized_on_wire is True
            if f in GROUP_OF:
                model[GROUP_OF[f]] = f
            else:
                plain[f] = v
            assert raw(m, f) is v
        check_groups(m, model)
        assert m.n == plain["n"] and m.opt == plain["opt"]
        # the same state reached through the constructor encodes identically
        kwargs = {}
        for f, i in seq:
            if f in GROUP_OF:
                if model[GROUP_OF[f]] == f:
                    kwargs[f] = copy.deepcopy(VALUES[f][i])
            else:
                kwargs[f] = copy.deepcopy(VALUES[f][i])
        direct = Multi(**kwargs)
        assert bytes(direct) == bytes(m), (seq, bytes(direct), bytes(m))
        assert direct == m
        # copy / deepcopy / pickle are faithful and keep the selection
        for c in (copy.copy(m), copy.deepcopy(m), pickle.loads(pickle.dumps(m))):
            assert c == m and bytes(c) == bytes(m) and len(c) == len(m)
            assert c._group_current == m._group_current
            check_groups(c, model)
        count += 1
assert count > 2000

# --------------------------------------------------------------------------
# 3. the presence flag: only "_serialized_on_wire" itself does not raise it
# --------------------------------------------------------------------------
m = Multi()
m._serialized_on_wire = False
assert m.__dict__["_serialized_on_wire"] is False
m._unknown_fields = b""
assert m.__dict__["_serialized_on_wire"] is True
m._serialized_on_wire = False
assert m._serialized_on_wire is False
m.n = 0
assert m._serialized_on_wire is True
m._serialized_on_wire = False
m.some_private_note = 1  # not a field at all
assert m._serialized_on_wire is True and m.some_private_note == 1

# nested: filling a lazily created child in place marks the child, not the parent
m = Multi()
m.leaf.x = 4
assert m.leaf._serialized_on_wire is True
assert m._serialized_on_wire is False
assert bytes(m) == b"\x12\x02\x08\x04"
assert m.is_set("leaf")

# --------------------------------------------------------------------------
# 4. field-less child rule: assigning marks the child as present, reading does not
# --------------------------------------------------------------------------
e = Empty()
assert e._serialized_on_wire is False
m = Multi()
m.marker = e
assert e._serialized_on_wire is True
assert bytes(m) == b"\x1a\x00" and m.is_set("marker")

lf = Leaf()
m = Multi()
m.leaf = lf
assert lf._serialized_on_wire is False  # has fields: stays unset
assert bytes(m) == b"" and not m.is_set("leaf")

m = Multi()
_ = m.marker
assert m.marker._serialized_on_wire is False and bytes(m) == b""
for c in (copy.copy(m), copy.deepcopy(m), pickle.loads(pickle.dumps(m))):
    assert bytes(c) == b"" and not c.is_set("marker")
assert m.marker._serialized_on_wire is False and bytes(m) == b""

m = Multi(b_ping=Empty())
assert m.b_ping._serialized_on_wire is True
assert bytes(m) == b"\xa2\x01\x00"
m.b_flag = True
check_groups(m, {"a": None, "b": "b_flag"})
assert bytes(m) == b"\xa8\x01\x01"
m.b_ping = Empty()
check_groups(m, {"a": None, "b": "b_ping"})
assert bytes(m) == b"\xa2\x01\x00"

# --------------------------------------------------------------------------
# 5. decoding assigns through __setattr__: later oneof members displace earlier
#    ones, siblings of other groups are untouched
# --------------------------------------------------------------------------
wire = (
    b"\x50\x07"  # a_int = 7
    b"\xa8\x01\x01"  # b_flag = true
    b"\x5a\x02hi"  # a_str = "hi"  (displaces a_int)
    b"\x08\x09"  # n = 9
)
m = Multi().parse(wire)
check_groups(m, {"a": "a_str", "b": "b_flag"})
assert m.a_str == "hi" and m.b_flag is True and m.n == 9
assert bytes(m) == b"\x08\x09\x5a\x02hi\xa8\x01\x01"
p = pickle.loads(pickle.dumps(m))
check_groups(p, {"a": "a_str", "b": "b_flag"})
assert p == m and bytes(p) == bytes(m)

m = Multi().parse(b"\x5a\x00\x62\x00\x50\x00")  # a_str "", a_msg {}, a_int 0
check_groups(m, {"a": "a_int", "b": None})
assert bytes(m) == b"\x50\x00"

# from_dict (instance form assigns field by field)
m = Multi().from_dict({"aInt": 1, "aStr": "z", "bPing": {}})
check_groups(m, {"a": "a_str", "b": "b_ping"})
m2 = Multi.from_dict({"aInt": 1, "bFlag": False})
check_groups(m2, {"a": "a_int", "b": "b_flag"})
assert bytes(m2) == b"\x50\x01\xa8\x01\x00"

# --------------------------------------------------------------------------
# 6. independence: the bookkeeping of a copy is its own
# --------------------------------------------------------------------------
rng = random.Random(14)
fields = list(VALUES)
for _ in range(300):
    m = Multi()
    for _ in range(rng.randrange(0, 5)):
        f = rng.choice(fields)
        setattr(m, f, copy.deepcopy(rng.choice(VALUES[f])))
    before = (bytes(m), dict(m._group_current), m.to_dict())
    for c in (copy.deepcopy(m), pickle.loads(pickle.dumps(m)), copy.copy(m)):
        assert c._group_current is not m._group_current
        for _ in range(3):
            f = rng.choice(fields)
            setattr(c, f, copy.deepcopy(rng.choice(VALUES[f])))
        assert (bytes(m), dict(m._group_current), m.to_dict()) == before

print("ok", count)
