"""Equivalence check for the type-hint driven class metadata: the zero-value generators
(ProtoClassMetadata.default_gen, Message._get_field_default_gen) and the per-field
classes (ProtoClassMetadata.cls_by_field, Message._cls_for) that default skipping,
lazy defaults, None-ness of optional/wrapper fields and the decoding of enums, nested
messages, map entries, Timestamp/Duration and wrappers depend on.

1. For many message shapes (typing.* and PEP 585/604 spellings, forward references,
   recursion, maps, enums, well-known types, field-less messages) the metadata is
   compared with an oracle written out as the original nested-if logic.
2. Observable behaviour: defaults, lazily created children, presence, which_one_of.
3. Error paths: unresolvable annotations, missing hints, bad index.
4. Random round trips parse(bytes(m)) == m with identical re-encoding, cross-checked
   with google.protobuf dynamic messages (incl. Timestamp / Duration / wrappers).
"""
import dataclasses
import random
import sys
import types
from dataclasses import dataclass
from datetime import datetime, timedelta, timezone
from typing import ClassVar, Dict, List, Optional, Union

import betterproto
from betterproto import PLACEHOLDER, FieldMetadata, datetime_default_gen

UTC = timezone.utc


class Colour(betterproto.Enum):
    ZERO = 0
    ONE = 1
    NEG = -1


class NoZero(betterproto.Enum):
    A = 1
    B = 2


@dataclass(eq=False, repr=False)
class Empty(betterproto.Message):
    pass


@dataclass(eq=False, repr=False)
class Leaf(betterproto.Message):
    x: int = betterproto.int32_field(1)
    s: str = betterproto.string_field(2)


@dataclass(eq=False, repr=False)
class Node(betterproto.Message):
    value: int = betterproto.sint64_field(1)
    child: "Node" = betterproto.message_field(2)
    kids: List["Node"] = betterproto.message_field(3)
    maybe: Optional["Node"] = betterproto.message_field(4, optional=True)
    by_name: Dict[str, "Node"] = betterproto.map_field(5, "string", "message")
    leaf: "Leaf" = betterproto.message_field(6)


@dataclass(eq=False, repr=False)
class Shapes(betterproto.Message):
    i32: int = betterproto.int32_field(1)
    u64: int = betterproto.uint64_field(2)
    f: float = betterproto.float_field(3)
    d: float = betterproto.double_field(4)
    b: bool = betterproto.bool_field(5)
    s: str = betterproto.string_field(6)
    by: bytes = betterproto.bytes_field(7)
    e: Colour = betterproto.enum_field(8)
    e2: NoZero = betterproto.enum_field(9)
    ts: datetime = betterproto.message_field(10)
    du: timedelta = betterproto.message_field(11)
    leaf: Leaf = betterproto.message_field(12)
    empty: Empty = betterproto.message_field(13)
    r_i: List[int] = betterproto.sint32_field(14)
    r_s: List[str] = betterproto.string_field(15)
    r_e: List[Colour] = betterproto.enum_field(16)
    r_m: List[Leaf] = betterproto.message_field(17)
    r_ts: List[datetime] = betterproto.message_field(18)
    r_du: List[timedelta] = betterproto.message_field(19)
    m_ii: Dict[int, int] = betterproto.map_field(20, "int64", "uint32")
    m_sm: Dict[str, Leaf] = betterproto.map_field(21, "string", "message")
    m_se: Dict[str, Colour] = betterproto.map_field(22, "string", "enum")
    m_bt: Dict[bool, datetime] = betterproto.map_field(23, "bool", "message")
    o_i: Optional[int] = betterproto.int32_field(24, optional=True)
    o_s: Optional[str] = betterproto.string_field(25, optional=True)
    o_e: Optional[Colour] = betterproto.enum_field(26, optional=True)
    o_m: Optional[Leaf] = betterproto.message_field(27, optional=True)
    o_ts: Optional[datetime] = betterproto.message_field(28, optional=True)
    w_i: Optional[int] = betterproto.message_field(29, wraps=betterproto.TYPE_INT32)
    w_s: Optional[str] = betterproto.message_field(30, wraps=betterproto.TYPE_STRING)
    w_b: Optional[bool] = betterproto.message_field(31, wraps=betterproto.TYPE_BOOL)
    w_d: Optional[float] = betterproto.message_field(32, wraps=betterproto.TYPE_DOUBLE)
    g_i: int = betterproto.int64_field(33, group="g")
    g_s: str = betterproto.string_field(34, group="g")
    g_m: Leaf = betterproto.message_field(35, group="g")
    g_e: Colour = betterproto.enum_field(36, group="g")
    g_ts: datetime = betterproto.message_field(37, group="g")
    u_i: Union[int, None] = betterproto.int32_field(38, optional=True)


@dataclass(eq=False, repr=False)
class Pep(betterproto.Message):
    """The same shapes spelled with PEP 585 / PEP 604 syntax."""

    r_i: list[int] = betterproto.int64_field(1)
    r_m: list[Leaf] = betterproto.message_field(2)
    m: dict[str, Leaf] = betterproto.map_field(3, "string", "message")
    m_e: dict[int, Colour] = betterproto.map_field(4, "sint32", "enum")
    o_i: int | None = betterproto.int32_field(5, optional=True)
    o_m: Leaf | None = betterproto.message_field(6, optional=True)
    o_n: "Node | None" = betterproto.message_field(7, optional=True)
    w_i: int | None = betterproto.message_field(8, wraps=betterproto.TYPE_UINT64)
    r_n: "list[Node]" = betterproto.message_field(9)
    ts: datetime | None = betterproto.message_field(10, optional=True)


ALL = [Empty, Leaf, Node, Shapes, Pep]


# ------------------------------------------------------------------ 1. oracle
def oracle_default_gen(t):
    is_310_union = isinstance(t, types.UnionType)
    if hasattr(t, "__origin__") or is_310_union:
        if is_310_union or t.__origin__ is Union:
            return type(None)
        if t.__origin__ is list:
            return list
        if t.__origin__ is dict:
            return dict
        return t
    if issubclass(t, betterproto.Enum):
        return t.try_value
    if t is datetime:
        return datetime_default_gen
    return t


def oracle_cls_for(t, index=0):
    if hasattr(t, "__args__") and index >= 0:
        if t.__args__ is not None:
            t = t.__args__[index]
    return t


def same_callable(a, b):
    # bound classmethods (Enum.try_value) are re-created on every attribute access
    if isinstance(a, types.MethodType) or isinstance(b, types.MethodType):
        return (
            isinstance(a, types.MethodType)
            and isinstance(b, types.MethodType)
            and a.__func__ is b.__func__
            and a.__self__ is b.__self__
        )
    return a is b


checked = 0
for cls in ALL:
    hints = cls._type_hints()
    fields = dataclasses.fields(cls)
    meta = cls._betterproto
    assert list(meta.default_gen) == [f.name for f in fields]
    expected_keys = []
    for f in fields:
        t = hints[f.name]
        fm = FieldMetadata.get(f)
        want = oracle_default_gen(t)
        assert same_callable(meta.default_gen[f.name], want), (cls, f.name)
        assert same_callable(cls._get_field_default_gen(f), want), (cls, f.name)
        # the classmethod helper, all useful indexes
        assert cls._cls_for(f) == oracle_cls_for(t)
        assert cls._cls_for(f, index=-1) == t == oracle_cls_for(t, -1)
        nargs = len(getattr(t, "__args__", None) or ())
        for i in range(nargs):
            assert cls._cls_for(f, index=i) is oracle_cls_for(t, i), (cls, f.name, i)
        if nargs:
            try:
                cls._cls_for(f, index=nargs)
            except IndexError:
                pass
            else:
                raise AssertionError("expected IndexError")
        # the table used by the decoder
        expected_keys.append(f.name)
        if fm.proto_type == betterproto.TYPE_MAP:
            entry = meta.cls_by_field[f.name]
            assert issubclass(entry, betterproto.Message) and entry.__name__ == "Entry"
            efields = dataclasses.fields(entry)
            assert [(e.name, e.type) for e in efields] == [
                ("key", oracle_cls_for(t, 0)),
                ("value", oracle_cls_for(t, 1)),
            ]
            assert FieldMetadata.get(efields[0]) == FieldMetadata(1, fm.map_types[0])
            assert FieldMetadata.get(efields[1]) == FieldMetadata(2, fm.map_types[1])
            assert meta.cls_by_field[f"{f.name}.value"] is oracle_cls_for(t, 1)
            expected_keys.append(f"{f.name}.value")
        else:
            assert meta.cls_by_field[f.name] is oracle_cls_for(t, 0), (cls, f.name)
        checked += 1
    assert list(meta.cls_by_field) == expected_keys
assert checked == 0 + 2 + 6 + 38 + 10, checked
assert Empty._betterproto.default_gen == {} and Empty._betterproto.cls_by_field == {}

# ------------------------------------------------------------------ 2. behaviour
s = Shapes()
EPOCH = datetime(1970, 1, 1, tzinfo=UTC)
expect_defaults = dict(
    i32=0, u64=0, f=0.0, d=0.0, b=False, s="", by=b"", e=Colour.ZERO, ts=EPOCH,
    du=timedelta(0), r_i=[], r_s=[], r_e=[], r_m=[], r_ts=[], r_du=[], m_ii={}, m_sm={},
    m_se={}, m_bt={}, o_i=None, o_s=None, o_e=None, o_m=None, o_ts=None, w_i=None,
    w_s=None, w_b=None, w_d=None, u_i=None,
)
for name, want in expect_defaults.items():
    got = getattr(s, name)
    assert got == want and type(got) is type(want), (name, got)
assert s.e2 == 0 and isinstance(s.e2, NoZero) and s.e2.name is None
assert isinstance(s.leaf, Leaf) and not betterproto.serialized_on_wire(s.leaf)
assert isinstance(s.empty, Empty)
assert s.leaf is s.leaf and s.r_m is s.r_m and s.m_sm is s.m_sm  # kept once created
assert s._Message__raw_get("i32") is PLACEHOLDER  # scalars are not
for name in ("g_i", "g_s", "g_m", "g_e", "g_ts"):
    try:
        getattr(s, name)
    except AttributeError:
        pass
    else:
        raise AssertionError(name)
assert bytes(s) == b"" and bytes(Pep()) == b"" and bytes(Node()) == b""
n = Node()
assert isinstance(n.child.child.child, Node) and n.maybe is None and n.kids == []
assert isinstance(n.leaf, Leaf) and bytes(n) == b""
p = Pep()
assert p.r_i == [] and p.m == {} and p.o_i is None and p.o_m is None and p.o_n is None
assert p.w_i is None and p.r_n == [] and p.ts is None

# decoding uses the per-field classes
p = Pep().parse(bytes(Pep(
    r_m=[Leaf(x=1)], m={"a": Leaf(s="q")}, m_e={-3: Colour.NEG, 4: Colour.try_value(9)},
    o_m=Leaf(), o_n=Node(value=-5, kids=[Node()]), w_i=2**64 - 1, r_n=[Node(value=1)],
    ts=datetime(2001, 2, 3, 4, 5, 6, 7, tzinfo=UTC), o_i=0,
)))
assert type(p.r_m[0]) is Leaf and type(p.m["a"]) is Leaf and p.m["a"].s == "q"
assert p.m_e == {-3: Colour.NEG, 4: 9} and type(p.m_e[4]) is Colour and p.m_e[-3] is Colour.NEG
assert type(p.o_m) is Leaf and betterproto.serialized_on_wire(p.o_m)
assert type(p.o_n) is Node and p.o_n.value == -5 and type(p.o_n.kids[0]) is Node
assert p.w_i == 2**64 - 1 and type(p.r_n[0]) is Node and p.o_i == 0
assert p.ts == datetime(2001, 2, 3, 4, 5, 6, 7, tzinfo=UTC)


# ------------------------------------------------------------------ 3. error paths
@dataclass(eq=False, repr=False)
class BadRef(betterproto.Message):
    a: int = betterproto.int32_field(1)
    b: "DoesNotExist" = betterproto.message_field(2)  # noqa: F821


for _ in range(2):  # nothing is cached after a failure
    try:
        BadRef._betterproto
    except NameError as exc:
        assert "DoesNotExist" in str(exc)
    else:
        raise AssertionError("expected NameError")
assert "_betterproto_meta" not in BadRef.__dict__
try:
    BadRef()
except NameError:
    pass
else:
    raise AssertionError("expected NameError")

# a dataclass field without betterproto metadata fails before anything else
@dataclass(eq=False, repr=False)
class NoMeta(betterproto.Message):
    a: int = betterproto.int32_field(1)
    b: "AlsoMissing" = dataclasses.field(default=None)  # noqa: F821


try:
    NoMeta._betterproto
except KeyError as exc:
    assert exc.args == ("betterproto",)
else:
    raise AssertionError("expected KeyError")


# a field-less message never resolves its annotations: a ClassVar annotation that
# cannot be resolved is harmless there
@dataclass(eq=False, repr=False)
class FieldLess(betterproto.Message):
    note: ClassVar["NotDefinedAnywhere"] = 1  # noqa: F821


assert dataclasses.fields(FieldLess) == ()
assert FieldLess._betterproto.default_gen == {} and FieldLess._betterproto.cls_by_field == {}
assert bytes(FieldLess()) == b"" and FieldLess().parse(b"") == FieldLess()


# ------------------------------------------------------------------ 4. round trips
from google.protobuf import (  # noqa: E402
    descriptor_pb2,
    descriptor_pool,
    duration_pb2,
    message_factory,
    timestamp_pb2,
    wrappers_pb2,
)

F = descriptor_pb2.FieldDescriptorProto
pool = descriptor_pool.DescriptorPool()
for mod in (timestamp_pb2, duration_pb2, wrappers_pb2):
    pool.Add(descriptor_pb2.FileDescriptorProto.FromString(mod.DESCRIPTOR.serialized_pb))
fdp = descriptor_pb2.FileDescriptorProto(
    name="equiv_keep2.proto", package="eq2", syntax="proto3",
    dependency=["google/protobuf/timestamp.proto", "google/protobuf/duration.proto",
                "google/protobuf/wrappers.proto"],
)
en = fdp.enum_type.add(name="Colour")
for k, v in (("ZERO", 0), ("ONE", 1), ("NEG", -1)):
    en.value.add(name=k, number=v)
leaf = fdp.message_type.add(name="Leaf")
leaf.field.add(name="x", number=1, type=F.TYPE_INT32, label=F.LABEL_OPTIONAL)
leaf.field.add(name="s", number=2, type=F.TYPE_STRING, label=F.LABEL_OPTIONAL)
gs = fdp.message_type.add(name="Shapes")


def add(name, number, type_, label=F.LABEL_OPTIONAL, type_name=None, **kw):
    f = gs.field.add(name=name, number=number, type=type_, label=label, **kw)
    if type_name:
        f.type_name = type_name
    return f


def add_map(name, number, ktype, vtype, vtype_name=None):
    ename = "".join(p.capitalize() for p in name.split("_")) + "Entry"
    entry = gs.nested_type.add(name=ename)
    entry.options.map_entry = True
    entry.field.add(name="key", number=1, type=ktype, label=F.LABEL_OPTIONAL)
    v = entry.field.add(name="value", number=2, type=vtype, label=F.LABEL_OPTIONAL)
    if vtype_name:
        v.type_name = vtype_name
    add(name, number, F.TYPE_MESSAGE, F.LABEL_REPEATED, f".eq2.Shapes.{ename}")


TS, DU = ".google.protobuf.Timestamp", ".google.protobuf.Duration"
add("i32", 1, F.TYPE_INT32); add("u64", 2, F.TYPE_UINT64); add("f", 3, F.TYPE_FLOAT)
add("d", 4, F.TYPE_DOUBLE); add("b", 5, F.TYPE_BOOL); add("s", 6, F.TYPE_STRING)
add("by", 7, F.TYPE_BYTES); add("e", 8, F.TYPE_ENUM, type_name=".eq2.Colour")
add("ts", 10, F.TYPE_MESSAGE, type_name=TS); add("du", 11, F.TYPE_MESSAGE, type_name=DU)
add("leaf", 12, F.TYPE_MESSAGE, type_name=".eq2.Leaf")
add("r_i", 14, F.TYPE_SINT32, F.LABEL_REPEATED); add("r_s", 15, F.TYPE_STRING, F.LABEL_REPEATED)
add("r_e", 16, F.TYPE_ENUM, F.LABEL_REPEATED, ".eq2.Colour")
add("r_m", 17, F.TYPE_MESSAGE, F.LABEL_REPEATED, ".eq2.Leaf")
add("r_ts", 18, F.TYPE_MESSAGE, F.LABEL_REPEATED, TS)
add("r_du", 19, F.TYPE_MESSAGE, F.LABEL_REPEATED, DU)
add_map("m_ii", 20, F.TYPE_INT64, F.TYPE_UINT32)
add_map("m_sm", 21, F.TYPE_STRING, F.TYPE_MESSAGE, ".eq2.Leaf")
add_map("m_se", 22, F.TYPE_STRING, F.TYPE_ENUM, ".eq2.Colour")
add_map("m_bt", 23, F.TYPE_BOOL, F.TYPE_MESSAGE, TS)
gs.oneof_decl.add(name="g")  # index 0; synthetic oneofs have to come after it
for i, (name, num, t, tn) in enumerate([
    ("o_i", 24, F.TYPE_INT32, None), ("o_s", 25, F.TYPE_STRING, None),
    ("o_e", 26, F.TYPE_ENUM, ".eq2.Colour"), ("o_m", 27, F.TYPE_MESSAGE, ".eq2.Leaf"),
    ("o_ts", 28, F.TYPE_MESSAGE, TS),
]):
    gs.oneof_decl.add(name="_" + name)
    add(name, num, t, type_name=tn, oneof_index=i + 1, proto3_optional=True)
add("w_i", 29, F.TYPE_MESSAGE, type_name=".google.protobuf.Int32Value")
add("w_s", 30, F.TYPE_MESSAGE, type_name=".google.protobuf.StringValue")
add("w_b", 31, F.TYPE_MESSAGE, type_name=".google.protobuf.BoolValue")
add("w_d", 32, F.TYPE_MESSAGE, type_name=".google.protobuf.DoubleValue")
add("g_i", 33, F.TYPE_INT64, oneof_index=0); add("g_s", 34, F.TYPE_STRING, oneof_index=0)
add("g_m", 35, F.TYPE_MESSAGE, type_name=".eq2.Leaf", oneof_index=0)
add("g_e", 36, F.TYPE_ENUM, type_name=".eq2.Colour", oneof_index=0)
add("g_ts", 37, F.TYPE_MESSAGE, type_name=TS, oneof_index=0)
pool.Add(fdp)
GShapes = message_factory.GetMessageClass(pool.FindMessageTypeByName("eq2.Shapes"))

rng = random.Random(1005)
I32 = [0, 1, -1, 127, 128, 2**31 - 1, -(2**31)]
I64 = I32 + [2**63 - 1, -(2**63), 2**32]
U32 = [0, 1, 2**32 - 1]
U64 = U32 + [2**64 - 1, 2**63]
FL = [0.0, 1.5, -2.25, float("inf"), float("-inf")]
DB = FL + [1e308, 5e-324, 0.1]
STR = ["", "a", "hé", "\U0001f600", "z" * 150]
BYT = [b"", b"\x00", b"\xff" * 130]
DTS = [EPOCH, datetime(1, 1, 1, tzinfo=UTC), datetime(9999, 12, 31, 23, 59, 59, 999999, tzinfo=UTC),
       datetime(1969, 12, 31, 23, 59, 59, 500000, tzinfo=UTC), datetime(2024, 2, 29, 12, 0, 0, 1, tzinfo=UTC),
       datetime(2000, 1, 1, 1, tzinfo=timezone(timedelta(hours=5, minutes=30)))]
TDS = [timedelta(0), timedelta(seconds=1, microseconds=5), timedelta(seconds=-1, microseconds=-500000),
       timedelta(microseconds=-1), timedelta(days=3652000), timedelta(days=-3652000, microseconds=1)]


def colour():
    return Colour.try_value(rng.choice([0, 1, -1, 5, -7, 2**31 - 1, -(2**31)]))


def mleaf():
    return Leaf(**rng.choice([{}, {"x": 0}, {"x": rng.choice(I32)}, {"s": rng.choice(STR)},
                              {"x": -1, "s": "\U0001f600"}]))


GEN = dict(
    i32=lambda: rng.choice(I32), u64=lambda: rng.choice(U64), f=lambda: rng.choice(FL),
    d=lambda: rng.choice(DB), b=lambda: rng.choice([True, False]), s=lambda: rng.choice(STR),
    by=lambda: rng.choice(BYT), e=colour, ts=lambda: rng.choice(DTS), du=lambda: rng.choice(TDS),
    leaf=mleaf, empty=Empty,
    r_i=lambda: [rng.choice(I32) for _ in range(rng.randrange(4))],
    r_s=lambda: [rng.choice(STR) for _ in range(rng.randrange(4))],
    r_e=lambda: [colour() for _ in range(rng.randrange(4))],
    r_m=lambda: [mleaf() for _ in range(rng.randrange(4))],
    r_ts=lambda: [rng.choice(DTS) for _ in range(rng.randrange(3))],
    r_du=lambda: [rng.choice(TDS) for _ in range(rng.randrange(3))],
    m_ii=lambda: {rng.choice(I64): rng.choice(U32) for _ in range(rng.randrange(4))},
    m_sm=lambda: {rng.choice(STR): mleaf() for _ in range(rng.randrange(4))},
    m_se=lambda: {rng.choice(STR): colour() for _ in range(rng.randrange(4))},
    m_bt=lambda: {rng.choice([True, False]): rng.choice(DTS) for _ in range(rng.randrange(3))},
    o_i=lambda: rng.choice(I32), o_s=lambda: rng.choice(STR), o_e=colour, o_m=mleaf,
    o_ts=lambda: rng.choice(DTS), w_i=lambda: rng.choice(I32), w_s=lambda: rng.choice(STR),
    w_b=lambda: rng.choice([True, False]), w_d=lambda: rng.choice(DB),
    g_i=lambda: rng.choice(I64), g_s=lambda: rng.choice(STR), g_m=mleaf, g_e=colour,
    g_ts=lambda: rng.choice(DTS), u_i=lambda: rng.choice(I32),
)
NOT_IN_G = {"e2", "empty", "u_i"}


def g_value(v):
    """A google.protobuf value as the plain Python value betterproto would hold."""
    name = type(v).__name__
    if name == "Timestamp":
        return EPOCH + timedelta(seconds=v.seconds, microseconds=v.nanos // 1000)
    if name == "Duration":
        return timedelta(seconds=v.seconds, microseconds=v.nanos // 1000)
    if name == "Leaf":
        return Leaf(x=v.x, s=v.s)
    if name.endswith("Value"):
        return v.value
    return v


for _ in range(500):
    kwargs = {}
    group_member = rng.choice([None, "g_i", "g_s", "g_m", "g_e", "g_ts"])
    for name, gen in GEN.items():
        if name.startswith("g_"):
            if name == group_member:
                kwargs[name] = gen()
        elif rng.random() < 0.5:
            kwargs[name] = gen()
    m = Shapes(**kwargs)
    data = bytes(m)
    assert len(m) == len(data)
    back = Shapes().parse(data)
    assert back == m, kwargs
    assert bytes(back) == data
    assert betterproto.which_one_of(back, "g")[0] == (group_member or "")
    for name in ("o_i", "o_s", "o_e", "o_m", "o_ts", "w_i", "w_s", "w_b", "w_d", "u_i"):
        assert (getattr(back, name) is None) == (name not in kwargs), name
    for name in ("leaf", "empty"):
        assert betterproto.serialized_on_wire(getattr(back, name)) == betterproto.serialized_on_wire(getattr(m, name)), name
    for name in ("e", "o_e", "g_e"):
        if name in kwargs:
            assert type(getattr(back, name)) is Colour

    # google.protobuf sees the same message ...
    g = GShapes()
    g.ParseFromString(data)
    for name in GEN:
        if name in NOT_IN_G:
            continue
        gf = g.DESCRIPTOR.fields_by_name[name]
        if name.startswith(("o_", "w_", "g_")):
            assert g.HasField(name) == (name in kwargs), name
            if name not in kwargs:
                continue
        ours = getattr(m, name)
        theirs = getattr(g, name)
        if isinstance(ours, dict):
            assert {k: g_value(v) for k, v in theirs.items()} == ours, name
        elif isinstance(ours, list):
            assert [g_value(v) for v in theirs] == ours, name
        else:
            assert g_value(theirs) == ours, (name, ours, theirs)
    assert g.WhichOneof("g") == group_member
    # ... and betterproto decodes google's encoding of it to the same message
    for name in NOT_IN_G:
        kwargs.pop(name, None)
    m2 = Shapes(**kwargs)
    g2 = GShapes()
    g2.ParseFromString(bytes(m2))
    back2 = Shapes().parse(g2.SerializeToString(deterministic=True))
    assert back2 == m2, kwargs
    assert back2._unknown_fields == b""
    assert betterproto.which_one_of(back2, "g")[0] == (group_member or "")

# recursive type round trips
for _ in range(200):
    def tree(depth):
        node = Node(value=rng.choice(I64))
        if depth and rng.random() < 0.7:
            node.child = tree(depth - 1)
        if depth and rng.random() < 0.5:
            node.kids = [tree(depth - 1) for _ in range(rng.randrange(3))]
        if depth and rng.random() < 0.5:
            node.maybe = tree(depth - 1) if rng.random() < 0.7 else Node()
        if depth and rng.random() < 0.5:
            node.by_name = {rng.choice(STR): tree(depth - 1) for _ in range(rng.randrange(3))}
        if rng.random() < 0.3:
            node.leaf = mleaf()
        return node

    t = tree(4)
    data = bytes(t)
    back = Node().parse(data)
    assert back == t and bytes(back) == data and len(t) == len(data)
    assert (back.maybe is None) == (t.maybe is None)

print("ok", checked)
