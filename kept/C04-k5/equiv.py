"""C04 keep1: Message._from_dict_init, sub-message / Timestamp / Duration / wrapper
fields and map fields.

The JSON input of from_dict is produced here by an independent little encoder (not
by the library's to_dict), the expected message is built directly from the Python
values, and from_dict / from_json must reproduce it (equal, same bytes) in the
classmethod and the instance form, with camelCase and snake_case keys.  On top of that
the library's own to_dict / to_json output is fed back (the round trip of the
property), duplicate typed map keys and malformed inputs are checked.
"""
import json
import random
from base64 import b64encode
from dataclasses import dataclass, field
from datetime import datetime, timedelta, timezone
from typing import Dict, List, Optional

import betterproto
from betterproto import Casing

UTC = timezone.utc


class Colour(betterproto.Enum):
    COLOUR_UNSPECIFIED = 0
    RED = 1
    GREEN = 2
    NEGATIVE = -3


@dataclass(eq=False, repr=False)
class Leaf(betterproto.Message):
    number: int = betterproto.int64_field(1)
    label_text: str = betterproto.string_field(2)
    stamps: List[datetime] = betterproto.message_field(3)


@dataclass(eq=False, repr=False)
class Empty(betterproto.Message):
    pass


@dataclass(eq=False, repr=False)
class Holder(betterproto.Message):
    # singular message-typed fields
    when: datetime = betterproto.message_field(1)
    how_long: timedelta = betterproto.message_field(2)
    leaf: Leaf = betterproto.message_field(3)
    nothing: Empty = betterproto.message_field(4)
    # repeated message-typed fields
    whens: List[datetime] = betterproto.message_field(5)
    how_longs: List[timedelta] = betterproto.message_field(6)
    leaves: List[Leaf] = betterproto.message_field(7)
    # wrappers
    w_int64: Optional[int] = betterproto.message_field(8, wraps=betterproto.TYPE_INT64)
    w_uint64: Optional[int] = betterproto.message_field(
        9, wraps=betterproto.TYPE_UINT64
    )
    w_int32: Optional[int] = betterproto.message_field(10, wraps=betterproto.TYPE_INT32)
    w_bytes: Optional[bytes] = betterproto.message_field(
        11, wraps=betterproto.TYPE_BYTES
    )
    w_double: Optional[float] = betterproto.message_field(
        12, wraps=betterproto.TYPE_DOUBLE
    )
    w_float: Optional[float] = betterproto.message_field(
        13, wraps=betterproto.TYPE_FLOAT
    )
    w_bool: Optional[bool] = betterproto.message_field(14, wraps=betterproto.TYPE_BOOL)
    w_string: Optional[str] = betterproto.message_field(
        15, wraps=betterproto.TYPE_STRING
    )
    # optional / oneof message members
    opt_when: Optional[datetime] = betterproto.message_field(16, optional=True)
    opt_long: Optional[timedelta] = betterproto.message_field(17, optional=True)
    opt_leaf: Optional[Leaf] = betterproto.message_field(18, optional=True)
    one_leaf: Leaf = betterproto.message_field(19, group="pick")
    one_when: datetime = betterproto.message_field(20, group="pick")
    one_long: timedelta = betterproto.message_field(21, group="pick")
    # maps
    m_str_when: Dict[str, datetime] = betterproto.map_field(
        30, betterproto.TYPE_STRING, betterproto.TYPE_MESSAGE
    )
    m_str_long: Dict[str, timedelta] = betterproto.map_field(
        31, betterproto.TYPE_STRING, betterproto.TYPE_MESSAGE
    )
    m_int32_leaf: Dict[int, Leaf] = betterproto.map_field(
        32, betterproto.TYPE_INT32, betterproto.TYPE_MESSAGE
    )
    m_int64_colour: Dict[int, Colour] = betterproto.map_field(
        33, betterproto.TYPE_INT64, betterproto.TYPE_ENUM
    )
    m_bool_bytes: Dict[bool, bytes] = betterproto.map_field(
        34, betterproto.TYPE_BOOL, betterproto.TYPE_BYTES
    )
    m_str_int64: Dict[str, int] = betterproto.map_field(
        35, betterproto.TYPE_STRING, betterproto.TYPE_INT64
    )
    m_sint32_double: Dict[int, float] = betterproto.map_field(
        36, betterproto.TYPE_SINT32, betterproto.TYPE_DOUBLE
    )
    m_uint64_string: Dict[int, str] = betterproto.map_field(
        37, betterproto.TYPE_UINT64, betterproto.TYPE_STRING
    )
    m_str_float: Dict[str, float] = betterproto.map_field(
        38, betterproto.TYPE_STRING, betterproto.TYPE_FLOAT
    )
    m_sfixed64_bool: Dict[int, bool] = betterproto.map_field(
        39, betterproto.TYPE_SFIXED64, betterproto.TYPE_BOOL
    )
    m_fixed32_sfixed64: Dict[int, int] = betterproto.map_field(
        40, betterproto.TYPE_FIXED32, betterproto.TYPE_SFIXED64
    )
    m_str_int32: Dict[str, int] = betterproto.map_field(
        41, betterproto.TYPE_STRING, betterproto.TYPE_INT32
    )


# --------------------------------------------------------------------------------------
# independent JSON encoders (proto3 JSON mapping), deliberately not using the library
# --------------------------------------------------------------------------------------


def ts_json(dt: datetime) -> str:
    dt = dt.astimezone(UTC)
    head = (
        f"{dt.year:04d}-{dt.month:02d}-{dt.day:02d}"
        f"T{dt.hour:02d}:{dt.minute:02d}:{dt.second:02d}"
    )
    us = dt.microsecond
    if us == 0:
        return head + "Z"
    if us % 1000 == 0:
        return head + ".%03dZ" % (us // 1000)
    return head + ".%06dZ" % us


def dur_json(td: timedelta) -> str:
    total = (td.days * 86400 + td.seconds) * 10**6 + td.microseconds
    sign = "-" if total < 0 else ""
    total = abs(total)
    whole, us = total // 10**6, total % 10**6
    if us % 1000 == 0:
        return "%s%d.%03ds" % (sign, whole, us // 1000)
    return "%s%d.%06ds" % (sign, whole, us)


def float_json(x: float):
    if x == float("inf"):
        return "Infinity"
    if x == float("-inf"):
        return "-Infinity"
    if x != x:
        return "NaN"
    return x


def b64(b: bytes) -> str:
    return b64encode(b).decode("ascii")


def leaf_json(leaf: Leaf, snake: bool) -> dict:
    out = {}
    if leaf.number:
        out["number"] = str(leaf.number)
    if leaf.label_text:
        out["label_text" if snake else "labelText"] = leaf.label_text
    if leaf.stamps:
        out["stamps"] = [ts_json(t) for t in leaf.stamps]
    return out


CAMEL_KEYS = {
    "how_long": "howLong",
    "how_longs": "howLongs",
    "w_int64": "wInt64",
    "w_uint64": "wUint64",
    "w_int32": "wInt32",
    "w_bytes": "wBytes",
    "w_double": "wDouble",
    "w_float": "wFloat",
    "w_bool": "wBool",
    "w_string": "wString",
    "opt_when": "optWhen",
    "opt_long": "optLong",
    "opt_leaf": "optLeaf",
    "one_leaf": "oneLeaf",
    "one_when": "oneWhen",
    "one_long": "oneLong",
    "m_str_when": "mStrWhen",
    "m_str_long": "mStrLong",
    "m_int32_leaf": "mInt32Leaf",
    "m_int64_colour": "mInt64Colour",
    "m_bool_bytes": "mBoolBytes",
    "m_str_int64": "mStrInt64",
    "m_sint32_double": "mSint32Double",
    "m_uint64_string": "mUint64String",
    "m_str_float": "mStrFloat",
    "m_sfixed64_bool": "mSfixed64Bool",
    "m_fixed32_sfixed64": "mFixed32Sfixed64",
    "m_str_int32": "mStrInt32",
}

COLOUR_NAMES = {0: "COLOUR_UNSPECIFIED", 1: "RED", 2: "GREEN", -3: "NEGATIVE"}


def holder_json(values: dict, snake: bool, text_keys: bool) -> dict:
    """JSON object for Holder(**values).  With text_keys the map keys are spelled as
    JSON object keys (strings), otherwise they stay typed (the plain-dict path)."""

    def mk(k):
        if not text_keys or isinstance(k, str):
            return k
        if isinstance(k, bool):
            return "true" if k else "false"
        return str(k)

    out = {}
    for name, v in values.items():
        key = name if snake else CAMEL_KEYS.get(name, name)
        if name in ("when", "opt_when", "one_when"):
            j = ts_json(v)
        elif name in ("how_long", "opt_long", "one_long"):
            j = dur_json(v)
        elif name in ("leaf", "opt_leaf", "one_leaf"):
            j = leaf_json(v, snake)
        elif name == "nothing":
            j = {}
        elif name == "whens":
            j = [ts_json(t) for t in v]
        elif name == "how_longs":
            j = [dur_json(t) for t in v]
        elif name == "leaves":
            j = [leaf_json(x, snake) for x in v]
        elif name in ("w_int64", "w_uint64"):
            j = str(v)
        elif name in ("w_int32", "w_bool", "w_string"):
            j = v
        elif name == "w_bytes":
            j = b64(v)
        elif name in ("w_double", "w_float"):
            j = float_json(v)
        elif name == "m_str_when":
            j = {mk(k): ts_json(x) for k, x in v.items()}
        elif name == "m_str_long":
            j = {mk(k): dur_json(x) for k, x in v.items()}
        elif name == "m_int32_leaf":
            j = {mk(k): leaf_json(x, snake) for k, x in v.items()}
        elif name == "m_int64_colour":
            j = {mk(k): COLOUR_NAMES.get(int(x), int(x)) for k, x in v.items()}
        elif name == "m_bool_bytes":
            j = {mk(k): b64(x) for k, x in v.items()}
        elif name in ("m_str_int64", "m_fixed32_sfixed64"):
            j = {mk(k): str(x) for k, x in v.items()}
        elif name in ("m_sint32_double", "m_str_float"):
            j = {mk(k): float_json(x) for k, x in v.items()}
        elif name in ("m_uint64_string", "m_sfixed64_bool", "m_str_int32"):
            j = {mk(k): x for k, x in v.items()}
        else:
            raise AssertionError(name)
        out[key] = j
    return out


# --------------------------------------------------------------------------------------
# value generation
# --------------------------------------------------------------------------------------

rnd = random.Random(20240604)

EPOCH = datetime(1970, 1, 1, tzinfo=UTC)
DATETIMES = [
    EPOCH,
    datetime(1, 1, 1, tzinfo=UTC),
    datetime(999, 12, 31, 23, 59, 59, 999999, tzinfo=UTC),
    datetime(9999, 12, 31, 23, 59, 59, 999000, tzinfo=UTC),
    datetime(1969, 12, 31, 23, 59, 59, 999999, tzinfo=UTC),
    datetime(2024, 2, 29, 12, 0, 0, 1000, tzinfo=UTC),
    datetime(2024, 2, 29, 12, 0, 0, 1, tzinfo=UTC),
    datetime(2000, 1, 1, 0, 0, 0, 120000, tzinfo=timezone(timedelta(hours=5, minutes=30))),
]
DELTAS = [
    timedelta(0),
    timedelta(microseconds=1),
    timedelta(microseconds=-1),
    timedelta(milliseconds=-500),
    timedelta(seconds=-1),
    timedelta(seconds=1, microseconds=500000),
    timedelta(days=-10000, microseconds=7),
    timedelta(days=3650000, seconds=86399, microseconds=999999),
    timedelta(seconds=-(2**40), microseconds=-123000),
]
INT64S = [0, 1, -1, 2**63 - 1, -(2**63), 2**53 + 1, -(2**53) - 1, 1234567890123]
UINT64S = [0, 1, 2**64 - 1, 2**63, 2**53 + 1]
INT32S = [0, 1, -1, 2**31 - 1, -(2**31), 77]
BYTES = [b"", b"\x00", b"\xff\xfe\xfd", b">>>???", bytes(range(256)), b"hello"]
DOUBLES = [0.0, 1.5, -2.25, 1e300, -1e-300, float("inf"), float("-inf"), 0.1]
FLOATS = [0.0, 0.25, -1024.5, float("inf"), float("-inf"), 3.0]
STRINGS = ["", "a", "true", "-1", "12", "snake_key", "camelKey", "é中", " "]


def rdt():
    if rnd.random() < 0.5:
        return rnd.choice(DATETIMES)
    us = rnd.choice([0, rnd.randrange(1000) * 1000, rnd.randrange(10**6)])
    return EPOCH + timedelta(
        seconds=rnd.randrange(-62135596800, 253402300799), microseconds=us
    )


def rtd():
    if rnd.random() < 0.5:
        return rnd.choice(DELTAS)
    us = rnd.choice([0, rnd.randrange(1000) * 1000, rnd.randrange(10**6)])
    return rnd.choice([1, -1]) * timedelta(
        seconds=rnd.randrange(0, 10**10), microseconds=us
    )


def rleaf():
    return Leaf(
        number=rnd.choice(INT64S),
        label_text=rnd.choice(STRINGS),
        stamps=[rdt() for _ in range(rnd.choice([0, 0, 1, 3]))],
    )


def rmap(keys, make, n=None):
    n = rnd.choice([1, 2, 4]) if n is None else n
    return {k: make() for k in rnd.sample(keys, min(n, len(keys)))}


GENERATORS = {
    "when": rdt,
    "how_long": rtd,
    "leaf": rleaf,
    "nothing": Empty,
    "whens": lambda: [rdt() for _ in range(rnd.randrange(1, 4))],
    "how_longs": lambda: [rtd() for _ in range(rnd.randrange(1, 4))],
    "leaves": lambda: [rleaf() for _ in range(rnd.randrange(1, 4))],
    "w_int64": lambda: rnd.choice(INT64S),
    "w_uint64": lambda: rnd.choice(UINT64S),
    "w_int32": lambda: rnd.choice(INT32S),
    "w_bytes": lambda: rnd.choice(BYTES),
    "w_double": lambda: rnd.choice(DOUBLES + [float("nan")]),
    "w_float": lambda: rnd.choice(FLOATS + [float("nan")]),
    "w_bool": lambda: rnd.choice([True, False]),
    "w_string": lambda: rnd.choice(STRINGS),
    "opt_when": rdt,
    "opt_long": rtd,
    "opt_leaf": rleaf,
    "m_str_when": lambda: rmap(STRINGS, rdt),
    "m_str_long": lambda: rmap(STRINGS, rtd),
    "m_int32_leaf": lambda: rmap(INT32S, rleaf),
    "m_int64_colour": lambda: rmap(
        INT64S, lambda: Colour.try_value(rnd.choice([0, 1, 2, -3, 9, -8]))
    ),
    "m_bool_bytes": lambda: rmap([True, False], lambda: rnd.choice(BYTES)),
    "m_str_int64": lambda: rmap(STRINGS, lambda: rnd.choice(INT64S)),
    "m_sint32_double": lambda: rmap(INT32S, lambda: rnd.choice(DOUBLES)),
    "m_uint64_string": lambda: rmap(UINT64S, lambda: rnd.choice(STRINGS)),
    "m_str_float": lambda: rmap(STRINGS, lambda: rnd.choice(FLOATS)),
    "m_sfixed64_bool": lambda: rmap(INT64S, lambda: rnd.choice([True, False])),
    "m_fixed32_sfixed64": lambda: rmap(
        [0, 1, 2**32 - 1, 65536], lambda: rnd.choice(INT64S)
    ),
    "m_str_int32": lambda: rmap(STRINGS, lambda: rnd.choice(INT32S)),
}
ONEOF = {"one_leaf": rleaf, "one_when": rdt, "one_long": rtd}


def random_values(p: float) -> dict:
    values = {name: gen() for name, gen in GENERATORS.items() if rnd.random() < p}
    if rnd.random() < 0.6:
        name = rnd.choice(sorted(ONEOF))
        values[name] = rnd.choice(
            [
                ONEOF[name](),
                {"one_leaf": Leaf(), "one_when": EPOCH, "one_long": timedelta(0)}[name],
            ]
        )
    return values


# --------------------------------------------------------------------------------------
# checks
# --------------------------------------------------------------------------------------


def same(a: betterproto.Message, b: betterproto.Message, what: str) -> None:
    assert a == b, f"{what}: {a!r} != {b!r}"
    assert bytes(a) == bytes(b), f"{what}: bytes differ"


def check_values(values: dict) -> None:
    expected = Holder(**values)
    wire = bytes(expected)
    assert Holder().parse(wire) == expected

    # 1. input written by the independent encoder
    for snake in (False, True):
        for text_keys in (False, True):
            doc = holder_json(values, snake, text_keys)
            what = f"snake={snake} text_keys={text_keys} {sorted(values)}"
            same(Holder.from_dict(doc), expected, "classmethod " + what)
            same(Holder().from_dict(doc), expected, "instance " + what)
            if text_keys:
                text = json.dumps(doc)
                same(Holder().from_json(text), expected, "from_json " + what)
                same(Holder.from_dict(json.loads(text)), expected, "loads " + what)

    # 2. the library's own output (the round trip the property is about)
    for casing in (Casing.CAMEL, Casing.SNAKE):
        d = expected.to_dict(casing=casing)
        text = json.dumps(d)
        assert text == expected.to_json(casing=casing)
        same(Holder.from_dict(d), expected, "rt classmethod")
        same(Holder().from_dict(d), expected, "rt instance")
        same(Holder().from_json(text), expected, "rt from_json")
        same(Holder.from_dict(json.loads(text)), expected, "rt loads")
        back = Holder.from_dict(d)
        assert back.to_dict(casing=casing) == d


count = 0
# every field on its own, several times; then sparse and dense combinations
for name, gen in list(GENERATORS.items()) + list(ONEOF.items()):
    for _ in range(12):
        check_values({name: gen()})
        count += 1
check_values({})
check_values({"one_leaf": Leaf()})
check_values({"one_when": EPOCH})
check_values({"one_long": timedelta(0)})
check_values({"opt_when": EPOCH, "opt_long": timedelta(0), "opt_leaf": Leaf()})
check_values({"w_int64": 0, "w_uint64": 0, "w_int32": 0, "w_bytes": b"", "w_double": 0.0,
              "w_float": 0.0, "w_bool": False, "w_string": ""})
check_values({"m_str_int32": {"": 0}, "m_bool_bytes": {False: b""}, "m_int32_leaf": {0: Leaf()}})
for p in (0.1, 0.3, 0.6, 1.0):
    for _ in range(100):
        check_values(random_values(p))
        count += 1

# ---- explicit literal cases ---------------------------------------------------------
m = Holder.from_dict(
    {
        "when": "2020-01-02T03:04:05.006Z",
        "howLong": "-1.500s",
        "whens": ["1970-01-01T00:00:00Z", "1969-12-31T23:59:59.999999Z"],
        "how_longs": ["0.000001s", "-0.000001s", "3s", "+4.5s"],
        "leaf": {"number": "-9223372036854775808", "labelText": "x"},
        "leaves": [{}, {"label_text": "y", "stamps": ["2001-02-03T04:05:06Z"]}],
        "nothing": {},
        "wInt64": "9223372036854775807",
        "w_uint64": 18446744073709551615,
        "wBytes": "/+8=",
        "wDouble": "-Infinity",
        "wFloat": "NaN",
        "wBool": False,
        "wString": "",
        "mStrWhen": {"a": "2020-01-02T03:04:05.006007Z"},
        "m_str_long": {"": "0s", "b": "-0.250s"},
        "mInt32Leaf": {"-1": {"number": 5}, 2: {}},
        "mInt64Colour": {"-9223372036854775808": "GREEN", "7": 9, "8": "NEGATIVE", "9": -3},
        "mBoolBytes": {"true": "AAE=", "false": ""},
        "mStrInt64": {"k": "-1", "l": 2},
        "mSint32Double": {"-5": "Infinity", "5": 0.5, "6": "1.25"},
        "mUint64String": {"18446744073709551615": "max"},
        "mStrFloat": {"x": "-Infinity", "y": 2},
        "mSfixed64Bool": {"-2": True, "2": False},
        "mFixed32Sfixed64": {"4294967295": "-2"},
        "unknownKey": {"ignored": 1},
        "opt_leaf": None,
    }
)
assert m.when == datetime(2020, 1, 2, 3, 4, 5, 6000, tzinfo=UTC)
assert m.how_long == timedelta(seconds=-1, milliseconds=-500)
assert m.whens == [EPOCH, EPOCH - timedelta(microseconds=1)]
assert m.how_longs == [
    timedelta(microseconds=1),
    timedelta(microseconds=-1),
    timedelta(seconds=3),
    timedelta(seconds=4, milliseconds=500),
]
assert m.leaf == Leaf(number=-(2**63), label_text="x")
assert m.leaves == [Leaf(), Leaf(label_text="y", stamps=[datetime(2001, 2, 3, 4, 5, 6, tzinfo=UTC)])]
assert m.leaves[0]._serialized_on_wire and m.nothing._serialized_on_wire
assert m.w_int64 == 2**63 - 1 and m.w_uint64 == 2**64 - 1
assert m.w_bytes == b"\xff\xef" and m.w_double == float("-inf") and m.w_float != m.w_float
assert m.w_bool is False and m.w_string == ""
assert m.m_str_when == {"a": datetime(2020, 1, 2, 3, 4, 5, 6007, tzinfo=UTC)}
assert m.m_str_long == {"": timedelta(0), "b": timedelta(milliseconds=-250)}
assert m.m_int32_leaf == {-1: Leaf(number=5), 2: Leaf()}
assert list(m.m_int32_leaf) == [-1, 2]
assert m.m_int64_colour == {-(2**63): Colour.GREEN, 7: 9, 8: Colour.NEGATIVE, 9: -3}
assert m.m_int64_colour[-(2**63)] is Colour.GREEN and m.m_int64_colour[8] is Colour.NEGATIVE
assert m.m_bool_bytes == {True: b"\x00\x01", False: b""}
assert m.m_str_int64 == {"k": -1, "l": 2}
assert m.m_sint32_double == {-5: float("inf"), 5: 0.5, 6: 1.25}
assert m.m_uint64_string == {2**64 - 1: "max"}
assert m.m_str_float == {"x": float("-inf"), "y": 2.0}
assert m.m_sfixed64_bool == {-2: True, 2: False}
assert m.m_fixed32_sfixed64 == {2**32 - 1: -2}
assert m.opt_leaf is None and m.opt_when is None
assert betterproto.which_one_of(m, "pick") == ("", None)
assert Holder().parse(bytes(m)) == m

# several JSON keys that denote the same typed key: the last one wins, at the position
# of the first one
dup = Holder.from_dict(
    {
        "mStrInt64": {"z": "1"},
        "mSint32Double": {"1": 1.0, "2": 2.0, "01": 10.0, 3: 3.0, "+2": 20.0, 1: 100.0},
        "mBoolBytes": {"true": "AQ==", True: "Ag==", "false": "", "nonsense": "Aw=="},
    }
)
assert list(dup.m_sint32_double.items()) == [(1, 100.0), (2, 20.0), (3, 3.0)]
assert list(dup.m_bool_bytes.items()) == [(True, b"\x02"), (False, b"\x03")]

# empty containers
e = Holder.from_dict({"whens": [], "leaves": [], "mStrWhen": {}, "mInt64Colour": {}})
assert e == Holder() and bytes(e) == b""
assert e.whens == [] and e.m_int64_colour == {}

# malformed input is still rejected, with the same kind of error
BAD = [
    ({"when": "not a time"}, ValueError),
    ({"whens": ["1970-01-01T00:00:00Z", "nope"]}, ValueError),
    ({"mStrWhen": {"a": "nope"}}, ValueError),
    ({"mInt64Colour": {"1": "PURPLE"}}, ValueError),
    ({"mInt64Colour": {"one": "RED"}}, ValueError),
    ({"mInt32Leaf": {"x": {}}}, ValueError),
    ({"mStrInt64": {"a": "1.5"}}, ValueError),
    ({"mSint32Double": {"1": "abc"}}, ValueError),
    ({"mBoolBytes": {"true": "A"}}, ValueError),
    ({"howLong": "1.x5s"}, ValueError),
    ({"mStrLong": {"a": "zzs"}}, ValueError),
    ({"wInt64": "1.0"}, ValueError),
    ({"leaf": {"number": "x"}}, ValueError),
    ({"leaves": [{"number": "x"}]}, ValueError),
    ({"mStrWhen": ["a"]}, AttributeError),
    ({"mInt32Leaf": {"1": 5}}, AttributeError),
]
for doc, exc in BAD:
    for form in (Holder.from_dict, lambda d: Holder().from_dict(d)):
        try:
            form(doc)
        except exc:
            pass
        else:
            raise AssertionError(f"{doc!r} was accepted")

print(f"C04 keep1 equiv: {count} generated value sets and the literal cases passed")
