"""C18 keep2: plugin/parser.py read_protobuf_type (class dispatch merged into one constructor
call, _make_one_of_field_compiler inlined, early returns).

Exercises
  1. read_protobuf_type directly on every item that `traverse` yields for a schema using every
     scalar type in singular / repeated / optional / oneof / map position (plus an object that is
     neither message nor enum), for the three typing compilers x pydantic on/off, and checks the
     exact compiler class created for each field, order, paths, parents and the typing compiler
     handed on, against an oracle derived from google.protobuf's descriptors of the same schema.
  2. the whole plugin under the default and all 3 x 2 option combinations: import, resolved
     annotations, field metadata, bytes and JSON equal across configurations, bytes
     interchangeable with google.protobuf dynamic messages, and the generated sources themselves
     (digest of the sorted lines, recorded on the reference tree).

Run as:  PYTHONPATH=<worktree>/src /venv/bin/python equiv.py   (exits 0 = all assertions hold)
"""

import contextlib
import datetime
import importlib
import io
import itertools
import os
import shutil
import sys
import tempfile
import typing

import grpc_tools
from google.protobuf import descriptor_pb2, descriptor_pool, message_factory
from google.protobuf.descriptor import FieldDescriptor as FD
from grpc_tools import protoc

import betterproto
from betterproto.plugin import compiler as plugin_compiler

plugin_compiler.subprocess.check_output = lambda cmd, input, encoding: input

from betterproto.lib.google.protobuf import (
    DescriptorProto,
    FieldDescriptorProto,
    FieldDescriptorProtoLabel,
    FileDescriptorProto,
    FileDescriptorSet,
    OneofDescriptorProto,
)
from betterproto.lib.google.protobuf.compiler import CodeGeneratorRequest
from betterproto.plugin.models import (
    FieldCompiler,
    MessageCompiler,
    OneOfFieldCompiler,
    OutputTemplate,
    PluginRequestCompiler,
    PydanticOneOfFieldCompiler,
    monkey_patch_oneof_index,
)
from betterproto.plugin.parser import generate_code
from betterproto.plugin.typing_compiler import (
    DirectImportTypingCompiler,
    NoTyping310TypingCompiler,
    TypingImportTypingCompiler,
)


monkey_patch_oneof_index()

SCALARS = [
    "double", "float", "int32", "int64", "uint32", "uint64", "sint32", "sint64",
    "fixed32", "fixed64", "sfixed32", "sfixed64", "bool", "string", "bytes",
]  # fmt: skip
KEY_SCALARS = [s for s in SCALARS if s not in ("double", "float", "bytes")]


def build_protos():
    lines = [
        'syntax = "proto3";',
        "package kitchen.sink;",
        'import "other/dep.proto";',
        'import "google/protobuf/wrappers.proto";',
        'import "google/protobuf/timestamp.proto";',
        'import "google/protobuf/duration.proto";',
        'import "google/protobuf/struct.proto";',
        "enum Mood { CALM = 0; HAPPY = 1; GRUMPY = -3; }",
        "message Leaf { int32 v = 1; }",
        "message Singles {",
    ]
    n = itertools.count(1)
    lines += [f"  {s} f_{s} = {next(n)};" for s in SCALARS]
    lines += [f"  Mood f_enum = {next(n)};", f"  Leaf f_msg = {next(n)};", "}"]
    lines.append("message Repeats {")
    n = itertools.count(1)
    lines += [f"  repeated {s} r_{s} = {next(n)};" for s in SCALARS]
    lines += [f"  repeated Mood r_enum = {next(n)};", f"  repeated Leaf r_msg = {next(n)};", "}"]
    lines.append("message Optionals {")
    n = itertools.count(1)
    lines += [f"  optional {s} o_{s} = {next(n)};" for s in SCALARS]
    lines += [f"  optional Mood o_enum = {next(n)};", f"  optional Leaf o_msg = {next(n)};", "}"]
    lines.append("message Choice {")
    lines.append("  int32 before = 1;")
    lines.append("  oneof pick {")
    n = itertools.count(2)
    lines += [f"    {s} c_{s} = {next(n)};" for s in SCALARS]
    lines += [f"    Mood c_enum = {next(n)};", f"    Leaf c_msg = {next(n)};"]
    lines += [f"    google.protobuf.Timestamp c_ts = {next(n)};", "  }", "}"]
    lines.append("message Maps {")
    n = itertools.count(1)
    lines += [f"  map<{k}, int32> k_{k} = {next(n)};" for k in KEY_SCALARS]
    lines += [f"  map<string, {v}> v_{v} = {next(n)};" for v in SCALARS]
    lines += [
        f"  map<string, Mood> v_enum = {next(n)};",
        f"  map<int32, Leaf> v_msg = {next(n)};",
        f"  map<string, other.Dep> v_dep = {next(n)};",
        "}",
    ]
    lines += [
        "message Known {",
        "  google.protobuf.Int32Value w_i32 = 1;",
        "  google.protobuf.StringValue w_str = 2;",
        "  google.protobuf.BoolValue w_bool = 3;",
        "  google.protobuf.DoubleValue w_dbl = 4;",
        "  google.protobuf.BytesValue w_bytes = 5;",
        "  google.protobuf.Timestamp ts = 6;",
        "  google.protobuf.Duration du = 7;",
        "  other.Dep dep = 8;",
        "  other.Dep.Kind kind = 9;",
        "  repeated google.protobuf.Duration dus = 10;",
        "  google.protobuf.Struct st = 11;",
        "}",
        "service Sink {",
        "  rpc UU(Singles) returns (Repeats);",
        "  rpc US(Optionals) returns (stream other.Dep);",
        "  rpc SU(stream Choice) returns (Maps);",
        "  rpc SS(stream other.Dep) returns (stream Known);",
        "}",
    ]
    return {
        "kitchen/sink.proto": "\n".join(lines) + "\n",
        "other/dep.proto": 'syntax = "proto3";\npackage other;\n'
        "message Dep { enum Kind { A = 0; B = 1; } string name = 1; Kind kind = 2; }\n",
    }


PROTOS = build_protos()


def descriptor_set() -> bytes:
    d = tempfile.mkdtemp()
    try:
        for name, text in PROTOS.items():
            path = os.path.join(d, name)
            os.makedirs(os.path.dirname(path), exist_ok=True)
            with open(path, "w") as f:
                f.write(text)
        out = os.path.join(d, "fds.bin")
        wkt = os.path.join(os.path.dirname(grpc_tools.__file__), "_proto")
        rc = protoc.main(
            ["protoc", f"-I{d}", f"-I{wkt}", "--include_imports", f"--descriptor_set_out={out}"]
            + list(PROTOS)
        )
        assert rc == 0
        with open(out, "rb") as f:
            return f.read()
    finally:
        shutil.rmtree(d)


FDS = descriptor_set()

# google.protobuf view of the same schema ---------------------------------------------------
gset = descriptor_pb2.FileDescriptorSet.FromString(FDS)
pool = descriptor_pool.DescriptorPool()
for gfile in gset.file:
    pool.Add(gfile)


def gclass(full_name):
    return message_factory.GetMessageClass(pool.FindMessageTypeByName(full_name))


CPP_TO_PY = {
    FD.CPPTYPE_INT32: int, FD.CPPTYPE_INT64: int, FD.CPPTYPE_UINT32: int,
    FD.CPPTYPE_UINT64: int, FD.CPPTYPE_DOUBLE: float, FD.CPPTYPE_FLOAT: float,
    FD.CPPTYPE_BOOL: bool, FD.CPPTYPE_STRING: str,
}  # fmt: skip


def oracle_scalar(gfield):
    """python type of a scalar field according to google.protobuf (None for enum/message)."""
    if gfield.type == FD.TYPE_BYTES:
        return bytes
    return CPP_TO_PY.get(gfield.cpp_type)


# type number -> python type name, from descriptors google.protobuf built itself
SCALAR_NAME_BY_NUMBER = {
    f.type: oracle_scalar(f).__name__
    for f in pool.FindMessageTypeByName("kitchen.sink.Singles").fields
    if oracle_scalar(f) is not None
}
assert len(SCALAR_NAME_BY_NUMBER) == 15, SCALAR_NAME_BY_NUMBER


# ---------------------------------------------------------------------------------------------
# 1. unit level
# ---------------------------------------------------------------------------------------------
def type_label(number):
    return descriptor_pb2.FieldDescriptorProto.Type.Name(number)[len("TYPE_") :].lower()


def unit_checks():
    """read_protobuf_type on the items of the real schema, one output package at a time."""
    from betterproto.lib.google.protobuf import ServiceDescriptorProto
    from betterproto.plugin.models import (
        EnumDefinitionCompiler,
        MapEntryCompiler,
    )
    from betterproto.plugin.parser import read_protobuf_type, traverse

    checked = 0
    compilers = (DirectImportTypingCompiler, TypingImportTypingCompiler, NoTyping310TypingCompiler)
    for make_tc, pydantic in itertools.product(compilers, (False, True)):
        files = {f.name: f for f in FileDescriptorSet().parse(FDS).file}
        src = files["kitchen/sink.proto"]
        tc = make_tc()
        out = OutputTemplate(
            parent_request=PluginRequestCompiler(CodeGeneratorRequest()),
            package_proto_obj=src,
            typing_compiler=tc,
            pydantic_dataclasses=pydantic,
        )
        out.input_files.append(src)
        gfile = pool.FindFileByName("kitchen/sink.proto")
        # traverse renames nested types while it advances, so (like generate_code) every
        # item is processed before the generator is resumed
        items = traverse(src)
        # something that is neither a message nor an enum is ignored
        assert read_protobuf_type(
            item=ServiceDescriptorProto(name="S"), path=[6, 0], source_file=src, output_package=out
        ) is None
        assert out.messages == [] and out.enums == [] and out.services == []
        for item, path in items:
            before = (len(out.messages), len(out.enums))
            result = read_protobuf_type(item=item, path=path, source_file=src, output_package=out)
            assert result is None
            if hasattr(item, "value"):  # EnumDescriptorProto
                assert (len(out.messages), len(out.enums)) == (before[0], before[1] + 1)
                enum = out.enums[-1]
                assert type(enum) is EnumDefinitionCompiler
                assert enum.proto_obj is item and enum.path == path and enum.parent is out
                assert enum.typing_compiler is tc and enum.source_file is src
                assert [(e.name, e.value) for e in enum.entries] == [
                    ("CALM", 0), ("HAPPY", 1), ("GRUMPY", -3)
                ]  # fmt: skip
                checked += 1
                continue
            if item.options.map_entry:
                assert (len(out.messages), len(out.enums)) == before, item.name
                checked += 1
                continue
            assert (len(out.messages), len(out.enums)) == (before[0] + 1, before[1])
            msg = out.messages[-1]
            assert type(msg) is MessageCompiler and msg.proto_obj is item
            assert msg.path == path and msg.parent is out and msg.typing_compiler is tc
            # (traverse prefixed the name with "_")
            gdesc = gfile.message_types_by_name[item.name.lstrip("_")]
            assert len(msg.fields) == len(item.field) == len(gdesc.fields)
            for index, (fc, fproto, gfield) in enumerate(zip(msg.fields, item.field, gdesc.fields)):
                assert gfield.name == fproto.name
                is_map = (
                    gfield.message_type is not None
                    and gfield.message_type.GetOptions().map_entry
                )
                real_oneof = (
                    gfield.containing_oneof is not None
                    and not gfield.containing_oneof.name.startswith("_")
                )
                if is_map:
                    expected = MapEntryCompiler
                elif real_oneof:
                    expected = PydanticOneOfFieldCompiler if pydantic else OneOfFieldCompiler
                else:
                    expected = FieldCompiler
                assert type(fc) is expected, (item.name, fproto.name, type(fc), expected)
                assert fc.proto_obj is fproto and fc.parent is msg and fc.source_file is src
                assert fc.path == path + [2, index] and fc.typing_compiler is tc
                assert fc.optional == (
                    fproto.proto3_optional or (real_oneof and pydantic)
                ), fproto.name
                text = fc.get_field_string()
                assert text.startswith(f"{fproto.name}: ") and f"_field({fproto.number}" in text
                assert ('group="pick"' in text) == real_oneof
                checked += 1
        assert [m.py_name for m in out.messages] == [
            "Leaf", "Singles", "Repeats", "Optionals", "Choice", "Maps", "Known"
        ]  # fmt: skip
        assert out.pydantic_imports == ({"model_validator"} if pydantic else set())
    return checked


# ---------------------------------------------------------------------------------------------
# 2. whole plugin, every configuration
# ---------------------------------------------------------------------------------------------
def generate(options):
    request = CodeGeneratorRequest(
        file_to_generate=list(PROTOS),
        parameter=",".join(options),
        proto_file=FileDescriptorSet().parse(FDS).file,
    )
    with contextlib.redirect_stderr(io.StringIO()):
        response = generate_code(request)
    return {f.name: f.content for f in response.file}


_counter = [0]


def load(files):
    _counter[0] += 1
    root = tempfile.mkdtemp()
    top = f"c18keep2_{_counter[0]}"
    os.makedirs(os.path.join(root, top))
    open(os.path.join(root, top, "__init__.py"), "w").close()
    for name, content in files.items():
        path = os.path.join(root, top, name)
        os.makedirs(os.path.dirname(path), exist_ok=True)
        with open(path, "w") as f:
            f.write(content)
    sys.path.insert(0, root)
    try:
        return (
            importlib.import_module(f"{top}.kitchen.sink"),
            importlib.import_module(f"{top}.other"),
        )
    finally:
        sys.path.remove(root)


SAMPLE = {
    "double": [0.0, 1.5, -2.25e300], "float": [0.0, 0.5, -1024.0],
    "int32": [0, 1, -1, 2**31 - 1, -(2**31)], "int64": [0, 2**63 - 1, -(2**63)],
    "uint32": [0, 2**32 - 1], "uint64": [0, 2**64 - 1],
    "sint32": [0, -1, 2**31 - 1, -(2**31)], "sint64": [0, -(2**63), 2**63 - 1],
    "fixed32": [0, 2**32 - 1], "fixed64": [0, 2**64 - 1],
    "sfixed32": [0, -(2**31)], "sfixed64": [0, -(2**63)],
    "bool": [False, True], "string": ["", "héllo \U0001f600"], "bytes": [b"", b"\x00\xff"],
}  # fmt: skip


def unwrap_hint(hint):
    """(container, element python type) of a resolved annotation."""
    origin = typing.get_origin(hint)
    args = typing.get_args(hint)
    if origin in (list, typing.List):
        return "list", args[0]
    if origin in (dict, typing.Dict):
        return "dict", args
    if type(None) in args:  # typing.Optional[...] and X | None
        (inner,) = [a for a in args if a is not type(None)]
        return "optional", inner
    return "single", hint


def check_shape(sink, pydantic):
    """annotations and metadata against google.protobuf's descriptors."""
    seen = 0
    for mname in ("Singles", "Repeats", "Optionals", "Choice", "Maps"):
        cls = getattr(sink, mname)
        gdesc = pool.FindMessageTypeByName(f"kitchen.sink.{mname}")
        hints = cls._type_hints()
        metas = cls()._betterproto.meta_by_field_name
        assert set(metas) == {f.name for f in gdesc.fields}
        for gfield in gdesc.fields:
            meta = metas[gfield.name]
            assert meta.number == gfield.number
            container, elem = unwrap_hint(hints[gfield.name])
            is_map = gfield.message_type is not None and gfield.message_type.GetOptions().map_entry
            if is_map:
                assert container == "dict" and meta.proto_type == "map"
                kf, vf = (gfield.message_type.fields_by_name[n] for n in ("key", "value"))
                assert meta.map_types == (
                    f"{type_label(kf.type)}", f"{type_label(vf.type)}",
                ), (gfield.name, meta.map_types)  # fmt: skip
                assert elem[0] is oracle_scalar(kf)
                if oracle_scalar(vf) is not None:
                    assert elem[1] is oracle_scalar(vf), (gfield.name, elem)
                else:
                    assert elem[1].__name__ in ("Mood", "Leaf", "Dep")
                seen += 1
                continue
            assert meta.proto_type == type_label(gfield.type), (gfield.name, meta.proto_type)
            real_oneof = (
                gfield.containing_oneof is not None
                and not gfield.containing_oneof.name.startswith("_")
            )
            if gfield.is_repeated:
                assert container == "list", (gfield.name, container)
            elif mname == "Optionals" or (real_oneof and pydantic):
                assert container == "optional" and meta.optional, (gfield.name, container)
            else:
                assert container == "single" and not meta.optional, (gfield.name, container)
            assert meta.group == ("pick" if mname == "Choice" and gfield.name != "before" else None)
            if oracle_scalar(gfield) is not None:
                assert elem is oracle_scalar(gfield), (mname, gfield.name, elem)
            elif gfield.name.endswith("_ts"):
                assert elem is datetime.datetime
            else:
                assert elem.__name__ in ("Mood", "Leaf"), (gfield.name, elem)
            seen += 1
    return seen


def build_values(sink, other):
    """(betterproto message, google message) pairs with equal content."""
    G = {n: gclass(f"kitchen.sink.{n}") for n in ("Singles", "Repeats", "Optionals", "Choice", "Maps", "Known")}
    pairs = []
    # singular: one message per value index
    for i in range(5):
        kw = {f"f_{s}": SAMPLE[s][i % len(SAMPLE[s])] for s in SCALARS}
        b = sink.Singles(**kw, f_enum=sink.Mood.GRUMPY if i % 2 else sink.Mood.CALM, f_msg=sink.Leaf(v=i))
        g = G["Singles"](**kw, f_enum=-3 if i % 2 else 0)
        g.f_msg.v = i
        pairs.append((b, g))
    kw = {f"r_{s}": list(SAMPLE[s]) for s in SCALARS}
    b = sink.Repeats(**kw, r_enum=[sink.Mood.HAPPY, sink.Mood.GRUMPY, sink.Mood.CALM], r_msg=[sink.Leaf(v=1), sink.Leaf()])
    g = G["Repeats"](**kw, r_enum=[1, -3, 0])
    g.r_msg.add(v=1)
    g.r_msg.add()
    pairs.append((b, g))
    for i in range(2):  # optionals: zero values (i == 0) must still be emitted
        kw = {f"o_{s}": SAMPLE[s][i] for s in SCALARS}
        b = sink.Optionals(**kw, o_enum=sink.Mood.CALM if i == 0 else sink.Mood.HAPPY, o_msg=sink.Leaf())
        g = G["Optionals"](**kw, o_enum=i)
        g.o_msg.SetInParent()
        pairs.append((b, g))
    pairs.append((sink.Optionals(), G["Optionals"]()))
    for s in SCALARS:  # each oneof member, zero and non-zero value
        for value in (SAMPLE[s][0], SAMPLE[s][-1]):
            pairs.append((sink.Choice(before=4, **{f"c_{s}": value}), G["Choice"](before=4, **{f"c_{s}": value})))
    pairs.append((sink.Choice(c_enum=sink.Mood.CALM), G["Choice"](c_enum=0)))
    g = G["Choice"]()
    g.c_msg.SetInParent()
    pairs.append((sink.Choice(c_msg=sink.Leaf()), g))
    g = G["Choice"]()
    g.c_ts.FromDatetime(datetime.datetime(2001, 2, 3, 4, 5, 6))
    pairs.append((sink.Choice(c_ts=datetime.datetime(2001, 2, 3, 4, 5, 6, tzinfo=datetime.timezone.utc)), g))
    # maps: single entries so that the byte order is determined
    for k in KEY_SCALARS:
        key = SAMPLE[k][-1]
        pairs.append((sink.Maps(**{f"k_{k}": {key: 5}}), G["Maps"](**{f"k_{k}": {key: 5}})))
    for v in SCALARS:
        for value in (SAMPLE[v][0], SAMPLE[v][-1]):
            pairs.append((sink.Maps(**{f"v_{v}": {"k": value}}), G["Maps"](**{f"v_{v}": {"k": value}})))
    pairs.append((sink.Maps(v_enum={"e": sink.Mood.GRUMPY}), G["Maps"](v_enum={"e": -3})))
    g = G["Maps"]()
    g.v_msg[3].v = 9
    g.v_dep["d"].name = "n"
    pairs.append((sink.Maps(v_msg={3: sink.Leaf(v=9)}, v_dep={"d": other.Dep(name="n")}), g))
    g = G["Known"](kind=1)
    g.w_i32.value = 0
    g.w_str.value = "s"
    g.w_bool.value = True
    g.w_dbl.value = 2.5
    g.w_bytes.value = b"\x01"
    g.ts.FromDatetime(datetime.datetime(1999, 12, 31, 23, 59, 59))
    g.du.FromTimedelta(datetime.timedelta(seconds=3, microseconds=500))
    g.dep.name = "dep"
    g.dep.kind = 1
    g.dus.add().FromTimedelta(datetime.timedelta(days=1))
    b = sink.Known(
        w_i32=0, w_str="s", w_bool=True, w_dbl=2.5, w_bytes=b"\x01",
        ts=datetime.datetime(1999, 12, 31, 23, 59, 59, tzinfo=datetime.timezone.utc),
        du=datetime.timedelta(seconds=3, microseconds=500),
        dep=other.Dep(name="dep", kind=other.DepKind.B), kind=other.DepKind.B,
        dus=[datetime.timedelta(days=1)],
    )  # fmt: skip
    pairs.append((b, g))
    return pairs


def source_digest(files):
    """Digest of the generated sources; lines are sorted because the trailing cross-package
    imports are rendered from a set (their order depends on the hash seed)."""
    import hashlib

    h = hashlib.sha256()
    for name in sorted(files):
        h.update(name.encode() + b"\0")
        h.update("\n".join(sorted(files[name].split("\n"))).encode() + b"\0")
    return h.hexdigest()


# recorded on the reference tree (same protoc / descriptors as this script builds)
EXPECTED_DIGESTS = {
    "<default>": "47b43b13168d1b8519ed86f29badbd0db6160e41edc0b452998de7e6aa35192f",
    "typing.direct": "47b43b13168d1b8519ed86f29badbd0db6160e41edc0b452998de7e6aa35192f",
    "typing.direct,pydantic_dataclasses": "6fe6435a44d90a171c8b62a53d334ba79ffc27b3a176b0aa988dc2d42c3a3dad",
    "typing.root": "f8ec0886633a755cc5a91d33d108b2e87a6a2b721cc2d8c1e0ded7b1466e8d73",
    "typing.root,pydantic_dataclasses": "44f69553fc8e8326e8cf10469c21e370f1cac1a8d17b51724eebb83af359b70f",
    "typing.310": "a33c59d65b1737070069be8d666bb6b3063209040065cd4faef09d9d4c86e79d",
    "typing.310,pydantic_dataclasses": "61038dcc35cdbacff8c22846f96829e41aab8b233c17ffb7666fd3973d15fb58",
}


def pipeline_checks():
    reference = None
    total = 0
    typing_opts = ("typing.direct", "typing.root", "typing.310")
    configs = [[]] + [[t] + p for t in typing_opts for p in ([], ["pydantic_dataclasses"])]
    for options in configs:
        label = ",".join(options) or "<default>"
        files = generate(options)
        assert set(files) >= {"kitchen/sink/__init__.py", "other/__init__.py", "kitchen/__init__.py"}
        for content in files.values():
            compile(content, label, "exec")  # syntactically valid
        if os.environ.get("C18_PRINT_DIGESTS"):
            print(f'    "{label}": "{source_digest(files)}",')
        else:
            assert source_digest(files) == EXPECTED_DIGESTS[label], f"{label}: sources changed"
        sink, other = load(files)
        pydantic = "pydantic_dataclasses" in options
        total += check_shape(sink, pydantic)
        assert {"SinkStub", "SinkBase", "Mood", "Leaf", "Known"} <= set(sink.__all__)
        assert sorted((m.name, int(m)) for m in sink.Mood) == [("CALM", 0), ("GRUMPY", -3), ("HAPPY", 1)]
        mapping = sink.SinkBase().__mapping__()
        assert sorted(mapping) == ["/kitchen.sink.Sink/SS", "/kitchen.sink.Sink/SU", "/kitchen.sink.Sink/US", "/kitchen.sink.Sink/UU"]
        assert mapping["/kitchen.sink.Sink/US"].reply_type is other.Dep
        assert mapping["/kitchen.sink.Sink/SU"].request_type is sink.Choice
        observed = []
        for b, g in build_values(sink, other):
            data = bytes(b)
            gdata = g.SerializeToString(deterministic=True)
            if type(b).__name__ != "Maps":
                assert data == gdata, (label, type(b).__name__, b, data, gdata)
            # (map entries: google.protobuf writes default keys / values explicitly,
            # betterproto omits them - both are valid, so maps are compared by parsing)
            # and back, through the variant's own class
            again = type(b)().parse(gdata)
            assert bytes(again) == data, (label, b)
            assert type(g).FromString(data) == g
            observed.append((type(b).__name__, data, b.to_json(), again.to_json()))
            total += 1
        if reference is None:
            reference = observed
        assert observed == reference, f"{label}: bytes / JSON differ from the default configuration"
    return total


if __name__ == "__main__":
    n1 = unit_checks()
    n2 = pipeline_checks()
    print(f"keep2 equiv: {n1} read_protobuf_type checks, {n2} pipeline checks - all passed")
