"""
C06 keep2 equivalence check: the oneof bookkeeping of Message.__setattr__ (select the
assigned member in _group_current, reset every sibling to the PLACEHOLDER) and
Message.is_set answer exactly as before.

Part 1 is the C06 matrix (field kind x {unset, default, non-default} x {constructor,
attribute, parse, from_dict}, alone and in combination) checked against google.protobuf:
bytes, which_one_of vs WhichOneof, is_set vs HasField, serialized_on_wire.
Part 2 replays long random sequences of assignments / reads / in-place fills / merges on
messages with two oneofs (declared plainly and pydantic-style with optional=True),
optional, wrapper, sub-message, repeated and map fields, and compares after every step
with google.protobuf and with an explicit model of the bookkeeping state
(_group_current, the raw slots, _serialized_on_wire).
Part 3 pins is_set for every kind of field and every kind of value it can hold.
"""
import dataclasses
import io
import random
import sys
from typing import Dict, List, Optional

import betterproto
from betterproto import PLACEHOLDER
from google.protobuf import descriptor_pb2, descriptor_pool, json_format, message_factory
from google.protobuf import wrappers_pb2  # noqa: F401  (registers wrappers.proto)


def varint(n: int) -> bytes:
    n &= (1 << 64) - 1
    out = bytearray()
    while True:
        b = n & 0x7F
        n >>= 7
        if n:
            out.append(b | 0x80)
        else:
            out.append(b)
            return bytes(out)


# =============================================================================== part 1
F = descriptor_pb2.FieldDescriptorProto
PKG = "c06keep2"
SCALARS = [
    ("int32", F.TYPE_INT32, int, betterproto.int32_field, [0, 1, -1, 2**31 - 1, -(2**31)]),
    ("int64", F.TYPE_INT64, int, betterproto.int64_field, [0, 5, -1, 2**63 - 1, -(2**63)]),
    ("uint32", F.TYPE_UINT32, int, betterproto.uint32_field, [0, 1, 2**32 - 1]),
    ("uint64", F.TYPE_UINT64, int, betterproto.uint64_field, [0, 1, 2**64 - 1]),
    ("sint32", F.TYPE_SINT32, int, betterproto.sint32_field, [0, 1, -1, -(2**31)]),
    ("sint64", F.TYPE_SINT64, int, betterproto.sint64_field, [0, 1, -1, 2**63 - 1]),
    ("fixed32", F.TYPE_FIXED32, int, betterproto.fixed32_field, [0, 1, 2**32 - 1]),
    ("fixed64", F.TYPE_FIXED64, int, betterproto.fixed64_field, [0, 1, 2**64 - 1]),
    ("sfixed32", F.TYPE_SFIXED32, int, betterproto.sfixed32_field, [0, -1, 2**31 - 1]),
    ("sfixed64", F.TYPE_SFIXED64, int, betterproto.sfixed64_field, [0, -1, -(2**63)]),
    ("float", F.TYPE_FLOAT, float, betterproto.float_field, [0.0, 1.5, -2.25]),
    ("double", F.TYPE_DOUBLE, float, betterproto.double_field, [0.0, 1e300, -0.125]),
    ("bool", F.TYPE_BOOL, bool, betterproto.bool_field, [False, True]),
    ("string", F.TYPE_STRING, str, betterproto.string_field, ["", "x", "é" * 100]),
    ("bytes", F.TYPE_BYTES, bytes, betterproto.bytes_field, [b"", b"\x00", b"b" * 200]),
]
WRAPS = [
    ("bool", "BoolValue", bool, [False, True]),
    ("bytes", "BytesValue", bytes, [b"", b"\x01"]),
    ("double", "DoubleValue", float, [0.0, 2.5]),
    ("float", "FloatValue", float, [0.0, 2.5]),
    ("int32", "Int32Value", int, [0, -7]),
    ("int64", "Int64Value", int, [0, 2**63 - 1]),
    ("string", "StringValue", str, ["", "s"]),
    ("uint32", "UInt32Value", int, [0, 2**32 - 1]),
    ("uint64", "UInt64Value", int, [0, 2**64 - 1]),
]


class Color(betterproto.Enum):
    ZERO = 0
    ONE = 1
    BIG = 1000


@dataclasses.dataclass(eq=False, repr=False)
class Sub(betterproto.Message):
    v: int = betterproto.int32_field(1)
    t: str = betterproto.string_field(2)


fdp = descriptor_pb2.FileDescriptorProto(
    name=f"{PKG}.proto", package=PKG, syntax="proto3",
    dependency=["google/protobuf/wrappers.proto"],
)
e = fdp.enum_type.add(name="Color")
for member in Color:
    e.value.add(name=member.name, number=member.value)
sm = fdp.message_type.add(name="Sub")
sm.field.add(name="v", number=1, type=F.TYPE_INT32, label=F.LABEL_OPTIONAL)
sm.field.add(name="t", number=2, type=F.TYPE_STRING, label=F.LABEL_OPTIONAL)
am = fdp.message_type.add(name="All")
am.oneof_decl.add(name="grp")

bp_fields = []  # (name, hint, field)
KIND = {}  # field name -> (category, type name, values)
number = 0


def add(name, category, tname, ftype, hint, maker, values, type_name=None, **kw):
    global number
    number += 1
    f = am.field.add(name=name, number=number, type=ftype, label=F.LABEL_OPTIONAL)
    if type_name:
        f.type_name = type_name
    if category == "oneof":
        f.oneof_index = 0
        kw["group"] = "grp"
    elif category == "optional":
        f.proto3_optional = True
        am.oneof_decl.add(name=f"_{name}")
        kw["optional"] = True
        hint = Optional[hint]
    bp_fields.append((name, hint, maker(number, **kw)))
    KIND[name] = (category, tname, values)


SUBVALS = ["empty", "default-inside", "filled"]
for category in ("plain", "oneof", "optional"):
    for tname, ftype, hint, maker, values in SCALARS:
        add(f"{category[:2]}_{tname}", category, tname, ftype, hint, maker, values)
    add(f"{category[:2]}_enum", category, "enum", F.TYPE_ENUM, Color, betterproto.enum_field,
        [Color.ZERO, Color.ONE, Color.BIG], type_name=f".{PKG}.Color")
    add(f"{category[:2]}_sub", category, "sub", F.TYPE_MESSAGE, Sub, betterproto.message_field,
        SUBVALS, type_name=f".{PKG}.Sub")
for wraps, wname, hint, values in WRAPS:
    add(f"w_{wraps}", "wrapper", wraps, F.TYPE_MESSAGE, Optional[hint], betterproto.message_field,
        values, type_name=f".google.protobuf.{wname}", wraps=wraps)
# synthetic oneofs must come after the real ones, and their indices must be fixed up
real = 1
idx = real
for f in am.field:
    if f.proto3_optional:
        f.oneof_index = idx
        idx += 1

pool = descriptor_pool.Default()
pool.Add(fdp)
RefAll = message_factory.GetMessageClass(pool.FindMessageTypeByName(f"{PKG}.All"))
All = dataclasses.make_dataclass(
    "All", bp_fields, bases=(betterproto.Message,), eq=False, repr=False, module=__name__
)
ONEOF_MEMBERS = [n for n, (c, _, _) in KIND.items() if c == "oneof"]
PRESENCE_FIELDS = [n for n, (c, t, _) in KIND.items() if c != "plain" or t == "sub"]


def make_sub(which):
    return {"empty": Sub(), "default-inside": Sub(v=0), "filled": Sub(v=5, t="five")}[which]


def ref_set(ref, name, value):
    category, tname, _ = KIND[name]
    if tname == "sub":
        sub = getattr(ref, name)
        sub.SetInParent()
        if value == "filled":
            sub.v, sub.t = 5, "five"
    elif category == "wrapper":
        getattr(ref, name).value = value
    else:
        setattr(ref, name, int(value) if tname == "enum" else value)


def bp_value(name, value):
    return make_sub(value) if KIND[name][1] == "sub" else value


def sub_is_present(name, value):
    """Sub() assigned to a *plain* field is, by the property, not present."""
    return not (KIND[name] == ("plain", "sub", SUBVALS) and value == "empty")


def dump_delimited(msg):
    buf = io.BytesIO()
    msg.dump(buf, delimit=betterproto.SIZE_DELIMITED)
    return buf.getvalue()


def check_wire(msg, want, ctx):
    data = bytes(msg)
    assert data == want, (ctx, data, want)
    assert len(msg) == len(want), (ctx, len(msg), len(want))
    assert dump_delimited(msg) == varint(len(want)) + want, ctx


def check_presence(msg, ref, ctx):
    which = ref.WhichOneof("grp") or ""
    assert betterproto.which_one_of(msg, "grp")[0] == which, (ctx, which)
    for name in PRESENCE_FIELDS:
        assert msg.is_set(name) == ref.HasField(name), (ctx, name)
        if KIND[name] == ("plain", "sub", SUBVALS):
            assert betterproto.serialized_on_wire(getattr(msg, name)) == ref.HasField(name), ctx


# ---- fresh message
fresh = All()
check_wire(fresh, b"", "fresh")
check_presence(fresh, RefAll(), "fresh")
for name, (category, tname, values) in KIND.items():
    if category == "oneof":
        continue
    got = getattr(All(), name)
    if category in ("optional", "wrapper"):
        assert got is None, name
    elif tname == "sub":
        assert got == Sub() and not betterproto.serialized_on_wire(got), name
    else:
        assert got == values[0] and type(got) is type(values[0]), name
check_wire(fresh, b"", "fresh after reads")

# ---- one field at a time, every way of setting it
n_cases = 0
for name, (category, tname, values) in KIND.items():
    for value in values:
        ctx = (name, value if not isinstance(value, (str, bytes)) else value[:8])
        ref = RefAll()
        present = sub_is_present(name, value)
        if present:
            ref_set(ref, name, value)
        want = ref.SerializeToString(deterministic=True)
        if category == "plain" and tname != "sub" and value == values[0]:
            assert want == b"", ctx  # implicit presence, default value: never emitted

        # constructor
        m1 = All(**{name: bp_value(name, value)})
        check_wire(m1, want, ctx + ("ctor",))
        # attribute assignment
        m2 = All()
        setattr(m2, name, bp_value(name, value))
        check_wire(m2, want, ctx + ("attr",))
        if tname == "sub" and category == "plain" and value != "empty":
            m2b = All()
            sub = getattr(m2b, name)
            if value == "filled":
                sub.v, sub.t = 5, "five"
            else:
                sub.v = 0
            check_wire(m2b, want, ctx + ("in place",))
        # parse
        m3 = All().parse(want)
        check_wire(m3, want, ctx + ("parse",))
        check_presence(m3, ref, ctx + ("parse",))
        # from_dict
        as_json = json_format.MessageToDict(ref, preserving_proto_field_name=True)
        for m4 in (All.from_dict(as_json), All().from_dict(as_json)):
            check_wire(m4, want, ctx + ("from_dict", as_json))
            check_presence(All().parse(bytes(m4)), ref, ctx + ("from_dict",))
        if category != "plain" or tname == "sub":
            for m in (m1, m2):
                check_presence(All().parse(bytes(m)), ref, ctx + ("roundtrip",))
        n_cases += 1

# ---- combinations of several fields
rng = random.Random(606)
names = list(KIND)
for _ in range(400):
    chosen = rng.sample(names, rng.randint(2, 12))
    seen_oneof = False
    kwargs, ref = {}, RefAll()
    for name in sorted(chosen, key=names.index):
        category, tname, values = KIND[name]
        if category == "oneof":
            if seen_oneof:
                continue
            seen_oneof = True
        value = rng.choice(values)
        kwargs[name] = bp_value(name, value)
        if sub_is_present(name, value):
            ref_set(ref, name, value)
    want = ref.SerializeToString(deterministic=True)
    ctx = ("combo", sorted(kwargs))
    built = All(**kwargs)
    check_wire(built, want, ctx)
    assigned = All()
    for name, value in kwargs.items():
        setattr(assigned, name, value)
    check_wire(assigned, want, ctx)
    parsed = All().parse(want)
    check_wire(parsed, want, ctx)
    check_presence(parsed, ref, ctx)
    as_json = json_format.MessageToDict(ref, preserving_proto_field_name=True)
    check_wire(All.from_dict(as_json), want, ctx)


# =============================================================================== part 2
PKG2 = "c06keep2seq"
fdp = descriptor_pb2.FileDescriptorProto(
    name=f"{PKG2}.proto", package=PKG2, syntax="proto3",
    dependency=["google/protobuf/wrappers.proto"],
)
im = fdp.message_type.add(name="Item")
im.field.add(name="v", number=1, type=F.TYPE_INT32, label=F.LABEL_OPTIONAL)
qm = fdp.message_type.add(name="Seq")
qm.oneof_decl.add(name="one")
qm.oneof_decl.add(name="two")
entry = qm.nested_type.add(name="MpEntry")
entry.options.map_entry = True
entry.field.add(name="key", number=1, type=F.TYPE_STRING, label=F.LABEL_OPTIONAL)
entry.field.add(name="value", number=2, type=F.TYPE_INT32, label=F.LABEL_OPTIONAL)
ITEM = f".{PKG2}.Item"
SPEC = [
    # name, number, type, type_name, oneof index / "opt" / None
    ("a", 1, F.TYPE_INT32, None, 0),
    ("b", 2, F.TYPE_STRING, None, 0),
    ("c", 3, F.TYPE_MESSAGE, ITEM, 0),
    ("d", 4, F.TYPE_BYTES, None, 0),
    ("x", 5, F.TYPE_BOOL, None, 1),
    ("y", 6, F.TYPE_MESSAGE, ITEM, 1),
    ("z", 7, F.TYPE_DOUBLE, None, 1),
    ("oi", 8, F.TYPE_INT32, None, "opt"),
    ("os", 9, F.TYPE_STRING, None, "opt"),
    ("om", 10, F.TYPE_MESSAGE, ITEM, "opt"),
    ("wi", 11, F.TYPE_MESSAGE, ".google.protobuf.Int32Value", None),
    ("ws", 12, F.TYPE_MESSAGE, ".google.protobuf.StringValue", None),
    ("sub", 13, F.TYPE_MESSAGE, ITEM, None),
    ("pi", 14, F.TYPE_INT32, None, None),
    ("ps", 15, F.TYPE_STRING, None, None),
]
synthetic = 2
for fname, fnum, ftype, tname, where in SPEC:
    f = qm.field.add(name=fname, number=fnum, type=ftype, label=F.LABEL_OPTIONAL)
    if tname:
        f.type_name = tname
    if where == "opt":
        f.proto3_optional = True
        qm.oneof_decl.add(name=f"_{fname}")
        f.oneof_index = synthetic
        synthetic += 1
    elif where is not None:
        f.oneof_index = where
qm.field.add(name="ri", number=16, type=F.TYPE_INT32, label=F.LABEL_REPEATED)
qm.field.add(name="mp", number=17, type=F.TYPE_MESSAGE, label=F.LABEL_REPEATED,
             type_name=f".{PKG2}.Seq.MpEntry")
pool.Add(fdp)
RefSeq = message_factory.GetMessageClass(pool.FindMessageTypeByName(f"{PKG2}.Seq"))


@dataclasses.dataclass(eq=False, repr=False)
class Item(betterproto.Message):
    v: int = betterproto.int32_field(1)


@dataclasses.dataclass(eq=False, repr=False)
class SeqPlain(betterproto.Message):
    a: int = betterproto.int32_field(1, group="one")
    b: str = betterproto.string_field(2, group="one")
    c: Item = betterproto.message_field(3, group="one")
    d: bytes = betterproto.bytes_field(4, group="one")
    x: bool = betterproto.bool_field(5, group="two")
    y: Item = betterproto.message_field(6, group="two")
    z: float = betterproto.double_field(7, group="two")
    oi: Optional[int] = betterproto.int32_field(8, optional=True)
    os: Optional[str] = betterproto.string_field(9, optional=True)
    om: Optional[Item] = betterproto.message_field(10, optional=True)
    wi: Optional[int] = betterproto.message_field(11, wraps=betterproto.TYPE_INT32)
    ws: Optional[str] = betterproto.message_field(12, wraps=betterproto.TYPE_STRING)
    sub: Item = betterproto.message_field(13)
    pi: int = betterproto.int32_field(14)
    ps: str = betterproto.string_field(15)
    ri: List[int] = betterproto.int32_field(16)
    mp: Dict[str, int] = betterproto.map_field(17, betterproto.TYPE_STRING, betterproto.TYPE_INT32)


@dataclasses.dataclass(eq=False, repr=False)
class SeqOpt(betterproto.Message):
    # oneof members the way the plugin's pydantic mode declares them
    a: Optional[int] = betterproto.int32_field(1, optional=True, group="one")
    b: Optional[str] = betterproto.string_field(2, optional=True, group="one")
    c: Optional[Item] = betterproto.message_field(3, optional=True, group="one")
    d: Optional[bytes] = betterproto.bytes_field(4, optional=True, group="one")
    x: Optional[bool] = betterproto.bool_field(5, optional=True, group="two")
    y: Optional[Item] = betterproto.message_field(6, optional=True, group="two")
    z: Optional[float] = betterproto.double_field(7, optional=True, group="two")
    oi: Optional[int] = betterproto.int32_field(8, optional=True)
    os: Optional[str] = betterproto.string_field(9, optional=True)
    om: Optional[Item] = betterproto.message_field(10, optional=True)
    wi: Optional[int] = betterproto.message_field(11, wraps=betterproto.TYPE_INT32)
    ws: Optional[str] = betterproto.message_field(12, wraps=betterproto.TYPE_STRING)
    sub: Item = betterproto.message_field(13)
    pi: int = betterproto.int32_field(14)
    ps: str = betterproto.string_field(15)
    ri: List[int] = betterproto.int32_field(16)
    mp: Dict[str, int] = betterproto.map_field(17, betterproto.TYPE_STRING, betterproto.TYPE_INT32)


GROUPS = {"one": ["a", "b", "c", "d"], "two": ["x", "y", "z"]}
GROUP_OF = {m: g for g, ms in GROUPS.items() for m in ms}
MEMBER_VALUES = {
    "a": [0, 9, -1],
    "b": ["", "bee"],
    "c": ["item-empty", "item-zero", "item-3"],
    "d": [b"", b"\x00\x01"],
    "x": [False, True],
    "y": ["item-empty", "item-zero", "item-3"],
    "z": [0.0, 2.5],
}
OPT_VALUES = {
    "oi": [None, 0, 4],
    "os": [None, "", "s"],
    "om": [None, "item-empty", "item-zero", "item-3"],
    "wi": [None, 0, 11],
    "ws": [None, "", "w"],
}
PRESENCE = list(GROUP_OF) + list(OPT_VALUES) + ["sub"]
ALL_FIELDS = PRESENCE + ["pi", "ps", "ri", "mp"]


def bp_item(tag):
    return {"item-empty": Item(), "item-zero": Item(v=0), "item-3": Item(v=3)}[tag]


def ref_item(ref, name, tag):
    ref.ClearField(name)
    child = getattr(ref, name)
    child.SetInParent()
    if tag == "item-3":
        child.v = 3


class Model:
    """What the bookkeeping state must be, independent of how it is maintained."""

    def __init__(self, cls, kwargs):
        self.initial = None if cls is SeqOpt else PLACEHOLDER
        self.raw_unset = {m: True for m in GROUP_OF}  # slot holds its "nothing" value
        self.reset = {m: False for m in GROUP_OF}  # slot was reset to PLACEHOLDER
        self.current = {"one": None, "two": None}
        self.flag = bool(kwargs)
        self.scalar_assigned = {"pi": False, "ps": False}
        for name in kwargs:
            if name in GROUP_OF:
                self.raw_unset[name] = False
                self.current[GROUP_OF[name]] = name  # the last one in field order wins
            if name in self.scalar_assigned:
                self.scalar_assigned[name] = True

    def select(self, name):
        for sibling in GROUPS[GROUP_OF[name]]:
            if sibling != name:
                self.raw_unset[sibling] = True
                self.reset[sibling] = True
        self.raw_unset[name] = False
        self.reset[name] = False
        self.current[GROUP_OF[name]] = name


def compare(msg, ref, model, ctx):
    data = bytes(msg)
    want = ref.SerializeToString(deterministic=True)
    assert data == want, (ctx, data, want)
    assert len(msg) == len(want), ctx
    assert msg._group_current == model.current, (ctx, msg._group_current, model.current)
    assert list(msg._group_current) == ["one", "two"], ctx
    assert betterproto.serialized_on_wire(msg) is model.flag, ctx
    for group, members in GROUPS.items():
        which = ref.WhichOneof(group)
        name, value = betterproto.which_one_of(msg, group)
        assert name == (which or ""), (ctx, group, name, which)
        if not which:
            assert value is None, ctx
        for member in members:
            raw = object.__getattribute__(msg, member)
            if model.reset[member]:
                assert raw is PLACEHOLDER, (ctx, member, raw)
            elif model.raw_unset[member]:
                assert raw is model.initial, (ctx, member, raw)
            else:
                assert raw is not PLACEHOLDER and raw is not None, (ctx, member, raw)
            if member == which:
                got = getattr(msg, member)
                exp = getattr(ref, member)
                if isinstance(got, Item):
                    assert got.v == exp.v, ctx
                else:
                    assert got == exp and type(got) is type(exp), (ctx, member, got, exp)
            else:
                try:
                    getattr(msg, member)
                except AttributeError:
                    pass
                else:
                    raise AssertionError((ctx, member, "readable although not selected"))
    for name in PRESENCE:
        if name in GROUP_OF and not model.raw_unset[name] and model.current[GROUP_OF[name]] != name:
            # Two members of one oneof were given to the constructor and this is the one
            # that lost: outside the property, but its answer must not change either.
            assert msg.is_set(name) is (type(msg) is SeqOpt), (ctx, name, "stale member")
            continue
        assert msg.is_set(name) is ref.HasField(name), (ctx, name)
    assert betterproto.serialized_on_wire(msg.sub) is ref.HasField("sub"), ctx
    for name in ("pi", "ps"):
        assert msg.is_set(name) is model.scalar_assigned[name], (ctx, name)
    assert msg.is_set("ri") is bool(len(ref.ri)), ctx
    assert msg.is_set("mp") is bool(len(ref.mp)), ctx
    back = type(msg)().parse(data)
    for group in GROUPS:
        assert betterproto.which_one_of(back, group)[0] == (ref.WhichOneof(group) or ""), ctx
    for name in PRESENCE:
        assert back.is_set(name) is ref.HasField(name), (ctx, name, "after decoding")
    assert bytes(back) == data, ctx


def run_sequence(cls, seed, steps):
    rng = random.Random(seed)
    kwargs, ref = {}, RefSeq()
    # constructor part (sometimes two members of one oneof: the later field wins)
    for name in ALL_FIELDS:
        if rng.random() < 0.12:
            if name in GROUP_OF:
                tag = rng.choice(MEMBER_VALUES[name])
                kwargs[name] = bp_item(tag) if name in "cy" else tag
                if name in "cy":
                    ref_item(ref, name, tag)
                else:
                    setattr(ref, name, tag)
            elif name == "pi":
                kwargs[name] = 0
                ref.pi = 0
            elif name == "oi":
                kwargs[name] = 0
                ref.oi = 0
    msg = cls(**kwargs)
    model = Model(cls, kwargs)
    compare(msg, ref, model, (cls.__name__, seed, "ctor", sorted(kwargs)))

    for step in range(steps):
        op = rng.choice(
            ["member", "member", "member", "opt", "sub", "fill", "fill-y", "read", "read",
             "scalar", "list", "map", "merge", "merge"]
        )
        ctx = (cls.__name__, seed, step, op)
        if op == "member":
            name = rng.choice(list(GROUP_OF))
            tag = rng.choice(MEMBER_VALUES[name])
            if name in "cy":
                setattr(msg, name, bp_item(tag))
                ref_item(ref, name, tag)
            else:
                setattr(msg, name, tag)
                setattr(ref, name, tag)
            model.select(name)
            model.flag = True
            ctx += (name, tag)
        elif op == "opt":
            name = rng.choice(list(OPT_VALUES))
            tag = rng.choice(OPT_VALUES[name])
            if tag is None:
                setattr(msg, name, None)
                ref.ClearField(name)
            elif name == "om":
                msg.om = bp_item(tag)
                ref_item(ref, "om", tag)
            elif name in ("wi", "ws"):
                setattr(msg, name, tag)
                getattr(ref, name).value = tag
            else:
                setattr(msg, name, tag)
                setattr(ref, name, tag)
            model.flag = True
            ctx += (name, tag)
        elif op == "sub":
            tag = rng.choice(["item-empty", "item-zero", "item-3"])
            msg.sub = bp_item(tag)
            if tag == "item-empty":
                ref.ClearField("sub")  # Item() carries no presence
            else:
                ref_item(ref, "sub", tag)
            model.flag = True
            ctx += (tag,)
        elif op == "fill":
            k = rng.choice([0, 0, 6])
            msg.sub.v = k
            ref.sub.v = k
        elif op == "fill-y":
            if model.current["two"] != "y":
                continue
            k = rng.choice([0, 8])
            msg.y.v = k
            ref.y.v = k
        elif op == "read":
            name = rng.choice(ALL_FIELDS)
            try:
                getattr(msg, name)
            except AttributeError:
                assert name in GROUP_OF and model.current[GROUP_OF[name]] != name, ctx
            ctx += (name,)
        elif op == "scalar":
            name = rng.choice(["pi", "ps"])
            value = rng.choice([0, 3]) if name == "pi" else rng.choice(["", "p"])
            setattr(msg, name, value)
            setattr(ref, name, value)
            model.scalar_assigned[name] = True
            model.flag = True
        elif op == "list":
            if rng.random() < 0.2:
                msg.ri = []
                del ref.ri[:]
                model.flag = True
            else:
                k = rng.choice([0, 1])
                msg.ri.append(k)
                ref.ri.append(k)
        elif op == "map":
            k = rng.choice([0, 2])
            msg.mp["k"] = k
            ref.mp["k"] = k
        elif op == "merge":
            payload = RefSeq()
            members = rng.sample(["a", "b", "d", "x", "z"], rng.randint(0, 3))
            for name in members:
                setattr(payload, name, rng.choice(MEMBER_VALUES[name]))
            if rng.random() < 0.4:
                payload.oi = rng.choice([0, 4])
            if rng.random() < 0.3:
                payload.pi = 3
            if rng.random() < 0.3:
                payload.ri.append(5)
            data = payload.SerializeToString(deterministic=True)
            if rng.random() < 0.3 and len(members) >= 2:
                # several members of one oneof on the wire, in an arbitrary order
                data = b"".join(
                    RefSeq(**{n: getattr(payload, n)}).SerializeToString() for n in members
                ) + data
            assert msg.parse(data) is msg
            ref.MergeFromString(data)
            probe = RefSeq()
            probe.ParseFromString(data)
            # the members that appear on the wire, in wire order, are assigned in turn
            for parsed in betterproto.parse_fields(data):
                name = {1: "a", 2: "b", 4: "d", 5: "x", 7: "z"}.get(parsed.number)
                if name:
                    model.select(name)
            if probe.pi or b"\x70" in data[:0]:
                model.scalar_assigned["pi"] = True
            model.flag = True
            ctx += (data,)
        compare(msg, ref, model, ctx)


for cls in (SeqPlain, SeqOpt):
    for seed in range(90):
        run_sequence(cls, seed, 40)

# =============================================================================== part 3
for cls in (SeqPlain, SeqOpt):
    m = cls()
    assert not any(m.is_set(n) for n in ALL_FIELDS)
    for n in ALL_FIELDS:  # reading is not setting
        try:
            getattr(m, n)
        except AttributeError:
            assert n in GROUP_OF
    assert not any(m.is_set(n) for n in ALL_FIELDS)
    assert bytes(m) == b"" and not betterproto.serialized_on_wire(m)

    # is_set answers with a real bool for every kind of field and value
    table = [
        ("a", 0, True), ("a", 5, True), ("b", "", True), ("c", Item(), True),
        ("d", b"", True), ("x", False, True), ("y", Item(v=0), True), ("z", 0.0, True),
        ("oi", 0, True), ("oi", None, False), ("os", "", True), ("os", None, False),
        ("om", Item(), True), ("om", None, False),
        ("wi", 0, True), ("wi", None, False), ("ws", "", True), ("ws", None, False),
        ("sub", Item(), False), ("sub", Item(v=0), True), ("sub", Item(v=1), True),
        ("pi", 0, True), ("ps", "", True),
        ("ri", [], False), ("ri", [0], True), ("mp", {}, False), ("mp", {"": 0}, True),
    ]
    for name, value, want in table:
        for how in ("ctor", "attr"):
            if how == "ctor":
                m = cls(**{name: value})
            else:
                m = cls()
                setattr(m, name, value)
            got = m.is_set(name)
            assert got is want, (cls.__name__, name, value, how, got)
            for other in ALL_FIELDS:
                if other != name:
                    assert m.is_set(other) is False, (cls.__name__, name, other)
    # a sub-message whose flag was dropped by hand but that holds a value is still set
    m = cls()
    m.sub.v = 4
    m.sub._serialized_on_wire = False
    assert m.is_set("sub") is True
    m.sub.v = 0
    m.sub._serialized_on_wire = False
    assert m.is_set("sub") is False
    # displaced members
    m = cls(a=1)
    m.b = ""
    assert m.is_set("b") is True and m.is_set("a") is False
    m.c = Item()
    assert m.is_set("c") is True and m.is_set("b") is False and m.is_set("a") is False
    assert betterproto.which_one_of(m, "one") == ("c", Item())
    assert betterproto.which_one_of(m, "two") == ("", None)
    assert bytes(m) == b"\x1a\x00"
    # attributes that are not oneof members never touch the bookkeeping
    before = dict(m._group_current)
    m.pi, m.oi, m.wi, m.sub, m.ri, m.mp = 1, 0, 0, Item(v=0), [1], {"k": 1}
    m._unknown_fields = b""
    assert m._group_current == before

print(f"C06 keep2 equiv: OK ({n_cases} single-field cases, 400 combinations, 180 sequences)")
