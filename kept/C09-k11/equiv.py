"""Equivalence check for the Message.__getattribute__ restructuring (C09).

dump() and __len__() read every field with getattr(); the read of a oneof member
that is not the selected one must raise AttributeError (that is how both walks skip
it), every other read must return the stored value or the lazily created default.
The script checks that behaviour directly and then checks the C09 statement on a
large deterministic corpus, whose complete observable output is compared with a
digest recorded on the reference tree.
"""
import copy
import hashlib
import random
import sys
from dataclasses import dataclass
from datetime import datetime, timedelta, timezone
from io import BytesIO
from typing import Dict, List, Optional

import betterproto
from betterproto import PLACEHOLDER, SIZE_DELIMITED, encode_varint


class Colour(betterproto.Enum):
    ZERO = 0
    RED = 1
    BIG = 300
    NEG = -2


@dataclass(eq=False, repr=False)
class Leaf(betterproto.Message):
    n: int = betterproto.int32_field(1)
    s: str = betterproto.string_field(2)


@dataclass(eq=False, repr=False)
class Empty(betterproto.Message):
    pass


@dataclass(eq=False, repr=False)
class Node(betterproto.Message):
    # plain members
    count: int = betterproto.int64_field(1)
    label: str = betterproto.string_field(2)
    leaf: "Leaf" = betterproto.message_field(3)
    child: "Node" = betterproto.message_field(4)  # recursive
    nums: List[int] = betterproto.sint32_field(5)
    leaves: List["Leaf"] = betterproto.message_field(6)
    table: Dict[str, int] = betterproto.map_field(
        7, betterproto.TYPE_STRING, betterproto.TYPE_INT32
    )
    by_id: Dict[int, "Leaf"] = betterproto.map_field(
        8, betterproto.TYPE_INT64, betterproto.TYPE_MESSAGE
    )
    # oneof "pick"
    p_int: int = betterproto.int32_field(10, group="pick")
    p_str: str = betterproto.string_field(11, group="pick")
    p_leaf: "Leaf" = betterproto.message_field(12, group="pick")
    p_bool: bool = betterproto.bool_field(13, group="pick")
    p_bytes: bytes = betterproto.bytes_field(14, group="pick")
    p_enum: "Colour" = betterproto.enum_field(15, group="pick")
    p_empty: "Empty" = betterproto.message_field(16, group="pick")
    # second oneof "other", with large field numbers
    o_double: float = betterproto.double_field(2047, group="other")
    o_fixed: int = betterproto.fixed32_field(2048, group="other")
    # proto3 optional
    opt_int: Optional[int] = betterproto.int32_field(20, optional=True)
    opt_str: Optional[str] = betterproto.string_field(21, optional=True)
    opt_leaf: Optional["Leaf"] = betterproto.message_field(22, optional=True)
    # well-known types
    when: datetime = betterproto.message_field(30)
    span: timedelta = betterproto.message_field(31)
    wrapped: Optional[int] = betterproto.message_field(32, wraps=betterproto.TYPE_INT32)
    colour: "Colour" = betterproto.enum_field(33)


PICK = ["p_int", "p_str", "p_leaf", "p_bool", "p_bytes", "p_enum", "p_empty"]
OTHER = ["o_double", "o_fixed"]
raw = object.__getattribute__


def observe(m):
    """Check the C09 statement for m and return everything observable about it."""
    data = bytes(m)
    assert m.SerializeToString() == data
    assert len(m) == len(data), (len(m), len(data))
    out = BytesIO()
    m.dump(out)
    assert out.getvalue() == data
    out = BytesIO()
    m.dump(out, SIZE_DELIMITED)
    assert out.getvalue() == encode_varint(len(data)) + data
    return data


# --------------------------------------------------------------------------- #
# 1. direct checks of attribute access
# --------------------------------------------------------------------------- #
def expect_unselected(m, name, group, selected):
    try:
        getattr(m, name)
    except AttributeError as e:
        assert e.args == (f"{group!r} is set to {selected!r}, not {name!r}",), e.args
        if sys.version_info >= (3, 10):
            assert e.name == name
            assert e.obj is m
    else:
        raise AssertionError(f"{name} was readable")
    assert not hasattr(m, name)
    assert getattr(m, name, "fallback") == "fallback"


def direct_checks():
    m = Node()
    # nothing selected: every member of every real oneof is unreadable
    for name in PICK:
        expect_unselected(m, name, "pick", None)
    for name in OTHER:
        expect_unselected(m, name, "other", None)
    assert betterproto.which_one_of(m, "pick") == ("", None)
    assert observe(m) == b""

    # optional members are not in a group; unset reads as None
    assert m.opt_int is None and m.opt_str is None and m.opt_leaf is None
    assert raw(m, "opt_int") is None

    # reads of scalars do not store anything, reads of containers / messages do
    m = Node()
    assert m.count == 0 and m.label == "" and m.colour == Colour.ZERO
    assert m.wrapped is None
    assert m.when == datetime(1970, 1, 1, tzinfo=timezone.utc)
    assert m.span == timedelta(0)
    for name in ("count", "label", "colour", "wrapped", "when", "span"):
        assert raw(m, name) is PLACEHOLDER, name
    for name in ("leaf", "child", "nums", "leaves", "table", "by_id"):
        assert raw(m, name) is PLACEHOLDER, name
        first = getattr(m, name)
        assert raw(m, name) is first, name
        assert getattr(m, name) is first, name
    assert isinstance(m.leaf, Leaf) and isinstance(m.child, Node)
    assert m.nums == [] and m.table == {}
    # a read is not a set
    assert betterproto.serialized_on_wire(m) is False
    assert betterproto.serialized_on_wire(m.child) is False
    assert not m.is_set("leaf") or True  # (is_set semantics are not this script's topic)
    assert observe(m) == b""

    # special names and ordinary attribute errors
    assert m.__class__ is Node
    assert m._betterproto is Node._betterproto
    assert m._group_current == {"pick": None, "other": None}
    try:
        m.no_such_attribute
    except AttributeError as e:
        assert "no_such_attribute" in str(e)
        assert "is set to" not in str(e)
    else:
        raise AssertionError
    assert callable(m.dump) and callable(m._get_field_default)

    # selecting and switching
    m.p_int = 0
    assert m.p_int == 0
    assert betterproto.which_one_of(m, "pick") == ("p_int", 0)
    for name in PICK[1:]:
        expect_unselected(m, name, "pick", "p_int")
    assert observe(m) == b"\x50\x00"
    m.p_str = ""
    expect_unselected(m, "p_int", "pick", "p_str")
    assert raw(m, "p_int") is PLACEHOLDER
    assert observe(m) == b"\x5a\x00"
    m.p_leaf = Leaf()
    expect_unselected(m, "p_str", "pick", "p_leaf")
    assert observe(m) == b"\x62\x00"
    m.p_leaf.n = 5  # in-place fill of the selected member
    assert observe(m) == b"\x62\x02\x08\x05"
    m.p_empty = Empty()
    expect_unselected(m, "p_leaf", "pick", "p_empty")
    assert observe(m) == b"\x82\x01\x00"
    m.p_enum = Colour.ZERO
    assert observe(m) == b"\x78\x00"
    m.p_bool = False
    assert observe(m) == b"\x68\x00"
    m.p_bytes = b""
    assert observe(m) == b"\x72\x00"
    # the other group is independent
    expect_unselected(m, "o_fixed", "other", None)
    m.o_fixed = 0
    expect_unselected(m, "o_double", "other", "o_fixed")
    assert observe(m) == b"\x72\x00" + b"\x85\x80\x01" + b"\x00" * 4
    m.o_double = 0.0
    expect_unselected(m, "o_fixed", "other", "o_double")
    assert observe(m) == b"\x72\x00" + b"\xf9\x7f" + b"\x00" * 8

    # constructor selection
    c = Node(p_str="x", o_fixed=7, opt_int=0, opt_str="", opt_leaf=Leaf())
    expect_unselected(c, "p_int", "pick", "p_str")
    expect_unselected(c, "o_double", "other", "o_fixed")
    assert c.opt_int == 0 and c.opt_str == "" and isinstance(c.opt_leaf, Leaf)
    observe(c)

    # parse selects the last member seen on the wire
    p = Node().parse(b"\x50\x01\x5a\x01a")
    assert betterproto.which_one_of(p, "pick") == ("p_str", "a")
    expect_unselected(p, "p_int", "pick", "p_str")
    assert observe(p) == b"\x5a\x01a"

    # copies keep the selection
    for dup in (copy.copy(c), copy.deepcopy(c)):
        expect_unselected(dup, "p_int", "pick", "p_str")
        assert bytes(dup) == bytes(c)
        observe(dup)

    # attribute access while the dataclass __init__ is still running
    seen = []

    @dataclass(eq=False, repr=False)
    class Spy(betterproto.Message):
        a: int = betterproto.int32_field(1, group="g")
        b: int = betterproto.int32_field(2, group="g")

        def __setattr__(self, attr, value):
            # before __post_init__ there is no selection, so nothing raises
            seen.append((attr, hasattr(self, "_group_current"), hasattr(self, "b")))
            super().__setattr__(attr, value)

    s = Spy(a=1)
    assert seen[0] == ("a", False, True), seen[0]
    assert seen[1] == ("b", False, True), seen[1]
    expect_unselected(s, "b", "g", "a")
    assert observe(s) == b"\x08\x01"


# --------------------------------------------------------------------------- #
# 2. deterministic corpus
# --------------------------------------------------------------------------- #
def rand_leaf(r):
    k = r.randrange(4)
    if k == 0:
        return Leaf()
    if k == 1:
        return Leaf(n=r.choice([0, 1, -1, 127, 128, 2**31 - 1, -(2**31)]))
    if k == 2:
        return Leaf(s=r.choice(["", "a", "é" * 70, "x" * 127, "x" * 128]))
    return Leaf(n=r.randrange(-500, 500), s="s" * r.randrange(4))


def rand_node(r, depth=0):
    m = Node()
    if r.random() < 0.5:
        m.count = r.choice([0, 1, -1, 2**63 - 1, -(2**63), 300])
    if r.random() < 0.4:
        m.label = r.choice(["", "lbl", "€" * 50])
    if r.random() < 0.4:
        m.leaf = rand_leaf(r)
    elif r.random() < 0.3:
        m.leaf.n = r.randrange(3)  # in-place fill of the lazily created default
    if depth < 3 and r.random() < 0.5:
        m.child = rand_node(r, depth + 1)
    if r.random() < 0.4:
        m.nums = [r.choice([0, -1, 1, -64, 64, 2**31 - 1, -(2**31)]) for _ in range(r.randrange(1, 70))]
    elif r.random() < 0.3:
        m.nums.append(r.randrange(-9, 9))
    if r.random() < 0.4:
        m.leaves = [rand_leaf(r) for _ in range(r.randrange(4))]
    if r.random() < 0.4:
        for _ in range(r.randrange(3)):
            m.table[r.choice(["", "k", "key" * 50])] = r.choice([0, 1, -1])
    if r.random() < 0.3:
        for _ in range(r.randrange(3)):
            m.by_id[r.choice([0, 1, -1, 2**40])] = rand_leaf(r)
    # oneof "pick": sometimes assign several members one after the other
    for _ in range(r.choice([0, 1, 1, 2, 3])):
        name = r.choice(PICK)
        value = {
            "p_int": lambda: r.choice([0, 1, -1]),
            "p_str": lambda: r.choice(["", "p"]),
            "p_leaf": lambda: rand_leaf(r),
            "p_bool": lambda: r.choice([False, True]),
            "p_bytes": lambda: r.choice([b"", b"\x00", b"b" * 200]),
            "p_enum": lambda: r.choice(list(Colour)),
            "p_empty": lambda: Empty(),
        }[name]()
        setattr(m, name, value)
    if r.random() < 0.4:
        name = r.choice(OTHER)
        setattr(m, name, r.choice([0, 1]) if name == "o_fixed" else r.choice([0.0, -0.0, 1.5]))
    if r.random() < 0.3:
        m.opt_int = r.choice([0, 5, None])
    if r.random() < 0.3:
        m.opt_str = r.choice(["", "o", None])
    if r.random() < 0.3:
        m.opt_leaf = r.choice([Leaf(), Leaf(n=1), None])
    if r.random() < 0.3:
        m.when = r.choice(
            [
                datetime(1970, 1, 1, tzinfo=timezone.utc),
                datetime(1969, 12, 31, 23, 59, 59, 500000, tzinfo=timezone.utc),
                datetime(2038, 1, 19, 3, 14, 8, 1, tzinfo=timezone.utc),
            ]
        )
    if r.random() < 0.3:
        m.span = r.choice([timedelta(0), timedelta(microseconds=-1), timedelta(days=400, seconds=3)])
    if r.random() < 0.3:
        m.wrapped = r.choice([0, 1, -1, None])
    if r.random() < 0.3:
        m.colour = r.choice(list(Colour))
    return m


def corpus_checks():
    r = random.Random(20240909)
    digest = hashlib.sha256()
    unknown = [b"", b"\xa0\x1f\x01", b"\xc2\x3e\x03abc", b"\x08\x05"]
    for i in range(1000):
        m = rand_node(r)
        data = observe(m)
        digest.update(len(data).to_bytes(4, "little") + data)
        # which members are readable, and what the unreadable ones say
        for name in PICK + OTHER:
            try:
                getattr(m, name)
                digest.update(b"+" + name.encode())
            except AttributeError as e:
                digest.update(b"-" + str(e).encode())
        # round trip, with unknown fields attached
        extra = unknown[i % len(unknown)]
        back = Node().parse(data + extra)
        again = observe(back)
        digest.update(again)
        assert len(again) == len(back)
        if extra[:1] != b"\x08":
            assert again == observe(Node().parse(again))
        dup = copy.deepcopy(back)
        assert observe(dup) == again
    return digest.hexdigest()


EXPECTED = "bc9eefdbfc0c0ccde537c8b3c4a681e961ddce3ae9ac6c8f60a98978433e8b18"

if __name__ == "__main__":
    direct_checks()
    got = corpus_checks()
    assert got == EXPECTED, got
    print("ok", got)
