"""C19 / keep2: betterproto.casing.snake_case / pascal_case / camel_case /
safe_snake_case (and the pythonize_* helpers built on them) return exactly what the
frozen reference implementation below returns, for strict and non-strict mode.

Domain: every string up to length 6 over {a, b, A, B, 1, _} (so every proto identifier
of that alphabet, and also non-identifiers starting with a digit), every string up to
length 4 over an alphabet with other delimiters and a non-ASCII letter, all Python
keywords / soft keywords / builtins, a corpus of real-world names and random long names.
Also re-checks the C19 facts for field names (valid identifier, not a keyword,
idempotent) and some pinned values.
"""
import builtins
import itertools
import keyword
import random
import re

from betterproto import casing
from betterproto.compile import naming

# --------------------------------------------------------------------------- #
# frozen reference (the implementation before the refactoring)
# --------------------------------------------------------------------------- #
SYMBOLS = "[^a-zA-Z0-9]*"
WORD = "[A-Z]*[a-z]*[0-9]*"
WORD_UPPER = "[A-Z]+(?![a-z])[0-9]*"


def ref_snake_case(value, strict=True):
    def substitute_word(symbols, word, is_start):
        if not word:
            return ""
        if strict:
            delimiter_count = 0 if is_start else 1
        elif is_start:
            delimiter_count = len(symbols)
        elif word.isupper() or word.islower():
            delimiter_count = max(1, len(symbols))
        else:
            delimiter_count = len(symbols) + 1
        return ("_" * delimiter_count) + word.lower()

    return re.sub(
        f"(^)?({SYMBOLS})({WORD_UPPER}|{WORD})",
        lambda groups: substitute_word(groups[2], groups[3], groups[1] is not None),
        value,
    )


def ref_pascal_case(value, strict=True):
    def substitute_word(symbols, word):
        if strict:
            return word.capitalize()
        if word.islower():
            delimiter_length = len(symbols[:-1])
        else:
            delimiter_length = len(symbols)
        return ("_" * delimiter_length) + word.capitalize()

    return re.sub(
        f"({SYMBOLS})({WORD_UPPER}|{WORD})",
        lambda groups: substitute_word(groups[1], groups[2]),
        value,
    )


def ref_camel_case(value, strict=True):
    p = ref_pascal_case(value, strict=strict)
    return p[0:1].lower() + p[1:]


def ref_sanitize_name(value):
    if keyword.iskeyword(value):
        return f"{value}_"
    if not value.isidentifier():
        return f"_{value}"
    return value


def ref_safe_snake_case(value):
    return ref_sanitize_name(ref_snake_case(value))


def ref_enum_member(name, enum_name):
    prefix = ref_snake_case(enum_name).upper() + "_"
    if name.startswith(prefix) and name[len(prefix):].strip("_"):
        name = name[len(prefix):].strip("_")
    return ref_sanitize_name(name)


# --------------------------------------------------------------------------- #
# inputs
# --------------------------------------------------------------------------- #
def words(alphabet, max_len):
    for length in range(0, max_len + 1):
        for chars in itertools.product(alphabet, repeat=length):
            yield "".join(chars)


CORPUS = [
    "address_line_1", "address_line1", "ipv4_address", "ipv6Address", "x_y_z", "x_yz",
    "HTTPStatus", "http_status", "httpStatus", "HttpStatus", "sha256_hash", "utf8",
    "a1b2", "a_1_b", "a_1b", "plan_a_b", "plan_ab", "myField", "MyField", "my_Field",
    "my__field", "_private", "trailing_", "__dunder__", "UPPER_CASE", "UPPER", "mixedCASE",
    "getHTTP2Response", "HTTP2xx", "HTTP2XX", "x", "X", "x1", "x_1", "x__1", "id", "ID",
    "userID", "user_id", "oauth2_token", "s3_bucket", "s3Bucket", "vitamin_b_12",
    "e_mail", "is_a_b_c", "a_b_c_d", "field_1_2_3", "v1beta1", "v1_beta_1", "",
    "kebab-case", "dotted.name.Here", "with space", "  padded  ", "snake_case_", "__",
    "CamelCase123", "camelCase123abc", "123", "1a", "1A", "A1a", "ABc", "ABCd1E2",
    "google.protobuf.Timestamp", "betterproto.lib.google.protobuf", "éclair_Été",
    "UPPER_SNAKE_CASE_1", "Mixed_Snake_Case", "a__B__c", "_A", "A_", "_1", "__1__",
]
KEYWORDS = sorted(set(keyword.kwlist) | set(keyword.softkwlist))
BUILTINS = sorted(dir(builtins))

rng = random.Random(19)
LONG = [
    "".join(rng.choice("abcXYZ019__-. ") for _ in range(rng.randint(7, 30)))
    for _ in range(5000)
]

inputs = itertools.chain(
    words("abAB1_", 6),
    words("aZ0_-. é", 4),
    CORPUS,
    KEYWORDS,
    [k.capitalize() for k in KEYWORDS],
    [k.upper() for k in KEYWORDS],
    BUILTINS,
    LONG,
)

count = 0
for value in inputs:
    for strict in (True, False):
        got = casing.snake_case(value, strict=strict)
        assert got == ref_snake_case(value, strict), ("snake", value, strict, got)
        got = casing.pascal_case(value, strict=strict)
        assert got == ref_pascal_case(value, strict), ("pascal", value, strict, got)
        got = casing.camel_case(value, strict=strict)
        assert got == ref_camel_case(value, strict), ("camel", value, strict, got)
    # defaults are strict
    assert casing.snake_case(value) == ref_snake_case(value, True)
    assert casing.pascal_case(value) == ref_pascal_case(value, True)
    assert casing.camel_case(value) == ref_camel_case(value, True)

    field = casing.safe_snake_case(value)
    assert field == ref_safe_snake_case(value), ("safe", value, field)
    assert naming.pythonize_field_name(value) == field
    assert naming.pythonize_method_name(value) == field
    cls_name = naming.pythonize_class_name(value)
    assert cls_name == ref_sanitize_name(ref_pascal_case(value)), ("class", value)
    assert naming.pythonize_enum_member_name(value, "Ab") == ref_enum_member(value, "Ab")
    assert naming.pythonize_enum_member_name("AB_" + value, "aB") == ref_enum_member(
        "AB_" + value, "aB"
    )

    if value.isascii():
        # the C19 facts for field / method / class names
        assert field.isidentifier() and not keyword.iskeyword(field), (value, field)
        assert casing.safe_snake_case(field) == field, (value, field)
        assert cls_name.isidentifier() and not keyword.iskeyword(cls_name), value
        # what to_dict emits for the field, and the way back for non-lossy names
        for fn in (casing.camel_case, casing.snake_case):
            key = fn(field).rstrip("_")
            assert key == key.strip("_")
    count += 1

# a few pinned values (same before and after)
pinned_snake = {
    "": "", "_": "", "__": "", "fooBar": "foo_bar", "FooBar": "foo_bar",
    "HTTPStatus": "http_status", "address_line_1": "address_line_1",
    "addressLine1": "address_line1", "xYZ": "x_yz", "x_y_z": "x_y_z", "type_": "type",
    "_1": "1", "HTTP2xx": "http2_xx", "ipv4Address": "ipv4_address", "a1b2": "a1_b2",
    "kebab-case": "kebab_case", "1abc": "1_abc",
}
for value, expected in pinned_snake.items():
    assert casing.snake_case(value) == expected, (value, casing.snake_case(value))
pinned_camel = {
    "address_line_1": "addressLine1", "x_y_z": "xYZ", "x_yz": "xYz", "from_": "from",
    "HTTPStatus": "httpStatus", "ipv4_address": "ipv4Address", "_": "", "_1": "1",
}
for value, expected in pinned_camel.items():
    assert casing.camel_case(value) == expected, (value, casing.camel_case(value))
assert casing.snake_case("fooBar__Baz", strict=False) == ref_snake_case("fooBar__Baz", False)
assert casing.pascal_case("foo__bar_Baz", strict=False) == ref_pascal_case("foo__bar_Baz", False)
assert casing.safe_snake_case("from") == "from_"
assert casing.safe_snake_case("1") == "_1"
assert casing.safe_snake_case("") == "_"
assert naming.pythonize_class_name("none") == "None_"

# the public regex fragments are still there
assert (casing.SYMBOLS, casing.WORD, casing.WORD_UPPER) == (SYMBOLS, WORD, WORD_UPPER)

print(f"OK inputs={count}")
