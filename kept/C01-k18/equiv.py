"""Equivalence check for betterproto.enum (class construction in
EnumType.__new__, member / alias tables, _is_descriptor) as used by the binary
round trip of enum fields.  Compares the built classes with the standard
library's IntEnum built from the same bodies, checks the decode helper
try_value on listed / unlisted / negative numbers, and round-trips enum values
through singular, repeated (packed), map, oneof and optional fields, comparing
the bytes with google.protobuf.  Must exit 0 on the pristine tree and with the
refactor applied."""
import enum as std_enum
import io
import pickle
import copy
import random
from dataclasses import dataclass
from typing import Dict, List, Optional

import betterproto
from betterproto import Message
from betterproto import enum as bp_enum

assert "/tmp/wt/R12C01/src" in betterproto.__file__, betterproto.__file__

# --------------------------------------------------------------------------
# 1. _is_descriptor
# --------------------------------------------------------------------------
class OnlyGet:
    def __get__(self, obj, typ=None):
        return 1


class OnlySet:
    def __set__(self, obj, value):
        pass


class OnlyDelete:
    def __delete__(self, obj):
        pass


class GetRaises:
    # hasattr() is False only for AttributeError
    def __getattr__(self, item):
        raise AttributeError(item)


def plain_function():
    pass


descriptors = [
    OnlyGet(), OnlySet(), OnlyDelete(), plain_function, lambda: 0, property(lambda s: 1),
    classmethod(plain_function), staticmethod(plain_function), int.__add__,
    OnlyGet, OnlySet,  # classes defining the methods have them as attributes too
]
non_descriptors = [0, 1, -1, True, 2**70, "s", b"b", None, 1.5, (1, 2), [1], {}, object(), GetRaises(), int, len, len.__call__, Ellipsis]
for d in descriptors + non_descriptors:
    ref = hasattr(d, "__get__") or hasattr(d, "__set__") or hasattr(d, "__delete__")
    assert bp_enum._is_descriptor(d) is ref, d
for d in descriptors:
    assert bp_enum._is_descriptor(d) is True, d
for d in non_descriptors:
    assert bp_enum._is_descriptor(d) is False, d

# --------------------------------------------------------------------------
# 2. class construction against the standard library's IntEnum
# --------------------------------------------------------------------------
BODIES = {
    "Plain": [("ZERO", 0), ("ONE", 1), ("TWO", 2)],
    "Negative": [("ZERO", 0), ("NEG", -1), ("MIN", -(2**31)), ("MAX", 2**31 - 1)],
    "Aliased": [("UNSPECIFIED", 0), ("A", 1), ("ALSO_A", 1), ("B", 2), ("ZERO_AGAIN", 0), ("THIRD_A", 1)],
    "Unordered": [("C", 30), ("A", 10), ("B", 20), ("Z", 0)],
    "Gaps": [("Z", 0), ("K", 1000), ("M", 1000000), ("N", -1000000)],
    "NoZero": [("ONE", 1), ("FIVE", 5)],
    "Bools": [("NO", False), ("YES", True), ("ONE", 1), ("ZERO", 0)],
    "Single": [("ONLY", 0)],
    "Empty": [],
    "Underscored": [("_private", 3), ("lower", 4), ("with_digit_1", 5), ("_", 6)],
    "Wide": [("BIG", 2**62), ("BIGGER", 2**63 - 1), ("SMALL", -(2**63))],
}


def make_bp(name, body, extra=None):
    ns = dict(body)
    ns.update(extra or {})
    return bp_enum.EnumType(name, (betterproto.Enum,), ns)


def make_std(name, body):
    return std_enum.IntEnum(name, body)


for cname, body in BODIES.items():
    B = make_bp(cname, body)
    assert B.__name__ == cname and repr(B) == f"<enum {cname!r}>"
    assert type(B).__name__ == f"{cname}Type"
    assert type(B).__mro__[1:] == (type(betterproto.Enum), bp_enum.EnumType, type, object)
    # canonical members, in definition order, aliases dropped from iteration of values
    canon = {}
    first_value = {}
    for n, v in body:
        canon.setdefault(v, n)
        first_value.setdefault(v, v)
    assert list(B._value_map_) == list(canon), (cname, list(B._value_map_))
    assert [m.name for m in B._value_map_.values()] == list(canon.values())
    assert list(B._member_map_) == [n for n, _ in body]
    assert list(B.__members__) == [n for n, _ in body]
    assert len(B) == len(body)
    assert [m.name for m in B] == [canon[v] for _, v in body]
    assert [int(m) for m in B] == [int(v) for _, v in body]
    assert [int(m) for m in reversed(B)] == [int(v) for _, v in reversed(body)]
    if body:
        S = make_std(cname, body)
        assert [m.name for m in S] == list(canon.values())
        assert {k: (m.name, m.value) for k, m in S.__members__.items()} == {
            k: (m.name, int(m.value)) for k, m in B.__members__.items()
        }, cname
    for n, v in body:
        member = getattr(B, n)
        assert member is B[n] is B._member_map_[n] is B._value_map_[v] is B(v) is B.try_value(v) is B.from_string(n)
        assert type(member) is B and isinstance(member, int) and isinstance(member, betterproto.Enum)
        assert member == v and member.value == v and int(member) == v
        assert type(member.value) is type(first_value[v])
        assert member.name == canon[v], (cname, n, member.name)
        assert member in B
        assert str(member) == canon[v] and repr(member) == f"{cname}.{canon[v]}"
        assert copy.copy(member) is member and copy.deepcopy(member) is member
        # members live on the metaclass, not in the class dict
        assert n not in B.__dict__ and type(B).__dict__[n] is member
    # nothing else leaked into the class namespace
    assert set(B.__dict__) <= {"__module__", "__dict__", "__weakref__", "__doc__", "__qualname__", "__firstlineno__", "__static_attributes__"}, set(B.__dict__)
    assert set(type(B).__dict__) - {"__module__", "__doc__", "__dict__", "__weakref__"} == {"_value_map_", "_member_map_"} | {n for n, _ in body}
    # unlisted numbers
    for v in (7, -7, 2**31, -(2**31) - 1, 2**63 - 1, -(2**63), 123456789):
        if v in canon:
            continue
        u = B.try_value(v)
        assert type(u) is B and u == v and u.value == v and u.name is None
        assert u not in B and str(u) == "None"
        assert B.try_value(v) is not u  # unlisted members are not cached
        assert v not in B._value_map_
        try:
            B(v)
            raise AssertionError("expected ValueError")
        except ValueError as e:
            assert str(e) == f"{v!r} is not a valid {cname}"
    if 0 not in canon:
        z = B.try_value()
        assert z == 0 and z.name is None
    else:
        assert B.try_value() is B._value_map_[0]
    try:
        B.NOPE = 1
        raise AssertionError
    except AttributeError as e:
        assert str(e) == f"{cname}: cannot reassign Enum members."


# class bodies written with the class statement: methods, properties, dunders,
# class/static methods and nested helper objects are not members
class Rich(betterproto.Enum):
    """docstring stays a dunder"""

    ZERO = 0
    ONE = 1
    UNO = 1
    NEG = -3

    __slots_like__ = ("not", "a", "member")

    def describe(self):
        return f"{self.name}={self.value}"

    @property
    def doubled(self):
        return self.value * 2

    @classmethod
    def first(cls):
        return next(iter(cls))

    @staticmethod
    def helper(x):
        return x + 1

    accessor = OnlyGet()
    setter = OnlySet()
    fn_alias = plain_function


assert list(Rich.__members__) == ["ZERO", "ONE", "UNO", "NEG"]
assert list(Rich._value_map_) == [0, 1, -3]
assert Rich.UNO is Rich.ONE and Rich.UNO.name == "ONE"
assert Rich.__doc__ == "docstring stays a dunder"
assert Rich.__dict__["__slots_like__"] == ("not", "a", "member")
assert Rich.ONE.describe() == "ONE=1" and Rich.NEG.doubled == -6
assert Rich.first() is Rich.ZERO and Rich.helper(1) == 2
assert Rich.ONE.accessor == 1 and isinstance(Rich.__dict__["setter"], OnlySet)
assert Rich.__dict__["fn_alias"] is plain_function
kept = [k for k in Rich.__dict__ if not k.startswith("__") or k == "__slots_like__"]
assert kept == ["__slots_like__", "describe", "doubled", "first", "helper", "accessor", "setter", "fn_alias"], kept
assert Rich.__module__ == __name__ and Rich.__qualname__ == "Rich"
assert pickle.loads(pickle.dumps(Rich.NEG)) == Rich.NEG
assert pickle.loads(pickle.dumps(Rich.try_value(55))) == 55

# order in which a mixed body is split does not depend on where the members sit
Mixed = make_bp("Mixed", [("A", 1)], {"m": plain_function, "B": 2, "__tag__": 9, "p": property(lambda s: 0), "C": 1})
assert list(Mixed.__members__) == ["A", "B", "C"] and Mixed.C is Mixed.A
assert [k for k in Mixed.__dict__ if k in ("m", "__tag__", "p")] == ["m", "__tag__", "p"]

# subclass of an enum class without members can add members; bases' metaclass is kept
class Base(betterproto.Enum):
    def shout(self):
        return str(self).upper()


class Child(Base):
    x = 1
    y = 2


assert Child.x.shout() == "X" and list(Child.__members__) == ["x", "y"]
assert type(Child).__mro__[1] is type(Base)

# error paths while building a class
for bad, exc in ((("A", "abc"),), ValueError), ((("A", None),), TypeError), ((("A", [1]),), TypeError), ((("A", 1), ("B", {}),), TypeError), ((("A", 1.5),), None):
    try:
        E = make_bp("Bad", list(bad))
    except Exception as e:  # noqa: BLE001
        assert exc is not None and type(e) is exc, (bad, e)
    else:
        assert exc is None
        # a float value is truncated by int.__new__ but registered under the float key
        assert int(E.A) == 1 and E.A.value == 1.5 and list(E._value_map_) == [1.5]
# hash-equal values of different types are aliases
HashEq = make_bp("HashEq", [("A", 1), ("B", True), ("C", 1.0), ("D", 2)])
assert HashEq.B is HashEq.A and HashEq.C is HashEq.A and list(HashEq._value_map_) == [1, 2]

# --------------------------------------------------------------------------
# 3. binary round trip of enum fields
# --------------------------------------------------------------------------
class Color(betterproto.Enum):
    UNSPECIFIED = 0
    RED = 1
    ROUGE = 1
    GREEN = 2
    NEG = -1
    MIN = -2147483648
    MAX = 2147483647


@dataclass(eq=False, repr=False)
class Inner(Message):
    c: Color = betterproto.enum_field(1)


@dataclass(eq=False, repr=False)
class Holder(Message):
    c: Color = betterproto.enum_field(1)
    cs: List[Color] = betterproto.enum_field(2)
    by_name: Dict[str, Color] = betterproto.map_field(3, betterproto.TYPE_STRING, betterproto.TYPE_ENUM)
    o_c: Color = betterproto.enum_field(4, group="g")
    o_s: str = betterproto.string_field(5, group="g")
    opt: Optional[Color] = betterproto.enum_field(6, optional=True)
    inner: Inner = betterproto.message_field(7)


from google.protobuf import descriptor_pb2, descriptor_pool, message_factory

F = descriptor_pb2.FieldDescriptorProto
fd = descriptor_pb2.FileDescriptorProto(name="k2.proto", package="k2", syntax="proto3")
en = fd.enum_type.add(name="Color")
en.options.allow_alias = True
for n, v in (("UNSPECIFIED", 0), ("RED", 1), ("ROUGE", 1), ("GREEN", 2), ("NEG", -1), ("MIN", -2147483648), ("MAX", 2147483647)):
    en.value.add(name=n, number=v)
inner = fd.message_type.add(name="Inner")
inner.field.add(name="c", number=1, type=F.TYPE_ENUM, type_name=".k2.Color", label=F.LABEL_OPTIONAL)
h = fd.message_type.add(name="Holder")
h.field.add(name="c", number=1, type=F.TYPE_ENUM, type_name=".k2.Color", label=F.LABEL_OPTIONAL)
h.field.add(name="cs", number=2, type=F.TYPE_ENUM, type_name=".k2.Color", label=F.LABEL_REPEATED)
entry = h.nested_type.add(name="ByNameEntry")
entry.options.map_entry = True
entry.field.add(name="key", number=1, type=F.TYPE_STRING, label=F.LABEL_OPTIONAL)
entry.field.add(name="value", number=2, type=F.TYPE_ENUM, type_name=".k2.Color", label=F.LABEL_OPTIONAL)
h.field.add(name="by_name", number=3, type=F.TYPE_MESSAGE, type_name=".k2.Holder.ByNameEntry", label=F.LABEL_REPEATED)
h.oneof_decl.add(name="g")
h.field.add(name="o_c", number=4, type=F.TYPE_ENUM, type_name=".k2.Color", label=F.LABEL_OPTIONAL, oneof_index=0)
h.field.add(name="o_s", number=5, type=F.TYPE_STRING, label=F.LABEL_OPTIONAL, oneof_index=0)
h.oneof_decl.add(name="_opt")
h.field.add(name="opt", number=6, type=F.TYPE_ENUM, type_name=".k2.Color", label=F.LABEL_OPTIONAL, oneof_index=1, proto3_optional=True)
h.field.add(name="inner", number=7, type=F.TYPE_MESSAGE, type_name=".k2.Inner", label=F.LABEL_OPTIONAL)
pool = descriptor_pool.DescriptorPool()
pool.Add(fd)
if hasattr(message_factory, "GetMessageClass"):
    GHolder = message_factory.GetMessageClass(pool.FindMessageTypeByName("k2.Holder"))
else:
    GHolder = message_factory.MessageFactory(pool).GetPrototype(pool.FindMessageTypeByName("k2.Holder"))

rnd = random.Random(77)
NUMBERS = [0, 1, 2, -1, -2147483648, 2147483647, 3, -2, 100, -100, 2**30, -(2**30), 77]
VALUES = [Color.try_value(n) for n in NUMBERS] + [Color.ROUGE, Color.RED]


def check(m):
    data = bytes(m)
    assert len(m) == len(data)
    back = Holder().parse(data)
    assert back == m, (m, back)
    assert bytes(back) == data
    assert betterproto.which_one_of(back, "g") == betterproto.which_one_of(m, "g")
    assert back.opt == m.opt and (back.opt is None) == (m.opt is None)
    assert betterproto.serialized_on_wire(back.inner) == betterproto.serialized_on_wire(m.inner)
    # decoded values are enum instances; listed numbers decode to the canonical member
    seen = [back.c, *back.cs, *back.by_name.values(), back.inner.c]
    if back.opt is not None:
        seen.append(back.opt)
    if betterproto.which_one_of(back, "g")[0] == "o_c":
        seen.append(back.o_c)
    for v in seen:
        assert type(v) is Color
        if int(v) in Color._value_map_:
            assert v is Color._value_map_[int(v)] and v.name is not None
        else:
            assert v.name is None
    # google.protobuf agrees on the wire format
    g = GHolder.FromString(data)
    assert g.c == int(m.c) and list(g.cs) == [int(x) for x in m.cs]
    assert dict(g.by_name) == {k: int(v) for k, v in m.by_name.items()}
    assert g.WhichOneof("g") == (betterproto.which_one_of(m, "g")[0] or None)
    assert g.HasField("opt") == (m.opt is not None)
    assert g.HasField("inner") == betterproto.serialized_on_wire(m.inner)
    assert g.inner.c == int(m.inner.c)
    if len(m.by_name) <= 1:
        assert g.SerializeToString() == data
    assert Holder().parse(g.SerializeToString()) == m
    return data


n_checked = 0
for v in VALUES:
    for m in (
        Holder(c=v),
        Holder(cs=[v]),
        Holder(cs=[v, v, Color.NEG, v]),
        Holder(by_name={"k": v}),
        Holder(o_c=v),
        Holder(opt=v),
        Holder(inner=Inner(c=v)),
        Holder(c=v, cs=list(VALUES), by_name={str(i): x for i, x in enumerate(VALUES)}, o_c=v, opt=v, inner=Inner(c=v)),
    ):
        check(m)
        n_checked += 1
# exact bytes for a few cases
NEG10 = b"\xff" * 9 + b"\x01"
assert bytes(Holder(c=Color.NEG)) == b"\x08" + NEG10
assert bytes(Holder(c=Color.MIN)) == b"\x08\x80\x80\x80\x80\xf8\xff\xff\xff\xff\x01"
assert bytes(Holder(c=Color.MAX)) == b"\x08\xff\xff\xff\xff\x07"
assert bytes(Holder(cs=[Color.RED, Color.NEG, Color.UNSPECIFIED])) == b"\x12\x0c\x01" + NEG10 + b"\x00"
assert bytes(Holder(o_c=Color.UNSPECIFIED)) == b"\x20\x00"
assert bytes(Holder(opt=Color.UNSPECIFIED)) == b"\x30\x00"
assert bytes(Holder(c=Color.UNSPECIFIED)) == b""
assert bytes(Holder(c=Color.ROUGE)) == b"\x08\x01"
assert Holder().parse(b"\x08\x01").c is Color.RED
assert Holder().parse(b"\x08\x4d").c.name is None
assert Holder().parse(b"\x08" + NEG10).c is Color.NEG
# a 64-bit payload is truncated to int32 before the member lookup
assert Holder().parse(b"\x08\x81\x80\x80\x80\x10").c is Color.RED
for _ in range(400):
    kw = {}
    if rnd.random() < 0.6:
        kw["c"] = rnd.choice(VALUES)
    if rnd.random() < 0.6:
        kw["cs"] = [rnd.choice(VALUES) for _ in range(rnd.randrange(0, 7))]
    if rnd.random() < 0.6:
        kw["by_name"] = {rnd.choice("abcdef"): rnd.choice(VALUES) for _ in range(rnd.randrange(0, 5))}
    g = rnd.randrange(3)
    if g == 0:
        kw["o_c"] = rnd.choice(VALUES)
    elif g == 1:
        kw["o_s"] = rnd.choice(["", "s"])
    if rnd.random() < 0.5:
        kw["opt"] = rnd.choice(VALUES)
    if rnd.random() < 0.5:
        kw["inner"] = Inner(c=rnd.choice(VALUES)) if rnd.random() < 0.7 else Inner()
    check(Holder(**kw))
    n_checked += 1

# every dynamically built enum round-trips all of its numbers too
for cname, body in BODIES.items():
    if not body or any(not -(2**31) <= int(v) < 2**31 for _, v in body):
        continue
    E = make_bp(cname + "Field", body)
    globals()[E.__name__] = E  # make the annotation resolvable

    ns = {"__annotations__": {"e": E.__name__, "es": f"List[{E.__name__}]"}, "e": betterproto.enum_field(1), "es": betterproto.enum_field(2), "__module__": __name__}
    M = dataclass(eq=False, repr=False)(type(cname + "Msg", (Message,), ns))
    for n, v in body:
        m = M(e=getattr(E, n), es=[getattr(E, k) for k, _ in body])
        back = M().parse(bytes(m))
        assert back == m and bytes(back) == bytes(m)
        assert back.e is E._value_map_[v]
        assert [x is E._value_map_[int(x)] for x in back.es] == [True] * len(body)
        n_checked += 1

print(f"equiv keep2 OK ({n_checked} messages, {len(BODIES)} enum bodies checked)")
