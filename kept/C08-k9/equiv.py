"""equiv.py for C08 / keep1: the varint writers (encode_varint / dump_varint / size_varint).

These produce every tag, every length prefix (also of sub-messages that carry unknown
fields) and the size prefix of delimited messages.  The script checks

  1. the three functions against an independent implementation and against
     google.protobuf's varint encoder, at boundary values and random values, including
     the error cases;
  2. the C08 property end to end: newer schema -> older schema (random subsets of fields
     deleted, also inside the sub-message) -> newer schema, with payload sizes and field
     numbers chosen around the varint boundaries, compared with google.protobuf as a
     reference decoder; plain and size-delimited encodings.

Exits 0 on the pristine tree and with the refactor applied.
"""
import dataclasses
import random
import struct
from dataclasses import dataclass
from io import BytesIO
from typing import Dict, List

import betterproto
from betterproto import SIZE_DELIMITED, dump_varint, encode_varint, size_varint
from google.protobuf import descriptor_pb2, descriptor_pool, message_factory
from google.protobuf.internal import encoder as pb_encoder

rnd = random.Random(0xC08)

# --------------------------------------------------------------------------- part 1


def ref_varint(value: int) -> bytes:
    if value < 0:
        value += 1 << 64
    out = []
    while True:
        low = value % 128
        value //= 128
        if value:
            out.append(low + 128)
        else:
            out.append(low)
            return bytes(out)


class CountingStream:
    def __init__(self):
        self.data = b""

    def write(self, chunk):
        assert isinstance(chunk, (bytes, bytearray))
        self.data += bytes(chunk)
        return len(chunk)


def check_value(v: int):
    want = ref_varint(v)
    got = encode_varint(v)
    assert type(got) is bytes and got == want, (v, got, want)
    assert size_varint(v) == len(want), (v, size_varint(v), len(want))
    s = BytesIO()
    s.write(b"pre")
    assert dump_varint(v, s) is None
    assert s.getvalue() == b"pre" + want
    c = CountingStream()
    dump_varint(v, c)
    assert c.data == want
    if 0 <= v < 1 << 64:
        assert got == pb_encoder._VarintBytes(v)
        assert size_varint(v) == pb_encoder._VarintSize(v)
    if -(1 << 63) <= v < 1 << 63:
        pieces = []
        pb_encoder._EncodeSignedVarint(pieces.append, v)
        assert got == b"".join(pieces)
        assert size_varint(v) == pb_encoder._SignedVarintSize(v)
    # and what was written reads back
    if v < 1 << 64:
        back, raw = betterproto.load_varint(BytesIO(got + b"\xff"))
        assert raw == got and back == (v if v >= 0 else v + (1 << 64))


def part1():
    values = {0, 1, 2, 126, 127, 128, 129, 255, 256, 300, 16383, 16384, 2**31 - 1, 2**31,
              2**32 - 1, 2**32, 2**63 - 1, 2**63, 2**64 - 1}
    for k in range(0, 71):
        for d in (-2, -1, 0, 1, 2):
            v = (1 << k) + d
            values.add(v)
            if -v >= -(1 << 63):
                values.add(-v)
    values |= {-1, -2, -127, -128, -129, -(2**31), -(2**31) - 1, -(2**63), -(2**63) + 1}
    for _ in range(20000):
        bits = rnd.randrange(1, 66)
        values.add(rnd.getrandbits(bits))
        values.add(max(-rnd.getrandbits(min(bits, 63)), -(1 << 63)))
    # larger than 64 bit positive numbers are simply written with more groups
    values |= {2**64, 2**64 + 1, 2**70 - 1, 2**70, 2**77, 2**140 + 12345}
    for v in sorted(values):
        check_value(v)
    # bool / int subclasses behave like their int value
    assert encode_varint(True) == b"\x01" and encode_varint(False) == b"\x00"
    assert size_varint(True) == 1 and size_varint(False) == 1

    class E(betterproto.Enum):
        ZERO = 0
        BIG = 300
        NEG = -1

    for m in (E.ZERO, E.BIG, E.NEG):
        assert encode_varint(m) == ref_varint(int(m))
        assert type(encode_varint(m)) is bytes
        assert size_varint(m) == len(ref_varint(int(m)))

    # errors: same type, same message, nothing written
    msg = ("Negative value is not representable as a 64-bit integer - unable to encode "
           "a varint within 10 bytes.")
    for bad in (-(2**63) - 1, -(2**64), -(2**100)):
        for fn in (encode_varint, size_varint):
            try:
                fn(bad)
            except ValueError as e:
                assert str(e) == msg
            else:
                raise AssertionError("no error")
        s = BytesIO()
        try:
            dump_varint(bad, s)
        except ValueError as e:
            assert str(e) == msg
        else:
            raise AssertionError("no error")
        assert s.getvalue() == b""
    for bad in (None, "1", 1.5, b"\x01"):
        for fn in (encode_varint, size_varint):
            try:
                fn(bad)
            except (TypeError, AttributeError):
                pass
            else:
                raise AssertionError(("no error", fn, bad))
        s = BytesIO()
        try:
            dump_varint(bad, s)
        except (TypeError, AttributeError):
            pass
        else:
            raise AssertionError("no error")
        assert s.getvalue() == b""


# --------------------------------------------------------------------------- part 2

TOP = 2**29 - 1


@dataclass(eq=False, repr=False)
class Child(betterproto.Message):
    x: int = betterproto.int32_field(1)
    y: str = betterproto.string_field(2)
    z: bytes = betterproto.bytes_field(16)
    w: int = betterproto.fixed32_field(2048)


@dataclass(eq=False, repr=False)
class Newer(betterproto.Message):
    a: int = betterproto.int32_field(1)
    s: str = betterproto.string_field(2)
    b: bytes = betterproto.bytes_field(3)
    f32: int = betterproto.fixed32_field(4)
    f64: int = betterproto.sfixed64_field(5)
    d: float = betterproto.double_field(6)
    fl: float = betterproto.float_field(7)
    z: int = betterproto.sint64_field(8)
    flag: bool = betterproto.bool_field(9)
    child: Child = betterproto.message_field(10)
    packed: List[int] = betterproto.int64_field(11)
    rs: List[str] = betterproto.string_field(12)
    m: Dict[str, int] = betterproto.map_field(13, betterproto.TYPE_STRING, betterproto.TYPE_INT32)
    rc: List[Child] = betterproto.message_field(14)
    u15: int = betterproto.uint64_field(15)
    s16: str = betterproto.string_field(16)
    hi: int = betterproto.uint64_field(2047)
    hi2: str = betterproto.string_field(2048)
    top: int = betterproto.uint32_field(TOP)


def older_class(base, keep, overrides=None, name="Older"):
    """`base` with every field not in `keep` deleted (declaration order kept)."""
    overrides = overrides or {}
    hints = base._type_hints()
    fields = []
    for f in dataclasses.fields(base):
        if f.name in keep:
            meta = betterproto.FieldMetadata.get(f)
            fields.append(
                (
                    f.name,
                    overrides.get(f.name, hints[f.name]),
                    betterproto.dataclass_field(
                        meta.number, meta.proto_type, map_types=meta.map_types,
                        group=meta.group, wraps=meta.wraps, optional=meta.optional,
                    ),
                )
            )
    return dataclasses.make_dataclass(name, fields, bases=(betterproto.Message,), eq=False, repr=False)


def build_google():
    fdp = descriptor_pb2.FileDescriptorProto(name="c08_equiv.proto", package="c08", syntax="proto3")
    F = descriptor_pb2.FieldDescriptorProto
    child = fdp.message_type.add(name="Child")
    child.field.add(name="x", number=1, type=F.TYPE_INT32, label=F.LABEL_OPTIONAL)
    child.field.add(name="y", number=2, type=F.TYPE_STRING, label=F.LABEL_OPTIONAL)
    child.field.add(name="z", number=16, type=F.TYPE_BYTES, label=F.LABEL_OPTIONAL)
    child.field.add(name="w", number=2048, type=F.TYPE_FIXED32, label=F.LABEL_OPTIONAL)
    m = fdp.message_type.add(name="Newer")
    entry = m.nested_type.add(name="MEntry")
    entry.options.map_entry = True
    entry.field.add(name="key", number=1, type=F.TYPE_STRING, label=F.LABEL_OPTIONAL)
    entry.field.add(name="value", number=2, type=F.TYPE_INT32, label=F.LABEL_OPTIONAL)
    O, R = F.LABEL_OPTIONAL, F.LABEL_REPEATED
    for name, number, typ, label, tn in [
        ("a", 1, F.TYPE_INT32, O, None), ("s", 2, F.TYPE_STRING, O, None),
        ("b", 3, F.TYPE_BYTES, O, None), ("f32", 4, F.TYPE_FIXED32, O, None),
        ("f64", 5, F.TYPE_SFIXED64, O, None), ("d", 6, F.TYPE_DOUBLE, O, None),
        ("fl", 7, F.TYPE_FLOAT, O, None), ("z", 8, F.TYPE_SINT64, O, None),
        ("flag", 9, F.TYPE_BOOL, O, None), ("child", 10, F.TYPE_MESSAGE, O, ".c08.Child"),
        ("packed", 11, F.TYPE_INT64, R, None), ("rs", 12, F.TYPE_STRING, R, None),
        ("m", 13, F.TYPE_MESSAGE, R, ".c08.Newer.MEntry"),
        ("rc", 14, F.TYPE_MESSAGE, R, ".c08.Child"), ("u15", 15, F.TYPE_UINT64, O, None),
        ("s16", 16, F.TYPE_STRING, O, None), ("hi", 2047, F.TYPE_UINT64, O, None),
        ("hi2", 2048, F.TYPE_STRING, O, None), ("top", TOP, F.TYPE_UINT32, O, None),
    ]:
        fd = m.field.add(name=name, number=number, type=typ, label=label)
        if tn:
            fd.type_name = tn
    pool = descriptor_pool.DescriptorPool()
    pool.Add(fdp)
    return message_factory.GetMessageClass(pool.FindMessageTypeByName("c08.Newer"))


GNewer = build_google()

SIZES = [0, 1, 2, 126, 127, 128, 129, 300, 16383, 16384, 16385]


def rand_str(n):
    return "".join(rnd.choice("abcxyz09 _") for _ in range(n))


def rand_child():
    return Child(
        x=rnd.choice([0, 1, -1, 127, 128, 2**31 - 1, -(2**31)]),
        y=rand_str(rnd.choice(SIZES[:8])),
        z=rnd.randbytes(rnd.choice(SIZES[:8])),
        w=rnd.choice([0, 1, 2**32 - 1]),
    )


def rand_newer():
    v = Newer()
    for name in [f.name for f in dataclasses.fields(Newer)]:
        if rnd.random() < 0.3:
            continue
        if name == "a":
            v.a = rnd.choice([1, -1, 127, 128, 16383, 16384, 2**31 - 1, -(2**31)])
        elif name == "s":
            v.s = rand_str(rnd.choice(SIZES))
        elif name == "b":
            v.b = rnd.randbytes(rnd.choice(SIZES))
        elif name == "f32":
            v.f32 = rnd.choice([1, 2**32 - 1, 0x80])
        elif name == "f64":
            v.f64 = rnd.choice([1, -1, 2**63 - 1, -(2**63)])
        elif name == "d":
            v.d = rnd.choice([1.5, -2.25, 1e300, float("inf")])
        elif name == "fl":
            v.fl = rnd.choice([1.5, -2.25, 0.5])
        elif name == "z":
            v.z = rnd.choice([1, -1, 63, -64, 64, -65, 2**63 - 1, -(2**63)])
        elif name == "flag":
            v.flag = True
        elif name == "child":
            v.child = rand_child()
        elif name == "packed":
            v.packed = [rnd.choice([0, 1, -1, 127, 128, 2**63 - 1, -(2**63)]) for _ in range(rnd.choice([1, 2, 13, 14, 127, 128]))]
        elif name == "rs":
            v.rs = [rand_str(rnd.choice([0, 1, 127, 128])) for _ in range(rnd.randrange(1, 4))]
        elif name == "m":
            v.m = {rand_str(rnd.choice([0, 1, 5, 130])): rnd.choice([0, 1, -1, 300]) for _ in range(rnd.randrange(1, 4))}
        elif name == "rc":
            v.rc = [rand_child() for _ in range(rnd.randrange(1, 4))]
        elif name == "u15":
            v.u15 = rnd.choice([1, 127, 128, 2**64 - 1])
        elif name == "s16":
            v.s16 = rand_str(rnd.choice(SIZES[:8]))
        elif name == "hi":
            v.hi = rnd.choice([1, 2**63, 2**64 - 1])
        elif name == "hi2":
            v.hi2 = rand_str(rnd.choice(SIZES[:8]))
        elif name == "top":
            v.top = rnd.choice([1, 2**32 - 1])
    return v


def field_raws(data: bytes):
    return [f.raw for f in betterproto.parse_fields(data)]


def g_parse(data: bytes):
    g = GNewer()
    g.ParseFromString(data)
    return g


def check_pair(older_cls, value: Newer):
    data = bytes(value)
    assert len(value) == len(data)
    g_orig = g_parse(data)
    older = older_cls().parse(data)
    again = bytes(older)
    assert len(older) == len(again)
    # same set of wire fields, nothing lost, nothing invented (sub-messages are
    # re-encoded, so compare them decoded below)
    back = Newer().parse(again)
    assert back == value, (older_cls, value, back)
    assert bytes(back) == data
    assert g_parse(again) == g_orig
    known = {betterproto.FieldMetadata.get(f).number for f in dataclasses.fields(older_cls)}
    # unknown fields are re-emitted byte for byte, in arrival order
    unknown_in = [r for f, r in ((f, f.raw) for f in betterproto.parse_fields(data)) if f.number not in known]
    unknown_out = [r for f, r in ((f, f.raw) for f in betterproto.parse_fields(again)) if f.number not in known]
    assert unknown_in == unknown_out
    assert older._unknown_fields == b"".join(unknown_in)

    # size-delimited relay
    s = BytesIO()
    older.dump(s, SIZE_DELIMITED)
    older.dump(s, SIZE_DELIMITED)
    framed = s.getvalue()
    prefix = ref_varint(len(again))
    assert framed == (prefix + again) * 2
    s.seek(0)
    assert Newer().load(s, SIZE_DELIMITED) == value
    o2 = older_cls().load(s, SIZE_DELIMITED)
    assert bytes(o2) == again
    assert s.read(1) == b""


def part2():
    top_names = [f.name for f in dataclasses.fields(Newer)]
    child_names = [f.name for f in dataclasses.fields(Child)]
    olders = []
    child_variants = [older_class(Child, set(), name="ChildNone")]
    for name in child_names:
        child_variants.append(older_class(Child, set(child_names) - {name}, name="ChildMinus_" + name))
        child_variants.append(older_class(Child, {name}, name="ChildOnly_" + name))
    # delete each single field, keep each single field, delete everything, random subsets
    subsets = [set(top_names) - {n} for n in top_names] + [{n} for n in top_names] + [set()]
    for _ in range(40):
        subsets.append({n for n in top_names if rnd.random() < 0.5})
    for i, keep in enumerate(subsets):
        overrides = {}
        if rnd.random() < 0.7:
            cv = rnd.choice(child_variants)
            overrides = {"child": cv, "rc": List[cv]}
        olders.append(older_class(Newer, keep, overrides, name=f"Older{i}"))
    values = [rand_newer() for _ in range(25)]
    values.append(Newer())
    values.append(Newer(child=Child(), rc=[Child(), Child()]))
    n = 0
    for oc in olders:
        for v in rnd.sample(values, 9):
            check_pair(oc, v)
            n += 1
    return n


if __name__ == "__main__":
    part1()
    n = part2()
    print("ok", n, "schema/value pairs")
