"""Equivalence check for the Message.__getattribute__ / _include_default_value_for_oneof
refactor (property C04).

to_dict reads every field through Message.__getattribute__ (an unset one-of member must
raise AttributeError, which to_dict catches; unset fields must read as their default and
only mutable defaults may be stored) and decides with _include_default_value_for_oneof
whether a default-valued one-of member is emitted.  The script compares both with
verbatim copies of the original code on twin messages (result, exception text / name /
obj, and the raw stored state afterwards), pins the emitted dicts for default-valued
one-of / optional members and re-checks the round trip.  Exits 0 on the pristine tree and
on the refactored tree.
"""
import json
import random
import sys
from dataclasses import dataclass
from datetime import datetime, timedelta, timezone
from typing import Dict, List, Optional

import betterproto
from betterproto import PLACEHOLDER, Casing, Message


class Color(betterproto.Enum):
    ZERO = 0
    RED = 1
    BLUE = 7


@dataclass(eq=False, repr=False)
class Empty(betterproto.Message):
    pass


@dataclass(eq=False, repr=False)
class Leaf(betterproto.Message):
    n: int = betterproto.int32_field(1)
    s: str = betterproto.string_field(2)


@dataclass(eq=False, repr=False)
class Node(betterproto.Message):
    """Recursive type: its default must be created lazily, on first read."""

    n: int = betterproto.int32_field(1)
    child: "Node" = betterproto.message_field(2)
    alt_a: "Node" = betterproto.message_field(3, group="alt")
    alt_b: int = betterproto.int32_field(4, group="alt")


@dataclass(eq=False, repr=False)
class Big(betterproto.Message):
    i32: int = betterproto.int32_field(1)
    i64: int = betterproto.int64_field(2)
    dbl: float = betterproto.double_field(3)
    flag: bool = betterproto.bool_field(4)
    text: str = betterproto.string_field(5)
    raw: bytes = betterproto.bytes_field(6)
    color: "Color" = betterproto.enum_field(7)
    leaf: "Leaf" = betterproto.message_field(8)
    leaves: List["Leaf"] = betterproto.message_field(9)
    nums: List[int] = betterproto.int64_field(10)
    by_name: Dict[str, "Leaf"] = betterproto.map_field(
        11, betterproto.TYPE_STRING, betterproto.TYPE_MESSAGE
    )
    ts: datetime = betterproto.message_field(12)
    dur: timedelta = betterproto.message_field(13)
    wrapped: Optional[int] = betterproto.message_field(
        14, wraps=betterproto.TYPE_INT64
    )
    opt_i: Optional[int] = betterproto.int32_field(15, optional=True)
    opt_leaf: Optional["Leaf"] = betterproto.message_field(16, optional=True)
    # two interleaved one-of groups
    a_int: int = betterproto.int32_field(20, group="pick")
    b_str: str = betterproto.string_field(21, group="other")
    a_str: str = betterproto.string_field(22, group="pick")
    a_leaf: "Leaf" = betterproto.message_field(23, group="pick")
    b_i64: int = betterproto.int64_field(24, group="other")
    a_color: "Color" = betterproto.enum_field(25, group="pick")
    a_empty: "Empty" = betterproto.message_field(26, group="pick")
    a_ts: datetime = betterproto.message_field(27, group="pick")
    b_dur: timedelta = betterproto.message_field(28, group="other")
    a_bytes: bytes = betterproto.bytes_field(29, group="pick")
    b_dbl: float = betterproto.double_field(30, group="other")


oget = object.__getattribute__
oset = object.__setattr__


def ref_getattribute(self, name):
    """Verbatim copy of the original Message.__getattribute__ (super() spelled out)."""
    try:
        group_current = oget(self, "_group_current")
    except AttributeError:
        pass
    else:
        if name not in {"__class__", "_betterproto"}:
            group = self._betterproto.oneof_group_by_field.get(name)
            if group is not None and group_current[group] != name:
                if sys.version_info < (3, 10):
                    raise AttributeError(
                        f"{group!r} is set to {group_current[group]!r}, not {name!r}"
                    )
                else:
                    raise AttributeError(
                        f"{group!r} is set to {group_current[group]!r}, not {name!r}",
                        name=name,
                        obj=self,
                    )

    value = oget(self, name)
    if value is not PLACEHOLDER:
        return value

    value = self._get_field_default(name)
    if isinstance(value, (Message, list, dict)):
        oset(self, name, value)
    return value


def ref_include_default(self, field_name, meta):
    """Verbatim copy of the original Message._include_default_value_for_oneof."""
    return meta.group is not None and self._group_current.get(meta.group) == field_name


FIELDS = list(Big._betterproto.meta_by_field_name)
OTHER_NAMES = [
    "__class__", "_betterproto", "_group_current", "_serialized_on_wire",
    "_unknown_fields", "__dict__", "to_dict", "no_such_attribute", "",
]


def raw_state(m):
    out = {}
    for name in FIELDS:
        v = oget(m, name)
        out[name] = "<P>" if v is PLACEHOLDER else (type(v).__name__, repr(v))
    out["_group_current"] = dict(oget(m, "_group_current"))
    out["_serialized_on_wire"] = oget(m, "_serialized_on_wire")
    return out


def outcome(fn, m):
    try:
        return ("value", fn())
    except AttributeError as e:
        return (
            "error",
            type(e),
            e.args,
            str(e),
            getattr(e, "name", "<none>"),
            getattr(e, "obj", None) is m,
            e.__cause__ is None,
            e.__suppress_context__,
        )


def compare_reads(build, names):
    """Read `names` in order on one twin via getattr and on the other via the verbatim
    copy; results, errors and the stored state must agree after every step."""
    new, ref = build(), build()
    assert raw_state(new) == raw_state(ref)
    n = 0
    for name in names:
        got = outcome(lambda: getattr(new, name), new)
        want = outcome(lambda: ref_getattribute(ref, name), ref)
        if got[0] == "value" and want[0] == "value":
            a, b = got[1], want[1]
            assert type(a) is type(b), (name, a, b)
            if name in FIELDS:
                assert repr(a) == repr(b), (name, a, b)
                if isinstance(a, (Message, list, dict)):
                    # mutable default: stored, and the very same object comes back
                    assert oget(new, name) is a and getattr(new, name) is a
                elif oget(ref, name) is PLACEHOLDER:
                    assert oget(new, name) is PLACEHOLDER
        else:
            assert got == want, (name, got, want)
        assert raw_state(new) == raw_state(ref), name
        n += 1
    return n


NOW = datetime(2021, 3, 4, 5, 6, 7, 890000, tzinfo=timezone.utc)
EPOCH = datetime(1970, 1, 1, tzinfo=timezone.utc)

ONEOF_VALUES = {
    "a_int": [0, 5],
    "a_str": ["", "x"],
    "a_leaf": [lambda: Leaf(), lambda: Leaf(n=1)],
    "a_color": [Color.ZERO, Color.BLUE],
    "a_empty": [lambda: Empty()],
    "a_ts": [EPOCH, NOW],
    "a_bytes": [b"", b"\x01"],
    "b_str": ["", "y"],
    "b_i64": [0, 2**63 - 1],
    "b_dur": [timedelta(0), timedelta(microseconds=-1)],
    "b_dbl": [0.0, float("inf")],
}
PLAIN_VALUES = {
    "i32": [0, -7],
    "i64": [0, -(2**63)],
    "dbl": [0.0, 1.5],
    "flag": [False, True],
    "text": ["", "t"],
    "raw": [b"", b"\xff"],
    "color": [Color.ZERO, Color.RED],
    "leaf": [lambda: Leaf(), lambda: Leaf(s="q", n=2)],
    "leaves": [lambda: [], lambda: [Leaf(), Leaf(n=3)]],
    "nums": [lambda: [], lambda: [0, 2**62]],
    "by_name": [lambda: {}, lambda: {"k": Leaf(n=1), "": Leaf()}],
    "ts": [EPOCH, NOW],
    "dur": [timedelta(0), timedelta(seconds=90, microseconds=10)],
    "wrapped": [None, 0, 9],
    "opt_i": [None, 0, 4],
    "opt_leaf": [None, lambda: Leaf(), lambda: Leaf(n=8)],
}


def realise(v):
    return v() if callable(v) else v


def builders(rng):
    """Yield zero-argument factories, each returning a fresh but identical message."""
    yield lambda: Big()
    for table in (ONEOF_VALUES, PLAIN_VALUES):
        for name, values in table.items():
            for v in values:
                yield lambda name=name, v=v: Big(**{name: realise(v)})
    # both groups chosen, plus random plain fields
    a_names = [n for n in ONEOF_VALUES if n.startswith("a_")]
    b_names = [n for n in ONEOF_VALUES if n.startswith("b_")]
    for _ in range(150):
        spec = {}
        if rng.random() < 0.8:
            n = rng.choice(a_names)
            spec[n] = rng.choice(ONEOF_VALUES[n])
        if rng.random() < 0.8:
            n = rng.choice(b_names)
            spec[n] = rng.choice(ONEOF_VALUES[n])
        for n, values in PLAIN_VALUES.items():
            if rng.random() < 0.4:
                spec[n] = rng.choice(values)
        yield lambda spec=spec: Big(**{k: realise(v) for k, v in spec.items()})

    # one-of switched by assignment after construction
    def switched():
        m = Big(a_int=3, b_str="z")
        m.a_str = ""
        m.b_dbl = 0.0
        return m

    yield switched

    # built through from_dict (instance form and class form), incl. default members
    for d in (
        {"aInt": 0},
        {"aStr": "", "bI64": "0"},
        {"aEmpty": {}},
        {"aLeaf": {}, "bDur": "0.000s"},
        {"a_ts": "1970-01-01T00:00:00Z", "b_dbl": "Infinity"},
        {"aColor": "ZERO"},
        {"aBytes": ""},
    ):
        yield lambda d=d: Big.from_dict(d)
        yield lambda d=d: Big().from_dict(d)
        yield lambda d=d: Big(a_str="old", b_str="old").from_dict(d)


def check_include_default(m):
    n = 0
    for name, meta in m._betterproto.meta_by_field_name.items():
        got = m._include_default_value_for_oneof(field_name=name, meta=meta)
        want = ref_include_default(m, name, meta)
        assert got is want and isinstance(got, bool), (name, got, want)
        assert m._include_default_value_for_oneof(name, meta) is want
        n += 1
    return n


def check_round_trip(m):
    wire = bytes(m)
    for casing in (Casing.CAMEL, Casing.SNAKE):
        for flag in (False, True):
            d = m.to_dict(casing=casing, include_default_values=flag)
            json.dumps(d)
            for back in (type(m).from_dict(d), type(m)().from_dict(d)):
                if not flag:
                    assert back == m, (m, d, back)
                    assert bytes(back) == wire, (m, d)
                    assert oget(back, "_group_current") == oget(m, "_group_current")
        text = m.to_json(casing=casing)
        viaj = type(m)().from_json(text)
        assert viaj == m and bytes(viaj) == wire, (m, text)


def golden():
    """Emitted dicts for default-valued one-of / optional members (fixed expectations)."""
    assert Big().to_dict() == {}
    assert Big(a_int=0).to_dict() == {"aInt": 0}
    assert Big(a_int=0).to_dict(casing=Casing.SNAKE) == {"a_int": 0}
    assert Big(a_str="").to_dict() == {"aStr": ""}
    assert Big(a_bytes=b"").to_dict() == {"aBytes": ""}
    assert Big(a_color=Color.ZERO).to_dict() == {"aColor": "ZERO"}
    assert Big(a_leaf=Leaf()).to_dict() == {"aLeaf": {}}
    assert Big(a_empty=Empty()).to_dict() == {"aEmpty": {}}
    assert Big(a_ts=EPOCH).to_dict() == {"aTs": "1970-01-01T00:00:00Z"}
    assert Big(b_dur=timedelta(0)).to_dict() == {"bDur": "0.000s"}
    assert Big(b_i64=0).to_dict() == {"bI64": "0"}
    assert Big(b_dbl=0.0).to_dict() == {"bDbl": 0.0}
    assert Big(b_str="", a_int=0).to_dict() == {"aInt": 0, "bStr": ""}
    assert Big(opt_i=0).to_dict() == {"optI": 0}
    assert Big(opt_leaf=Leaf()).to_dict() == {"optLeaf": {}}
    assert Big(i32=0, text="", leaf=Leaf()).to_dict() == {}
    m = Big(a_int=3)
    m.a_str = ""
    assert m.to_dict() == {"aStr": ""} and bytes(m) == bytes(Big(a_str=""))
    # reading an unset member raises, reading the set one does not; defaults are lazy
    m = Big(a_str="")
    try:
        m.a_int
    except AttributeError as e:
        assert str(e) == "'pick' is set to 'a_str', not 'a_int'"
        assert e.name == "a_int" and e.obj is m
    else:
        raise AssertionError("no AttributeError")
    try:
        Big().b_dur
    except AttributeError as e:
        assert str(e) == "'other' is set to None, not 'b_dur'"
    else:
        raise AssertionError("no AttributeError")
    assert m.a_str == "" and getattr(m, "a_int", "dflt") == "dflt"
    assert not hasattr(m, "a_leaf") and hasattr(m, "a_str") and hasattr(m, "leaf")
    fresh = Big()
    assert fresh.i32 == 0 and oget(fresh, "i32") is PLACEHOLDER
    assert fresh.ts == EPOCH and oget(fresh, "ts") is PLACEHOLDER
    assert fresh.leaf is fresh.leaf and oget(fresh, "leaf") is fresh.leaf
    assert fresh.leaves == [] and fresh.leaves is oget(fresh, "leaves")
    assert fresh.by_name == {} and fresh.wrapped is None and fresh.opt_i is None
    assert oget(fresh, "_serialized_on_wire") is False and bytes(fresh) == b""
    node = Node()
    node.child.child.n = 5
    assert node.to_dict() == {"child": {"child": {"n": 5}}}
    assert Node.from_dict(node.to_dict()) == node
    assert bytes(Node().from_dict(node.to_dict())) == bytes(node)
    alt = Node(alt_a=Node())
    assert alt.to_dict() == {"altA": {}} and Node.from_dict({"altA": {}}) == alt
    assert alt.alt_a.child.to_dict() == {} and not hasattr(alt.alt_a, "alt_b")
    assert Node(alt_b=0).to_dict(casing=Casing.SNAKE) == {"alt_b": 0}


def main():
    rng = random.Random(404)
    reads = includes = trips = count = 0
    for build in builders(rng):
        count += 1
        # all fields in declaration order, then special names, then a shuffled second pass
        order = FIELDS + OTHER_NAMES
        second = FIELDS + OTHER_NAMES
        rng.shuffle(second)
        reads += compare_reads(build, order + second)
        reads += compare_reads(build, second)
        m = build()
        includes += check_include_default(m)
        check_round_trip(m)
        includes += check_include_default(m)  # again, after to_dict touched the fields
        trips += 1
    golden()
    print(
        f"ok: {count} messages, {reads} attribute reads, "
        f"{includes} one-of presence tests, {trips} round trips"
    )


if __name__ == "__main__":
    main()
