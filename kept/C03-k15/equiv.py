"""C03 keep1: parse_source_type_name (compile/importing.py) must split every proto type name into
(package, type name) exactly as the regular expression  ^\\.?([^A-Z]+)\\.(.+)  did, and everything
built on it (get_type_reference, the plugin's cross-package references) must be unchanged.

Run as:  PYTHONPATH=<worktree>/src /venv/bin/python equiv.py
"""
import contextlib
import dataclasses
import importlib
import io
import itertools
import os
import random
import re
import shutil
import sys
import tempfile
import typing

import grpc_tools
from grpc_tools import protoc

import betterproto
from betterproto.compile import importing
from betterproto.compile.importing import get_type_reference, parse_source_type_name
from betterproto.plugin import compiler as plugin_compiler
from betterproto.plugin.typing_compiler import (
    DirectImportTypingCompiler,
    NoTyping310TypingCompiler,
    TypingImportTypingCompiler,
)

plugin_compiler.subprocess.check_output = lambda cmd, input, encoding: input

from betterproto.lib.google.protobuf import FileDescriptorSet
from betterproto.lib.google.protobuf.compiler import CodeGeneratorRequest
from betterproto.plugin.models import monkey_patch_oneof_index
from betterproto.plugin.parser import generate_code

monkey_patch_oneof_index()


def spec(field_type_name):
    """The specification: the regular expression the function has always been defined by."""
    package_match = re.match(r"^\.?([^A-Z]+)\.(.+)", field_type_name)
    if package_match:
        return package_match.group(1), package_match.group(2)
    return "", field_type_name.lstrip(".")


# ---- 1. documented / pinned examples ------------------------------------------------------
EXAMPLES = {
    "root.package.Message": ("root.package", "Message"),
    "root.Message.SomeEnum": ("root", "Message.SomeEnum"),
    "package.SomeMessage.NestedType": ("package", "SomeMessage.NestedType"),
    ".package.SomeMessage.NestedType": ("package", "SomeMessage.NestedType"),
    ".service.ExampleRequest": ("service", "ExampleRequest"),
    ".package.lower_case_message": ("package", "lower_case_message"),
    ".Message": ("", "Message"),
    "Message": ("", "Message"),
    ".Outer.Inner": ("", "Outer.Inner"),
    ".google.protobuf.Timestamp": ("google.protobuf", "Timestamp"),
    ".a.b.c.D.E.F": ("a.b.c", "D.E.F"),
    ".api.v1beta2.Foo_Bar.baz": ("api.v1beta2", "Foo_Bar.baz"),
    ".lower.only.names": ("lower.only", "names"),
    ".Capitalized.Message": ("", "Capitalized.Message"),
    ".pkg.lower.Upper": ("pkg.lower", "Upper"),
    ".pkg.mIxed.Upper": ("pkg", "mIxed.Upper"),
    "": ("", ""),
    ".": ("", ""),
    "..": ("", ""),
    "a": ("", "a"),
    ".a": ("", "a"),
    "a.": ("", "a."),
    ".a.": ("", "a."),
    "a.b": ("a", "b"),
    "..a": (".", "a"),
    "..A": (".", "A"),
    "...A": (".", "A"),
    ".a..B": ("a.", "B"),
    ".a.b.": ("a", "b."),
}
for text, expected in EXAMPLES.items():
    assert spec(text) == expected, ("spec", text, spec(text), expected)
    assert parse_source_type_name(text) == expected, (text, parse_source_type_name(text))

# ---- 2. exhaustive: every string over a small alphabet up to length 8 ------------------------
count = 0
for length in range(0, 9):
    for chars in itertools.product(".aB_1", repeat=length):
        text = "".join(chars)
        assert parse_source_type_name(text) == spec(text), (text, parse_source_type_name(text), spec(text))
        count += 1
assert count == sum(5**n for n in range(9))

# ---- 3. boundaries of the A-Z class, non-ASCII letters, long random names -------------------
ALPHABET = ".." + "azAZ@[`{09_" + "ÉéΔδ"  # '@' '[' surround A-Z, E-acute, Delta
rng = random.Random(3)
for _ in range(200_000):
    text = "".join(rng.choice(ALPHABET) for _ in range(rng.randint(0, 14)))
    assert parse_source_type_name(text) == spec(text), (text, parse_source_type_name(text), spec(text))

IDENT_START = "abcxyzABCXYZ_"
IDENT_REST = IDENT_START + "0189"


def ident(lower=None):
    word = rng.choice(IDENT_START) + "".join(rng.choice(IDENT_REST) for _ in range(rng.randint(0, 6)))
    if lower is True:
        word = word.lower()
    elif lower is False:
        word = word[0].upper().replace("_", "M") + word[1:]
    return word


realistic = []
for _ in range(50_000):
    package = [ident(rng.choice([True, True, True, None])) for _ in range(rng.randint(0, 4))]
    names = [ident(rng.choice([False, False, None])) for _ in range(rng.randint(1, 3))]
    text = rng.choice([".", ""]) + ".".join(package + names)
    realistic.append((".".join(package), text))
    assert parse_source_type_name(text) == spec(text), (text, parse_source_type_name(text), spec(text))

# ---- 4. get_type_reference: same strings and imports as with the specification plugged in ------
def references(parse):
    original = importing.parse_source_type_name
    importing.parse_source_type_name = parse
    try:
        results = []
        for compiler_cls in (DirectImportTypingCompiler, TypingImportTypingCompiler, NoTyping310TypingCompiler):
            for current, text in realistic[:6000]:
                for package in {current, "", "a.b", text.lstrip(".").split(".")[0].lower()}:
                    for unwrap, pydantic in ((True, False), (False, True)):
                        imports = set()
                        compiler = compiler_cls()
                        try:
                            name = get_type_reference(
                                package=package, imports=imports, source_type=text,
                                typing_compiler=compiler, unwrap=unwrap, pydantic=pydantic,
                            )
                        except Exception as exc:  # same failure mode required, if any
                            name = type(exc).__name__
                        results.append((package, text, name, sorted(imports), compiler.imports()))
        for source_type in list(importing.WRAPPER_TYPES) + [".google.protobuf.Duration", ".google.protobuf.Timestamp",
                                                          ".google.protobuf.Struct", ".google.protobuf.EnumValue"]:
            for package in ("", "google.protobuf", "google", "x.y"):
                for unwrap in (True, False):
                    imports = set()
                    name = get_type_reference(package=package, imports=imports, source_type=source_type,
                                              typing_compiler=DirectImportTypingCompiler(), unwrap=unwrap)
                    results.append((package, source_type, name, sorted(imports), None))
        return results
    finally:
        importing.parse_source_type_name = original


assert references(importing.parse_source_type_name) == references(spec)

imports = set()
assert get_type_reference(package="a.b", imports=imports, source_type=".a.b.c.Outer.Inner",
                          typing_compiler=DirectImportTypingCompiler()) == '"c.OuterInner"'
assert imports == {"from . import c"}
imports = set()
assert get_type_reference(package="a.b.c", imports=imports, source_type=".a.Msg",
                          typing_compiler=DirectImportTypingCompiler()) == '"___a__.Msg"'
assert imports == {"from .... import a as ___a__"}
imports = set()
assert get_type_reference(package="a", imports=imports, source_type=".Root",
                          typing_compiler=DirectImportTypingCompiler()) == '"_Root__"'
assert imports == {"from .. import Root as _Root__"}
imports = set()
assert get_type_reference(package="x", imports=imports, source_type=".google.protobuf.Struct",
                          typing_compiler=DirectImportTypingCompiler()) == '"betterproto_lib_google_protobuf.Struct"'
assert imports == {"import betterproto.lib.google.protobuf as betterproto_lib_google_protobuf"}

# ---- 5. end to end: a multi-package schema is generated, imports and resolves its references --
WKT_INC = os.path.join(os.path.dirname(grpc_tools.__file__), "_proto")
FILES = {
    "root.proto": 'syntax = "proto3";\nimport "k3/v1/leaf.proto";\n'
    "message Root { k3.v1.Leaf leaf = 1; k3.v1.Leaf.Kind kind = 2; Root next = 3; }\n",
    "k3/v1/leaf.proto": 'syntax = "proto3";\npackage k3.v1;\nimport "k3/types.proto";\nimport "other/x_1/cousin.proto";\n'
    "message Leaf { enum Kind { KIND_UNSPECIFIED = 0; KIND_B = -2; } message Deep { message Deeper { int32 v = 1; } Deeper d = 1; }\n"
    "  Kind kind = 1; Deep.Deeper deeper = 2; k3.Shared shared = 3; map<string, k3.Shared.Part> parts = 4;\n"
    "  other.x_1.Cousin cousin = 5; repeated Leaf children = 6; oneof alt { Deep deep = 7; k3.Shared.Mode mode = 8; } }\n",
    "k3/types.proto": 'syntax = "proto3";\npackage k3;\nimport "google/protobuf/struct.proto";\nimport "google/protobuf/wrappers.proto";\n'
    "message Shared { enum Mode { MODE_A = 0; MODE_B = 1; } message Part { google.protobuf.Struct data = 1; google.protobuf.Int64Value n = 2; }\n"
    "  Part part = 1; Mode mode = 2; }\n",
    "other/x_1/cousin.proto": 'syntax = "proto3";\npackage other.x_1;\nimport "k3/types.proto";\n'
    "message Cousin { k3.Shared.Part part = 1; lower_msg low = 2; }\nmessage lower_msg { string s = 1; }\n",
}


def run_plugin(files):
    src = tempfile.mkdtemp(prefix="c03src")
    try:
        for name, text in files.items():
            path = os.path.join(src, name)
            os.makedirs(os.path.dirname(path), exist_ok=True)
            with open(path, "w") as fh:
                fh.write(text)
        ds = os.path.join(src, "set.bin")
        rc = protoc.main(["protoc", f"-I{src}", f"-I{WKT_INC}", f"--descriptor_set_out={ds}",
                          "--include_imports", "--include_source_info", *sorted(files)])
        assert rc == 0
        raw = open(ds, "rb").read()
    finally:
        shutil.rmtree(src)
    request = CodeGeneratorRequest(file_to_generate=sorted(files), proto_file=FileDescriptorSet().parse(raw).file)
    with contextlib.redirect_stderr(io.StringIO()):
        return {f.name: f.content for f in generate_code(request).file}


out = run_plugin(FILES)
assert set(out) == {"__init__.py", "k3/__init__.py", "k3/v1/__init__.py", "other/__init__.py", "other/x_1/__init__.py"}, sorted(out)
root = tempfile.mkdtemp(prefix="c03out")
pkg = os.path.join(root, "c03keep1")
for name, content in out.items():
    path = os.path.join(pkg, name)
    os.makedirs(os.path.dirname(path), exist_ok=True)
    with open(path, "w") as fh:
        fh.write(content)
sys.path.insert(0, root)
try:
    top = importlib.import_module("c03keep1")
    v1 = importlib.import_module("c03keep1.k3.v1")
    k3 = importlib.import_module("c03keep1.k3")
    x1 = importlib.import_module("c03keep1.other.x_1")
finally:
    sys.path.remove(root)
    shutil.rmtree(root)

import betterproto.lib.google.protobuf as wkt

hints = typing.get_type_hints(top.Root, vars(top))
assert hints == {"leaf": v1.Leaf, "kind": v1.LeafKind, "next": top.Root}, hints
hints = typing.get_type_hints(v1.Leaf, vars(v1))
assert hints == {
    "kind": v1.LeafKind, "deeper": v1.LeafDeepDeeper, "shared": k3.Shared,
    "parts": typing.Dict[str, k3.SharedPart], "cousin": x1.Cousin,
    "children": typing.List[v1.Leaf], "deep": v1.LeafDeep, "mode": k3.SharedMode,
}, hints
hints = typing.get_type_hints(k3.SharedPart, vars(k3))
assert hints == {"data": wkt.Struct, "n": typing.Optional[int]}, hints
hints = typing.get_type_hints(x1.Cousin, vars(x1))
assert hints == {"part": k3.SharedPart, "low": x1.LowerMsg}, hints
assert [f.metadata["betterproto"].number for f in dataclasses.fields(v1.Leaf)] == [1, 2, 3, 4, 5, 6, 7, 8]
assert v1.LeafKind.KIND_B == -2

print("OK")
