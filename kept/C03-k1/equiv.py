"""Equivalence check for FieldCompiler.py_type (plugin/models.py).

1. unit level: py_type / annotation / get_field_string for every
   FieldDescriptorProto.Type value (incl. unsupported ones) x label x typing compiler,
   against an independently written table;
2. end to end: a schema with all 15 scalar kinds, enums, messages, wrappers, Timestamp /
   Duration, optional / repeated / map / oneof is compiled with grpc_tools.protoc, fed to
   the plugin in-process under four option sets, imported, and the dataclass metadata and
   resolved type hints are compared with what google.protobuf says about the schema.
"""
import contextlib
import dataclasses
import datetime
import importlib
import io
import itertools
import os
import sys
import tempfile
import typing

from google.protobuf import descriptor_pb2
from google.protobuf.compiler import plugin_pb2
from grpc_tools import protoc as grpc_protoc

import betterproto
import betterproto.plugin.compiler as plugin_compiler
from betterproto.lib.google.protobuf import (
    DescriptorProto,
    FieldDescriptorProto,
    FieldDescriptorProtoLabel,
    FieldDescriptorProtoType,
    FileDescriptorProto,
)
from betterproto.lib.google.protobuf.compiler import CodeGeneratorRequest
from betterproto.plugin import models
from betterproto.plugin.models import (
    FieldCompiler,
    MessageCompiler,
    OutputTemplate,
    PluginRequestCompiler,
    monkey_patch_oneof_index,
)
from betterproto.plugin.parser import generate_code
from betterproto.plugin.typing_compiler import (
    DirectImportTypingCompiler,
    NoTyping310TypingCompiler,
    TypingImportTypingCompiler,
)

plugin_compiler.subprocess.check_output = lambda cmd, input, encoding: input
monkey_patch_oneof_index()
FD = descriptor_pb2.FieldDescriptorProto

# ---------------------------------------------------------------- 1. unit level
SCALARS = {
    FD.TYPE_DOUBLE: ("float", "double"), FD.TYPE_FLOAT: ("float", "float"),
    FD.TYPE_INT64: ("int", "int64"), FD.TYPE_UINT64: ("int", "uint64"),
    FD.TYPE_INT32: ("int", "int32"), FD.TYPE_FIXED64: ("int", "fixed64"),
    FD.TYPE_FIXED32: ("int", "fixed32"), FD.TYPE_BOOL: ("bool", "bool"),
    FD.TYPE_STRING: ("str", "string"), FD.TYPE_BYTES: ("bytes", "bytes"),
    FD.TYPE_UINT32: ("int", "uint32"), FD.TYPE_SFIXED32: ("int", "sfixed32"),
    FD.TYPE_SFIXED64: ("int", "sfixed64"), FD.TYPE_SINT32: ("int", "sint32"),
    FD.TYPE_SINT64: ("int", "sint64"),
}
assert len(SCALARS) == 15
REFS = {
    ".pkg.sub.Other": '"Other"',
    ".pkg.sub.Other.Inner": '"OtherInner"',
    ".pkg.sub.Kind": '"Kind"',
    ".google.protobuf.Timestamp": "datetime",
    ".google.protobuf.Duration": "timedelta",
    ".google.protobuf.Struct": '"betterproto_lib_google_protobuf.Struct"',
    ".pkg.Up": '"__pkg__.Up"',
    ".pkg.sub.deep.Down": '"deep.Down"',
}
WRAPPERS = {
    "DoubleValue": "float", "FloatValue": "float", "Int32Value": "int", "Int64Value": "int",
    "UInt32Value": "int", "UInt64Value": "int", "BoolValue": "bool", "StringValue": "str",
    "BytesValue": "bytes",
}
COMPILERS = {
    DirectImportTypingCompiler: ("Optional[{}]", "List[{}]"),
    TypingImportTypingCompiler: ("typing.Optional[{}]", "typing.List[{}]"),
    NoTyping310TypingCompiler: None,
}


def make_field(tc_cls, type_value, type_name="", label=1, proto3_optional=False, pydantic=False):
    tc = tc_cls()
    out = OutputTemplate(
        parent_request=PluginRequestCompiler(plugin_request_obj=CodeGeneratorRequest()),
        package_proto_obj=FileDescriptorProto(package="pkg.sub"),
        typing_compiler=tc,
        pydantic_dataclasses=pydantic,
    )
    fdp = FieldDescriptorProto(
        name="some_field", number=7, type=FieldDescriptorProtoType.try_value(type_value),
        type_name=type_name, label=FieldDescriptorProtoLabel(label), proto3_optional=proto3_optional,
    )
    msg = MessageCompiler(
        source_file=out.package_proto_obj, parent=out, typing_compiler=tc,
        proto_obj=DescriptorProto(name="M", field=[fdp]), path=[4, 0],
    )
    return out, msg, fdp, tc


def fmt310(t, kind):
    inner = t[1:-1] if t.startswith('"') else t
    return f'"{inner} | None"' if kind == "opt" else f'"list[{inner}]"'


checked = 0
for tc_cls, fmts in COMPILERS.items():
    def opt(t): return fmts[0].format(t) if fmts else fmt310(t, "opt")
    def lst(t): return fmts[1].format(t) if fmts else fmt310(t, "lst")

    for pydantic in (False, True):
        # scalars
        for tv, (py, bp) in SCALARS.items():
            for label, p3o, wrap in ((1, False, str), (1, True, opt), (3, False, lst)):
                out, msg, fdp, tc = make_field(tc_cls, tv, label=label, proto3_optional=p3o, pydantic=pydantic)
                f = FieldCompiler(source_file=out.package_proto_obj, parent=msg, proto_obj=fdp, path=[4, 0, 2, 0], typing_compiler=tc)
                assert f.py_type == py, (tv, f.py_type)
                assert f.field_type == bp
                assert f.annotation == wrap(py), (f.annotation, wrap(py))
                args = ", optional=True" if p3o else ""
                assert f.get_field_string() == f"some_field: {wrap(py)} = betterproto.{bp}_field(7{args})", f.get_field_string()
                assert msg.fields == [f] and not out.imports_end and not out.builtins_import
                checked += 1
        # message / enum references
        for tv, bp in ((FD.TYPE_MESSAGE, "message"), (FD.TYPE_ENUM, "enum")):
            for tn, ref in REFS.items():
                if pydantic:
                    ref = ref.replace("betterproto_lib_google_protobuf", "betterproto_lib_pydantic_google_protobuf")
                for label, p3o, wrap in ((1, False, str), (1, True, opt), (3, False, lst)):
                    out, msg, fdp, tc = make_field(tc_cls, tv, tn, label, p3o, pydantic)
                    f = FieldCompiler(source_file=out.package_proto_obj, parent=msg, proto_obj=fdp, path=[4, 0, 2, 0], typing_compiler=tc)
                    assert f.py_type == ref, (tn, f.py_type, ref)
                    assert f.annotation == wrap(ref), (f.annotation, wrap(ref))
                    assert f.get_field_string().startswith(f"some_field: {wrap(ref)} = betterproto.{bp}_field(7")
                    assert out.datetime_imports == ({ref} if ref in ("datetime", "timedelta") else set())
                    n_imports = 0 if tn.startswith(".pkg.sub.") and "deep" not in tn or ref in ("datetime", "timedelta") else 1
                    assert len(out.imports_end) == n_imports, (tn, out.imports_end)
                    checked += 1
        # wrappers
        for wname, py in WRAPPERS.items():
            for label, p3o in ((1, False), (1, True), (3, False)):
                out, msg, fdp, tc = make_field(tc_cls, FD.TYPE_MESSAGE, f".google.protobuf.{wname}", label, p3o, pydantic)
                f = FieldCompiler(source_file=out.package_proto_obj, parent=msg, proto_obj=fdp, path=[4, 0, 2, 0], typing_compiler=tc)
                assert f.py_type == opt(py), (wname, f.py_type)
                assert f.field_wraps == "betterproto.TYPE_" + wname[:-5].upper()
                want = lst(opt(py)) if label == 3 else opt(opt(py)) if p3o else opt(py)
                assert f.annotation == want, (f.annotation, want)
                checked += 1
        # unsupported / unknown types raise (the field compiler evaluates py_type while
        # it is being constructed)
        for tv in (0, FD.TYPE_GROUP, 19, 99, 255):
            assert tv not in SCALARS and tv not in (FD.TYPE_MESSAGE, FD.TYPE_ENUM)
            out, msg, fdp, tc = make_field(tc_cls, tv, pydantic=pydantic)
            try:
                FieldCompiler(source_file=out.package_proto_obj, parent=msg, proto_obj=fdp, path=[4, 0, 2, 0], typing_compiler=tc)
            except NotImplementedError as exc:
                assert str(exc) == f"Unknown type {fdp.type}", str(exc)
                assert str(exc) in ("Unknown type TYPE_GROUP", "Unknown type None"), str(exc)
            else:
                raise AssertionError(f"type {tv} accepted")
            checked += 1
        # a plain int (not an enum member) works like the member
        for tv, (py, bp) in SCALARS.items():
            out, msg, fdp, tc = make_field(tc_cls, tv, pydantic=pydantic)
            fdp.type = int(tv)
            f = FieldCompiler(source_file=out.package_proto_obj, parent=msg, proto_obj=fdp, path=[4, 0, 2, 0], typing_compiler=tc)
            assert type(fdp.type) is int and f.py_type == py and f.field_type == bp
            checked += 1

# the category tuples partition the 17 supported types
cats = [models.PROTO_FLOAT_TYPES, models.PROTO_INT_TYPES, models.PROTO_BOOL_TYPES,
        models.PROTO_STR_TYPES, models.PROTO_BYTES_TYPES, models.PROTO_MESSAGE_TYPES]
flat = [int(t) for c in cats for t in c]
assert len(flat) == len(set(flat)) == 17 and set(flat) == set(SCALARS) | {FD.TYPE_MESSAGE, FD.TYPE_ENUM}

# ---------------------------------------------------------------- 2. end to end
SCALAR_NAMES = ["double", "float", "int32", "int64", "uint32", "uint64", "sint32", "sint64",
                "fixed32", "fixed64", "sfixed32", "sfixed64", "bool", "string", "bytes"]
KEY_KINDS = [s for s in SCALAR_NAMES if s not in ("double", "float", "bytes")]
lines = ['syntax = "proto3";', "package eq.one;",
         'import "google/protobuf/wrappers.proto";', 'import "google/protobuf/timestamp.proto";',
         'import "google/protobuf/duration.proto";', 'import "other.proto";',
         "enum Color { COLOR_ZERO = 0; COLOR_NEG = -7; COLOR_BIG = 2147483647; }",
         "message Leaf { int32 v = 1; message Deep { Leaf up = 1; Color c = 2; } Deep deep = 2; }",
         "message All {"]
n = itertools.count(1)
for s in SCALAR_NAMES:
    lines += [f"  {s} s_{s} = {next(n)};", f"  optional {s} o_{s} = {next(n)};", f"  repeated {s} r_{s} = {next(n)};"]
for t, nm in (("Leaf", "leaf"), ("Leaf.Deep", "deep"), ("Color", "color"), ("eq.two.Far", "far"),
              ("eq.two.Far.Mode", "mode"), ("google.protobuf.Timestamp", "ts"), ("google.protobuf.Duration", "dur"),
              ("All", "self")):
    lines += [f"  {t} s_{nm} = {next(n)};", f"  optional {t} o_{nm} = {next(n)};", f"  repeated {t} r_{nm} = {next(n)};"]
for w in WRAPPERS:
    lines += [f"  google.protobuf.{w} s_w{w.lower()} = {next(n)};", f"  repeated google.protobuf.{w} r_w{w.lower()} = {next(n)};"]
for k in KEY_KINDS:
    lines += [f"  map<{k}, {SCALAR_NAMES[next(n) % 15]}> m_{k} = {next(n)};"]
lines += [f"  map<string, Leaf> m_leaf = {next(n)};", f"  map<int32, Color> m_color = {next(n)};",
          f"  map<string, google.protobuf.Timestamp> m_ts = {next(n)};", f"  map<string, eq.two.Far> m_far = {next(n)};"]
lines += ["  oneof pick {"] + [f"    {s} p_{s} = {next(n)};" for s in SCALAR_NAMES] + [
    f"    Leaf p_leaf = {next(n)};", f"    Color p_color = {next(n)};", f"    google.protobuf.Duration p_dur = {next(n)};",
    f"    google.protobuf.BoolValue p_wbool = {next(n)};", "  }", f"  int32 last = 536870911;", "}"]
MAIN = "\n".join(lines)
OTHER = 'syntax = "proto3"; package eq.two; message Far { enum Mode { MODE_A = 0; MODE_B = 1; } Mode mode = 1; Far next = 2; }'


def norm(hint):
    """typing.List[X] / list[X], Optional[X] / X | None ... -> comparable tuples"""
    origin, args = typing.get_origin(hint), typing.get_args(hint)
    if origin is None:
        return hint
    if origin is typing.Union or origin is getattr(__import__("types"), "UnionType"):
        return ("union", frozenset(norm(a) for a in args))
    return (origin, tuple(norm(a) for a in args))


def compile_protos(files):
    with tempfile.TemporaryDirectory() as src:
        for name, text in files.items():
            with open(os.path.join(src, name), "w") as fh:
                fh.write(text)
        out = os.path.join(src, "fds.bin")
        wkt = os.path.join(os.path.dirname(grpc_protoc.__file__), "_proto")
        rc = grpc_protoc.main(["protoc", f"-I{src}", f"-I{wkt}", "--include_imports", "--include_source_info",
                               f"--descriptor_set_out={out}", *files])
        assert rc == 0
        fds = descriptor_pb2.FileDescriptorSet()
        with open(out, "rb") as fh:
            fds.ParseFromString(fh.read())
    req = plugin_pb2.CodeGeneratorRequest(file_to_generate=list(files))
    req.proto_file.extend(fds.file)
    return fds, req.SerializeToString()


fds, req_bytes = compile_protos({"main.proto": MAIN, "other.proto": OTHER})
all_desc = next(m for f in fds.file if f.name == "main.proto" for m in f.message_type if m.name == "All")
PY_OF = {tv: {"float": float, "int": int, "bool": bool, "str": str, "bytes": bytes}[py] for tv, (py, _) in SCALARS.items()}
BP_OF = {tv: bp for tv, (_, bp) in SCALARS.items()} | {FD.TYPE_MESSAGE: "message", FD.TYPE_ENUM: "enum"}
outputs = {}
for run, option in enumerate(("", "typing.root", "typing.310", "pydantic_dataclasses")):
    request = CodeGeneratorRequest().parse(req_bytes)
    request.parameter = option
    with contextlib.redirect_stderr(io.StringIO()):
        response = generate_code(request)
    outputs[option] = {f.name: f.content for f in response.file}
    root = tempfile.mkdtemp()
    top = f"gen{run}"
    for f in response.file:
        path = os.path.join(root, top, f.name)
        os.makedirs(os.path.dirname(path), exist_ok=True)
        with open(path, "w") as fh:
            fh.write(f.content)
    sys.path.insert(0, root)
    one = importlib.import_module(f"{top}.eq.one")
    two = importlib.import_module(f"{top}.eq.two")
    wrappers_lib = importlib.import_module("betterproto.lib.pydantic.google.protobuf" if option == "pydantic_dataclasses" else "betterproto.lib.google.protobuf")
    CLASS_OF = {".eq.one.Leaf": one.Leaf, ".eq.one.Leaf.Deep": one.LeafDeep, ".eq.one.Color": one.Color,
                ".eq.one.All": one.All, ".eq.two.Far": two.Far, ".eq.two.Far.Mode": two.FarMode,
                ".google.protobuf.Timestamp": datetime.datetime, ".google.protobuf.Duration": datetime.timedelta}

    def py_of(fd, unwrap=True):
        if fd.type in PY_OF:
            return PY_OF[fd.type]
        short = fd.type_name.rsplit(".", 1)[1]
        if fd.type_name.startswith(".google.protobuf.") and short in WRAPPERS:
            base = {"float": float, "int": int, "bool": bool, "str": str, "bytes": bytes}[WRAPPERS[short]]
            return typing.Optional[base] if unwrap else getattr(wrappers_lib, short)
        return CLASS_OF[fd.type_name]

    hints = typing.get_type_hints(one.All, vars(one))
    fields = {f.metadata["betterproto"].number: f for f in dataclasses.fields(one.All)}
    assert sorted(fields) == sorted(f.number for f in all_desc.field) and len(fields) == len(all_desc.field)
    for fd in all_desc.field:
        df = fields[fd.number]
        meta = df.metadata["betterproto"]
        hint = hints[df.name]
        entry = next((nt for nt in all_desc.nested_type if nt.options.map_entry and fd.type_name == f".eq.one.All.{nt.name}"), None)
        in_oneof = fd.HasField("oneof_index") and not fd.proto3_optional
        assert meta.group == (all_desc.oneof_decl[fd.oneof_index].name if in_oneof else None), (df.name, meta.group)
        if option == "pydantic_dataclasses" and in_oneof:
            assert meta.optional is True
        else:
            assert bool(meta.optional) == fd.proto3_optional, df.name
        if entry is not None:
            k, v = entry.field
            assert meta.proto_type == "map" and meta.map_types == (BP_OF[k.type], BP_OF[v.type]), (df.name, meta.map_types)
            assert norm(hint) == norm(typing.Dict[py_of(k), py_of(v, unwrap=False)]), (df.name, hint)
            continue
        assert meta.proto_type == BP_OF[fd.type], (df.name, meta.proto_type)
        short = fd.type_name.rsplit(".", 1)[-1]
        is_wrapper = fd.type_name.startswith(".google.protobuf.") and short in WRAPPERS
        assert meta.wraps == (short[:-5].lower() if is_wrapper else None), (df.name, meta.wraps)
        base = py_of(fd)
        if fd.label == FD.LABEL_REPEATED:
            want = typing.List[base]
        elif fd.proto3_optional or (option == "pydantic_dataclasses" and in_oneof):
            want = typing.Optional[base]
        else:
            want = base
        assert norm(hint) == norm(want), (option, df.name, hint, want)
        checked += 1
    # the classes work
    msg = one.All(s_int32=5, r_string=["a"], m_leaf={"k": one.Leaf(v=1)}, p_color=one.Color(-7), last=3)
    assert one.All().parse(bytes(msg)) == msg
    sys.path.remove(root)

assert outputs[""] != outputs["typing.root"] != outputs["typing.310"]
print(f"keep1 equiv OK ({checked} checks)")
