"""C05 keep2: the Duration JSON text parser (_Duration.delta_from_json), directly and
through Message.from_json for singular / repeated / map / oneof Duration fields.

Oracles: (1) `oracle`, a frozen copy of the parser as it is in the reference tree (float
microseconds handed to timedelta, which rounds half to even); (2) exact rational
arithmetic with fractions.Fraction; (3) google.protobuf (Duration.FromJsonString and
json_format) for values in the range the reference supports.
"""
import json
import random
from dataclasses import dataclass
from datetime import timedelta
from fractions import Fraction
from typing import Dict, List

import betterproto
from betterproto import _Duration
from google.protobuf import descriptor_pb2, descriptor_pool, duration_pb2, json_format
from google.protobuf import message_factory

parse = _Duration.delta_from_json
US = timedelta(microseconds=1)


def oracle(value: str) -> timedelta:
    text = value[:-1]
    sign = -1 if text.startswith("-") else 1
    seconds, _, fraction = text.lstrip("+-").partition(".")
    nanos = int(fraction[:9].ljust(9, "0")) if fraction else 0
    return sign * timedelta(seconds=int(seconds or 0), microseconds=nanos / 1e3)


def outcome(fn, text):
    try:
        return ("ok", fn(text))
    except Exception as e:  # noqa: BLE001 - the exception type is part of the outcome
        return ("raise", type(e))


def exact(text: str) -> int:
    """Microseconds of a canonical text, rounded half to even, in exact arithmetic."""
    body = text[:-1]
    neg = body.startswith("-")
    whole, _, frac = body.lstrip("+-").partition(".")
    frac = frac[:9]
    q = Fraction(int(whole or 0)) * 10**6 + (
        Fraction(int(frac), 10 ** len(frac)) * 10**6 if frac else 0
    )
    r = round(q)  # Fraction.__round__ rounds half to even
    return -r if neg else r


n_checked = 0


def check(text: str, reference: bool = False) -> None:
    global n_checked
    n_checked += 1
    got = outcome(parse, text)
    want = outcome(oracle, text)
    assert got == want, (text, got, want)
    if got[0] == "ok":
        assert type(got[1]) is timedelta
        assert got[1] // US == exact(text), (text, got[1], exact(text))
    if reference:
        d = duration_pb2.Duration()
        d.FromJsonString(text)
        ref_us = d.seconds * 10**6 + d.nanos // 1000
        assert d.nanos % 1000 == 0
        assert got[1] // US == ref_us, (text, got, ref_us)


# ------------------------------------------------------------------ 1. spelled out
SPELLED = {
    "0s": 0, "0.000s": 0, "-0s": 0, "-0.000s": 0, "+0s": 0,
    "1s": 10**6, "-1s": -(10**6), "+1s": 10**6,
    "1.5s": 1_500_000, "-1.500s": -1_500_000, "1.500000s": 1_500_000,
    "0.000001s": 1, "-0.000001s": -1, "0.000001000s": 1,
    "0.001s": 1000, "-0.001s": -1000, "0.999999s": 999_999, "-0.999999s": -999_999,
    "3.000001s": 3_000_001, "-3.000001s": -3_000_001,
    ".5s": 500_000, "-.5s": -500_000, "5.s": 5_000_000,
    "315576000000s": 315576000000 * 10**6,
    "-315576000000s": -315576000000 * 10**6,
    "315576000000.999999s": 315576000000 * 10**6 + 999_999,
    "-315576000000.999999s": -(315576000000 * 10**6 + 999_999),
    "9007199254.740993s": 9007199254740993,      # 2**53 + 1 microseconds
    "-9007199254.740993s": -9007199254740993,
    "86399999999999.999999s": 86399999999999999999,  # timedelta.max
    # sub-microsecond digits are rounded half to even, further digits are ignored
    "0.0000004s": 0, "0.0000005s": 0, "0.0000015s": 2, "0.0000025s": 2,
    "0.000000501s": 1, "0.000000499s": 0, "0.0000005009s": 0, "0.0000015000001s": 2,
    "-0.0000015s": -2, "-0.0000025s": -2, "-0.000000501s": -1,
    "0.9999995s": 10**6, "0.9999985s": 999_998, "-0.9999995s": -(10**6),
    "0.999999999s": 10**6, "1.999999500s": 2 * 10**6,
}
for text, us in SPELLED.items():
    assert parse(text) == timedelta(microseconds=1) * us, (text, parse(text), us)
    check(text)
assert parse("86399999999999.999999s") == timedelta.max
assert parse("-86399999913600s") == timedelta.min

# ------------------------------------------- 2. every sub-microsecond remainder
SECONDS = ["", "0", "1", "2", "59", "86400", "315576000000", "9007199254", "86399999999999"]
MICROS = [0, 1, 2, 3, 10, 11, 499_999, 500_000, 500_001, 999_998, 999_999]
for whole in SECONDS:
    for micros in MICROS:
        for sub in range(1000):
            frac = "%06d%03d" % (micros, sub)
            for sign in ("", "-", "+"):
                check(f"{sign}{whole}.{frac}s")
# shorter and longer fractions (0..12 digits), with every prefix of a few digit strings
for digits in ("123456789012", "000000500000", "999999999999", "000001500000", "500000000000",
               "000000499999", "100000000000"):
    for n in range(len(digits) + 1):
        for whole in ("0", "7", "315576000000"):
            for sign in ("", "-"):
                check(f"{sign}{whole}.{digits[:n]}s" if n else f"{sign}{whole}s")
                if n:
                    check(f"{sign}.{digits[:n]}s")

# ------------------------------------------------- 3. random canonical texts, vs google
rng = random.Random(50505)
for _ in range(60000):
    secs = rng.choice([0, 1, rng.randrange(100), rng.randrange(10**6),
                       rng.randrange(315576000001), 315576000000])
    us = rng.choice([0, 1, 999_999, rng.randrange(10**6), rng.randrange(1000) * 1000])
    sign = rng.choice(["", "-"])
    ndig = rng.choice([0, 3, 6, 9]) if us % 1000 == 0 else rng.choice([6, 9])
    if us and ndig == 0:
        ndig = 3
    if ndig == 3 and us % 1000:
        ndig = 6
    frac = ("%06d000" % us)[:ndig]
    text = f"{sign}{secs}" + (f".{frac}" if ndig else "") + "s"
    check(text, reference=True)
    want = timedelta(seconds=secs, microseconds=us)
    assert parse(text) == (-want if sign else want), text
# random nanosecond texts (rounding), vs the frozen copy and exact arithmetic
for _ in range(60000):
    secs = rng.choice([0, 1, rng.randrange(10**4), rng.randrange(10**13)])
    nanos = rng.choice([rng.randrange(10**9), rng.randrange(10**6) * 1000 + 500,
                        999_999_500, 999_999_499, 999_999_501])
    check("%s%d.%09ds" % (rng.choice(["", "-"]), secs, nanos))

# --------------------------------------------- 4. texts that are not Duration texts
BAD = [
    "", "s", "-s", ".s", "-.s", "1", "12", "1.5", "abcs", "1.xs", "x.1s", "1.2.3s", "--1s",
    "+-1s", "1e3s", "1.5e3s", " 1s", "1 s", "1. 5s", "1._5s", "1_0s", "1.1_0s", "1.-5s",
    "1.-0000015s", "1.+5s", "-1.-5s", "1.-0000025s", "1.-000001s", "0.-0000005s",
    "99999999999999999999s", "-99999999999999999999s", "86400000000000s",
    "-86399999913600.000001s", "86399999999999.9999995s", "-86399999999999.999999s",
    "-86399999913599.999999s", "١٢s", "1.٥s", "infs", "nans", "Infinitys", "0x10s",
    "1\n.5s", "1.5\ns", "1.5ss",
]
for text in BAD:
    got, want = outcome(parse, text), outcome(oracle, text)
    assert got == want, (text, got, want)
    n_checked += 1
for bad in (None, 5, 1.5, b"1.5s", ["1s"]):
    got, want = outcome(parse, bad), outcome(oracle, bad)
    assert got[0] == want[0] == "raise" and got == want, (bad, got, want)

# ------------------------------------ 5. through Message.from_json, vs json_format
F = descriptor_pb2.FieldDescriptorProto
fdp = descriptor_pb2.FileDescriptorProto(
    name="c05keep2.proto", package="c05keep2", syntax="proto3",
    dependency=["google/protobuf/duration.proto"],
)
m = fdp.message_type.add(name="M")
DUR = ".google.protobuf.Duration"
m.field.add(name="dur", number=1, type=F.TYPE_MESSAGE, type_name=DUR, label=F.LABEL_OPTIONAL)
m.field.add(name="dur_list", number=2, type=F.TYPE_MESSAGE, type_name=DUR,
            label=F.LABEL_REPEATED)
entry = m.nested_type.add(name="ByIdEntry")
entry.options.map_entry = True
entry.field.add(name="key", number=1, type=F.TYPE_INT32, label=F.LABEL_OPTIONAL)
entry.field.add(name="value", number=2, type=F.TYPE_MESSAGE, type_name=DUR,
                label=F.LABEL_OPTIONAL)
m.field.add(name="by_id", number=3, type=F.TYPE_MESSAGE, type_name=".c05keep2.M.ByIdEntry",
            label=F.LABEL_REPEATED)
m.oneof_decl.add(name="pick")
m.field.add(name="wait", number=4, type=F.TYPE_MESSAGE, type_name=DUR,
            label=F.LABEL_OPTIONAL, oneof_index=0)
m.field.add(name="count", number=5, type=F.TYPE_INT32, label=F.LABEL_OPTIONAL, oneof_index=0)
pool = descriptor_pool.DescriptorPool()
pool.Add(descriptor_pb2.FileDescriptorProto.FromString(
    duration_pb2.DESCRIPTOR.serialized_pb))
pool.Add(fdp)
RefM = message_factory.GetMessageClass(pool.FindMessageTypeByName("c05keep2.M"))


@dataclass(eq=False, repr=False)
class M(betterproto.Message):
    dur: timedelta = betterproto.message_field(1)
    dur_list: List[timedelta] = betterproto.message_field(2)
    by_id: Dict[int, timedelta] = betterproto.map_field(
        3, betterproto.TYPE_INT32, betterproto.TYPE_MESSAGE
    )
    wait: timedelta = betterproto.message_field(4, group="pick")
    count: int = betterproto.int32_field(5, group="pick")


def rand_us() -> int:
    mag = rng.choice([0, 1, 999, 1000, 999_999, 10**6, rng.randrange(10**7),
                      rng.randrange(10**12), rng.randrange(315576000000 * 10**6),
                      2**53 + 1, 315576000000 * 10**6 + 999_999])
    return -mag if rng.random() < 0.5 else mag


def set_ref(d, us: int) -> None:
    neg, mag = us < 0, abs(us)
    s, r = divmod(mag, 10**6)
    d.seconds, d.nanos = (-s, -r * 1000) if neg else (s, r * 1000)


n_msgs = 0
for _ in range(3000):
    ref = RefM()
    expect = {}
    if rng.random() < 0.7:
        # (a plain Duration field of zero is indistinguishable from an absent one in
        # betterproto's timedelta representation, so the singular field is non-zero)
        us = rand_us() or 1; set_ref(ref.dur, us); expect["dur"] = us
    lst = [rand_us() for _ in range(rng.randrange(4))]
    for us in lst:
        set_ref(ref.dur_list.add(), us)
    mp = {rng.randrange(-3, 4): rand_us() for _ in range(rng.randrange(4))}
    for k, us in mp.items():
        set_ref(ref.by_id[k], us)
    pick = rng.randrange(3)
    if pick == 0:
        us = rng.choice([0, rand_us()]); set_ref(ref.wait, us); ref.wait.SetInParent()
        expect["wait"] = us
    elif pick == 1:
        ref.count = rng.randrange(3)
    text = json_format.MessageToJson(ref)
    msg = M().from_json(text)
    assert RefM.FromString(bytes(msg)) == ref, text
    if "dur" in expect:
        assert msg.dur == US * expect["dur"] and type(msg.dur) is timedelta
    assert msg.dur_list == [US * us for us in lst]
    assert msg.by_id == {k: US * us for k, us in mp.items()}
    if "wait" in expect:
        assert betterproto.which_one_of(msg, "pick") == ("wait", US * expect["wait"])
    # and back: betterproto's own text is read by the reference and by betterproto
    own = msg.to_json()
    assert json_format.Parse(own, RefM()) == ref, own
    assert M().from_json(own) == msg
    # every Duration text in either JSON document parses like the frozen copy
    for doc in (json.loads(text), json.loads(own)):
        texts = [doc[k] for k in ("dur", "wait") if k in doc]
        texts += doc.get("durList", []) + list(doc.get("byId", {}).values())
        for t in texts:
            check(t, reference=True)
    n_msgs += 1

# parse(delta_to_json(d)) == d at the boundaries
for d in (timedelta.max, timedelta.min, timedelta(0), US, -US, timedelta.max - US,
          timedelta.min + US, timedelta(days=1), timedelta(days=-1, microseconds=1)):
    assert parse(_Duration.delta_to_json(d)) == d, d

print("C05 keep2 equiv: OK (%d texts, %d messages)" % (n_checked, n_msgs))
