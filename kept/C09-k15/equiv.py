"""Equivalence check for the ProtoClassMetadata.__init__ restructuring (keep1).

The class metadata fixes the order in which dump()/__len__ walk the fields, which
fields are oneof members (AttributeError skip) and the defaults that decide whether
a value is written.  The script pins the metadata tables literally, checks the wire
output against google.protobuf, and checks C09 (len / dump / SIZE_DELIMITED /
SerializeToString) over a few thousand values."""
import dataclasses
import random
from dataclasses import dataclass
from datetime import datetime, timedelta, timezone
from io import BytesIO
from typing import Dict, List, Optional

import betterproto
from betterproto import Casing

from google.protobuf import descriptor_pb2, descriptor_pool, message_factory


# ----------------------------------------------------------------------------- classes
@dataclass(eq=False, repr=False)
class Child(betterproto.Message):
    n: int = betterproto.int32_field(1)
    s: str = betterproto.string_field(2)


@dataclass(eq=False, repr=False)
class Empty(betterproto.Message):
    pass


@dataclass(eq=False, repr=False)
class Mixed(betterproto.Message):
    a: int = betterproto.int32_field(1)
    b: str = betterproto.string_field(2)
    p1: int = betterproto.sint64_field(3, group="pick")
    p2: str = betterproto.string_field(4, group="pick")
    p3: Child = betterproto.message_field(5, group="pick")
    o: Optional[str] = betterproto.string_field(6, optional=True)
    r: List[int] = betterproto.int32_field(7)
    m: Dict[str, int] = betterproto.map_field(
        8, betterproto.TYPE_STRING, betterproto.TYPE_INT32
    )
    c: Child = betterproto.message_field(9)
    q1: bool = betterproto.bool_field(10, group="other")
    q2: bytes = betterproto.bytes_field(11, group="other")
    rc: List[Child] = betterproto.message_field(12)
    d: float = betterproto.double_field(13)
    sf: int = betterproto.sfixed64_field(14)
    oi: Optional[int] = betterproto.int32_field(15, optional=True)
    big: int = betterproto.uint64_field(2000)


# The same fields declared in another order, the two oneofs interleaved.
@dataclass(eq=False, repr=False)
class Scrambled(betterproto.Message):
    big: int = betterproto.uint64_field(2000)
    q2: bytes = betterproto.bytes_field(11, group="other")
    p3: Child = betterproto.message_field(5, group="pick")
    rc: List[Child] = betterproto.message_field(12)
    a: int = betterproto.int32_field(1)
    q1: bool = betterproto.bool_field(10, group="other")
    oi: Optional[int] = betterproto.int32_field(15, optional=True)
    m: Dict[str, int] = betterproto.map_field(
        8, betterproto.TYPE_STRING, betterproto.TYPE_INT32
    )
    p1: int = betterproto.sint64_field(3, group="pick")
    d: float = betterproto.double_field(13)
    c: Child = betterproto.message_field(9)
    o: Optional[str] = betterproto.string_field(6, optional=True)
    sf: int = betterproto.sfixed64_field(14)
    p2: str = betterproto.string_field(4, group="pick")
    r: List[int] = betterproto.int32_field(7)
    b: str = betterproto.string_field(2)


@dataclass(eq=False, repr=False)
class Casey(betterproto.Message):
    address_line_1: str = betterproto.string_field(3)
    address_line1: str = betterproto.string_field(1)
    addressLine1: str = betterproto.string_field(2)
    from_: int = betterproto.int32_field(5)
    HTTPCode: int = betterproto.int32_field(4)
    when: datetime = betterproto.message_field(6)
    span: timedelta = betterproto.message_field(7)
    wrapped: Optional[int] = betterproto.message_field(
        8, wraps=betterproto.TYPE_INT64
    )
    nothing: Empty = betterproto.message_field(9, group="g")
    other: str = betterproto.string_field(10, group="g")


# A (malformed) class reusing a number: only the tables are pinned for it.
@dataclass(eq=False, repr=False)
class Dup(betterproto.Message):
    x: int = betterproto.int32_field(2)
    y: int = betterproto.int32_field(1)
    z: int = betterproto.int32_field(2)


# ----------------------------------------------------------------------------- tables
def tables(cls):
    md = cls._betterproto
    return dict(
        meta=[(k, dataclasses.astuple(v)) for k, v in md.meta_by_field_name.items()],
        group_by_field=list(md.oneof_group_by_field.items()),
        field_by_group=[
            (g, sorted(f.name for f in fs), all(isinstance(f, dataclasses.Field) for f in fs), type(fs))
            for g, fs in md.oneof_field_by_group.items()
        ],
        by_number=list(md.field_name_by_number.items()),
        sorted_names=md.sorted_field_names,
        by_key=list(md.field_name_by_key.items()),
        default_gen=list(md.default_gen),
        cls_by_field=list(md.cls_by_field),
    )


T = tables(Scrambled)
order = ["big", "q2", "p3", "rc", "a", "q1", "oi", "m", "p1", "d", "c", "o", "sf", "p2", "r", "b"]
assert [k for k, _ in T["meta"]] == order
assert dict(T["meta"])["m"] == (8, "map", ("string", "int32"), None, None, False)
assert dict(T["meta"])["oi"] == (15, "int32", None, None, None, True)
assert dict(T["meta"])["p3"] == (5, "message", None, "pick", None, False)
assert T["group_by_field"] == [
    ("q2", "other"), ("p3", "pick"), ("q1", "other"), ("p1", "pick"), ("p2", "pick")
]
assert T["field_by_group"] == [
    ("other", ["q1", "q2"], True, set),
    ("pick", ["p1", "p2", "p3"], True, set),
]
assert T["by_number"] == [
    (2000, "big"), (11, "q2"), (5, "p3"), (12, "rc"), (1, "a"), (10, "q1"), (15, "oi"),
    (8, "m"), (3, "p1"), (13, "d"), (9, "c"), (6, "o"), (14, "sf"), (4, "p2"), (7, "r"), (2, "b"),
]
assert T["sorted_names"] == (
    "a", "b", "p1", "p2", "p3", "o", "r", "m", "c", "q1", "q2", "rc", "d", "sf", "oi", "big"
)
assert isinstance(T["sorted_names"], tuple)
assert T["default_gen"] == order
assert T["cls_by_field"] == [
    "big", "q2", "p3", "rc", "a", "q1", "oi", "m", "m.value", "p1", "d", "c", "o", "sf", "p2", "r", "b"
]
# the Field objects in the group sets are the dataclass's own
assert Scrambled._betterproto.oneof_field_by_group["pick"] == {
    f for f in dataclasses.fields(Scrambled) if f.name in ("p1", "p2", "p3")
}
assert tables(Mixed)["group_by_field"] == [
    ("p1", "pick"), ("p2", "pick"), ("p3", "pick"), ("q1", "other"), ("q2", "other")
]
assert [g for g, *_ in tables(Mixed)["field_by_group"]] == ["pick", "other"]
assert tables(Mixed)["sorted_names"] == tuple(f.name for f in dataclasses.fields(Mixed))

T = tables(Casey)
names = [f.name for f in dataclasses.fields(Casey)]
assert [k for k, _ in T["meta"]] == names
expected_by_key = {}
for name in names:  # independent re-statement of the documented rule
    for casing in (Casing.CAMEL, Casing.SNAKE):
        key = casing(name).rstrip("_")
        if key not in expected_by_key:
            expected_by_key[key] = name
for name in names:
    expected_by_key[name] = name
assert T["by_key"] == list(expected_by_key.items()), T["by_key"]
assert expected_by_key["addressLine1"] == "addressLine1"
assert expected_by_key["address_line1"] == "address_line1"
assert expected_by_key["address_line_1"] == "address_line_1"
assert expected_by_key["from"] == "from_" and expected_by_key["from_"] == "from_"
assert T["sorted_names"] == (
    "address_line1", "addressLine1", "address_line_1", "HTTPCode", "from_", "when",
    "span", "wrapped", "nothing", "other",
)
assert T["group_by_field"] == [("nothing", "g"), ("other", "g")]

T = tables(Dup)
assert T["by_number"] == [(2, "z"), (1, "y")]
assert T["sorted_names"] == ("y", "z")
assert [k for k, _ in T["meta"]] == ["x", "y", "z"]
assert T["group_by_field"] == [] and T["field_by_group"] == []

T = tables(Empty)
assert all(not v for v in T.values()), T

# a class whose field lacks betterproto metadata fails the same way, every time
@dataclass(eq=False, repr=False)
class Broken(betterproto.Message):
    x: int = betterproto.int32_field(1)
    y: int = 0

for _ in range(2):
    try:
        Broken._betterproto
    except KeyError as e:
        assert e.args == ("betterproto",)
    else:
        raise AssertionError("expected KeyError")
assert "_betterproto_meta" not in vars(Broken)

# ----------------------------------------------------------------------------- google twin
fdp = descriptor_pb2.FileDescriptorProto(name="c09_keep1.proto", package="c09k1", syntax="proto3")
F = descriptor_pb2.FieldDescriptorProto
ch = fdp.message_type.add(name="Child")
ch.field.add(name="n", number=1, type=F.TYPE_INT32, label=F.LABEL_OPTIONAL)
ch.field.add(name="s", number=2, type=F.TYPE_STRING, label=F.LABEL_OPTIONAL)
mx = fdp.message_type.add(name="Mixed")
entry = mx.nested_type.add(name="MEntry")
entry.options.map_entry = True
entry.field.add(name="key", number=1, type=F.TYPE_STRING, label=F.LABEL_OPTIONAL)
entry.field.add(name="value", number=2, type=F.TYPE_INT32, label=F.LABEL_OPTIONAL)
for nm in ("pick", "other", "_o", "_oi"):
    mx.oneof_decl.add(name=nm)
opt, rep = F.LABEL_OPTIONAL, F.LABEL_REPEATED
mx.field.add(name="a", number=1, type=F.TYPE_INT32, label=opt)
mx.field.add(name="b", number=2, type=F.TYPE_STRING, label=opt)
mx.field.add(name="p1", number=3, type=F.TYPE_SINT64, label=opt, oneof_index=0)
mx.field.add(name="p2", number=4, type=F.TYPE_STRING, label=opt, oneof_index=0)
mx.field.add(name="p3", number=5, type=F.TYPE_MESSAGE, type_name=".c09k1.Child", label=opt, oneof_index=0)
mx.field.add(name="o", number=6, type=F.TYPE_STRING, label=opt, oneof_index=2, proto3_optional=True)
mx.field.add(name="r", number=7, type=F.TYPE_INT32, label=rep)
mx.field.add(name="m", number=8, type=F.TYPE_MESSAGE, type_name=".c09k1.Mixed.MEntry", label=rep)
mx.field.add(name="c", number=9, type=F.TYPE_MESSAGE, type_name=".c09k1.Child", label=opt)
mx.field.add(name="q1", number=10, type=F.TYPE_BOOL, label=opt, oneof_index=1)
mx.field.add(name="q2", number=11, type=F.TYPE_BYTES, label=opt, oneof_index=1)
mx.field.add(name="rc", number=12, type=F.TYPE_MESSAGE, type_name=".c09k1.Child", label=rep)
mx.field.add(name="d", number=13, type=F.TYPE_DOUBLE, label=opt)
mx.field.add(name="sf", number=14, type=F.TYPE_SFIXED64, label=opt)
mx.field.add(name="oi", number=15, type=F.TYPE_INT32, label=opt, oneof_index=3, proto3_optional=True)
mx.field.add(name="big", number=2000, type=F.TYPE_UINT64, label=opt)
pool = descriptor_pool.DescriptorPool()
pool.Add(fdp)
GMixed = message_factory.GetMessageClass(pool.FindMessageTypeByName("c09k1.Mixed"))


# ----------------------------------------------------------------------------- values
rng = random.Random(9091)
INT32 = [0, 1, -1, 127, 128, 300, 16383, 16384, 2**31 - 1, -(2**31)]
SINT64 = [0, -1, 1, -64, 63, 64, -65, 2**62, -(2**63), 2**63 - 1]
STR = ["", "a", "été", "\U0001f600", "x" * 127, "y" * 128, "z" * 300]
BYT = [b"", b"\x00", b"\xff" * 127, b"\x01" * 128]
DBL = [0.0, 1.5, -2.25, float("inf"), 1e300, 5e-324]
SF = [0, 1, -1, 2**63 - 1, -(2**63)]
U64 = [0, 1, 2**63, 2**64 - 1, 127, 128]


def child_spec():
    k = rng.randrange(4)
    if k == 0:
        return None
    if k == 1:
        return {"n": 0}  # present, every field default
    return {"n": rng.choice(INT32), "s": rng.choice(STR)}


def make_spec():
    s = {}
    if rng.random() < 0.6:
        s["a"] = rng.choice(INT32)
    if rng.random() < 0.6:
        s["b"] = rng.choice(STR)
    k = rng.randrange(4)
    if k == 1:
        s["p1"] = rng.choice(SINT64)
    elif k == 2:
        s["p2"] = rng.choice(STR)
    elif k == 3:
        s["p3"] = child_spec() or {"n": 0}
    if rng.random() < 0.5:
        s["o"] = rng.choice(STR)
    if rng.random() < 0.5:
        s["r"] = [rng.choice(INT32) for _ in range(rng.randrange(0, 40))]
    if rng.random() < 0.5:
        s["m"] = {rng.choice(STR) + str(i): rng.choice(INT32) for i in range(rng.randrange(0, 4))}
    c = child_spec()
    if c is not None:
        s["c"] = c
    k = rng.randrange(3)
    if k == 1:
        s["q1"] = rng.random() < 0.5
    elif k == 2:
        s["q2"] = rng.choice(BYT)
    if rng.random() < 0.5:
        s["rc"] = [child_spec() or {} for _ in range(rng.randrange(0, 4))]
    if rng.random() < 0.5:
        s["d"] = rng.choice(DBL)
    if rng.random() < 0.5:
        s["sf"] = rng.choice(SF)
    if rng.random() < 0.5:
        s["oi"] = rng.choice(INT32)
    if rng.random() < 0.5:
        s["big"] = rng.choice(U64)
    return s


def build_bp(cls, spec):
    kw = {}
    for k, v in spec.items():
        if k in ("p3", "c"):
            kw[k] = Child(**v)
        elif k == "rc":
            kw[k] = [Child(**x) for x in v]
        elif k in ("r",):
            kw[k] = list(v)
        elif k == "m":
            kw[k] = dict(v)
        else:
            kw[k] = v
    return cls(**kw)


def build_g(spec):
    g = GMixed()
    for k, v in spec.items():
        if k in ("p3", "c"):
            sub = getattr(g, k)
            sub.SetInParent()
            for kk, vv in v.items():
                setattr(sub, kk, vv)
        elif k == "rc":
            for x in v:
                g.rc.add(**x)
        elif k == "r":
            g.r.extend(v)
        elif k == "m":
            for kk, vv in v.items():
                g.m[kk] = vv
        else:
            setattr(g, k, v)
    return g


def check_c09(m):
    data = bytes(m)
    assert type(data) is bytes
    assert m.SerializeToString() == data
    assert len(m) == len(data), (len(m), len(data), data)
    s = BytesIO()
    m.dump(s)
    assert s.getvalue() == data
    s = BytesIO()
    m.dump(s, betterproto.SIZE_DELIMITED)
    assert s.getvalue() == betterproto.encode_varint(len(data)) + data
    return data


def top_level_numbers(data):
    return [f.number for f in betterproto.parse_fields(data)]


N = 1500
for i in range(N):
    spec = make_spec()
    g = build_g(spec)
    for cls in (Mixed, Scrambled):
        m = build_bp(cls, spec)
        data = check_c09(m)
        # what google reads from our bytes is the message built from the same spec
        assert GMixed.FromString(data) == g, (cls, spec)
        # fields appear in declaration order (repeated / map items contiguous)
        nums = top_level_numbers(data)
        decl = [meta.number for meta in cls._betterproto.meta_by_field_name.values()]
        dedup = [n for j, n in enumerate(nums) if j == 0 or nums[j - 1] != n]
        assert dedup == [n for n in decl if n in set(nums)], (cls, nums)
        # unselected oneof members are not readable, the selected one is
        for grp, members in (("pick", ("p1", "p2", "p3")), ("other", ("q1", "q2"))):
            chosen = [k for k in members if k in spec]
            for k in members:
                if k in chosen:
                    getattr(m, k)
                else:
                    try:
                        getattr(m, k)
                    except AttributeError:
                        pass
                    else:
                        raise AssertionError((cls, k))
            assert betterproto.which_one_of(m, grp)[0] == (chosen[0] if chosen else "")
        # round trip, with unknown fields glued on
        back = cls().parse(data + b"\xf8\xff\x07\x01")
        assert check_c09(back) == data + b"\xf8\xff\x07\x01"
        if cls is Mixed and len(spec.get("m", ())) <= 1:
            # declared in number order: byte-identical to google's serializer
            assert g.SerializeToString(deterministic=True) == data, spec
    # switching a oneof member afterwards
    m = build_bp(Scrambled, spec)
    m.p2 = ""
    m.q1 = False
    data = check_c09(m)
    g.p2 = ""
    g.q1 = False
    assert GMixed.FromString(data) == g

# pinned bytes (independent of google and of the patch)
m = Scrambled(big=1, q2=b"", p3=Child(), rc=[Child()], a=2, oi=0, m={"": 0}, d=-0.0, o="", r=[1, 300], b="b")
assert check_c09(m) == (
    b"\x80\x7d\x01" b"\x5a\x00" b"\x2a\x00" b"\x62\x00" b"\x08\x02" b"\x78\x00"
    b"\x42\x02\x10\x00" b"\x32\x00" b"\x3a\x03\x01\xac\x02" b"\x12\x01b"
), bytes(m)
m = Mixed(big=1, q2=b"", p3=Child(), rc=[Child()], a=2, oi=0, m={"": 0}, d=-0.0, o="", r=[1, 300], b="b")
assert check_c09(m) == (
    b"\x08\x02" b"\x12\x01b" b"\x2a\x00" b"\x32\x00" b"\x3a\x03\x01\xac\x02"
    b"\x42\x02\x10\x00" b"\x5a\x00" b"\x62\x00" b"\x78\x00" b"\x80\x7d\x01"
), bytes(m)

# Casey: well-known types, wrapper, field-less oneof member, colliding JSON keys
for kw, expected, as_dict in [
    ({}, b"", {}),
    ({"nothing": Empty()}, b"\x4a\x00", {"nothing": {}}),
    ({"other": ""}, b"\x52\x00", {"other": ""}),
    ({"wrapped": 0}, b"\x42\x00", {"wrapped": "0"}),
    (
        {"wrapped": 5, "from_": 1, "HTTPCode": 2},
        b"\x28\x01\x20\x02\x42\x02\x08\x05",
        {"from": 1, "httpCode": 2, "wrapped": "5"},
    ),
    (
        {"address_line_1": "3", "address_line1": "1", "addressLine1": "2"},
        b"\x1a\x013\x0a\x011\x12\x012",
        {"addressLine1": "2"},
    ),
    (
        {"when": datetime(1970, 1, 1, 0, 0, 1, 500000, tzinfo=timezone.utc), "span": timedelta(seconds=-1.5)},
        b"\x32\x08\x08\x01\x10\x80\xca\xb5\xee\x01" b"\x3a\x16\x08" + b"\xff" * 9 + b"\x01\x10\x80\xb6\xca\x91\xfe\xff\xff\xff\xff\x01",
        {"when": "1970-01-01T00:00:01.500Z", "span": "-1.500s"},
    ),
]:
    m = Casey(**kw)
    assert check_c09(m) == expected, (kw, bytes(m))
    assert check_c09(Casey().parse(expected)) == expected
    assert m.to_dict() == as_dict, (kw, m.to_dict())
    assert list(m.to_dict()) == list(as_dict)
    if len(as_dict) == len(kw):
        assert check_c09(Casey().from_dict(as_dict)) == expected
assert Casey().from_dict({"address_line_1": "3", "address_line1": "1", "addressLine1": "2"}) == Casey(
    address_line_1="3", address_line1="1", addressLine1="2"
)
assert Casey().from_dict({"from": 7}).from_ == 7 and Casey().from_dict({"from_": 7}).from_ == 7
assert Casey().from_dict({"httpCode": 7}).HTTPCode == 7 and Casey().from_dict({"HTTPCode": 8}).HTTPCode == 8

print("ok")
