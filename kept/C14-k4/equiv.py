# ---------------------------------------------------------------------------
# Shared part: schema (betterproto by hand + google.protobuf built dynamically),
# random value generation and the purity / copy / pickle checks of property C14.
# ---------------------------------------------------------------------------
import copy
import io
import pickle
import random
import struct
import sys
from dataclasses import dataclass
from datetime import datetime, timedelta, timezone
from typing import Dict, List, Optional

import betterproto
from betterproto import which_one_of, serialized_on_wire

from google.protobuf import descriptor_pb2, descriptor_pool, message_factory
from google.protobuf import timestamp_pb2, duration_pb2, wrappers_pb2  # noqa: F401


class Color(betterproto.Enum):
    ZERO = 0
    RED = 1
    BLUE = 2


@dataclass(eq=False, repr=False)
class Inner(betterproto.Message):
    x: int = betterproto.int32_field(1)
    s: str = betterproto.string_field(2)


@dataclass(eq=False, repr=False)
class Outer(betterproto.Message):
    i32: int = betterproto.int32_field(1)
    s64: int = betterproto.sint64_field(2)
    s: str = betterproto.string_field(3)
    b: bytes = betterproto.bytes_field(4)
    flag: bool = betterproto.bool_field(5)
    d: float = betterproto.double_field(6)
    f32: int = betterproto.fixed32_field(7)
    inner: Inner = betterproto.message_field(8)
    ri: List[int] = betterproto.int32_field(9)
    rs: List[str] = betterproto.string_field(10)
    rm: List[Inner] = betterproto.message_field(11)
    msi: Dict[str, int] = betterproto.map_field(
        12, betterproto.TYPE_STRING, betterproto.TYPE_INT32
    )
    mim: Dict[int, Inner] = betterproto.map_field(
        13, betterproto.TYPE_INT32, betterproto.TYPE_MESSAGE
    )
    oi: int = betterproto.int32_field(14, group="choice")
    os: str = betterproto.string_field(15, group="choice")
    om: Inner = betterproto.message_field(16, group="choice")
    opt: Optional[int] = betterproto.int32_field(17, optional=True)
    color: Color = betterproto.enum_field(18)
    ts: datetime = betterproto.message_field(19)
    dur: timedelta = betterproto.message_field(20)
    w: Optional[int] = betterproto.message_field(21, wraps=betterproto.TYPE_INT32)
    rc: List[Color] = betterproto.enum_field(22)
    fl: float = betterproto.float_field(23)


FIELD_NAMES = tuple(Outer._betterproto.meta_by_field_name)
ONEOF = ("oi", "os", "om")


def _build_google():
    F = descriptor_pb2.FieldDescriptorProto
    fd = descriptor_pb2.FileDescriptorProto()
    fd.name = "c14_equiv_%d.proto" % random.Random().getrandbits(40)
    fd.package = "c14equiv"
    fd.syntax = "proto3"
    fd.dependency.extend(
        [
            "google/protobuf/timestamp.proto",
            "google/protobuf/duration.proto",
            "google/protobuf/wrappers.proto",
        ]
    )
    en = fd.enum_type.add()
    en.name = "Color"
    for n, v in (("ZERO", 0), ("RED", 1), ("BLUE", 2)):
        ev = en.value.add()
        ev.name, ev.number = n, v

    inner = fd.message_type.add()
    inner.name = "Inner"
    f = inner.field.add()
    f.name, f.number, f.type, f.label = "x", 1, F.TYPE_INT32, F.LABEL_OPTIONAL
    f = inner.field.add()
    f.name, f.number, f.type, f.label = "s", 2, F.TYPE_STRING, F.LABEL_OPTIONAL

    outer = fd.message_type.add()
    outer.name = "Outer"
    outer.oneof_decl.add().name = "choice"
    outer.oneof_decl.add().name = "_opt"

    def add(name, number, type_, label=F.LABEL_OPTIONAL, type_name=None, oneof=None):
        f = outer.field.add()
        f.name, f.number, f.type, f.label = name, number, type_, label
        if type_name:
            f.type_name = type_name
        if oneof is not None:
            f.oneof_index = oneof
        return f

    R = F.LABEL_REPEATED
    add("i32", 1, F.TYPE_INT32)
    add("s64", 2, F.TYPE_SINT64)
    add("s", 3, F.TYPE_STRING)
    add("b", 4, F.TYPE_BYTES)
    add("flag", 5, F.TYPE_BOOL)
    add("d", 6, F.TYPE_DOUBLE)
    add("f32", 7, F.TYPE_FIXED32)
    add("inner", 8, F.TYPE_MESSAGE, type_name=".c14equiv.Inner")
    add("ri", 9, F.TYPE_INT32, R)
    add("rs", 10, F.TYPE_STRING, R)
    add("rm", 11, F.TYPE_MESSAGE, R, ".c14equiv.Inner")
    e = outer.nested_type.add()
    e.name = "MsiEntry"
    e.options.map_entry = True
    k = e.field.add()
    k.name, k.number, k.type, k.label = "key", 1, F.TYPE_STRING, F.LABEL_OPTIONAL
    v = e.field.add()
    v.name, v.number, v.type, v.label = "value", 2, F.TYPE_INT32, F.LABEL_OPTIONAL
    add("msi", 12, F.TYPE_MESSAGE, R, ".c14equiv.Outer.MsiEntry")
    e = outer.nested_type.add()
    e.name = "MimEntry"
    e.options.map_entry = True
    k = e.field.add()
    k.name, k.number, k.type, k.label = "key", 1, F.TYPE_INT32, F.LABEL_OPTIONAL
    v = e.field.add()
    v.name, v.number, v.type, v.label = "value", 2, F.TYPE_MESSAGE, F.LABEL_OPTIONAL
    v.type_name = ".c14equiv.Inner"
    add("mim", 13, F.TYPE_MESSAGE, R, ".c14equiv.Outer.MimEntry")
    add("oi", 14, F.TYPE_INT32, oneof=0)
    add("os", 15, F.TYPE_STRING, oneof=0)
    add("om", 16, F.TYPE_MESSAGE, type_name=".c14equiv.Inner", oneof=0)
    add("opt", 17, F.TYPE_INT32, oneof=1).proto3_optional = True
    add("color", 18, F.TYPE_ENUM, type_name=".c14equiv.Color")
    add("ts", 19, F.TYPE_MESSAGE, type_name=".google.protobuf.Timestamp")
    add("dur", 20, F.TYPE_MESSAGE, type_name=".google.protobuf.Duration")
    add("w", 21, F.TYPE_MESSAGE, type_name=".google.protobuf.Int32Value")
    add("rc", 22, F.TYPE_ENUM, R, ".c14equiv.Color")
    add("fl", 23, F.TYPE_FLOAT)

    pool = descriptor_pool.Default()
    pool.Add(fd)
    return (
        message_factory.GetMessageClass(pool.FindMessageTypeByName("c14equiv.Outer")),
        message_factory.GetMessageClass(pool.FindMessageTypeByName("c14equiv.Inner")),
    )


GOuter, GInner = _build_google()

INT32S = [0, 1, -1, 127, 128, 2**31 - 1, -(2**31), 300, -300]
SINT64S = [0, 1, -1, 2**63 - 1, -(2**63), 63, -64, 64]
STRS = ["", "a", "héllo", "x" * 200, "☃", "0"]
BYTESS = [b"", b"\x00", b"\xff\xfe", b"abc" * 50]
DOUBLES = [0.0, 1.5, -2.25, 1e300, float("inf"), 5e-324]
FLOATS = [0.0, 1.5, -2.25, 0.5, float("inf"), 65536.0]
FIXED32S = [0, 1, 2**32 - 1, 0x80000000]
EPOCH = datetime(1970, 1, 1, tzinfo=timezone.utc)
DTS = [
    EPOCH,
    datetime(2020, 1, 2, 3, 4, 5, 678000, tzinfo=timezone.utc),
    datetime(1969, 12, 31, 23, 59, 59, tzinfo=timezone.utc),
    datetime(2001, 9, 9, 1, 46, 40, tzinfo=timezone.utc),
]
TDS = [
    timedelta(0),
    timedelta(seconds=1),
    timedelta(seconds=-1),
    timedelta(days=3, microseconds=5),
    timedelta(microseconds=-1500000),
]


def rand_inner_spec(rng):
    spec = {}
    if rng.random() < 0.6:
        spec["x"] = rng.choice(INT32S)
    if rng.random() < 0.5:
        spec["s"] = rng.choice(STRS)
    return spec


def rand_spec(rng):
    """A plain description of a message value: field name -> python value."""
    spec = {}
    p = rng.choice([0.15, 0.4, 0.8])

    def on():
        return rng.random() < p

    if on():
        spec["i32"] = rng.choice(INT32S)
    if on():
        spec["s64"] = rng.choice(SINT64S)
    if on():
        spec["s"] = rng.choice(STRS)
    if on():
        spec["b"] = rng.choice(BYTESS)
    if on():
        spec["flag"] = rng.choice([True, False])
    if on():
        spec["d"] = rng.choice(DOUBLES)
    if on():
        spec["f32"] = rng.choice(FIXED32S)
    if on():
        spec["inner"] = rand_inner_spec(rng)
    if on():
        spec["ri"] = [rng.choice(INT32S) for _ in range(rng.randrange(0, 4))]
    if on():
        spec["rs"] = [rng.choice(STRS) for _ in range(rng.randrange(0, 4))]
    if on():
        spec["rm"] = [rand_inner_spec(rng) for _ in range(rng.randrange(0, 4))]
    if on():
        keys = sorted({rng.choice(STRS) for _ in range(rng.randrange(0, 4))})
        spec["msi"] = {k: rng.choice(INT32S) for k in keys}
    if on():
        keys = sorted({rng.choice(INT32S) for _ in range(rng.randrange(0, 4))})
        spec["mim"] = {k: rand_inner_spec(rng) for k in keys}
    if on():
        which = rng.choice(ONEOF)
        spec[which] = {
            "oi": lambda: rng.choice(INT32S),
            "os": lambda: rng.choice(STRS),
            "om": lambda: rand_inner_spec(rng),
        }[which]()
    if on():
        spec["opt"] = rng.choice(INT32S)
    if on():
        spec["color"] = rng.choice([0, 1, 2])
    if on():
        spec["ts"] = rng.choice(DTS)
    if on():
        spec["dur"] = rng.choice(TDS)
    if on():
        spec["w"] = rng.choice(INT32S)
    if on():
        spec["rc"] = [rng.choice([0, 1, 2]) for _ in range(rng.randrange(0, 4))]
    if on():
        spec["fl"] = rng.choice(FLOATS)
    return spec


def bp_inner(spec):
    return Inner(**spec)


def bp_from_spec(spec):
    kw = {}
    for k, v in spec.items():
        if k in ("inner", "om"):
            kw[k] = bp_inner(v)
        elif k == "rm":
            kw[k] = [bp_inner(i) for i in v]
        elif k == "mim":
            kw[k] = {kk: bp_inner(vv) for kk, vv in v.items()}
        elif k == "color":
            kw[k] = Color(v)
        elif k == "rc":
            kw[k] = [Color(i) for i in v]
        elif isinstance(v, (list, dict)):
            kw[k] = copy.deepcopy(v)
        else:
            kw[k] = v
    return Outer(**kw)


def g_from_spec(spec):
    g = GOuter()
    for k, v in spec.items():
        if k in ("inner", "om"):
            getattr(g, k).SetInParent()
            for kk, vv in v.items():
                setattr(getattr(g, k), kk, vv)
        elif k == "rm":
            for i in v:
                g.rm.add(**i)
        elif k == "mim":
            for kk, vv in v.items():
                g.mim[kk].SetInParent()
                for a, bb in vv.items():
                    setattr(g.mim[kk], a, bb)
        elif k == "msi":
            for kk, vv in v.items():
                g.msi[kk] = vv
        elif k in ("ri", "rs", "rc"):
            getattr(g, k).extend(v)
        elif k == "ts":
            g.ts.FromDatetime(v)
            g.ts.SetInParent()
        elif k == "dur":
            g.dur.FromTimedelta(v)
            g.dur.SetInParent()
        elif k == "w":
            g.w.value = v
            g.w.SetInParent()
        else:
            setattr(g, k, v)
    return g


def expected_bytes(spec):
    return g_from_spec(spec).SerializeToString(deterministic=True)


def bp_expected_bytes(spec):
    """What betterproto is expected to emit, derived from google.protobuf.

    Two reference behaviours of this tree are accounted for: a Timestamp/Duration
    holding the zero value is omitted (google emits an empty sub-message when it was
    set explicitly), and map entries are written in insertion order with default
    keys/values left out (google writes both always, in its own order).  Without map
    fields the bytes must be identical to google's; with map fields google must parse
    our bytes into a message equal to the one it builds itself."""
    spec = dict(spec)
    if spec.get("ts") == EPOCH:
        del spec["ts"]
    if spec.get("dur") == timedelta(0):
        del spec["dur"]
    if spec.get("inner") == {}:
        # Outer(inner=Inner()): a child that is itself not "on the wire" is unset
        del spec["inner"]
    g = g_from_spec(spec)
    if not spec.get("msi") and not spec.get("mim"):
        return g.SerializeToString(deterministic=True)
    ours = bytes(bp_from_spec(spec))
    assert GOuter.FromString(ours) == g, spec
    return ours


UNKNOWN_TAILS = [
    b"",
    b"\xa0\x06\x01",  # field 100 varint 1
    b"\xa2\x06\x03abc",  # field 100 len-delim
    b"\xa5\x06\x01\x02\x03\x04\xa1\x06\x01\x02\x03\x04\x05\x06\x07\x08",
]


def presence(m):
    """Everything a message 'reports as present'."""
    return (
        serialized_on_wire(m),
        tuple(m.is_set(f) for f in type(m)._betterproto.meta_by_field_name),
        tuple(
            which_one_of(m, g)[0]
            for g in sorted(type(m)._betterproto.oneof_field_by_group)
        ),
    )


def wire_presence(m):
    """The part of presence that the wire format carries (what pickle must keep)."""
    return (
        tuple(safe_is_set(m, f) for f in ("inner", "om", "opt", "w")),
        tuple(
            which_one_of(m, g)[0]
            for g in sorted(type(m)._betterproto.oneof_field_by_group)
        ),
    )


def safe_is_set(m, f):
    return f in type(m)._betterproto.meta_by_field_name and m.is_set(f)


def snapshot(m):
    """encoding + presence, recursively for present children"""
    return (bytes(m), len(m), presence(m), m._unknown_fields)


def safe_read(m, name):
    try:
        return getattr(m, name)
    except AttributeError:
        return None


OBSERVERS = [
    ("bytes", bytes),
    ("len", len),
    ("bool", bool),
    ("repr", repr),
    ("eq-self", lambda m: m == m),
    ("eq-empty", lambda m: m == type(m)()),
    ("to_dict", lambda m: m.to_dict()),
    ("to_dict-defaults", lambda m: m.to_dict(include_default_values=True)),
    ("to_dict-snake", lambda m: m.to_dict(casing=betterproto.Casing.SNAKE)),
    ("to_json", lambda m: m.to_json()),
    ("to_pydict", lambda m: m.to_pydict()),
    ("to_pydict-defaults", lambda m: m.to_pydict(include_default_values=True)),
    ("read-all", lambda m: [safe_read(m, f) for f in FIELD_NAMES]),
    ("read-nested", lambda m: (m.inner.x, m.inner.s, safe_read(m, "om"))),
    ("read-containers", lambda m: (m.ri, m.rs, m.rm, m.msi, m.mim, m.rc)),
    ("dump", lambda m: m.dump(io.BytesIO())),
    ("dump-delimited", lambda m: m.dump(io.BytesIO(), betterproto.SIZE_DELIMITED)),
    ("copy", copy.copy),
    ("deepcopy", copy.deepcopy),
    ("pickle", lambda m: pickle.loads(pickle.dumps(m))),
]


def check_copies(m, want_bytes, want_presence_fields):
    """copy / deepcopy / pickle are faithful, deep ones are independent."""
    for name, c in (
        ("copy", copy.copy(m)),
        ("deepcopy", copy.deepcopy(m)),
        ("pickle", pickle.loads(pickle.dumps(m))),
        ("pickle-p2", pickle.loads(pickle.dumps(m, protocol=2))),
    ):
        assert type(c) is type(m)
        assert c == m and m == c, name
        assert bytes(c) == want_bytes, (name, bytes(c), want_bytes)
        assert len(c) == len(want_bytes), name
        assert c._unknown_fields == m._unknown_fields, name
        assert wire_presence(c) == wire_presence(m), name
        if not name.startswith("pickle"):
            assert presence(c) == presence(m), name
            assert presence(c)[1:] == want_presence_fields, name
    for name, c in (
        ("deepcopy", copy.deepcopy(m)),
        ("pickle", pickle.loads(pickle.dumps(m))),
    ):
        # mutate every mutable part of the deep copy
        c.inner.x = 77
        c.ri.append(5)
        c.rs.append("zz")
        c.rm.append(Inner(x=1))
        for i in c.rm:
            i.s = "changed"
        c.msi["new"] = 1
        c.mim[12345] = Inner(x=9)
        for v in c.mim.values():
            v.x = 55
        c.os = "other"
        c.i32 = 99
        c.opt = 4
        assert bytes(m) == want_bytes, name
        assert presence(m)[1:] == want_presence_fields, name


def run_history(m, rng, want_bytes, n_ops=6):
    """Random observer sequence; nothing observable may change."""
    base = snapshot(m)
    assert base[0] == want_bytes, (base[0], want_bytes)
    assert base[1] == len(want_bytes)
    reference = copy.deepcopy(m)
    for _ in range(n_ops):
        name, obs = rng.choice(OBSERVERS)
        obs(m)
        now = snapshot(m)
        assert now == base, (name, now, base)
        assert m == reference, name
    check_copies(m, want_bytes, base[2][1:])
    assert snapshot(m) == base


# ---------------------------------------------------------------------------
# keep2 specific: which fields dump() / __len__() emit, and how
# ---------------------------------------------------------------------------
@dataclass(eq=False, repr=False)
class Choice(betterproto.Message):
    """oneof members of every kind, an optional of every kind, wrappers"""

    a: int = betterproto.int32_field(1, group="g")
    b: str = betterproto.string_field(2, group="g")
    c: bytes = betterproto.bytes_field(3, group="g")
    d: Inner = betterproto.message_field(4, group="g")
    e: bool = betterproto.bool_field(5, group="g")
    f: float = betterproto.double_field(6, group="g")
    col: Color = betterproto.enum_field(7, group="g")
    o_int: Optional[int] = betterproto.int32_field(8, optional=True)
    o_str: Optional[str] = betterproto.string_field(9, optional=True)
    o_msg: Optional[Inner] = betterproto.message_field(10, optional=True)
    o_bytes: Optional[bytes] = betterproto.bytes_field(11, optional=True)
    w_str: Optional[str] = betterproto.message_field(12, wraps=betterproto.TYPE_STRING)
    w_bool: Optional[bool] = betterproto.message_field(13, wraps=betterproto.TYPE_BOOL)
    h: str = betterproto.string_field(14, group="g2")
    i: int = betterproto.sint32_field(15, group="g2")


@dataclass(eq=False, repr=False)
class Packed(betterproto.Message):
    i32: List[int] = betterproto.int32_field(1)
    s64: List[int] = betterproto.sint64_field(2)
    f64: List[int] = betterproto.fixed64_field(3)
    dbl: List[float] = betterproto.double_field(4)
    bl: List[bool] = betterproto.bool_field(5)
    by: List[bytes] = betterproto.bytes_field(6)
    ms: List[Inner] = betterproto.message_field(7)
    ts: List[datetime] = betterproto.message_field(8)
    mm: Dict[int, int] = betterproto.map_field(
        9, betterproto.TYPE_INT32, betterproto.TYPE_INT32
    )
    ms2: Dict[str, str] = betterproto.map_field(
        10, betterproto.TYPE_STRING, betterproto.TYPE_STRING
    )


@dataclass(eq=False, repr=False)
class Tree(betterproto.Message):
    v: int = betterproto.int32_field(1)
    left: "Tree" = betterproto.message_field(2)
    right: "Tree" = betterproto.message_field(3)
    kids: List["Tree"] = betterproto.message_field(4)


def enc(m):
    """bytes through every route; all must agree, and len must match."""
    b = bytes(m)
    assert len(m) == len(b), (len(m), b)
    s = io.BytesIO()
    m.dump(s)
    assert s.getvalue() == b
    s = io.BytesIO()
    m.dump(s, betterproto.SIZE_DELIMITED)
    raw = s.getvalue()
    n, pos = betterproto.decode_varint(raw, 0)
    assert n == len(b) and raw[pos:] == b
    assert m.SerializeToString() == b
    assert bytes(m) == b and len(m) == len(b)  # encoding is repeatable
    return b


def check_fixed_vectors():
    # selected oneof members with default values are emitted, unselected never
    cases = [
        (Choice(), b""),
        (Choice(a=0), b"\x08\x00"),
        (Choice(a=1), b"\x08\x01"),
        (Choice(b=""), b"\x12\x00"),
        (Choice(b="x"), b"\x12\x01x"),
        (Choice(c=b""), b"\x1a\x00"),
        (Choice(d=Inner()), b"\x22\x00"),
        (Choice(d=Inner(x=1)), b"\x22\x02\x08\x01"),
        (Choice(e=False), b"\x28\x00"),
        (Choice(f=0.0), b"\x31" + bytes(8)),
        (Choice(col=Color.ZERO), b"\x38\x00"),
        (Choice(o_int=0), b"\x40\x00"),
        (Choice(o_str=""), b"\x4a\x00"),
        (Choice(o_msg=Inner()), b"\x52\x00"),
        (Choice(o_bytes=b""), b"\x5a\x00"),
        (Choice(w_str=""), b"\x62\x00"),
        (Choice(w_str="a"), b"\x62\x03\x0a\x01a"),
        (Choice(w_bool=False), b"\x6a\x00"),
        (Choice(w_bool=True), b"\x6a\x02\x08\x01"),
        (Choice(h=""), b"\x72\x00"),
        (Choice(i=0), b"\x78\x00"),
        (Choice(i=-1), b"\x78\x01"),
        (Choice(a=0, h="", o_int=0, w_bool=False), b"\x08\x00\x40\x00\x6a\x00\x72\x00"),
    ]
    for m, want in cases:
        assert enc(m) == want, (m, enc(m), want)
        run_small_history(m, want)
    # switching the oneof
    m = Choice(a=5)
    m.b = ""
    assert enc(m) == b"\x12\x00"
    m.d = Inner()
    assert enc(m) == b"\x22\x00"
    m.o_int = 0
    m.o_int = None
    assert enc(m) == b"\x22\x00"

    # nested presence: unset / read-only / explicitly present / filled in place
    o = Outer()
    assert enc(o) == b""
    o.inner  # lazily materialised, still absent
    assert enc(o) == b""
    o.inner = Inner()
    assert enc(o) == b""  # an unset Inner assigned: reference behaviour, absent
    p = Outer().parse(b"\x42\x00")
    assert enc(p) == b"\x42\x00" and p.is_set("inner")
    q = Outer()
    q.inner.x = 3
    assert enc(q) == b"\x42\x02\x08\x03"
    for m, want in ((o, b""), (p, b"\x42\x00"), (q, b"\x42\x02\x08\x03")):
        run_small_history(m, want)

    # repeated / packed / maps incl. empty items and default keys and values
    pk = Packed(
        i32=[0, -1, 300],
        s64=[0, -1, 2**63 - 1],
        f64=[0, 2**64 - 1],
        dbl=[0.0, 1.5],
        bl=[False, True],
        by=[b"", b"\x00"],
        ms=[Inner(), Inner(x=1), Inner()],
        mm={0: 0, 1: 0, 0x7FFFFFFF: -1},
        ms2={"": "", "k": "", "v": "x"},
    )
    b = enc(pk)
    assert Packed().parse(b) == pk and enc(Packed().parse(b)) == b
    assert b.count(b"\x3a\x00") >= 2  # the empty repeated items are there
    assert b"\x52\x00" in b  # the all-default map entry is there
    assert b"\x4a\x04\x08\x00\x10\x00" in b
    run_small_history(pk, b)
    assert enc(Packed(i32=[], by=[], ms=[], mm={}, ms2={})) == b""
    # repeated Timestamp: the zero value is still an item (to_pydict cannot do these)
    tl = Packed(ts=[EPOCH, DTS[1]])
    assert enc(tl) == b"\x42\x00" + b"\x42\x0c\x08\xa5\xbb\xb5\xf0\x05\x10\x80\xeb\xa5\xc3\x02"
    assert enc(copy.deepcopy(tl)) == enc(tl) == enc(pickle.loads(pickle.dumps(tl)))

    # recursive type: lazily created children never recurse / never appear
    t = Tree()
    assert enc(t) == b""
    t.left.left.left.v = 0
    assert enc(t) == b""
    t.left.left.left.v = 7
    assert enc(t) == b"\x12\x06\x12\x04\x12\x02\x08\x07"
    t.kids.append(Tree())
    t.kids.append(Tree(v=1))
    assert enc(t) == b"\x12\x06\x12\x04\x12\x02\x08\x07" + b"\x22\x00" + b"\x22\x02\x08\x01"
    run_small_history(t, enc(t), mutate=False)

    # unknown fields come last, interleaved input is regrouped the same way each time
    u = Outer().parse(b"\xa0\x06\x01" + b"\x08\x05" + b"\xa2\x06\x01z")
    assert enc(u) == b"\x08\x05" + b"\xa0\x06\x01" + b"\xa2\x06\x01z"
    run_small_history(u, enc(u))

    # an unencodable value fails in dump and in len alike, and leaves no trace
    bad = Outer(i32=1, s="ok")
    bad.ri.append("not an int")
    for f in (bytes, len, lambda m: m.dump(io.BytesIO())):
        try:
            f(bad)
        except Exception as e:  # noqa: BLE001
            kind = type(e)
        else:
            raise AssertionError("expected a failure")
        assert kind in (TypeError, ValueError, struct.error, AttributeError), kind
    bad.ri.pop()
    assert enc(bad) == b"\x08\x01\x1a\x02ok"
    # a failing dump has already written the fields in front of the bad one
    bad.ri.append("x")
    s = io.BytesIO()
    try:
        bad.dump(s)
    except Exception:  # noqa: BLE001
        pass
    assert s.getvalue() == b"\x08\x01\x1a\x02ok"


def run_small_history(m, want, mutate=True):
    rng = random.Random(len(want))
    base = (bytes(m), len(m), serialized_on_wire(m), m._unknown_fields)
    assert base[0] == want
    ref = copy.deepcopy(m)
    obs = [
        bytes, len, bool, repr, lambda x: x == ref, lambda x: x.to_dict(),
        lambda x: x.to_pydict(), lambda x: x.to_json(include_default_values=True),
        copy.copy, copy.deepcopy, lambda x: pickle.loads(pickle.dumps(x)),
        lambda x: [safe_read(x, f) for f in type(x)._betterproto.meta_by_field_name],
    ]
    for _ in range(8):
        rng.choice(obs)(m)
        assert (bytes(m), len(m), serialized_on_wire(m), m._unknown_fields) == base
        assert m == ref
    for c in (copy.copy(m), copy.deepcopy(m), pickle.loads(pickle.dumps(m))):
        assert c == m and bytes(c) == want and len(c) == len(want)
        assert wire_presence(c) == wire_presence(m)


def main():
    check_fixed_vectors()
    rng = random.Random(14_2026)
    n = 0
    for round_ in range(500):
        spec = rand_spec(rng)
        want = bp_expected_bytes(spec)
        tail = rng.choice(UNKNOWN_TAILS)
        for label, m, want_bytes in (
            ("ctor", bp_from_spec(spec), want),
            ("parsed", Outer().parse(want + tail), want + tail),
            ("from_dict", Outer().from_dict(bp_from_spec(spec).to_dict()), want),
        ):
            assert enc(m) == want_bytes, (label, spec)
            # lazily reading everything first must not matter
            m2 = copy.deepcopy(m)
            for f in FIELD_NAMES:
                safe_read(m2, f)
            safe_read(m2, "inner") and (m2.inner.x, m2.inner.s)
            assert enc(m2) == want_bytes, (label, spec)
            run_history(m, rng, want_bytes, n_ops=5)
            g = GOuter.FromString(want_bytes)
            assert g == GOuter.FromString(enc(m)), label
            if not spec.get("msi") and not spec.get("mim"):
                assert g.SerializeToString(deterministic=True) == want_bytes, label
            # nested inside a parent: length prefixes rely on len/bytes agreeing
            holder = Tree2(items=[m, copy.deepcopy(m)], one=m)
            hb = enc(holder)
            back = Tree2().parse(hb)
            assert back == holder and enc(back) == hb
            assert [bytes(i) for i in back.items] == [want_bytes, want_bytes]
            n += 1
    print("ok", n, "messages")


@dataclass(eq=False, repr=False)
class Tree2(betterproto.Message):
    items: List[Outer] = betterproto.message_field(1)
    one: Outer = betterproto.message_field(2)
    by_name: Dict[str, Outer] = betterproto.map_field(
        3, betterproto.TYPE_STRING, betterproto.TYPE_MESSAGE
    )


main()
