"""C06 keep2: equivalence checks for Message.__eq__ and Message.__bool__ - the
comparison that Message.dump / __len__ use for the `value == default` skip of
sub-messages and that is_set / to_dict use for 'holds something' - and for everything
observable through them.

Part 1 exercises __eq__ / __bool__ directly: unset vs default vs non-default on either
side, lazily materialised children, in-place fills, NaN, other types.
Part 2 runs the presence matrix of the property (field kind x value state x way of
setting) against google.protobuf (bytes, HasField, WhichOneof).
Part 3 fills sub-messages in place at several depths and compares with google.protobuf.
"""
import itertools
import math
from dataclasses import dataclass
from datetime import datetime, timedelta, timezone
from typing import Dict, List, Optional

import betterproto
from google.protobuf import (
    descriptor_pb2,
    descriptor_pool,
    duration_pb2,
    json_format,
    message_factory,
    timestamp_pb2,
    wrappers_pb2,
)

B = betterproto
checks = 0


def ok(cond, *info):
    global checks
    checks += 1
    assert cond, info


INT32 = [0, 1, -1, 127, 128, 16383, 16384, 2**31 - 1, -(2**31), 300, -300]
UTC = timezone.utc
dts = [
    datetime(1970, 1, 1, tzinfo=UTC),
    datetime(1970, 1, 1, 0, 0, 0, 1, tzinfo=UTC),
    datetime(1969, 12, 31, 23, 59, 59, 999999, tzinfo=UTC),
    datetime(2024, 2, 29, 12, 30, 15, 123456, tzinfo=UTC),
]
tds = [
    timedelta(0),
    timedelta(microseconds=1),
    timedelta(microseconds=-1),
    timedelta(seconds=-1, microseconds=-500000),
    timedelta(days=10000, seconds=86399, microseconds=999999),
]

# =============================================================================== part 2
PKG = "c06keep2"
F = descriptor_pb2.FieldDescriptorProto
fdp = descriptor_pb2.FileDescriptorProto(
    name="c06_keep2_equiv.proto",
    package=PKG,
    syntax="proto3",
    dependency=[
        "google/protobuf/wrappers.proto",
        "google/protobuf/timestamp.proto",
        "google/protobuf/duration.proto",
    ],
)
en = fdp.enum_type.add(name="Color")
for i, n in enumerate(["ZERO", "ONE", "TWO"]):
    en.value.add(name=n, number=i)

SCALARS = [
    # name, descriptor type, betterproto field function, default, non-default values
    ("int32", F.TYPE_INT32, B.int32_field, 0, [1, -1, 2**31 - 1, -(2**31)]),
    ("int64", F.TYPE_INT64, B.int64_field, 0, [5, -5, 2**63 - 1, -(2**63)]),
    ("uint32", F.TYPE_UINT32, B.uint32_field, 0, [7, 2**32 - 1]),
    ("uint64", F.TYPE_UINT64, B.uint64_field, 0, [9, 2**64 - 1]),
    ("sint32", F.TYPE_SINT32, B.sint32_field, 0, [-3, 2**31 - 1, -(2**31)]),
    ("sint64", F.TYPE_SINT64, B.sint64_field, 0, [-4, 2**63 - 1, -(2**63)]),
    ("fixed32", F.TYPE_FIXED32, B.fixed32_field, 0, [11, 2**32 - 1]),
    ("fixed64", F.TYPE_FIXED64, B.fixed64_field, 0, [12, 2**64 - 1]),
    ("sfixed32", F.TYPE_SFIXED32, B.sfixed32_field, 0, [-13, 2**31 - 1]),
    ("sfixed64", F.TYPE_SFIXED64, B.sfixed64_field, 0, [-14, -(2**63)]),
    ("float", F.TYPE_FLOAT, B.float_field, 0.0, [1.5, -2.25]),
    ("double", F.TYPE_DOUBLE, B.double_field, 0.0, [0.1, -1e300]),
    ("bool", F.TYPE_BOOL, B.bool_field, False, [True]),
    ("string", F.TYPE_STRING, B.string_field, "", ["a", "héllo"]),
    ("bytes", F.TYPE_BYTES, B.bytes_field, b"", [b"\x00", b"abc"]),
    ("enum", F.TYPE_ENUM, B.enum_field, 0, [1, 2]),
]
PY_TYPE = {
    "float": float,
    "double": float,
    "bool": bool,
    "string": str,
    "bytes": bytes,
}
WRAPPERS = [
    ("w_bool", "BoolValue", B.TYPE_BOOL, False, [True]),
    ("w_bytes", "BytesValue", B.TYPE_BYTES, b"", [b"xyz"]),
    ("w_double", "DoubleValue", B.TYPE_DOUBLE, 0.0, [2.5]),
    ("w_float", "FloatValue", B.TYPE_FLOAT, 0.0, [-0.5]),
    ("w_int32", "Int32Value", B.TYPE_INT32, 0, [-7, 2**31 - 1]),
    ("w_int64", "Int64Value", B.TYPE_INT64, 0, [2**40]),
    ("w_string", "StringValue", B.TYPE_STRING, "", ["s"]),
    ("w_uint32", "UInt32Value", B.TYPE_UINT32, 0, [2**32 - 1]),
    ("w_uint64", "UInt64Value", B.TYPE_UINT64, 0, [2**64 - 1]),
]

sub = fdp.message_type.add(name="Sub")
sub.field.add(name="a", number=1, type=F.TYPE_INT32, label=F.LABEL_OPTIONAL)
sub.field.add(name="s", number=2, type=F.TYPE_STRING, label=F.LABEL_OPTIONAL)
sub.field.add(name="r", number=3, type=F.TYPE_INT32, label=F.LABEL_REPEATED)

allk = fdp.message_type.add(name="All")
allk.oneof_decl.add(name="choice")
synthetic = []


def add_field(name, number, ftype, *, type_name=None, oneof=None, optional=False, rep=False):
    f = allk.field.add(
        name=name,
        number=number,
        type=ftype,
        label=F.LABEL_REPEATED if rep else F.LABEL_OPTIONAL,
    )
    if type_name:
        f.type_name = type_name
    if oneof is not None:
        f.oneof_index = oneof
    if optional:
        f.proto3_optional = True
        synthetic.append(f)
    return f


for i, (name, ftype, _fn, _d, _v) in enumerate(SCALARS):
    tn = f".{PKG}.Color" if name == "enum" else None
    add_field(f"i_{name}", 1 + i, ftype, type_name=tn)
    add_field(f"o_{name}", 21 + i, ftype, type_name=tn, optional=True)
    add_field(f"c_{name}", 41 + i, ftype, type_name=tn, oneof=0)
add_field("c_sub", 57, F.TYPE_MESSAGE, type_name=f".{PKG}.Sub", oneof=0)
for i, (name, ref_name, _w, _d, _v) in enumerate(WRAPPERS):
    add_field(name, 61 + i, F.TYPE_MESSAGE, type_name=f".google.protobuf.{ref_name}")
add_field("sub", 71, F.TYPE_MESSAGE, type_name=f".{PKG}.Sub")
add_field("ts", 72, F.TYPE_MESSAGE, type_name=".google.protobuf.Timestamp")
add_field("dur", 73, F.TYPE_MESSAGE, type_name=".google.protobuf.Duration")
add_field("o_sub", 74, F.TYPE_MESSAGE, type_name=f".{PKG}.Sub", optional=True)
add_field("r_int", 81, F.TYPE_INT32, rep=True)
add_field("r_str", 82, F.TYPE_STRING, rep=True)
add_field("r_sub", 83, F.TYPE_MESSAGE, type_name=f".{PKG}.Sub", rep=True)
for k, f in enumerate(synthetic):
    allk.oneof_decl.add(name=f"_{f.name}")
    f.oneof_index = 1 + k

pool = descriptor_pool.Default()
pool.Add(fdp)
RefAll = message_factory.GetMessageClass(pool.FindMessageTypeByName(f"{PKG}.All"))
RefSub = message_factory.GetMessageClass(pool.FindMessageTypeByName(f"{PKG}.Sub"))


class Color(betterproto.Enum):
    ZERO = 0
    ONE = 1
    TWO = 2


@dataclass(eq=False, repr=False)
class Sub(betterproto.Message):
    a: int = betterproto.int32_field(1)
    s: str = betterproto.string_field(2)
    r: List[int] = betterproto.int32_field(3)


def build_all():
    ns = {"__annotations__": {}}
    # declared in field-number order (betterproto emits in declaration order)
    for prefix in ("i_", "o_", "c_"):
        for i, (name, _ft, fn, _d, _v) in enumerate(SCALARS):
            t = Color if name == "enum" else PY_TYPE.get(name, int)
            if prefix == "i_":
                ns[f"i_{name}"] = fn(1 + i)
                ns["__annotations__"][f"i_{name}"] = t
            elif prefix == "o_":
                ns[f"o_{name}"] = fn(21 + i, optional=True)
                ns["__annotations__"][f"o_{name}"] = Optional[t]
            else:
                ns[f"c_{name}"] = fn(41 + i, group="choice")
                ns["__annotations__"][f"c_{name}"] = t
    ns["c_sub"] = B.message_field(57, group="choice")
    ns["__annotations__"]["c_sub"] = Sub
    for i, (name, _r, wraps, d, _v) in enumerate(WRAPPERS):
        ns[name] = B.message_field(61 + i, wraps=wraps)
        ns["__annotations__"][name] = Optional[type(d)]
    ns["sub"] = B.message_field(71)
    ns["__annotations__"]["sub"] = Sub
    ns["ts"] = B.message_field(72)
    ns["__annotations__"]["ts"] = datetime
    ns["dur"] = B.message_field(73)
    ns["__annotations__"]["dur"] = timedelta
    ns["o_sub"] = B.message_field(74, optional=True)
    ns["__annotations__"]["o_sub"] = Optional[Sub]
    ns["r_int"] = B.int32_field(81)
    ns["__annotations__"]["r_int"] = List[int]
    ns["r_str"] = B.string_field(82)
    ns["__annotations__"]["r_str"] = List[str]
    ns["r_sub"] = B.message_field(83)
    ns["__annotations__"]["r_sub"] = List[Sub]
    cls = type("All", (betterproto.Message,), ns)
    return dataclass(eq=False, repr=False)(cls)


All = build_all()
CHOICE = [f"c_{s[0]}" for s in SCALARS] + ["c_sub"]
PRESENCE = (
    [f"o_{s[0]}" for s in SCALARS]
    + CHOICE
    + [w[0] for w in WRAPPERS]
    + ["sub", "o_sub", "ts", "dur"]
)


def to_ref_value(name, v):
    return v


def ref_set(ref, name, v):
    """Set field `name` of the reference message to python value v."""
    if name.startswith("w_"):
        getattr(ref, name).value = v
        getattr(ref, name).SetInParent()
    elif name in ("sub", "o_sub", "c_sub"):
        getattr(ref, name).SetInParent()
        for k, x in v.items():
            if k == "r":
                getattr(ref, name).r.extend(x)
            else:
                setattr(getattr(ref, name), k, x)
    elif name == "ts":
        ref.ts.FromDatetime(v)
        ref.ts.SetInParent()
    elif name == "dur":
        ref.dur.FromTimedelta(v)
        ref.dur.SetInParent()
    elif name.startswith("r_"):
        if name == "r_sub":
            for item in v:
                e = ref.r_sub.add()
                for k, x in item.items():
                    setattr(e, k, x)
        else:
            getattr(ref, name).extend(v)
    else:
        setattr(ref, name, v)


def bp_value(name, v):
    if name in ("sub", "o_sub", "c_sub"):
        return Sub(**v)
    if name == "r_sub":
        return [Sub(**item) for item in v]
    if name.endswith("_enum"):
        return Color(v)
    return v


def check_against_ref(msg, ref, label):
    data = bytes(msg)
    ref_bytes = ref.SerializeToString()
    ok(data == ref_bytes, label, data, ref_bytes)
    ok(len(msg) == len(ref_bytes), label)
    ok(msg.SerializeToString() == ref_bytes, label)
    back = All().parse(ref_bytes)
    for name in PRESENCE:
        ok(back.is_set(name) == ref.HasField(name), label, name, "decoded")
    which = ref.WhichOneof("choice")
    got = betterproto.which_one_of(back, "choice")
    ok(got[0] == (which or ""), label, got, which)
    ok(bytes(back) == ref_bytes, label)
    return back


# ---- fresh message
fresh = All()
ok(bytes(fresh) == b"" and len(fresh) == 0)
ok(not betterproto.serialized_on_wire(fresh))
ok(betterproto.which_one_of(fresh, "choice") == ("", None))
for name in PRESENCE:
    ok(not fresh.is_set(name), name)
for name, _ft, _fn, d, _v in SCALARS:
    ok(getattr(fresh, f"i_{name}") == d)
    ok(getattr(fresh, f"o_{name}") is None)
for name, *_ in WRAPPERS:
    ok(getattr(fresh, name) is None)
ok(fresh.sub == Sub() and not betterproto.serialized_on_wire(fresh.sub))
ok(bytes(fresh) == b"")

# ---- single-field matrix
cases = []  # (field name, python value)
for name, _ft, _fn, d, values in SCALARS:
    for prefix in ("i_", "o_", "c_"):
        for v in [d] + values:
            cases.append((prefix + name, v))
for name, _r, _w, d, values in WRAPPERS:
    for v in [d] + values:
        cases.append((name, v))
for name in ("sub", "o_sub", "c_sub"):
    cases.append((name, {"a": 3}))
    cases.append((name, {"a": 0, "s": ""}))
    cases.append((name, {"s": "x", "r": [0, 1]}))
for dt in dts:
    cases.append(("ts", dt))
for td in tds:
    cases.append(("dur", td))
cases.append(("r_int", [0]))
cases.append(("r_int", [0, -1, 2**31 - 1]))
cases.append(("r_str", ["", "a"]))
cases.append(("r_sub", [{"a": 0}, {"a": 1, "s": "q"}]))


def make(name, v, how):
    """betterproto message with field `name` set to v in the given way, plus its
    reference twin."""
    ref = RefAll()
    ref_set(ref, name, v)
    if how == "ctor":
        msg = All(**{name: bp_value(name, v)})
    elif how == "attr":
        msg = All()
        setattr(msg, name, bp_value(name, v))
    elif how == "parse":
        msg = All().parse(ref.SerializeToString())
    elif how == "from_dict":
        d = json_format.MessageToDict(ref)
        msg = All().from_dict(d)
    elif how == "cls_from_dict":
        d = json_format.MessageToDict(ref)
        msg = All.from_dict(d)
    return msg, ref


HOWS = ["ctor", "attr", "parse", "from_dict", "cls_from_dict"]
for (name, v), how in itertools.product(cases, HOWS):
    if name == "sub" and how in ("ctor", "attr") and not any(v.values()):
        # plain message field assigned an all-default value object: betterproto
        # has no presence bit for that (outside the property's statement)
        continue
    if (name == "ts" and v == dts[0]) or (name == "dur" and v == tds[0]):
        # datetime / timedelta values carry no presence bit at all
        continue
    msg, ref = make(name, v, how)
    label = (name, v, how)
    check_against_ref(msg, ref, label)
    if name in PRESENCE and name not in ("ts", "dur"):
        ok(msg.is_set(name), label)
    if name in CHOICE:
        ok(betterproto.which_one_of(msg, "choice")[0] == name, label)
    if name == "sub":
        ok(betterproto.serialized_on_wire(msg.sub), label)

# ---- combinations: one implicit + one optional + one oneof member + wrapper + sub
combo_values = {
    "i_": [("int32", 0), ("int32", 5), ("string", ""), ("string", "z"), ("double", 0.0)],
    "o_": [("int32", 0), ("bool", False), ("bytes", b""), ("enum", 0), ("sint64", -1)],
    "c_": [("uint32", 0), ("string", ""), ("float", 0.0), ("bool", True), ("enum", 0)],
}
for (i_n, i_v), (o_n, o_v), (c_n, c_v), (w_n, _r, _w, w_d, w_vs) in itertools.product(
    combo_values["i_"], combo_values["o_"], combo_values["c_"], WRAPPERS[:5]
):
    for w_v in (w_d, w_vs[0]):
        kwargs = {
            "i_" + i_n: i_v,
            "o_" + o_n: Color(o_v) if o_n == "enum" else o_v,
            "c_" + c_n: Color(c_v) if c_n == "enum" else c_v,
            w_n: w_v,
        }
        ref = RefAll()
        for k, v in kwargs.items():
            ref_set(ref, k, int(v) if isinstance(v, Color) else v)
        ref.sub.a = 0
        ref.sub.SetInParent()
        m1 = All(**kwargs)
        m1.sub.a = 0  # assigning inside the sub-message marks it
        back = check_against_ref(m1, ref, kwargs)
        ok(betterproto.serialized_on_wire(back.sub))
        m2 = All()
        for k in reversed(list(kwargs)):
            setattr(m2, k, kwargs[k])
        m2.sub = Sub(a=0)
        check_against_ref(m2, ref, kwargs)

# ---- oneof switching: the last assignment wins, siblings are reset
for first, second in itertools.permutations(CHOICE[:6] + ["c_string", "c_sub"], 2):
    msg = All()
    ref = RefAll()
    for name in (first, second):
        v = {"a": 0} if name == "c_sub" else ("" if name == "c_string" else 0)
        setattr(msg, name, bp_value(name, v))
        ref_set(ref, name, v)
    ok(betterproto.which_one_of(msg, "choice")[0] == second)
    ok(msg.is_set(second) and not msg.is_set(first))
    check_against_ref(msg, ref, (first, second))



# =============================================================================== part 1
import random

PLACEHOLDER = betterproto.PLACEHOLDER
NAN = float("nan")


def raw(msg, name):
    return object.__getattribute__(msg, name)


def default_of(msg, name):
    return msg._betterproto.default_gen[name]()


def both_nan(x, y):
    return (
        isinstance(x, float) and isinstance(y, float) and math.isnan(x) and math.isnan(y)
    )


def eq_model(a, b):
    """The documented comparison: unset fields compare as their default, two NaNs
    compare equal, messages of different classes never do."""
    if type(a) is not type(b):
        return False
    for name in a._betterproto.meta_by_field_name:
        x, y = raw(a, name), raw(b, name)
        if x is PLACEHOLDER and y is PLACEHOLDER:
            continue
        if x is PLACEHOLDER:
            x = default_of(a, name)
        if y is PLACEHOLDER:
            y = default_of(b, name)
        if isinstance(x, betterproto.Message) and isinstance(y, betterproto.Message):
            same = eq_model(x, y)
        elif isinstance(x, list) and isinstance(y, list):
            same = len(x) == len(y) and all(
                (
                    eq_model(p, q)
                    if isinstance(p, betterproto.Message)
                    and isinstance(q, betterproto.Message)
                    else (p is q or p == q)
                )
                for p, q in zip(x, y)
            )
        else:
            same = x == y
        if not same and not both_nan(x, y):
            return False
    return True


def bool_model(a):
    for name in a._betterproto.meta_by_field_name:
        x = raw(a, name)
        if x is PLACEHOLDER:
            continue
        d = default_of(a, name)
        if isinstance(x, betterproto.Message) and isinstance(d, betterproto.Message):
            if not eq_model(x, d):
                return True
        elif not (x is d or x == d):
            return True
    return False


# ---- hand-written cases
for name, _ft, _fn, d, values in SCALARS:
    dv = Color(d) if name == "enum" else d
    f, o = "i_" + name, "o_" + name
    a, b, c = All(), All(**{f: dv}), All()
    setattr(c, f, dv)
    for x, y in itertools.product((a, b, c), repeat=2):
        ok(x == y and not (x != y), f)
    ok(not a and not b and not c, f)
    ok(bytes(b) == b"" and bytes(c) == b"")
    for v in values:
        vv = Color(v) if name == "enum" else v
        e, g = All(**{f: vv}), All()
        setattr(g, f, vv)
        ok(e == g and g == e and e == All(**{f: vv}))
        for x in (a, b, c):
            ok(e != x and x != e and not (e == x) and not (x == e), f, v)
        ok(bool(e) and bool(g))
    # an optional field set to its default differs from one never set
    p = All(**{o: dv})
    ok(p != a and a != p and bool(p), o)
    ok(p == All(**{o: dv}))
    q = All(**{o: dv})
    setattr(q, o, None)
    ok(q == a and a == q and not q, o)

# NaN: a message equals itself and a twin, but not one holding a number
for f in ("i_float", "i_double", "o_float", "c_double", "w_double", "w_float"):
    m1, m2 = All(**{f: NAN}), All(**{f: float("nan")})
    ok(m1 == m1 and m1 == m2 and m2 == m1 and not (m1 != m2), f)
    ok(m1 != All(**{f: 1.0}) and All(**{f: 1.0}) != m1, f)
    ok(m1 != All() and All() != m1, f)
    ok(bool(m1), f)
# NaN inside a list is not covered by the NaN rule (distinct objects)
ok(All(r_int=[1]) != All(r_int=[2]) and All(r_int=[1]) == All(r_int=[1]))

# other types
ok(All() != Sub() and not (All() == Sub()))
ok(All() != 0 and All() != None and All() != b"" and not (All() == {}))  # noqa: E711
ok(All().__eq__(Sub()) is NotImplemented and All().__eq__(1) is NotImplemented)


@dataclass(eq=False, repr=False)
class SubTwin(betterproto.Message):
    a: int = betterproto.int32_field(1)
    s: str = betterproto.string_field(2)
    r: List[int] = betterproto.int32_field(3)


ok(Sub(a=1) != SubTwin(a=1) and Sub() != SubTwin())

# lazily materialised children compare as defaults
m = All()
_ = m.sub, m.r_int, m.r_sub, m.sub.r
ok(m == All() and All() == m and not m and bytes(m) == b"")
ok(not m.is_set("sub") and not m.is_set("r_int"))
m.sub.r.append(0)
ok(m != All() and All() != m and bool(m) and bool(m.sub))
ok(m.is_set("sub") and bytes(m) != b"")
m.sub.r.clear()
ok(m == All() and not m and bytes(m) == b"")
# received empty sub-message: equal in value, still present
m = All().parse(b"\xba\x04\x00")
ok(m == All() and not bool(m) and not bool(m.sub))
ok(m.is_set("sub") and bytes(m) == b"\xba\x04\x00" and len(m) == 3)

# ---- random pools judged by the model
rng = random.Random(606)
FIELD_VALUES = {}
for name, _ft, _fn, d, values in SCALARS:
    vs = [d] + values
    if name == "enum":
        vs = [Color(v) for v in vs]
    if name in ("float", "double"):
        vs = vs + [NAN, float("inf"), -0.0]
    for prefix in ("i_", "o_", "c_"):
        FIELD_VALUES[prefix + name] = vs + ([None] if prefix == "o_" else [])
for name, _r, _w, d, values in WRAPPERS:
    FIELD_VALUES[name] = [d, None] + values
SUBS = [{}, {"a": 0}, {"a": 3}, {"s": "x"}, {"r": []}, {"r": [0]}, {"a": 0, "s": "", "r": []}]
for name in ("sub", "o_sub", "c_sub"):
    FIELD_VALUES[name] = SUBS
FIELD_VALUES["ts"] = dts
FIELD_VALUES["dur"] = tds
FIELD_VALUES["r_int"] = [[], [0], [1, 2]]
FIELD_VALUES["r_str"] = [[], [""], ["a"]]
FIELD_VALUES["r_sub"] = [[], [{}], [{"a": 1}, {}]]
NAMES = list(FIELD_VALUES)


def realise(name, v):
    if name in ("sub", "o_sub", "c_sub") and v is not None:
        return Sub(**v)
    if name == "r_sub":
        return [Sub(**x) for x in v]
    if isinstance(v, list):
        return list(v)
    return v


def random_message():
    k = rng.choice([0, 1, 1, 2, 3, 5])
    chosen = rng.sample(NAMES, k)
    kwargs, later = {}, {}
    seen_choice = False
    for name in chosen:
        v = realise(name, rng.choice(FIELD_VALUES[name]))
        if name.startswith("c_"):
            if seen_choice:
                later[name] = v  # a second member can only be assigned afterwards
                continue
            seen_choice = True
        (kwargs if rng.random() < 0.5 else later)[name] = v
    msg = All(**kwargs)
    for name, v in later.items():
        setattr(msg, name, v)
    for name in rng.sample(["sub", "r_int", "r_sub", "r_str", "i_int32", "w_int32"], 2):
        getattr(msg, name)  # reads materialise mutable defaults only
    if rng.random() < 0.3:
        msg.sub.r.append(rng.choice([0, 1]))
    if rng.random() < 0.2:
        msg.sub.a = rng.choice([0, 4])
    if rng.random() < 0.2:
        msg = All().parse(bytes(msg))
    return msg


pool_msgs = [random_message() for _ in range(110)]
for a in pool_msgs:
    ok(bool(a) == bool_model(a), a)
    ok(a == a)
    ok(len(a) == len(bytes(a)))
for a, b in itertools.product(pool_msgs, repeat=2):
    expect = eq_model(a, b)
    ok((a == b) == expect, a, b)
    ok((a != b) == (not expect), a, b)

sub_pool = [Sub(**v) for v in SUBS] + [Sub(), Sub().parse(b""), Sub().parse(b"\x08\x00")]
lazy = Sub()
_ = lazy.r
sub_pool.append(lazy)
for a, b in itertools.product(sub_pool, repeat=2):
    ok((a == b) == eq_model(a, b), a, b)
    ok(bool(a) == bool_model(a), a)


# =============================================================================== part 3
fdp3 = descriptor_pb2.FileDescriptorProto(
    name="c06_keep2_equiv_deep.proto", package="c06keep2deep", syntax="proto3"
)


def _msg(name, *fields):
    m = fdp3.message_type.add(name=name)
    for fname, number, ftype, label, type_name in fields:
        f = m.field.add(name=fname, number=number, type=ftype, label=label)
        if type_name:
            f.type_name = type_name


OPT, REP = F.LABEL_OPTIONAL, F.LABEL_REPEATED
_msg(
    "Leaf",
    ("x", 1, F.TYPE_INT32, OPT, ""),
    ("items", 2, F.TYPE_INT32, REP, ""),
    ("d", 3, F.TYPE_DOUBLE, OPT, ""),
)
_msg(
    "Mid",
    ("leaf", 1, F.TYPE_MESSAGE, OPT, ".c06keep2deep.Leaf"),
    ("y", 2, F.TYPE_INT32, OPT, ""),
    ("items", 3, F.TYPE_INT32, REP, ""),
    ("names", 4, F.TYPE_STRING, REP, ""),
    ("leaves", 5, F.TYPE_MESSAGE, REP, ".c06keep2deep.Leaf"),
)
_msg(
    "Top",
    ("mid", 1, F.TYPE_MESSAGE, OPT, ".c06keep2deep.Mid"),
    ("z", 2, F.TYPE_INT32, OPT, ""),
    ("other", 3, F.TYPE_MESSAGE, OPT, ".c06keep2deep.Mid"),
)
pool.Add(fdp3)
RefTop = message_factory.GetMessageClass(pool.FindMessageTypeByName("c06keep2deep.Top"))


@dataclass(eq=False, repr=False)
class Leaf(betterproto.Message):
    x: int = betterproto.int32_field(1)
    items: List[int] = betterproto.int32_field(2)
    d: float = betterproto.double_field(3)


@dataclass(eq=False, repr=False)
class Mid(betterproto.Message):
    leaf: "Leaf" = betterproto.message_field(1)
    y: int = betterproto.int32_field(2)
    items: List[int] = betterproto.int32_field(3)
    names: List[str] = betterproto.string_field(4)
    leaves: List["Leaf"] = betterproto.message_field(5)


@dataclass(eq=False, repr=False)
class Top(betterproto.Message):
    mid: "Mid" = betterproto.message_field(1)
    z: int = betterproto.int32_field(2)
    other: "Mid" = betterproto.message_field(3)


STEPS = {
    "direct": lambda m: setattr(m.mid, "y", 5),
    "direct_default": lambda m: setattr(m.mid, "y", 0),
    "leaf_scalar": lambda m: setattr(m.mid.leaf, "x", 1),
    "leaf_nan": lambda m: setattr(m.mid.leaf, "d", 1.5),
    "append": lambda m: m.mid.items.append(3),
    "append_default": lambda m: m.mid.items.append(0),
    "extend_str": lambda m: m.mid.names.extend(["a", ""]),
    "leaf_append": lambda m: m.mid.leaf.items.append(0),
    "other_leaf": lambda m: setattr(m.other.leaf, "x", 2),
    "z": lambda m: setattr(m, "z", 7),
    "read_only": lambda m: (m.mid.leaf.x, m.mid.items, m.other.names),
}
for r in (1, 2, 3):
    for combo in itertools.permutations(STEPS, r):
        if r == 3 and "leaf_scalar" not in combo and "append" not in combo:
            continue
        ref, msg = RefTop(), Top()
        for step in combo:
            STEPS[step](ref)
            STEPS[step](msg)
        ref_bytes = ref.SerializeToString()
        data = bytes(msg)
        ok(data == ref_bytes, combo, data, ref_bytes)
        ok(len(msg) == len(ref_bytes), combo)
        for name in ("mid", "other"):
            ok(msg.is_set(name) == ref.HasField(name), combo, name)
        ok(msg.mid.is_set("leaf") == ref.mid.HasField("leaf"), combo)
        ok(bool(msg) == bool_model(msg), combo)
        ok((msg == Top()) == eq_model(msg, Top()), combo)
        back = Top().parse(data)
        ref_back = RefTop.FromString(data)
        for name in ("mid", "other"):
            ok(back.is_set(name) == ref_back.HasField(name), combo, name)
            ok(
                betterproto.serialized_on_wire(getattr(back, name))
                == ref_back.HasField(name),
                combo,
                name,
            )
        ok(back.mid.is_set("leaf") == ref_back.mid.HasField("leaf"), combo)
        ok(bytes(back) == ref_bytes, combo)
        ok((back == msg) == eq_model(back, msg), combo)
        # to_dict keeps what was filled in place
        ok(("mid" in msg.to_dict()) == ref.HasField("mid"), combo)
        ok(Top().from_dict(msg.to_dict()).is_set("mid") == ref.HasField("mid"), combo)

ok(bytes(Top()) == b"" and not Top() and Top() == Top())
print("ok", checks, "checks")
