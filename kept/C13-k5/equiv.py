"""C13 equivalence check for the generate_code() "gather output packages" refactor.

Run as:  PYTHONPATH=<worktree>/src /venv/bin/python equiv.py   (exits 0 on both trees)

Protos for every package path of depth 0..3 over {a, b} are compiled with protoc
(grpc_tools) and fed to betterproto.plugin.parser.generate_code:
  * for 15 plugin parameter strings (typing.direct/root/310/unknown, pydantic_dataclasses,
    INCLUDE_GOOGLE and combinations) the OutputTemplate objects built by the gathering
    loop are inspected (package key and order, input files, typing compiler class and
    per-package instance, pydantic flag, output flag), the response file set and the
    typing / dataclass style of the generated text are checked against an oracle, and the
    generated packages are imported and every cross-package reference is compared by
    identity with the class generated for its target;
  * conflicting typing options raise ValueError (but only once a proto file is seen);
  * every pair of packages in isolation (circular) and all 15 at once are generated,
    imported and checked (type hints, round trip, rpc handler table and stub).
"""

import asyncio
import contextlib
import importlib
import io
import itertools
import os
import sys
import tempfile
import types
import typing

import grpc_tools
from grpc_tools import protoc

import betterproto
import betterproto.lib.google.protobuf as bp_google
from betterproto.lib.google.protobuf.compiler import CodeGeneratorRequest
from betterproto.plugin import compiler as plugin_compiler
from betterproto.plugin import parser as plugin_parser
from betterproto.plugin.models import monkey_patch_oneof_index

# ruff is not installed: the two formatting passes become the identity
plugin_compiler.subprocess.check_output = lambda cmd, input, encoding: input
monkey_patch_oneof_index()

ALPHABET = ("a", "b")
PACKAGES = [()] + [
    p for depth in (1, 2, 3) for p in itertools.product(ALPHABET, repeat=depth)
]
KINDS = (  # suffix, proto type below the package, generated class name
    ("msg", "Target", "Target"),
    ("inner", "Target.Inner", "TargetInner"),
    ("enum", "Kind", "Kind"),
    ("nenum", "Target.Mode", "TargetMode"),
)


def tag(pkg):
    return "".join(c.upper() + "x" for c in pkg) or "Root"


def fq(pkg, name):
    return "." + ".".join(pkg + (name,))


def types_file(pkg):
    return f"types_{tag(pkg)}.proto"


def refs_file(p, q):
    return f"refs_{tag(p)}_to_{tag(q)}.proto"


def types_proto(pkg):
    package = f"package {'.'.join(pkg)};" if pkg else ""
    return f"""syntax = "proto3";
{package}
import "google/protobuf/struct.proto";
import "google/protobuf/empty.proto";
import "google/protobuf/any.proto";
import "google/protobuf/wrappers.proto";
import "google/protobuf/timestamp.proto";
message Target {{
  int32 x = 1;
  message Inner {{ int32 y = 1; }}
  enum Mode {{ MODE_ZERO = 0; MODE_ONE = 1; }}
  string origin = 2;
}}
enum Kind {{ KIND_ZERO = 0; KIND_ONE = 1; }}
message WellKnown {{
  google.protobuf.Struct st = 1;
  google.protobuf.Empty em = 2;
  repeated google.protobuf.Any anys = 3;
  map<string, google.protobuf.Int32Value> boxed = 4;
  google.protobuf.Int32Value unboxed = 5;
  google.protobuf.Timestamp ts = 6;
  oneof pick {{ google.protobuf.Value val = 7; google.protobuf.ListValue lst = 8; }}
}}
service WellKnownSvc {{
  rpc Ping (google.protobuf.Empty) returns (google.protobuf.StringValue);
}}
"""


def refs_proto(p, q):
    package = f"package {'.'.join(p)};" if p else ""
    t = {suffix: fq(q, proto) for suffix, proto, _ in KINDS}
    lines = [
        'syntax = "proto3";',
        package,
        f'import "{types_file(q)}";',
        f"message Ref{tag(q)} {{",
    ]
    n = 1
    for suffix, _, _ in KINDS:
        lines.append(f"  {t[suffix]} f_{suffix} = {n};")
        n += 1
    for suffix, _, _ in KINDS:
        lines.append(f"  repeated {t[suffix]} r_{suffix} = {n};")
        n += 1
    for suffix, _, _ in KINDS:
        lines.append(f"  map<string, {t[suffix]}> m_{suffix} = {n};")
        n += 1
    lines.append("  oneof choice {")
    for suffix, _, _ in KINDS:
        lines.append(f"    {t[suffix]} o_{suffix} = {n};")
        n += 1
    lines += [
        "  }",
        "}",
        f"service Svc{tag(q)} {{",
        f"  rpc Call ({t['msg']}) returns ({t['inner']});",
        f"  rpc Chat (stream {t['inner']}) returns (stream {t['msg']});",
        "}",
    ]
    return "\n".join(lines) + "\n"


def build_descriptors(workdir):
    """-> {file name: serialized FileDescriptorProto}, in dependency order"""
    from google.protobuf import descriptor_pb2

    names = []
    for pkg in PACKAGES:
        names.append(types_file(pkg))
        with open(os.path.join(workdir, names[-1]), "w") as fh:
            fh.write(types_proto(pkg))
    for p in PACKAGES:
        for q in PACKAGES:
            names.append(refs_file(p, q))
            with open(os.path.join(workdir, names[-1]), "w") as fh:
                fh.write(refs_proto(p, q))
    out = os.path.join(workdir, "all.desc")
    rc = protoc.main(
        [
            "protoc",
            f"-I{workdir}",
            f"-I{os.path.join(os.path.dirname(grpc_tools.__file__), '_proto')}",
            f"--descriptor_set_out={out}",
            "--include_imports",
            "--include_source_info",
            *names,
        ]
    )
    assert rc == 0, "protoc failed"
    fds = descriptor_pb2.FileDescriptorSet()
    with open(out, "rb") as fh:
        fds.ParseFromString(fh.read())
    return {f.name: f.SerializeToString() for f in fds.file}


def make_request(descriptors, wanted, parameter=""):
    """A CodeGeneratorRequest as protoc would send it (wire bytes, re-parsed)."""
    from google.protobuf import descriptor_pb2
    from google.protobuf.compiler import plugin_pb2

    req = plugin_pb2.CodeGeneratorRequest()
    req.parameter = parameter
    needed = []

    def add(name):
        if name in needed:
            return
        fd = descriptor_pb2.FileDescriptorProto.FromString(descriptors[name])
        for dep in fd.dependency:
            add(dep)
        needed.append(name)

    for name in wanted:
        add(name)
    for name in needed:
        req.proto_file.add().ParseFromString(descriptors[name])
    req.file_to_generate.extend(wanted)
    return CodeGeneratorRequest().parse(req.SerializeToString())


_counter = itertools.count()


def generate(descriptors, wanted, root_dir, parameter=""):
    """Run the plugin, write its files below a fresh top-level package, return its name."""
    with contextlib.redirect_stderr(io.StringIO()):  # "Writing ..." progress lines
        response = plugin_parser.generate_code(
            make_request(descriptors, wanted, parameter)
        )
    top = f"c13gen{next(_counter)}"
    seen = set()
    for f in response.file:
        assert f.name not in seen, f"file emitted twice: {f.name}"
        seen.add(f.name)
        path = os.path.join(root_dir, top, f.name)
        os.makedirs(os.path.dirname(path), exist_ok=True)
        with open(path, "w") as fh:
            fh.write(f.content)
    importlib.invalidate_caches()
    return top


def module_of(top, pkg):
    return importlib.import_module(".".join((top,) + pkg))


def strip_optional(hint):
    if typing.get_origin(hint) in (typing.Union, types.UnionType):
        args = [a for a in typing.get_args(hint) if a is not type(None)]
        assert len(args) == 1
        return args[0]
    return hint


class FakeStream:
    pass


def check_reference(top, p, q):
    """Everything in package P that refers to package Q denotes Q's classes."""
    where = f"{'.'.join(p) or '<root>'} -> {'.'.join(q) or '<root>'}"
    mp, mq = module_of(top, p), module_of(top, q)
    want = {suffix: getattr(mq, cls_name) for suffix, _, cls_name in KINDS}
    for suffix, _, cls_name in KINDS:
        assert want[suffix].__module__ == mq.__name__, (where, cls_name)
    ref_cls = getattr(mp, f"Ref{tag(q)}")
    assert ref_cls.__module__ == mp.__name__

    # 1. the annotations, as typing sees them
    hints = typing.get_type_hints(ref_cls)
    for suffix, _, _ in KINDS:
        assert strip_optional(hints[f"f_{suffix}"]) is want[suffix], (where, "field", suffix)
        assert strip_optional(hints[f"o_{suffix}"]) is want[suffix], (where, "oneof", suffix)
        rep = hints[f"r_{suffix}"]
        assert typing.get_origin(rep) is list, (where, rep)
        assert typing.get_args(rep)[0] is want[suffix], (where, "repeated", suffix)
        mapping = hints[f"m_{suffix}"]
        assert typing.get_origin(mapping) is dict, (where, mapping)
        assert typing.get_args(mapping) == (str, want[suffix]), (where, "map", suffix)
        assert typing.get_args(mapping)[1] is want[suffix], (where, "map", suffix)

    # 2. the runtime: build, serialise, parse back through the referencing fields
    origin = mq.__name__
    target, inner = want["msg"], want["inner"]
    kind, mode = want["enum"], want["nenum"]
    msg = ref_cls(
        f_msg=target(x=1, origin=origin),
        f_inner=inner(y=2),
        f_enum=kind(1),
        f_nenum=mode(1),
        r_msg=[target(x=3), target(x=4, origin=origin)],
        r_inner=[inner(y=5)],
        r_enum=[kind(1), kind(0)],
        r_nenum=[mode(1)],
        m_msg={"k": target(x=6, origin=origin)},
        m_inner={"k": inner(y=7)},
        m_enum={"k": kind(1)},
        m_nenum={"k": mode(1)},
        o_inner=inner(y=8),
    )
    back = ref_cls().parse(bytes(msg))
    assert back == msg, where
    assert type(back.f_msg) is target and back.f_msg.origin == origin, where
    assert type(back.f_inner) is inner and back.f_inner.y == 2, where
    assert type(back.f_enum) is kind and type(back.f_nenum) is mode, where
    assert [type(v) for v in back.r_msg] == [target, target], where
    assert [type(v) for v in back.r_inner] == [inner], where
    assert [type(v) for v in back.r_enum] == [kind, kind], where
    assert [type(v) for v in back.r_nenum] == [mode], where
    assert type(back.m_msg["k"]) is target and back.m_msg["k"].x == 6, where
    assert type(back.m_inner["k"]) is inner, where
    assert type(back.m_enum["k"]) is kind and type(back.m_nenum["k"]) is mode, where
    assert betterproto.which_one_of(back, "choice")[0] == "o_inner", where
    assert type(back.o_inner) is inner and back.o_inner.y == 8, where
    for suffix in ("msg", "nenum"):
        other = ref_cls().parse(bytes(ref_cls(**{f"o_{suffix}": want[suffix](1) if suffix == "nenum" else target(x=9)})))
        assert type(getattr(other, f"o_{suffix}")) is want[suffix], (where, "oneof", suffix)
    # a lazily created default of the message field is the right class, too
    fresh = ref_cls()
    assert type(fresh.f_msg) is target and type(fresh.f_inner) is inner, where
    from_dict = ref_cls().from_dict(msg.to_dict())
    assert from_dict == msg and type(from_dict.m_msg["k"]) is target, where

    # 3. rpc input / output: server side handler table and client stub
    base = getattr(mp, f"Svc{tag(q)}Base")()
    handlers = base.__mapping__()
    prefix = f"/{'.'.join(p) + '.' if p else ''}Svc{tag(q)}/"
    call, chat = handlers[prefix + "Call"], handlers[prefix + "Chat"]
    assert call.request_type is target and call.reply_type is inner, where
    assert chat.request_type is inner and chat.reply_type is target, where

    stub_cls = getattr(mp, f"Svc{tag(q)}Stub")
    ns = vars(mp)
    call_ann = dict(stub_cls.call.__annotations__)
    assert eval(call_ann.pop("return"), ns) is inner, (where, "rpc output")
    first_param = next(iter(call_ann))
    assert eval(call_ann[first_param], ns) is target, (where, "rpc input")

    stub = stub_cls(channel=None)
    seen = {}

    async def unary_unary(route, request, response_type, **kw):
        seen["call"] = (route, type(request), response_type)
        return response_type(y=11)

    async def stream_stream(route, it, request_type, response_type, **kw):
        seen["chat"] = (route, request_type, response_type)
        yield response_type(x=12)

    stub._unary_unary = unary_unary
    stub._stream_stream = stream_stream

    async def drive():
        reply = await stub.call(target(x=10))
        replies = [r async for r in stub.chat([inner(y=1)])]
        return reply, replies

    reply, replies = asyncio.run(drive())
    assert seen["call"] == (prefix + "Call", target, inner), (where, seen)
    assert seen["chat"] == (prefix + "Chat", inner, target), (where, seen)
    assert type(reply) is inner and [type(r) for r in replies] == [target], where


def check_well_known(top, pkg, bp_google=bp_google):
    where = ".".join(pkg) or "<root>"
    mod = module_of(top, pkg)
    hints = typing.get_type_hints(mod.WellKnown)
    assert strip_optional(hints["st"]) is bp_google.Struct, where
    assert strip_optional(hints["em"]) is bp_google.Empty, where
    assert typing.get_args(hints["anys"])[0] is bp_google.Any, where
    assert typing.get_args(hints["boxed"]) == (str, bp_google.Int32Value), where
    assert hints["unboxed"] == typing.Optional[int], where
    assert strip_optional(hints["val"]) is bp_google.Value, where
    assert strip_optional(hints["lst"]) is bp_google.ListValue, where
    msg = mod.WellKnown(
        st=bp_google.Struct(fields={"k": bp_google.Value(number_value=1.5)}),
        anys=[bp_google.Any(type_url="t", value=b"v")],
        boxed={"k": bp_google.Int32Value(value=3)},
        unboxed=0,
        lst=bp_google.ListValue(values=[bp_google.Value(bool_value=True)]),
    )
    back = mod.WellKnown().parse(bytes(msg))
    assert back == msg, where
    assert type(back.st) is bp_google.Struct and type(back.anys[0]) is bp_google.Any
    assert type(back.boxed["k"]) is bp_google.Int32Value and back.unboxed == 0
    assert type(back.lst) is bp_google.ListValue
    handlers = mod.WellKnownSvcBase().__mapping__()
    (handler,) = handlers.values()
    assert handler.request_type is bp_google.Empty, where
    assert handler.reply_type is bp_google.StringValue, where


def import_all(top, root_dir):
    """importlib.import_module of every generated package (every directory)."""
    count = 0
    base = os.path.join(root_dir, top)
    for dirpath, _, filenames in os.walk(base):
        if "__init__.py" in filenames:
            rel = os.path.relpath(dirpath, base)
            parts = () if rel == "." else tuple(rel.split(os.sep))
            module_of(top, parts)
            count += 1
    return count


from betterproto.plugin.typing_compiler import (
    DirectImportTypingCompiler,
    NoTyping310TypingCompiler,
    TypingImportTypingCompiler,
)

SMALL = [(), ("a",), ("a", "b"), ("a", "a"), ("b",), ("a", "b", "a")]
GOOGLE_FILES = [
    "google/protobuf/struct.proto",
    "google/protobuf/empty.proto",
    "google/protobuf/any.proto",
    "google/protobuf/wrappers.proto",
    "google/protobuf/timestamp.proto",
]

# plugin parameter -> (typing compiler class, pydantic, INCLUDE_GOOGLE)
OPTION_CASES = {
    "": (DirectImportTypingCompiler, False, False),
    "typing.direct": (DirectImportTypingCompiler, False, False),
    "typing.root": (TypingImportTypingCompiler, False, False),
    "typing.310": (NoTyping310TypingCompiler, False, False),
    # an unknown style leaves the OutputTemplate default in place
    "typing.bogus": (DirectImportTypingCompiler, False, False),
    "typing.": (DirectImportTypingCompiler, False, False),
    "typing": (DirectImportTypingCompiler, False, False),
    "unrelated_option": (DirectImportTypingCompiler, False, False),
    "pydantic_dataclasses": (DirectImportTypingCompiler, True, False),
    "typing.310,pydantic_dataclasses": (NoTyping310TypingCompiler, True, False),
    "pydantic_dataclasses,typing.root": (TypingImportTypingCompiler, True, False),
    "INCLUDE_GOOGLE": (DirectImportTypingCompiler, False, True),
    "INCLUDE_GOOGLE,typing.root": (TypingImportTypingCompiler, False, True),
    "typing.310,INCLUDE_GOOGLE,x": (NoTyping310TypingCompiler, False, True),
    # options are matched exactly, not by substring / case-insensitively
    "include_google,pydantic_dataclasses_,Typing.root": (
        DirectImportTypingCompiler,
        False,
        False,
    ),
}
CONFLICTING = [
    "typing.root,typing.310",
    "typing.direct,typing.direct",
    "typing.310,pydantic_dataclasses,typing.bogus",
    "typing.,typing.root",
]

captured = []
_RealPluginRequestCompiler = plugin_parser.PluginRequestCompiler


def _capturing_request_compiler(**kwargs):
    obj = _RealPluginRequestCompiler(**kwargs)
    captured.append(obj)
    return obj


plugin_parser.PluginRequestCompiler = _capturing_request_compiler


def run_plugin(descriptors, wanted, parameter):
    request = make_request(descriptors, wanted, parameter)
    file_order = [f.name for f in request.proto_file]
    packages = {f.name: f.package for f in request.proto_file}
    del captured[:]
    with contextlib.redirect_stderr(io.StringIO()):
        response = plugin_parser.generate_code(request)
    (request_data,) = captured
    return response, request_data, file_order, packages


def expected_files(packages, include_google):
    """names of the response files for the given package tuples"""
    out = set()
    for pkg in packages:
        for depth in range(len(pkg) + 1):
            out.add("/".join(pkg[:depth] + ("__init__.py",)))
    out.add("__init__.py")
    if include_google:
        out |= {"google/__init__.py", "google/protobuf/__init__.py"}
    return out


def check_option_case(descriptors, gen_dir, parameter, expected):
    compiler_cls, pydantic, include_google = expected
    wanted = [types_file(p) for p in SMALL]
    wanted += [refs_file(p, q) for p in SMALL for q in SMALL]
    response, request_data, file_order, packages = run_plugin(
        descriptors, wanted, parameter
    )

    # one OutputTemplate per package, keyed by package, in first-seen order, and it
    # collects the files of its package in request order
    outputs = request_data.output_packages
    first_seen = list(dict.fromkeys(packages[name] for name in file_order))
    assert list(outputs) == first_seen, (parameter, list(outputs))
    assert set(outputs) == {".".join(p) for p in SMALL} | {"google.protobuf"}
    for package, output in outputs.items():
        assert output.package == package, parameter
        assert output.parent_request is request_data
        names = [f.name for f in output.input_files]
        assert names == [n for n in file_order if packages[n] == package], parameter
        # package_proto_obj is the first file seen for the package
        assert output.package_proto_obj is output.input_files[0]
        assert type(output.typing_compiler) is compiler_cls, (parameter, package)
        assert output.pydantic_dataclasses is pydantic, (parameter, package)
        want_output = include_google or package != "google.protobuf"
        assert output.output is want_output, (parameter, package)
    # every package has a typing compiler of its own (they record needed imports)
    compilers = [id(o.typing_compiler) for o in outputs.values()]
    assert len(set(compilers)) == len(compilers), parameter

    # response: exactly the expected files, the non-empty ones are the packages
    names = [f.name for f in response.file]
    assert len(names) == len(set(names)), parameter
    assert set(names) == expected_files(SMALL, include_google), (parameter, names)
    by_name = {f.name: f.content for f in response.file}
    for pkg in SMALL:
        content = by_name["/".join(pkg + ("__init__.py",))]
        assert "class Target(betterproto.Message)" in content
        has_pydantic = "from pydantic.dataclasses import dataclass" in content
        assert has_pydantic is pydantic, (parameter, pkg)
        assert ("from dataclasses import dataclass" in content) is not pydantic
        if compiler_cls is DirectImportTypingCompiler:
            assert "from typing import (" in content and "    List," in content
            assert ": List[" in content and "typing.List[" not in content
        elif compiler_cls is TypingImportTypingCompiler:
            assert "\nimport typing\n" in content and ": typing.List[" in content
            assert ": List[" not in content
        else:
            assert ': "list[' in content and "List[" not in content
        lib = "betterproto.lib.pydantic.google" if pydantic else "betterproto.lib.google"
        assert f"import {lib}.protobuf as " in content, (parameter, pkg)
    if include_google:
        assert "class Struct(betterproto.Message)" in by_name["google/protobuf/__init__.py"]
        assert by_name["google/__init__.py"] == ""

    # and the generated packages work: import them, references resolve
    top = f"c13gen{next(_counter)}"
    for f in response.file:
        path = os.path.join(gen_dir, top, f.name)
        os.makedirs(os.path.dirname(path), exist_ok=True)
        with open(path, "w") as fh:
            fh.write(f.content)
    importlib.invalidate_caches()
    assert import_all(top, gen_dir) == len(SMALL) + (2 if include_google else 0)
    if pydantic:
        import betterproto.lib.pydantic.google.protobuf as google_mod
    else:
        google_mod = bp_google
    for p in SMALL:
        check_well_known(top, p, google_mod)
        for q in SMALL:
            check_reference(top, p, q)


def check_conflicts(descriptors):
    wanted = [types_file(("a",)), refs_file(("a",), ())]
    for parameter in CONFLICTING:
        try:
            run_plugin(descriptors, wanted, parameter)
        except ValueError as exc:
            assert str(exc) == "Multiple typing options provided", parameter
        else:
            raise AssertionError(f"no ValueError for {parameter!r}")
        # the options are only looked at per proto file: an empty request is fine
        request = CodeGeneratorRequest(parameter=parameter)
        del captured[:]
        with contextlib.redirect_stderr(io.StringIO()):
            response = plugin_parser.generate_code(request)
        assert response.file == [] and captured[0].output_packages == {}
    # a package that only consists of well-known files produces nothing unless asked
    for parameter, n_files in (("", 0), ("typing.root", 0), ("INCLUDE_GOOGLE", 3)):
        response, request_data, _, _ = run_plugin(descriptors, GOOGLE_FILES, parameter)
        assert list(request_data.output_packages) == ["google.protobuf"]
        assert request_data.output_packages["google.protobuf"].output is (n_files > 0)
        assert len(response.file) == n_files, (parameter, [f.name for f in response.file])


def main():
    with tempfile.TemporaryDirectory() as workdir:
        descriptors = build_descriptors(workdir)
        gen_dir = os.path.join(workdir, "gen")
        os.makedirs(gen_dir)
        sys.path.insert(0, gen_dir)
        os.chdir(gen_dir)

        check_conflicts(descriptors)
        for parameter, expected in OPTION_CASES.items():
            check_option_case(descriptors, gen_dir, parameter, expected)

        # every topology with the default options: pairwise (circular) ...
        pairs = 0
        for i, p in enumerate(PACKAGES):
            for q in PACKAGES[i:]:
                wanted = [types_file(p), refs_file(p, q)]
                if p != q:
                    wanted += [types_file(q), refs_file(q, p)]
                top = generate(descriptors, wanted, gen_dir)
                import_all(top, gen_dir)
                check_reference(top, p, q)
                check_reference(top, q, p)
                check_well_known(top, p)
                pairs += 1
        # ... and all at once, with another typing style
        wanted = [types_file(p) for p in PACKAGES]
        wanted += [refs_file(p, q) for p in PACKAGES for q in PACKAGES]
        top = generate(descriptors, wanted, gen_dir, "typing.root")
        assert import_all(top, gen_dir) == len(PACKAGES)
        for p in PACKAGES:
            check_well_known(top, p)
            for q in PACKAGES:
                check_reference(top, p, q)
        os.chdir("/")
    print(
        f"OK: {len(OPTION_CASES)} option combinations, {len(CONFLICTING)} conflicts, "
        f"{pairs} isolated package pairs, {len(PACKAGES) ** 2} ordered pairs at once"
    )


if __name__ == "__main__":
    main()
