"""Equivalence check for Message.load after its field loop was turned into a
``for`` over a (size-limiting) field generator - exits 0 on the pristine tree and
with the refactor applied.

Covers: parse() / FromString / load() without size, with an exact size, with
SIZE_DELIMITED, several messages in one stream, size 0, declared sizes that fall
inside a field (error text, what was already stored, stream position), sizes
beyond the end of the stream, truncated input, unknown fields being counted, and
the binary round trip of many random messages cross-checked with google.protobuf.
"""
import random
from dataclasses import dataclass
from datetime import datetime, timedelta, timezone
from io import BytesIO
from typing import Dict, List, Optional

import betterproto
from betterproto import which_one_of, serialized_on_wire


class Color(betterproto.Enum):
    ZERO = 0
    RED = 1
    NEG = -5


@dataclass(eq=False, repr=False)
class Leaf(betterproto.Message):
    n: int = betterproto.sint64_field(1)
    s: str = betterproto.string_field(2)


@dataclass(eq=False, repr=False)
class Empty(betterproto.Message):
    pass


@dataclass(eq=False, repr=False)
class Node(betterproto.Message):
    i32: int = betterproto.int32_field(1)
    text: str = betterproto.string_field(2, group="choice")
    num: int = betterproto.int32_field(3, group="choice")
    leaf: Leaf = betterproto.message_field(4, group="choice")
    color: Color = betterproto.enum_field(5, group="choice")
    packed: List[int] = betterproto.int64_field(6)
    counts: Dict[str, int] = betterproto.map_field(
        7, betterproto.TYPE_STRING, betterproto.TYPE_INT32
    )
    opt: Optional[int] = betterproto.int32_field(8, optional=True)
    child: "Node" = betterproto.message_field(9)
    plain_leaf: Leaf = betterproto.message_field(10)
    a: bool = betterproto.bool_field(11, group="second")
    b: bytes = betterproto.bytes_field(12, group="second")
    wrapped: Optional[int] = betterproto.message_field(
        13, wraps=betterproto.TYPE_INT64
    )
    ts: datetime = betterproto.message_field(14)
    dur: timedelta = betterproto.message_field(15)
    leaves: Dict[int, Leaf] = betterproto.map_field(
        16, betterproto.TYPE_SINT32, betterproto.TYPE_MESSAGE
    )
    e: Empty = betterproto.message_field(17)
    colors: List[Color] = betterproto.enum_field(18)
    d: float = betterproto.double_field(19)


CHOICE = ["text", "num", "leaf", "color"]
SECOND = ["a", "b"]


# --------------------------------------------- google.protobuf as the reference
from google.protobuf import descriptor_pb2, descriptor_pool, message_factory

F = descriptor_pb2.FieldDescriptorProto
fdp = descriptor_pb2.FileDescriptorProto(
    name="keep2_equiv.proto", package="keep2", syntax="proto3"
)
fdp.dependency.extend(
    [
        "google/protobuf/wrappers.proto",
        "google/protobuf/timestamp.proto",
        "google/protobuf/duration.proto",
    ]
)
from google.protobuf import duration_pb2, timestamp_pb2, wrappers_pb2  # noqa: E402,F401

en = fdp.enum_type.add(name="Color")
for ename, number in [("ZERO", 0), ("RED", 1), ("NEG", -5)]:
    en.value.add(name=ename, number=number)
leaf_d = fdp.message_type.add(name="Leaf")
leaf_d.field.add(name="n", number=1, type=F.TYPE_SINT64, label=F.LABEL_OPTIONAL)
leaf_d.field.add(name="s", number=2, type=F.TYPE_STRING, label=F.LABEL_OPTIONAL)
fdp.message_type.add(name="Empty")
node_d = fdp.message_type.add(name="Node")
node_d.oneof_decl.add(name="choice")
node_d.oneof_decl.add(name="second")
node_d.oneof_decl.add(name="_opt")


def add(name, number, ftype, label=F.LABEL_OPTIONAL, **kw):
    return node_d.field.add(name=name, number=number, type=ftype, label=label, **kw)


add("i32", 1, F.TYPE_INT32)
add("text", 2, F.TYPE_STRING, oneof_index=0)
add("num", 3, F.TYPE_INT32, oneof_index=0)
add("leaf", 4, F.TYPE_MESSAGE, type_name=".keep2.Leaf", oneof_index=0)
add("color", 5, F.TYPE_ENUM, type_name=".keep2.Color", oneof_index=0)
add("packed", 6, F.TYPE_INT64, F.LABEL_REPEATED)
ce = node_d.nested_type.add(name="CountsEntry")
ce.options.map_entry = True
ce.field.add(name="key", number=1, type=F.TYPE_STRING, label=F.LABEL_OPTIONAL)
ce.field.add(name="value", number=2, type=F.TYPE_INT32, label=F.LABEL_OPTIONAL)
add("counts", 7, F.TYPE_MESSAGE, F.LABEL_REPEATED, type_name=".keep2.Node.CountsEntry")
add("opt", 8, F.TYPE_INT32, oneof_index=2, proto3_optional=True)
add("child", 9, F.TYPE_MESSAGE, type_name=".keep2.Node")
add("plain_leaf", 10, F.TYPE_MESSAGE, type_name=".keep2.Leaf")
add("a", 11, F.TYPE_BOOL, oneof_index=1)
add("b", 12, F.TYPE_BYTES, oneof_index=1)
add("wrapped", 13, F.TYPE_MESSAGE, type_name=".google.protobuf.Int64Value")
add("ts", 14, F.TYPE_MESSAGE, type_name=".google.protobuf.Timestamp")
add("dur", 15, F.TYPE_MESSAGE, type_name=".google.protobuf.Duration")
le = node_d.nested_type.add(name="LeavesEntry")
le.options.map_entry = True
le.field.add(name="key", number=1, type=F.TYPE_SINT32, label=F.LABEL_OPTIONAL)
le.field.add(
    name="value", number=2, type=F.TYPE_MESSAGE, label=F.LABEL_OPTIONAL,
    type_name=".keep2.Leaf",
)
add("leaves", 16, F.TYPE_MESSAGE, F.LABEL_REPEATED, type_name=".keep2.Node.LeavesEntry")
add("e", 17, F.TYPE_MESSAGE, type_name=".keep2.Empty")
add("colors", 18, F.TYPE_ENUM, F.LABEL_REPEATED, type_name=".keep2.Color")
add("d", 19, F.TYPE_DOUBLE)

pool = descriptor_pool.Default()
pool.Add(fdp)
PbNode = message_factory.GetMessageClass(pool.FindMessageTypeByName("keep2.Node"))

INTS32 = [0, 1, -1, 127, 128, -128, 2**31 - 1, -(2**31), 300, -300]
INTS64 = [0, 1, -1, 2**63 - 1, -(2**63), 2**32, -(2**32), 2**56, 129]
STRS = ["", "a", "\U0001F600", "é中", "x" * 200, "\x00"]
ENUMS = [0, 1, -5, 77, -(2**31), 2**31 - 1]
rng = random.Random(20240611)


def rand_leaf():
    return Leaf(n=rng.choice(INTS64), s=rng.choice(STRS))


def rand_node(depth=0):
    m = Node()
    if rng.random() < 0.6:
        m.i32 = rng.choice(INTS32)
    pick = rng.choice(CHOICE + [None])
    if pick == "text":
        m.text = rng.choice(STRS)
    elif pick == "num":
        m.num = rng.choice(INTS32)
    elif pick == "leaf":
        m.leaf = rand_leaf() if rng.random() < 0.7 else Leaf()
    elif pick == "color":
        m.color = Color.try_value(rng.choice(ENUMS))
    pick = rng.choice(SECOND + [None])
    if pick == "a":
        m.a = rng.random() < 0.5
    elif pick == "b":
        m.b = rng.choice([b"", b"\x00", b"\xff" * 130])
    if rng.random() < 0.5:
        m.packed = [rng.choice(INTS64) for _ in range(rng.randrange(0, 5))]
    if rng.random() < 0.5:
        for _ in range(rng.randrange(0, 4)):
            m.counts[rng.choice(STRS)] = rng.choice(INTS32)
    if rng.random() < 0.4:
        m.opt = rng.choice(INTS32)
    if rng.random() < 0.4:
        m.wrapped = rng.choice(INTS64)
    if rng.random() < 0.4:
        m.ts = datetime(1970, 1, 1, tzinfo=timezone.utc) + timedelta(
            seconds=rng.choice([0, 1, -1, 1697017272, -(10**10), 8 * 10**9]),
            microseconds=rng.choice([0, 1, 999999, 500000]),
        )
    if rng.random() < 0.4:
        m.dur = timedelta(
            seconds=rng.choice([0, 1, -1, 10**9, -(10**9)]),
            microseconds=rng.choice([0, 1, -1, 999999, -500000]),
        )
    if rng.random() < 0.4:
        for _ in range(rng.randrange(0, 3)):
            m.leaves[rng.choice([0, 1, -1, 2**31 - 1, -(2**31)])] = rand_leaf()
    if rng.random() < 0.3:
        m.e = Empty()
    if rng.random() < 0.4:
        m.colors = [Color.try_value(rng.choice(ENUMS)) for _ in range(rng.randrange(0, 4))]
    if rng.random() < 0.4:
        m.d = rng.choice([0.0, 1.5, -2.25, float("inf"), float("-inf"), float("nan"), 5e-324])
    if rng.random() < 0.3:
        m.plain_leaf = rand_leaf()
    if depth < 3 and rng.random() < 0.5:
        m.child = rand_node(depth + 1)
    return m




@dataclass(eq=False, repr=False)
class Sparse(betterproto.Message):
    """Knows only two of Node's fields: everything else is an unknown field."""

    i32: int = betterproto.int32_field(1)
    packed: List[int] = betterproto.int64_field(6)


OVERRUN = (
    "Expected message of size {size}, can only read either {before} or {after} "
    "bytes - there is no message of the expected size in the stream."
)
UNDERRUN = (
    "Expected message of size {size}, but was only able to read {read} bytes - "
    "the stream may have ended too soon, or the expected size may have been incorrect."
)
SD = betterproto.SIZE_DELIMITED


def boundaries(data):
    """Offsets at which a top-level field ends."""
    out, pos = [0], 0
    for parsed in betterproto.parse_fields(data):
        pos += len(parsed.raw)
        out.append(pos)
    assert pos == len(data)
    return out


def oneofs(m):
    return [which_one_of(m, "choice"), which_one_of(m, "second")]


def same(a, b):
    assert a == b, (a, b)
    assert bytes(a) == bytes(b)
    assert [n for n, _ in oneofs(a)] == [n for n, _ in oneofs(b)]
    assert a.opt == b.opt and a.wrapped == b.wrapped


# ------------------------------------------------------------ fixed small cases
empty = Node().parse(b"")
assert serialized_on_wire(empty) and empty == Node() and bytes(empty) == b""
assert serialized_on_wire(Node().load(BytesIO(b""))) and Node().load(BytesIO(b"")) == Node()
assert Node.FromString(b"") == Node()

stream = BytesIO(b"\x08\x05")
got = Node().load(stream, size=0)  # size 0: nothing may be consumed
assert stream.tell() == 0 and got == Node() and serialized_on_wire(got)
got = Node().load(stream, size=2)
assert stream.tell() == 2 and got.i32 == 5

stream = BytesIO(b"\x00\x08\x05")  # delimited: empty message, then the rest
got = Node().load(stream, size=SD)
assert stream.tell() == 1 and got == Node()
assert Node().load(stream).i32 == 5

for size, before, after in [(1, 0, 2), (3, 2, 4)]:
    stream = BytesIO(b"\x08\x05\x08\x06\x08\x07")
    target = Node()
    try:
        target.load(stream, size=size)
    except ValueError as exc:
        assert type(exc) is ValueError
        assert str(exc) == OVERRUN.format(size=size, before=before, after=after)
    else:
        raise AssertionError
    assert stream.tell() == after
    assert target.i32 == (5 if before else 0)

for data, size in [(b"", 1), (b"\x08\x05", 3), (b"\x08\x05", 2**40)]:
    stream = BytesIO(data)
    target = Node()
    try:
        target.load(stream, size=size)
    except ValueError as exc:
        assert type(exc) is ValueError
        assert str(exc) == UNDERRUN.format(size=size, read=len(data))
    else:
        raise AssertionError
    assert target == Node().parse(data) and serialized_on_wire(target)

# delimited prefix promising more than there is / cutting a field
for data, text in [
    (b"\x03\x08\x05", UNDERRUN.format(size=3, read=2)),
    (b"\x01\x08\x05", OVERRUN.format(size=1, before=0, after=2)),
]:
    try:
        Node().load(BytesIO(data), size=SD)
    except ValueError as exc:
        assert str(exc) == text
    else:
        raise AssertionError

# truncated input is an EOFError whatever the size argument
for data in [b"\x08", b"\x12\x05ab", b"\x99\x01\x00\x00\x00", b"\x08\x80"]:
    for size in (None, len(data), len(data) + 5):
        try:
            Node().load(BytesIO(data), size=size)
        except EOFError:
            pass
        else:
            raise AssertionError((data, size))
# field number 0 / bad wire types stay ValueErrors from the field reader
for data in [b"\x00\x00", b"\x0b", b"\x0f\x00"]:
    for size in (None, len(data)):
        try:
            Node().load(BytesIO(data), size=size)
        except ValueError as exc:
            assert "Expected message of size" not in str(exc)
        else:
            raise AssertionError((data, size))

# --------------------------------------------------------------- random messages
messages = [rand_node() for _ in range(160)]
total_cuts = 0
for i, m in enumerate(messages):
    data = bytes(m)
    assert len(m) == len(data)

    # plain parse in its three spellings
    back = Node().parse(data)
    same(back, m)
    same(Node.FromString(data), m)
    stream = BytesIO(data)
    same(Node().load(stream), m)
    assert stream.tell() == len(data)

    # google.protobuf reads it and writes something that decodes to m again
    ref = PbNode()
    ref.ParseFromString(data)
    assert ref.WhichOneof("choice") == (which_one_of(m, "choice")[0] or None)
    assert ref.WhichOneof("second") == (which_one_of(m, "second")[0] or None)
    via_ref = Node().parse(ref.SerializeToString())  # field order may differ
    assert via_ref == m and [n for n, _ in oneofs(via_ref)] == [n for n, _ in oneofs(m)]

    # exact size with trailing garbage that must stay untouched
    stream = BytesIO(data + b"\xff\xff\xff")
    same(Node().load(stream, size=len(data)), m)
    assert stream.tell() == len(data)

    # too large a size: everything is stored, then the under-run is reported
    stream = BytesIO(data)
    target = Node()
    try:
        target.load(stream, size=len(data) + 1)
    except ValueError as exc:
        assert str(exc) == UNDERRUN.format(size=len(data) + 1, read=len(data))
    else:
        raise AssertionError
    same(target, m)

    # every possible declared size up to the end (sampled for long messages)
    ends = boundaries(data)
    sizes = range(len(data) + 1)
    if len(data) > 60:
        sizes = sorted(set(rng.sample(range(len(data) + 1), 60)) | set(ends[:5]))
    for size in sizes:
        total_cuts += 1
        stream = BytesIO(data)
        target = Node()
        if size in ends:
            target.load(stream, size=size)
            assert stream.tell() == size
            same(target, Node().parse(data[:size]))
        else:
            before = max(e for e in ends if e < size)
            after = min(e for e in ends if e > size)
            try:
                target.load(stream, size=size)
            except ValueError as exc:
                assert str(exc) == OVERRUN.format(size=size, before=before, after=after)
            else:
                raise AssertionError((i, size))
            assert stream.tell() == after  # the offending field was consumed
            same(target, Node().parse(data[:before]))  # but not stored

    # truncation anywhere: clean end at a boundary, EOFError elsewhere
    for cut in sizes:
        if cut == len(data):
            continue
        try:
            got = Node().parse(data[:cut])
        except EOFError:
            assert cut not in ends
        else:
            assert cut in ends
            same(got, Node().parse(data[:cut]))

    # unknown fields are kept in arrival order and count towards the size
    stream = BytesIO(data + b"\x08\x01")
    sparse = Sparse().load(stream, size=len(data))
    assert stream.tell() == len(data)
    expected_unknown = b"".join(
        p.raw for p in betterproto.parse_fields(data) if p.number not in (1, 6)
    )
    assert sparse._unknown_fields == expected_unknown
    assert sparse.i32 == m.i32 and sparse.packed == m.packed
    assert Node().parse(bytes(sparse)) == m  # nothing was lost

# ------------------------------------------- many delimited messages in a stream
stream = BytesIO()
for m in messages:
    m.dump(stream, delimit=SD)
blob = stream.getvalue()
stream = BytesIO(blob)
for m in messages:
    same(Node().load(stream, size=SD), m)
assert stream.tell() == len(blob) and stream.read() == b""
# and nothing more to load: an empty stream has no size prefix
try:
    Node().load(stream, size=SD)
except EOFError:
    pass
else:
    raise AssertionError

# the length prefix is the standard varint-delimited framing google.protobuf uses
from google.protobuf.internal.decoder import _DecodeVarint  # noqa: E402

pos = 0
for m in messages[:100]:
    length, pos = _DecodeVarint(blob, pos)
    ref = PbNode()
    ref.ParseFromString(blob[pos : pos + length])
    assert length == len(bytes(m))
    via_ref = Node().parse(ref.SerializeToString())  # field order may differ
    assert via_ref == m and [n for n, _ in oneofs(via_ref)] == [n for n, _ in oneofs(m)]
    pos += length

print(f"ok ({total_cuts} declared sizes checked)")
