"""Equivalence check for the __post_init__ / to_pydict(map) refactor (C14 keep2).

* __post_init__: every combination of constructor arguments over a message with
  two oneof groups, proto3-optional fields, wrappers, nested messages, lists and
  maps is constructed and its complete bookkeeping state (_serialized_on_wire,
  _unknown_fields, _group_current including key order, __dict__ key order) is
  checked against an independent model; copy / deepcopy (which rebuild through
  __init__/__post_init__) and pickle must reproduce it.
* to_pydict: maps with scalar, enum, bytes, datetime, timedelta and message values
  (nested maps included), with both casings and include_default_values, are
  converted; the result is checked against a model, must be a fresh dict, and the
  message must be left untouched (to_pydict is an observer).
A digest over everything observed is pinned to the value of the pristine tree.
"""
import copy
import hashlib
import itertools
import pickle
from dataclasses import dataclass
from datetime import datetime, timedelta, timezone
from typing import Dict, List, Optional

import betterproto
from betterproto import PLACEHOLDER, Casing

digest = hashlib.sha256()


def record(*things):
    digest.update(repr(things).encode())


class Color(betterproto.Enum):
    ZERO = 0
    RED = 1


@dataclass(eq=False, repr=False)
class Leaf(betterproto.Message):
    x: int = betterproto.int32_field(1)
    snake_name: str = betterproto.string_field(2)
    kids: Dict[int, "Leaf"] = betterproto.map_field(
        3, betterproto.TYPE_INT32, betterproto.TYPE_MESSAGE
    )


@dataclass(eq=False, repr=False)
class Groups(betterproto.Message):
    plain: int = betterproto.int32_field(1)
    # group "g" is declared before "first" although its member numbers are higher
    g_int: int = betterproto.int32_field(10, group="g")
    first_str: str = betterproto.string_field(2, group="first")
    g_msg: Leaf = betterproto.message_field(11, group="g")
    first_msg: Leaf = betterproto.message_field(3, group="first")
    opt_int: Optional[int] = betterproto.int32_field(4, optional=True, group="_opt_int")
    opt_msg: Optional[Leaf] = betterproto.message_field(
        5, optional=True, group="_opt_msg"
    )
    wrapped: Optional[int] = betterproto.message_field(6, wraps=betterproto.TYPE_INT32)
    child: Leaf = betterproto.message_field(7)
    nums: List[int] = betterproto.int32_field(8)
    tags: Dict[str, int] = betterproto.map_field(
        9, betterproto.TYPE_STRING, betterproto.TYPE_INT32
    )
    g_bool: bool = betterproto.bool_field(12, group="g")


@dataclass(eq=False, repr=False)
class NoGroups(betterproto.Message):
    a: int = betterproto.int32_field(1)
    b: Leaf = betterproto.message_field(2)


FIELD_ORDER = [
    "plain", "g_int", "first_str", "g_msg", "first_msg", "opt_int", "opt_msg",
    "wrapped", "child", "nums", "tags", "g_bool",
]
GROUP_OF = {
    "g_int": "g", "g_msg": "g", "g_bool": "g",
    "first_str": "first", "first_msg": "first",
    "opt_int": "_opt_int", "opt_msg": "_opt_msg",
}
OPTIONAL = {"opt_int", "opt_msg"}
GROUP_ORDER = ["g", "first", "_opt_int", "_opt_msg"]  # order of first appearance

CHOICES = {
    "plain": [0, 3],
    "g_int": [0, 5],
    "first_str": ["", "s"],
    "g_msg": [Leaf(), Leaf(x=1)],
    "first_msg": [Leaf()],
    "opt_int": [None, 0, 2],
    "opt_msg": [None, Leaf()],
    "wrapped": [None, 0],
    "child": [Leaf(), Leaf(snake_name="c")],
    "nums": [[], [1]],
    "tags": [{}, {"k": 1}],
    "g_bool": [False, True],
}


def raw_state(m):
    d = object.__getattribute__(m, "__dict__")
    return d


def model_post_init(kwargs):
    """What __post_init__ is documented to compute, written independently."""
    group_current = {g: None for g in GROUP_ORDER}
    any_set = False
    for name in FIELD_ORDER:  # declaration order: the last set member wins
        if name not in kwargs:
            continue
        if name in OPTIONAL and kwargs[name] is None:
            continue
        any_set = True
        if name in GROUP_OF:
            group_current[GROUP_OF[name]] = name
    return any_set, group_current


def bookkeeping(m):
    d = raw_state(m)
    return (
        d["_serialized_on_wire"],
        d["_unknown_fields"],
        type(d["_unknown_fields"]).__name__,
        list(d["_group_current"].items()),
        [k for k in d if k.startswith("_")],
        [(k, "PLACEHOLDER" if d[k] is PLACEHOLDER else repr(d[k])) for k in FIELD_ORDER
         if k in d],
    )


def check_post_init():
    n = 0
    names = list(CHOICES)
    # all subsets of up to 3 fields, plus some bigger ones, with all value choices
    subsets = [s for r in range(0, 4) for s in itertools.combinations(names, r)]
    subsets += [tuple(names), tuple(names[::2]), tuple(names[1::2]),
                ("g_int", "g_msg", "g_bool", "first_str", "first_msg")]
    for subset in subsets:
        pools = [CHOICES[name] for name in subset]
        if len(subset) > 5:
            combos = [tuple(p[0] for p in pools), tuple(p[-1] for p in pools)]
        else:
            combos = itertools.product(*pools)
        for values in combos:
            kwargs = {k: copy.deepcopy(v) for k, v in zip(subset, values)}
            m = Groups(**kwargs)
            d = raw_state(m)
            any_set, group_current = model_post_init(kwargs)
            assert d["_serialized_on_wire"] is any_set, (kwargs, d["_serialized_on_wire"])
            assert d["_unknown_fields"] == b"" and type(d["_unknown_fields"]) is bytes
            assert d["_group_current"] == group_current, (kwargs, d["_group_current"])
            assert list(d["_group_current"]) == GROUP_ORDER, list(d["_group_current"])
            assert [k for k in d if k.startswith("_")] == [
                "_serialized_on_wire", "_unknown_fields", "_group_current"
            ]
            for name in FIELD_ORDER:
                if name in kwargs:
                    assert d[name] == kwargs[name] or d[name] is kwargs[name]
                elif name in OPTIONAL:
                    assert d[name] is None  # proto3 optional fields default to None
                else:
                    assert d[name] is PLACEHOLDER
            for g in GROUP_ORDER[:2]:
                assert betterproto.which_one_of(m, g)[0] == (group_current[g] or "")
            book = bookkeeping(m)
            record(sorted(kwargs), book)

            # the copies rebuild through __init__/__post_init__
            members_per_group = {}
            for name in kwargs:
                if name in GROUP_OF and not (name in OPTIONAL and kwargs[name] is None):
                    members_per_group.setdefault(GROUP_OF[name], []).append(name)
            well_formed = all(len(v) <= 1 for v in members_per_group.values())
            if well_formed:
                before = bytes(m)
                # (bytes() materialised some defaults: take the state again)
                book = bookkeeping(m)
                for how, c in (("copy", copy.copy(m)), ("deepcopy", copy.deepcopy(m))):
                    assert bookkeeping(c) == book, (how, kwargs)
                    assert c == m and bytes(c) == before, (how, kwargs)
                    assert c._group_current is not m._group_current
                p = pickle.loads(pickle.dumps(m))
                assert p == m and bytes(p) == before, kwargs
                assert p._group_current == m._group_current, kwargs
                assert list(p._group_current) == GROUP_ORDER
                record(before, bookkeeping(p))
            n += 1

    # a class without groups gets an empty mapping
    for m in (NoGroups(), NoGroups(a=0), NoGroups(b=Leaf())):
        d = raw_state(m)
        assert d["_group_current"] == {} and type(d["_group_current"]) is dict
        record(bookkeeping_nogroups(m))
    assert raw_state(NoGroups())["_serialized_on_wire"] is False
    assert raw_state(NoGroups(a=0))["_serialized_on_wire"] is True
    assert raw_state(NoGroups(b=Leaf()))["_serialized_on_wire"] is True

    # each instance gets its own mapping
    a, b = Groups(), Groups()
    assert a._group_current is not b._group_current
    a.g_int = 1
    assert b._group_current["g"] is None and a._group_current["g"] == "g_int"

    # parse / from_dict start from a constructed message
    m = Groups().parse(bytes(Groups(g_bool=False, first_msg=Leaf(), opt_int=0)))
    assert m._group_current == {
        "g": "g_bool", "first": "first_msg", "_opt_int": "opt_int", "_opt_msg": None
    }
    assert list(m._group_current) == GROUP_ORDER
    return n


def bookkeeping_nogroups(m):
    d = raw_state(m)
    return (d["_serialized_on_wire"], d["_unknown_fields"], d["_group_current"],
            [k for k in d if k.startswith("_")])


# ---------------------------------------------------------------- to_pydict / maps


@dataclass(eq=False, repr=False)
class Maps(betterproto.Message):
    str_int: Dict[str, int] = betterproto.map_field(
        1, betterproto.TYPE_STRING, betterproto.TYPE_INT32
    )
    int_str: Dict[int, str] = betterproto.map_field(
        2, betterproto.TYPE_INT64, betterproto.TYPE_STRING
    )
    bool_bytes: Dict[bool, bytes] = betterproto.map_field(
        3, betterproto.TYPE_BOOL, betterproto.TYPE_BYTES
    )
    str_enum: Dict[str, Color] = betterproto.map_field(
        4, betterproto.TYPE_STRING, betterproto.TYPE_ENUM
    )
    str_msg: Dict[str, Leaf] = betterproto.map_field(
        5, betterproto.TYPE_STRING, betterproto.TYPE_MESSAGE
    )
    str_ts: Dict[str, datetime] = betterproto.map_field(
        6, betterproto.TYPE_STRING, betterproto.TYPE_MESSAGE
    )
    str_dur: Dict[str, timedelta] = betterproto.map_field(
        7, betterproto.TYPE_STRING, betterproto.TYPE_MESSAGE
    )
    str_float: Dict[str, float] = betterproto.map_field(
        8, betterproto.TYPE_STRING, betterproto.TYPE_DOUBLE
    )
    snake_case_map: Dict[str, Leaf] = betterproto.map_field(
        9, betterproto.TYPE_STRING, betterproto.TYPE_MESSAGE
    )
    holder: Leaf = betterproto.message_field(10)


T0 = datetime(2020, 2, 3, 4, 5, 6, tzinfo=timezone.utc)


def map_messages():
    yield Maps()
    yield Maps(str_int={"": 0})
    yield Maps(str_int={"b": 2, "a": 1, "": 0})  # insertion order is kept
    yield Maps(int_str={0: "", -1: "neg", 2**40: "big"})
    yield Maps(bool_bytes={False: b"", True: b"\x00"})
    yield Maps(str_enum={"z": Color.ZERO, "r": Color.RED})
    yield Maps(str_msg={"": Leaf()})
    yield Maps(str_msg={"k2": Leaf(x=2), "k1": Leaf(snake_name="n"), "e": Leaf()})
    yield Maps(
        str_msg={"deep": Leaf(kids={1: Leaf(kids={2: Leaf(x=3)}), 0: Leaf()})},
        snake_case_map={"s": Leaf(snake_name="v")},
    )
    yield Maps(str_ts={"t": T0}, str_dur={"d": timedelta(seconds=1.5), "z": timedelta(0)})
    yield Maps(str_float={"nan": float("nan"), "inf": float("inf"), "z": -0.0})
    yield Maps(holder=Leaf(kids={5: Leaf(x=5)}))
    full = Maps(
        str_int={"a": 1},
        int_str={1: "a"},
        bool_bytes={True: b"t"},
        str_enum={"r": Color.RED},
        str_msg={"m": Leaf(x=1, kids={1: Leaf()})},
        str_ts={"t": T0},
        str_dur={"d": timedelta(days=2)},
        str_float={"f": 0.5},
        snake_case_map={"k": Leaf()},
        holder=Leaf(x=1),
    )
    yield full
    yield Maps().parse(bytes(full))
    yield Maps().from_dict(full.to_dict())
    # (from_pydict cannot load maps of datetime / timedelta values)
    plain = copy.deepcopy(full)
    plain.str_ts, plain.str_dur = {}, {}
    yield Maps().from_pydict(plain.to_pydict())
    # unknown fields next to the maps
    yield Maps().parse(bytes(full) + b"\xa0\x06\x05")


def model_leaf(leaf, casing, defaults):
    out = {}
    if leaf.x != 0 or defaults:
        out["x"] = leaf.x
    if leaf.snake_name != "" or defaults:
        out[casing("snake_name")] = leaf.snake_name
    if leaf.kids or defaults:
        out["kids"] = {k: model_leaf(v, casing, defaults) for k, v in leaf.kids.items()}
    return out


def model_maps(m, casing, defaults):
    out = {}
    for name in [
        "str_int", "int_str", "bool_bytes", "str_enum", "str_msg", "str_ts",
        "str_dur", "str_float", "snake_case_map",
    ]:
        value = getattr(m, name)
        if value or defaults:
            out[casing(name)] = {
                k: model_leaf(v, casing, defaults) if isinstance(v, Leaf) else v
                for k, v in value.items()
            }
    holder = m.holder
    if holder._serialized_on_wire or bool(holder) or defaults:
        out["holder"] = model_leaf(holder, casing, defaults)
    return out


def deep_state(v):
    if isinstance(v, betterproto.Message):
        d = object.__getattribute__(v, "__dict__")
        return (
            type(v).__name__, d["_serialized_on_wire"], d["_unknown_fields"],
            list(d["_group_current"].items()),
            [(k, "PLACEHOLDER" if d[k] is PLACEHOLDER else deep_state(d[k]))
             for k in v._betterproto.meta_by_field_name],
        )
    if isinstance(v, dict):
        return ("dict", [(k, deep_state(i)) for k, i in v.items()])
    if isinstance(v, list):
        return ("list", [deep_state(i) for i in v])
    return repr(v)


def same(a, b):
    """== that treats nan as equal to itself and -0.0 as different from 0.0."""
    return repr(a) == repr(b)


def check_to_pydict():
    n = 0
    for m in map_messages():
        for casing in (Casing.CAMEL, Casing.SNAKE):
            for defaults in (False, True):
                # materialise the lazily created defaults first so that the state
                # comparison below is about to_pydict only
                bytes(m)
                m.to_pydict(casing, True)
                before_state = deep_state(m)
                before_bytes = bytes(m)
                maps_before = {
                    name: (id(getattr(m, name)), list(getattr(m, name).items()))
                    for name in m._betterproto.meta_by_field_name
                    if name != "holder"
                }
                out = m.to_pydict(casing, defaults)
                assert same(out, model_maps(m, casing, defaults)), (out, casing, defaults)
                # key order follows the map's insertion order
                for name in maps_before:
                    key = casing(name)
                    if key in out:
                        assert list(out[key]) == list(getattr(m, name)), name
                        # a fresh dict, never the message's own map
                        assert out[key] is not getattr(m, name)
                        assert type(out[key]) is dict
                        for k, v in getattr(m, name).items():
                            if isinstance(v, Leaf):
                                assert type(out[key][k]) is dict
                            else:
                                assert out[key][k] is v
                    else:
                        assert not getattr(m, name) and not defaults
                # observer purity: the message (and its maps) are untouched
                assert deep_state(m) == before_state
                assert bytes(m) == before_bytes
                for name, (ident, items) in maps_before.items():
                    assert id(getattr(m, name)) == ident
                    now = list(getattr(m, name).items())
                    assert len(now) == len(items)
                    assert all(a[0] == b[0] and a[1] is b[1] for a, b in zip(now, items))
                # mutating the output does not reach the message
                for v in out.values():
                    if isinstance(v, dict):
                        v["__new__"] = 1
                        for inner in v.values():
                            if isinstance(inner, dict):
                                inner["__new__"] = 1
                assert deep_state(m) == before_state and bytes(m) == before_bytes
                # second call gives the same answer
                assert same(m.to_pydict(casing, defaults), model_maps(m, casing, defaults))
                # and the result loads back to an equal message
                # (from_pydict cannot load maps of datetime / timedelta values)
                if "nan" not in m.str_float and not m.str_ts and not m.str_dur:
                    back = Maps().from_pydict(m.to_pydict(casing, defaults))
                    assert back == m
                record(repr(m.to_pydict(casing, defaults)), before_bytes, before_state)
                n += 1

    # to_pydict agrees with to_dict on the shape of message-valued maps
    m = Maps(str_msg={"a": Leaf(x=1), "b": Leaf()})
    assert m.to_pydict()["strMsg"] == m.to_dict()["strMsg"] == {"a": {"x": 1}, "b": {}}
    # map inside a Groups message, reached through copies
    g = Groups(tags={"k": 1}, child=Leaf(kids={1: Leaf(x=1)}))
    for c in (g, copy.copy(g), copy.deepcopy(g), pickle.loads(pickle.dumps(g))):
        assert c.to_pydict() == {"tags": {"k": 1}, "child": {"kids": {1: {"x": 1}}}}
        assert c.to_pydict()["tags"] is not c.tags
    return n


EXPECTED_DIGEST = "02ff92a8c2e821e8b0c083d553b5b03e542827263e9549a36aa0b5672be8df0a"

if __name__ == "__main__":
    n1 = check_post_init()
    n2 = check_to_pydict()
    got = digest.hexdigest()
    print(f"post_init cases: {n1}; to_pydict cases: {n2}; digest {got}")
    assert got == EXPECTED_DIGEST, got
    print("OK")
