"""How Message.load stores decoded field occurrences (singular: last one wins,
repeated: unpacked items and packed chunks are concatenated, map: entries are put
under their key, oneof: the last member seen is selected, optional), exercised with
enum numbers - defined, aliased, undefined, negative - in every position, on
hand-built wires, checked against a model and against google.protobuf."""
import random
from dataclasses import dataclass
from io import BytesIO
from typing import Dict, List, Optional

import betterproto

from google.protobuf import descriptor_pb2, descriptor_pool, message_factory


class Colour(betterproto.Enum):
    BLACK = 0
    RED = 1
    CRIMSON = 1
    GREEN = 2
    BIG = 300
    COLD = -1
    LOWEST = -2147483648
    HIGHEST = 2147483647


class NoZero(betterproto.Enum):
    SEVEN = 7
    MINUS = -7


@dataclass(eq=False, repr=False)
class Inner(betterproto.Message):
    tone: Colour = betterproto.enum_field(1)
    tones: List[Colour] = betterproto.enum_field(2)


@dataclass(eq=False, repr=False)
class Holder(betterproto.Message):
    single: Colour = betterproto.enum_field(1)
    many: List[Colour] = betterproto.enum_field(2)
    by_key: Dict[int, Colour] = betterproto.map_field(
        3, betterproto.TYPE_INT32, betterproto.TYPE_ENUM
    )
    pick_a: Colour = betterproto.enum_field(4, group="pick")
    pick_b: int = betterproto.int64_field(5, group="pick")
    pick_c: NoZero = betterproto.enum_field(7, group="pick")
    maybe: Optional[Colour] = betterproto.enum_field(6, optional=True)
    other: NoZero = betterproto.enum_field(8)
    inners: List[Inner] = betterproto.message_field(10)
    names: List[str] = betterproto.string_field(11)
    inner: Inner = betterproto.message_field(12)


def build_pb_classes():
    fdp = descriptor_pb2.FileDescriptorProto(
        name="c20_keep2.proto", package="c20k2", syntax="proto3"
    )
    F = descriptor_pb2.FieldDescriptorProto
    enum = fdp.enum_type.add(name="Colour")
    enum.options.allow_alias = True
    for name, number in [
        ("BLACK", 0), ("RED", 1), ("CRIMSON", 1), ("GREEN", 2), ("BIG", 300),
        ("COLD", -1), ("LOWEST", -2147483648), ("HIGHEST", 2147483647),
    ]:
        enum.value.add(name=name, number=number)
    # proto3 enums need a zero value in protoc; the pool accepts this one as is only
    # with a zero first, so give the reference enum an extra zero the wires never name
    nz = fdp.enum_type.add(name="NoZero")
    for name, number in [("NZ_UNUSED", 0), ("SEVEN", 7), ("MINUS", -7)]:
        nz.value.add(name=name, number=number)

    inner = fdp.message_type.add(name="Inner")
    inner.field.add(name="tone", number=1, type=F.TYPE_ENUM, type_name=".c20k2.Colour",
                    label=F.LABEL_OPTIONAL)
    inner.field.add(name="tones", number=2, type=F.TYPE_ENUM, type_name=".c20k2.Colour",
                    label=F.LABEL_REPEATED)

    msg = fdp.message_type.add(name="Holder")
    msg.field.add(name="single", number=1, type=F.TYPE_ENUM, type_name=".c20k2.Colour",
                  label=F.LABEL_OPTIONAL)
    msg.field.add(name="many", number=2, type=F.TYPE_ENUM, type_name=".c20k2.Colour",
                  label=F.LABEL_REPEATED)
    entry = msg.nested_type.add(name="ByKeyEntry")
    entry.options.map_entry = True
    entry.field.add(name="key", number=1, type=F.TYPE_INT32, label=F.LABEL_OPTIONAL)
    entry.field.add(name="value", number=2, type=F.TYPE_ENUM, type_name=".c20k2.Colour",
                    label=F.LABEL_OPTIONAL)
    msg.field.add(name="by_key", number=3, type=F.TYPE_MESSAGE,
                  type_name=".c20k2.Holder.ByKeyEntry", label=F.LABEL_REPEATED)
    msg.oneof_decl.add(name="pick")
    msg.field.add(name="pick_a", number=4, type=F.TYPE_ENUM, type_name=".c20k2.Colour",
                  label=F.LABEL_OPTIONAL, oneof_index=0)
    msg.field.add(name="pick_b", number=5, type=F.TYPE_INT64, label=F.LABEL_OPTIONAL,
                  oneof_index=0)
    msg.field.add(name="pick_c", number=7, type=F.TYPE_ENUM, type_name=".c20k2.NoZero",
                  label=F.LABEL_OPTIONAL, oneof_index=0)
    msg.oneof_decl.add(name="_maybe")
    msg.field.add(name="maybe", number=6, type=F.TYPE_ENUM, type_name=".c20k2.Colour",
                  label=F.LABEL_OPTIONAL, oneof_index=1, proto3_optional=True)
    msg.field.add(name="other", number=8, type=F.TYPE_ENUM, type_name=".c20k2.NoZero",
                  label=F.LABEL_OPTIONAL)
    msg.field.add(name="inners", number=10, type=F.TYPE_MESSAGE, type_name=".c20k2.Inner",
                  label=F.LABEL_REPEATED)
    msg.field.add(name="names", number=11, type=F.TYPE_STRING, label=F.LABEL_REPEATED)
    pool = descriptor_pool.DescriptorPool()
    pool.Add(fdp)
    return message_factory.GetMessageClass(pool.FindMessageTypeByName("c20k2.Holder"))


PbHolder = build_pb_classes()


# ---- an independent little wire writer ---------------------------------------------
def varint(value: int) -> bytes:
    value %= 1 << 64
    out = []
    while True:
        group = value % 128
        value //= 128
        out.append(group + 128 if value else group)
        if not value:
            return bytes(out)


def tag(number: int, wire_type: int) -> bytes:
    return varint(number * 8 + wire_type)


def vfield(number: int, value: int) -> bytes:
    return tag(number, 0) + varint(value)


def lfield(number: int, payload: bytes) -> bytes:
    return tag(number, 2) + varint(len(payload)) + payload


INTERESTING = [0, 1, 2, 3, 7, -7, 127, 128, 300, -1, -2, (1 << 31) - 1, -(1 << 31), 99, -99]


def number(r):
    return r.choice(INTERESTING) if r.random() < 0.7 else r.randrange(-(1 << 31), 1 << 31)


class Model:
    """What the wire means, occurrence by occurrence."""

    def __init__(self):
        self.single = 0
        self.many = []
        self.by_key = {}
        self.pick = ("", None)
        self.maybe = None
        self.other = 0
        self.inners = []
        self.names = []
        self.unknown = b""


def random_wire(r, model):
    chunks = []
    for _ in range(r.randrange(0, 14)):
        kind = r.randrange(0, 13)
        if kind == 0:
            n = number(r)
            chunks.append(vfield(1, n))
            model.single = n
        elif kind == 1:  # unpacked item of the repeated enum
            n = number(r)
            chunks.append(vfield(2, n))
            model.many.append(n)
        elif kind == 2:  # packed chunk (possibly empty) of the repeated enum
            ns = [number(r) for _ in range(r.randrange(0, 5))]
            chunks.append(lfield(2, b"".join(varint(n) for n in ns)))
            model.many.extend(ns)
        elif kind == 3:  # map entry; key and/or value may be left out
            key, n = r.randrange(-2, 4), number(r)
            payload = b""
            has_key, has_value = r.random() < 0.85, r.random() < 0.85
            if r.random() < 0.2:  # value before key
                payload = (vfield(2, n) if has_value else b"") + (vfield(1, key) if has_key else b"")
            else:
                payload = (vfield(1, key) if has_key else b"") + (vfield(2, n) if has_value else b"")
            chunks.append(lfield(3, payload))
            model.by_key[key if has_key else 0] = n if has_value else 0
        elif kind == 4:
            n = number(r)
            chunks.append(vfield(4, n))
            model.pick = ("pick_a", n)
        elif kind == 5:
            n = r.choice([0, 5, -5, 1 << 40, -(1 << 63)])
            chunks.append(vfield(5, n))
            model.pick = ("pick_b", n)
        elif kind == 6:
            n = number(r)
            chunks.append(vfield(7, n))
            model.pick = ("pick_c", n)
        elif kind == 7:
            n = number(r)
            chunks.append(vfield(6, n))
            model.maybe = n
        elif kind == 8:
            n = number(r)
            chunks.append(vfield(8, n))
            model.other = n
        elif kind == 9:  # repeated message holding enums
            tone = number(r)
            tones = [number(r) for _ in range(r.randrange(0, 3))]
            payload = vfield(1, tone) + b"".join(vfield(2, t) for t in tones)
            chunks.append(lfield(10, payload))
            model.inners.append((tone, tones))
        elif kind == 10:
            text = r.choice(["", "a", "RED", "é"])
            chunks.append(lfield(11, text.encode("utf-8")))
            model.names.append(text)
        elif kind == 11:  # a field nobody declared
            raw = vfield(2000, number(r)) if r.random() < 0.5 else lfield(2001, b"xyz")
            chunks.append(raw)
            model.unknown += raw
        else:  # declared number, wrong wire type -> kept as unknown data
            raw = tag(1, 5) + b"\x01\x02\x03\x04"
            chunks.append(raw)
            model.unknown += raw
    return b"".join(chunks)


def check_enum(value, enum_cls, n):
    assert isinstance(value, enum_cls)
    assert value == n and int(value) == n and value.value == n
    if n in enum_cls._value_map_:
        assert value is enum_cls(n)  # the canonical member
        assert enum_cls[value.name] is value
    else:
        assert value.name is None


def check_against_model(msg, model):
    check_enum(msg.single, Colour, model.single)
    assert len(msg.many) == len(model.many)
    for got, n in zip(msg.many, model.many):
        check_enum(got, Colour, n)
    assert set(msg.by_key) == set(model.by_key)
    for key, n in model.by_key.items():
        check_enum(msg.by_key[key], Colour, n)
    which, value = betterproto.which_one_of(msg, "pick")
    assert which == model.pick[0]
    if which == "pick_a":
        check_enum(value, Colour, model.pick[1])
    elif which == "pick_c":
        check_enum(value, NoZero, model.pick[1])
    elif which == "pick_b":
        assert value == model.pick[1] and type(value) is int
    else:
        assert value is None
    for name in ("pick_a", "pick_b", "pick_c"):
        if name != which:
            try:
                getattr(msg, name)
            except AttributeError:
                pass
            else:
                raise AssertionError(f"{name} readable although {which!r} is selected")
    if model.maybe is None:
        assert msg.maybe is None
    else:
        check_enum(msg.maybe, Colour, model.maybe)
    check_enum(msg.other, NoZero, model.other)
    assert len(msg.inners) == len(model.inners)
    for got, (tone, tones) in zip(msg.inners, model.inners):
        check_enum(got.tone, Colour, tone)
        assert [int(t) for t in got.tones] == tones
        for t, n in zip(got.tones, tones):
            check_enum(t, Colour, n)
    assert msg.names == model.names
    assert msg._unknown_fields == model.unknown


def check_against_pb(msg, wire):
    pb = PbHolder.FromString(wire)
    assert int(msg.single) == pb.single
    assert [int(x) for x in msg.many] == list(pb.many)
    assert {k: int(v) for k, v in msg.by_key.items()} == dict(pb.by_key)
    which, value = betterproto.which_one_of(msg, "pick")
    assert which == (pb.WhichOneof("pick") or "")
    if which:
        assert int(value) == getattr(pb, which)
    assert (msg.maybe is not None) == pb.HasField("maybe")
    if msg.maybe is not None:
        assert int(msg.maybe) == pb.maybe
    assert int(msg.other) == pb.other
    assert [(int(i.tone), [int(t) for t in i.tones]) for i in msg.inners] == [
        (i.tone, list(i.tones)) for i in pb.inners
    ]
    assert msg.names == list(pb.names)


for seed in range(2500):
    r = random.Random(seed)
    model = Model()
    wire = random_wire(r, model)

    msg = Holder().parse(wire)
    check_against_model(msg, model)
    check_against_pb(msg, wire)

    # the stream reader and the delimited reader store values the same way
    assert Holder().load(BytesIO(wire)) == msg
    stream = BytesIO(varint(len(wire)) + wire + b"trailing")
    assert Holder().load(stream, betterproto.SIZE_DELIMITED) == msg
    assert stream.read() == b"trailing"
    assert Holder.FromString(wire) == msg

    # binary and JSON round trips keep every number
    again = Holder().parse(bytes(msg))
    check_against_model(again, model)
    assert again == msg
    if not model.unknown:
        via_json = Holder().from_json(msg.to_json())
        assert via_json == msg, seed
        assert [int(x) for x in via_json.many] == model.many
        assert {k: int(v) for k, v in via_json.by_key.items()} == model.by_key

    # parsing a second wire into the same instance merges occurrence by occurrence,
    # exactly as if both wires had been one
    model2 = Model()
    wire_a = random_wire(r, model2)
    wire_b = random_wire(r, model2)
    merged = Holder().parse(wire_a)
    merged.parse(wire_b)
    # (unknown fields are appended per parse call as well)
    check_against_model(merged, model2)
    assert merged == Holder().parse(wire_a + wire_b)

# a message the user filled in by hand keeps merging the same way
msg = Holder(single=Colour.RED, many=[Colour.GREEN], by_key={1: Colour.BIG}, pick_b=5)
msg.parse(vfield(2, -1) + lfield(2, varint(77) + varint(1)) + lfield(3, vfield(1, 1) + vfield(2, -99))
          + lfield(3, vfield(1, 2)) + vfield(7, 0) + vfield(1, 1234))
assert msg.single == 1234 and msg.single.name is None
assert [int(x) for x in msg.many] == [2, -1, 77, 1]
assert msg.many[0] is Colour.GREEN and msg.many[1] is Colour.COLD and msg.many[3] is Colour.RED
assert msg.many[2].name is None
assert {k: int(v) for k, v in msg.by_key.items()} == {1: -99, 2: 0}
assert msg.by_key[2] is Colour.BLACK and msg.by_key[1].name is None
which, value = betterproto.which_one_of(msg, "pick")
assert which == "pick_c" and value == 0 and value.name is None and isinstance(value, NoZero)
# the zero of a oneof / optional enum survives both codecs
again = Holder().parse(bytes(msg))
assert betterproto.which_one_of(again, "pick")[0] == "pick_c"
assert again == msg
again = Holder().from_dict(msg.to_dict())
assert betterproto.which_one_of(again, "pick") == ("pick_c", 0)
assert again == msg

# singular sub-message: the last occurrence replaces the earlier one
msg = Holder().parse(lfield(12, vfield(1, 2) + vfield(2, 1)) + lfield(12, vfield(2, -5)))
assert msg.inner.tone is Colour.BLACK and [int(t) for t in msg.inner.tones] == [-5]

# errors raised while decoding still surface, nothing is stored for that occurrence
broken = Holder()
try:
    broken.parse(vfield(1, 2) + lfield(2, b"\x80"))
except EOFError:
    pass
else:
    raise AssertionError("expected EOFError")
assert broken.single is Colour.GREEN and broken.many == []

print("ok")
