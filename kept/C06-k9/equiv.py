"""C06 keep1: equivalence checks for the value pre-processing step of serialization
(_preprocess_single / _len_preprocessed_single and their callers _serialize_single /
_len_single / Message.dump / Message.__len__).

Part 1 calls the module-level helpers directly over every proto type and boundary
values and checks the bytes against google.protobuf's encoder.
Part 2 runs the presence matrix of the property (field kind x value state x way of
setting) against google.protobuf (bytes, HasField, WhichOneof).
"""
import itertools
import struct
from dataclasses import dataclass
from datetime import datetime, timedelta, timezone
from typing import Dict, List, Optional

import betterproto
from betterproto import (
    _len_preprocessed_single,
    _len_single,
    _preprocess_single,
    _serialize_single,
)
from google.protobuf import (
    descriptor_pb2,
    descriptor_pool,
    duration_pb2,
    json_format,
    message_factory,
    timestamp_pb2,
    wrappers_pb2,
)
from google.protobuf.internal import encoder as pb_encoder

B = betterproto
checks = 0


def ok(cond, *info):
    global checks
    checks += 1
    assert cond, info


def raises(exc, fn, *args, **kwargs):
    try:
        fn(*args, **kwargs)
    except exc as e:
        return e
    except BaseException as e:  # pragma: no cover
        raise AssertionError(f"expected {exc}, got {type(e)}: {e}")
    raise AssertionError(f"expected {exc}, nothing raised")


# =============================================================================== part 1
def pb_varint(n: int) -> bytes:
    out = []
    pb_encoder._EncodeSignedVarint(out.append, n) if n < 0 else pb_encoder._EncodeVarint(
        out.append, n
    )
    return b"".join(out)


INT32 = [0, 1, -1, 127, 128, 16383, 16384, 2**31 - 1, -(2**31), 300, -300]
INT64 = INT32 + [2**31, -(2**31) - 1, 2**63 - 1, -(2**63), 2**35, -(2**35)]
UINT32 = [0, 1, 127, 128, 2**31, 2**32 - 1, 300]
UINT64 = UINT32 + [2**32, 2**63, 2**64 - 1]

plain_varints = {
    B.TYPE_INT32: INT32,
    B.TYPE_INT64: INT64,
    B.TYPE_UINT32: UINT32,
    B.TYPE_UINT64: UINT64,
    B.TYPE_ENUM: [0, 1, 2, -1, 2**31 - 1, -(2**31)],
    B.TYPE_BOOL: [False, True, 0, 1],
}
for ptype, values in plain_varints.items():
    for v in values:
        expect = pb_varint(int(v))
        for wraps in ("", B.TYPE_INT32):  # wraps is ignored for non-message types
            ok(_preprocess_single(ptype, wraps, v) == expect, ptype, v)
            ok(_len_preprocessed_single(ptype, wraps, v) == len(expect), ptype, v)
        for number in (1, 15, 16, 2047, 2048, 2**29 - 1):
            full = pb_varint(number << 3) + expect
            for se in (False, True):
                ok(_serialize_single(number, ptype, v, serialize_empty=se) == full)
                ok(_len_single(number, ptype, v, serialize_empty=se) == len(full))


def zz(n):
    return (n << 1) ^ (n >> 63)


for ptype, values in ((B.TYPE_SINT32, INT32), (B.TYPE_SINT64, INT64)):
    for v in values:
        expect = pb_varint(zz(v))
        ok(_preprocess_single(ptype, "", v) == expect, ptype, v)
        ok(_len_preprocessed_single(ptype, "", v) == len(expect), ptype, v)
        ok(_serialize_single(3, ptype, v) == b"\x18" + expect)
        ok(_len_single(3, ptype, v) == 1 + len(expect))

# beyond 64 bit: both functions refuse
for ptype in (B.TYPE_INT64, B.TYPE_UINT64, B.TYPE_ENUM):
    raises(ValueError, _preprocess_single, ptype, "", -(2**64))
    raises(ValueError, _len_preprocessed_single, ptype, "", -(2**64))
# zig-zag of an out-of-range value is a large positive number: length stays consistent
for v in (-(2**64), 2**64, -(2**70) - 1):
    ok(
        len(_preprocess_single(B.TYPE_SINT64, "", v))
        == _len_preprocessed_single(B.TYPE_SINT64, "", v)
    )

fixed = {
    B.TYPE_FIXED32: ("<I", UINT32, 5),
    B.TYPE_SFIXED32: ("<i", INT32, 5),
    B.TYPE_FIXED64: ("<Q", UINT64, 1),
    B.TYPE_SFIXED64: ("<q", INT64, 1),
    B.TYPE_FLOAT: ("<f", [0.0, -0.0, 1.5, -2.25, float("inf"), float("-inf"), 1e-45], 5),
    B.TYPE_DOUBLE: ("<d", [0.0, -0.0, 1.5, 1e308, 5e-324, float("inf"), 0.1], 1),
}
for ptype, (fmt, values, wt) in fixed.items():
    for v in values:
        expect = struct.pack(fmt, v)
        ok(_preprocess_single(ptype, "", v) == expect, ptype, v)
        ok(_len_preprocessed_single(ptype, "", v) == len(expect), ptype, v)
        ok(_serialize_single(2, ptype, v) == bytes([(2 << 3) | wt]) + expect)
        ok(_len_single(2, ptype, v) == 1 + len(expect))
    raises(struct.error, _preprocess_single, ptype, "", "nope")
    raises(struct.error, _len_preprocessed_single, ptype, "", "nope")
nan = _preprocess_single(B.TYPE_DOUBLE, "", float("nan"))
ok(struct.unpack("<d", nan)[0] != struct.unpack("<d", nan)[0])
ok(_len_preprocessed_single(B.TYPE_FLOAT, "", float("nan")) == 4)

for s in ["", "a", "héllo", "€" * 50, "x" * 127, "x" * 128, "\x00"]:
    enc = s.encode("utf-8")
    ok(_preprocess_single(B.TYPE_STRING, "", s) == enc)
    ok(_len_preprocessed_single(B.TYPE_STRING, "", s) == len(enc))
    for se in (False, True):
        full = b"\x0a" + pb_varint(len(enc)) + enc if (enc or se) else b""
        ok(_serialize_single(1, B.TYPE_STRING, s, serialize_empty=se) == full, s, se)
        ok(_len_single(1, B.TYPE_STRING, s, serialize_empty=se) == len(full), s, se)
for b in [b"", b"\x00", b"abc", bytes(range(256)), bytearray(b"xy")]:
    # bytes / map payloads pass through untouched (same object)
    ok(_preprocess_single(B.TYPE_BYTES, "", b) is b)
    ok(_preprocess_single(B.TYPE_MAP, "", b) is b)
    ok(_len_preprocessed_single(B.TYPE_BYTES, "", b) == len(b))
    ok(_len_preprocessed_single(B.TYPE_MAP, "", b) == len(b))
    for se in (False, True):
        full = b"\x0a" + pb_varint(len(b)) + bytes(b) if (b or se) else b""
        ok(_serialize_single(1, B.TYPE_BYTES, b, serialize_empty=se) == full)
        ok(_len_single(1, B.TYPE_BYTES, b, serialize_empty=se) == len(full))
# unknown proto types: the value passes through and the caller refuses
ok(_preprocess_single("group", "", b"zz") == b"zz")
ok(_len_preprocessed_single("group", "", b"zz") == 2)
raises(NotImplementedError, _serialize_single, 1, "group", b"zz")
raises(NotImplementedError, _len_single, 1, "group", b"zz")

# message-typed values: wrappers
wrapper_cases = [
    (B.TYPE_BOOL, wrappers_pb2.BoolValue, [False, True]),
    (B.TYPE_BYTES, wrappers_pb2.BytesValue, [b"", b"\x00", b"abc"]),
    (B.TYPE_DOUBLE, wrappers_pb2.DoubleValue, [0.0, 1.5, -3.25, float("inf")]),
    (B.TYPE_FLOAT, wrappers_pb2.FloatValue, [0.0, 1.5, -3.25]),
    (B.TYPE_INT32, wrappers_pb2.Int32Value, INT32),
    (B.TYPE_INT64, wrappers_pb2.Int64Value, INT64),
    (B.TYPE_STRING, wrappers_pb2.StringValue, ["", "a", "héllo"]),
    (B.TYPE_UINT32, wrappers_pb2.UInt32Value, UINT32),
    (B.TYPE_UINT64, wrappers_pb2.UInt64Value, UINT64),
]
for wraps, ref_cls, values in wrapper_cases:
    for v in values:
        payload = ref_cls(value=v).SerializeToString()
        ok(_preprocess_single(B.TYPE_MESSAGE, wraps, v) == payload, wraps, v)
        ok(_len_preprocessed_single(B.TYPE_MESSAGE, wraps, v) == len(payload), wraps, v)
        for se in (False, True):
            # a wrapper value is always emitted, even with an empty payload
            full = b"\x0a" + pb_varint(len(payload)) + payload
            ok(
                _serialize_single(1, B.TYPE_MESSAGE, v, wraps=wraps, serialize_empty=se)
                == full
            )
            ok(
                _len_single(1, B.TYPE_MESSAGE, v, wraps=wraps, serialize_empty=se)
                == len(full)
            )
    # absent wrapper value: empty payload
    ok(_preprocess_single(B.TYPE_MESSAGE, wraps, None) == b"")
    ok(_len_preprocessed_single(B.TYPE_MESSAGE, wraps, None) == 0)
    ok(_serialize_single(1, B.TYPE_MESSAGE, None, wraps=wraps) == b"\x0a\x00")
    ok(_len_single(1, B.TYPE_MESSAGE, None, wraps=wraps) == 2)
# an unknown wrapped type: None is still 'no payload', a value cannot be boxed
ok(_preprocess_single(B.TYPE_MESSAGE, "enum", None) == b"")
ok(_len_preprocessed_single(B.TYPE_MESSAGE, "enum", None) == 0)
raises(KeyError, _preprocess_single, B.TYPE_MESSAGE, "enum", 1)
raises(KeyError, _len_preprocessed_single, B.TYPE_MESSAGE, "enum", 1)
# None without wraps is not a message
raises(TypeError, _preprocess_single, B.TYPE_MESSAGE, "", None)
raises(TypeError, _len_preprocessed_single, B.TYPE_MESSAGE, "", None)

# datetime / timedelta are boxed whatever `wraps` says
UTC = timezone.utc
dts = [
    datetime(1970, 1, 1, tzinfo=UTC),
    datetime(1970, 1, 1, 0, 0, 0, 1, tzinfo=UTC),
    datetime(1969, 12, 31, 23, 59, 59, 999999, tzinfo=UTC),
    datetime(2024, 2, 29, 12, 30, 15, 123456, tzinfo=UTC),
    datetime(1, 1, 1, tzinfo=UTC),
    datetime(9999, 12, 31, 23, 59, 59, 999999, tzinfo=UTC),
]
for dt in dts:
    ref = timestamp_pb2.Timestamp()
    ref.FromDatetime(dt)
    payload = ref.SerializeToString()
    for wraps in ("", B.TYPE_INT32):
        ok(_preprocess_single(B.TYPE_MESSAGE, wraps, dt) == payload, dt)
        ok(_len_preprocessed_single(B.TYPE_MESSAGE, wraps, dt) == len(payload), dt)
    for se in (False, True):
        full = b"\x0a" + pb_varint(len(payload)) + payload if (payload or se) else b""
        ok(_serialize_single(1, B.TYPE_MESSAGE, dt, serialize_empty=se) == full)
        ok(_len_single(1, B.TYPE_MESSAGE, dt, serialize_empty=se) == len(full))
tds = [
    timedelta(0),
    timedelta(microseconds=1),
    timedelta(microseconds=-1),
    timedelta(seconds=1, microseconds=500000),
    timedelta(seconds=-1, microseconds=-500000),
    timedelta(days=10000, seconds=86399, microseconds=999999),
    timedelta(days=-10000),
]
for td in tds:
    ref = duration_pb2.Duration()
    ref.FromTimedelta(td)
    payload = ref.SerializeToString()
    for wraps in ("", B.TYPE_STRING):
        ok(_preprocess_single(B.TYPE_MESSAGE, wraps, td) == payload, td)
        ok(_len_preprocessed_single(B.TYPE_MESSAGE, wraps, td) == len(payload), td)
    for se in (False, True):
        full = b"\x0a" + pb_varint(len(payload)) + payload if (payload or se) else b""
        ok(_serialize_single(1, B.TYPE_MESSAGE, td, serialize_empty=se) == full)
        ok(_len_single(1, B.TYPE_MESSAGE, td, serialize_empty=se) == len(full))


# =============================================================================== part 2
PKG = "c06keep1"
F = descriptor_pb2.FieldDescriptorProto
fdp = descriptor_pb2.FileDescriptorProto(
    name="c06_keep1_equiv.proto",
    package=PKG,
    syntax="proto3",
    dependency=[
        "google/protobuf/wrappers.proto",
        "google/protobuf/timestamp.proto",
        "google/protobuf/duration.proto",
    ],
)
en = fdp.enum_type.add(name="Color")
for i, n in enumerate(["ZERO", "ONE", "TWO"]):
    en.value.add(name=n, number=i)

SCALARS = [
    # name, descriptor type, betterproto field function, default, non-default values
    ("int32", F.TYPE_INT32, B.int32_field, 0, [1, -1, 2**31 - 1, -(2**31)]),
    ("int64", F.TYPE_INT64, B.int64_field, 0, [5, -5, 2**63 - 1, -(2**63)]),
    ("uint32", F.TYPE_UINT32, B.uint32_field, 0, [7, 2**32 - 1]),
    ("uint64", F.TYPE_UINT64, B.uint64_field, 0, [9, 2**64 - 1]),
    ("sint32", F.TYPE_SINT32, B.sint32_field, 0, [-3, 2**31 - 1, -(2**31)]),
    ("sint64", F.TYPE_SINT64, B.sint64_field, 0, [-4, 2**63 - 1, -(2**63)]),
    ("fixed32", F.TYPE_FIXED32, B.fixed32_field, 0, [11, 2**32 - 1]),
    ("fixed64", F.TYPE_FIXED64, B.fixed64_field, 0, [12, 2**64 - 1]),
    ("sfixed32", F.TYPE_SFIXED32, B.sfixed32_field, 0, [-13, 2**31 - 1]),
    ("sfixed64", F.TYPE_SFIXED64, B.sfixed64_field, 0, [-14, -(2**63)]),
    ("float", F.TYPE_FLOAT, B.float_field, 0.0, [1.5, -2.25]),
    ("double", F.TYPE_DOUBLE, B.double_field, 0.0, [0.1, -1e300]),
    ("bool", F.TYPE_BOOL, B.bool_field, False, [True]),
    ("string", F.TYPE_STRING, B.string_field, "", ["a", "héllo"]),
    ("bytes", F.TYPE_BYTES, B.bytes_field, b"", [b"\x00", b"abc"]),
    ("enum", F.TYPE_ENUM, B.enum_field, 0, [1, 2]),
]
PY_TYPE = {
    "float": float,
    "double": float,
    "bool": bool,
    "string": str,
    "bytes": bytes,
}
WRAPPERS = [
    ("w_bool", "BoolValue", B.TYPE_BOOL, False, [True]),
    ("w_bytes", "BytesValue", B.TYPE_BYTES, b"", [b"xyz"]),
    ("w_double", "DoubleValue", B.TYPE_DOUBLE, 0.0, [2.5]),
    ("w_float", "FloatValue", B.TYPE_FLOAT, 0.0, [-0.5]),
    ("w_int32", "Int32Value", B.TYPE_INT32, 0, [-7, 2**31 - 1]),
    ("w_int64", "Int64Value", B.TYPE_INT64, 0, [2**40]),
    ("w_string", "StringValue", B.TYPE_STRING, "", ["s"]),
    ("w_uint32", "UInt32Value", B.TYPE_UINT32, 0, [2**32 - 1]),
    ("w_uint64", "UInt64Value", B.TYPE_UINT64, 0, [2**64 - 1]),
]

sub = fdp.message_type.add(name="Sub")
sub.field.add(name="a", number=1, type=F.TYPE_INT32, label=F.LABEL_OPTIONAL)
sub.field.add(name="s", number=2, type=F.TYPE_STRING, label=F.LABEL_OPTIONAL)
sub.field.add(name="r", number=3, type=F.TYPE_INT32, label=F.LABEL_REPEATED)

allk = fdp.message_type.add(name="All")
allk.oneof_decl.add(name="choice")
synthetic = []


def add_field(name, number, ftype, *, type_name=None, oneof=None, optional=False, rep=False):
    f = allk.field.add(
        name=name,
        number=number,
        type=ftype,
        label=F.LABEL_REPEATED if rep else F.LABEL_OPTIONAL,
    )
    if type_name:
        f.type_name = type_name
    if oneof is not None:
        f.oneof_index = oneof
    if optional:
        f.proto3_optional = True
        synthetic.append(f)
    return f


for i, (name, ftype, _fn, _d, _v) in enumerate(SCALARS):
    tn = f".{PKG}.Color" if name == "enum" else None
    add_field(f"i_{name}", 1 + i, ftype, type_name=tn)
    add_field(f"o_{name}", 21 + i, ftype, type_name=tn, optional=True)
    add_field(f"c_{name}", 41 + i, ftype, type_name=tn, oneof=0)
add_field("c_sub", 57, F.TYPE_MESSAGE, type_name=f".{PKG}.Sub", oneof=0)
for i, (name, ref_name, _w, _d, _v) in enumerate(WRAPPERS):
    add_field(name, 61 + i, F.TYPE_MESSAGE, type_name=f".google.protobuf.{ref_name}")
add_field("sub", 71, F.TYPE_MESSAGE, type_name=f".{PKG}.Sub")
add_field("ts", 72, F.TYPE_MESSAGE, type_name=".google.protobuf.Timestamp")
add_field("dur", 73, F.TYPE_MESSAGE, type_name=".google.protobuf.Duration")
add_field("o_sub", 74, F.TYPE_MESSAGE, type_name=f".{PKG}.Sub", optional=True)
add_field("r_int", 81, F.TYPE_INT32, rep=True)
add_field("r_str", 82, F.TYPE_STRING, rep=True)
add_field("r_sub", 83, F.TYPE_MESSAGE, type_name=f".{PKG}.Sub", rep=True)
for k, f in enumerate(synthetic):
    allk.oneof_decl.add(name=f"_{f.name}")
    f.oneof_index = 1 + k

pool = descriptor_pool.Default()
pool.Add(fdp)
RefAll = message_factory.GetMessageClass(pool.FindMessageTypeByName(f"{PKG}.All"))
RefSub = message_factory.GetMessageClass(pool.FindMessageTypeByName(f"{PKG}.Sub"))


class Color(betterproto.Enum):
    ZERO = 0
    ONE = 1
    TWO = 2


@dataclass(eq=False, repr=False)
class Sub(betterproto.Message):
    a: int = betterproto.int32_field(1)
    s: str = betterproto.string_field(2)
    r: List[int] = betterproto.int32_field(3)


def build_all():
    ns = {"__annotations__": {}}
    # declared in field-number order (betterproto emits in declaration order)
    for prefix in ("i_", "o_", "c_"):
        for i, (name, _ft, fn, _d, _v) in enumerate(SCALARS):
            t = Color if name == "enum" else PY_TYPE.get(name, int)
            if prefix == "i_":
                ns[f"i_{name}"] = fn(1 + i)
                ns["__annotations__"][f"i_{name}"] = t
            elif prefix == "o_":
                ns[f"o_{name}"] = fn(21 + i, optional=True)
                ns["__annotations__"][f"o_{name}"] = Optional[t]
            else:
                ns[f"c_{name}"] = fn(41 + i, group="choice")
                ns["__annotations__"][f"c_{name}"] = t
    ns["c_sub"] = B.message_field(57, group="choice")
    ns["__annotations__"]["c_sub"] = Sub
    for i, (name, _r, wraps, d, _v) in enumerate(WRAPPERS):
        ns[name] = B.message_field(61 + i, wraps=wraps)
        ns["__annotations__"][name] = Optional[type(d)]
    ns["sub"] = B.message_field(71)
    ns["__annotations__"]["sub"] = Sub
    ns["ts"] = B.message_field(72)
    ns["__annotations__"]["ts"] = datetime
    ns["dur"] = B.message_field(73)
    ns["__annotations__"]["dur"] = timedelta
    ns["o_sub"] = B.message_field(74, optional=True)
    ns["__annotations__"]["o_sub"] = Optional[Sub]
    ns["r_int"] = B.int32_field(81)
    ns["__annotations__"]["r_int"] = List[int]
    ns["r_str"] = B.string_field(82)
    ns["__annotations__"]["r_str"] = List[str]
    ns["r_sub"] = B.message_field(83)
    ns["__annotations__"]["r_sub"] = List[Sub]
    cls = type("All", (betterproto.Message,), ns)
    return dataclass(eq=False, repr=False)(cls)


All = build_all()
CHOICE = [f"c_{s[0]}" for s in SCALARS] + ["c_sub"]
PRESENCE = (
    [f"o_{s[0]}" for s in SCALARS]
    + CHOICE
    + [w[0] for w in WRAPPERS]
    + ["sub", "o_sub", "ts", "dur"]
)


def to_ref_value(name, v):
    return v


def ref_set(ref, name, v):
    """Set field `name` of the reference message to python value v."""
    if name.startswith("w_"):
        getattr(ref, name).value = v
        getattr(ref, name).SetInParent()
    elif name in ("sub", "o_sub", "c_sub"):
        getattr(ref, name).SetInParent()
        for k, x in v.items():
            if k == "r":
                getattr(ref, name).r.extend(x)
            else:
                setattr(getattr(ref, name), k, x)
    elif name == "ts":
        ref.ts.FromDatetime(v)
        ref.ts.SetInParent()
    elif name == "dur":
        ref.dur.FromTimedelta(v)
        ref.dur.SetInParent()
    elif name.startswith("r_"):
        if name == "r_sub":
            for item in v:
                e = ref.r_sub.add()
                for k, x in item.items():
                    setattr(e, k, x)
        else:
            getattr(ref, name).extend(v)
    else:
        setattr(ref, name, v)


def bp_value(name, v):
    if name in ("sub", "o_sub", "c_sub"):
        return Sub(**v)
    if name == "r_sub":
        return [Sub(**item) for item in v]
    if name.endswith("_enum"):
        return Color(v)
    return v


def check_against_ref(msg, ref, label):
    data = bytes(msg)
    ref_bytes = ref.SerializeToString()
    ok(data == ref_bytes, label, data, ref_bytes)
    ok(len(msg) == len(ref_bytes), label)
    ok(msg.SerializeToString() == ref_bytes, label)
    back = All().parse(ref_bytes)
    for name in PRESENCE:
        ok(back.is_set(name) == ref.HasField(name), label, name, "decoded")
    which = ref.WhichOneof("choice")
    got = betterproto.which_one_of(back, "choice")
    ok(got[0] == (which or ""), label, got, which)
    ok(bytes(back) == ref_bytes, label)
    return back


# ---- fresh message
fresh = All()
ok(bytes(fresh) == b"" and len(fresh) == 0)
ok(not betterproto.serialized_on_wire(fresh))
ok(betterproto.which_one_of(fresh, "choice") == ("", None))
for name in PRESENCE:
    ok(not fresh.is_set(name), name)
for name, _ft, _fn, d, _v in SCALARS:
    ok(getattr(fresh, f"i_{name}") == d)
    ok(getattr(fresh, f"o_{name}") is None)
for name, *_ in WRAPPERS:
    ok(getattr(fresh, name) is None)
ok(fresh.sub == Sub() and not betterproto.serialized_on_wire(fresh.sub))
ok(bytes(fresh) == b"")

# ---- single-field matrix
cases = []  # (field name, python value)
for name, _ft, _fn, d, values in SCALARS:
    for prefix in ("i_", "o_", "c_"):
        for v in [d] + values:
            cases.append((prefix + name, v))
for name, _r, _w, d, values in WRAPPERS:
    for v in [d] + values:
        cases.append((name, v))
for name in ("sub", "o_sub", "c_sub"):
    cases.append((name, {"a": 3}))
    cases.append((name, {"a": 0, "s": ""}))
    cases.append((name, {"s": "x", "r": [0, 1]}))
for dt in dts:
    cases.append(("ts", dt))
for td in tds:
    cases.append(("dur", td))
cases.append(("r_int", [0]))
cases.append(("r_int", [0, -1, 2**31 - 1]))
cases.append(("r_str", ["", "a"]))
cases.append(("r_sub", [{"a": 0}, {"a": 1, "s": "q"}]))


def make(name, v, how):
    """betterproto message with field `name` set to v in the given way, plus its
    reference twin."""
    ref = RefAll()
    ref_set(ref, name, v)
    if how == "ctor":
        msg = All(**{name: bp_value(name, v)})
    elif how == "attr":
        msg = All()
        setattr(msg, name, bp_value(name, v))
    elif how == "parse":
        msg = All().parse(ref.SerializeToString())
    elif how == "from_dict":
        d = json_format.MessageToDict(ref)
        msg = All().from_dict(d)
    elif how == "cls_from_dict":
        d = json_format.MessageToDict(ref)
        msg = All.from_dict(d)
    return msg, ref


HOWS = ["ctor", "attr", "parse", "from_dict", "cls_from_dict"]
for (name, v), how in itertools.product(cases, HOWS):
    if name == "sub" and how in ("ctor", "attr") and not any(v.values()):
        # plain message field assigned an all-default value object: betterproto
        # has no presence bit for that (outside the property's statement)
        continue
    if (name == "ts" and v == dts[0]) or (name == "dur" and v == tds[0]):
        # datetime / timedelta values carry no presence bit at all
        continue
    msg, ref = make(name, v, how)
    label = (name, v, how)
    check_against_ref(msg, ref, label)
    if name in PRESENCE and name not in ("ts", "dur"):
        ok(msg.is_set(name), label)
    if name in CHOICE:
        ok(betterproto.which_one_of(msg, "choice")[0] == name, label)
    if name == "sub":
        ok(betterproto.serialized_on_wire(msg.sub), label)

# ---- combinations: one implicit + one optional + one oneof member + wrapper + sub
combo_values = {
    "i_": [("int32", 0), ("int32", 5), ("string", ""), ("string", "z"), ("double", 0.0)],
    "o_": [("int32", 0), ("bool", False), ("bytes", b""), ("enum", 0), ("sint64", -1)],
    "c_": [("uint32", 0), ("string", ""), ("float", 0.0), ("bool", True), ("enum", 0)],
}
for (i_n, i_v), (o_n, o_v), (c_n, c_v), (w_n, _r, _w, w_d, w_vs) in itertools.product(
    combo_values["i_"], combo_values["o_"], combo_values["c_"], WRAPPERS[:5]
):
    for w_v in (w_d, w_vs[0]):
        kwargs = {
            "i_" + i_n: i_v,
            "o_" + o_n: Color(o_v) if o_n == "enum" else o_v,
            "c_" + c_n: Color(c_v) if c_n == "enum" else c_v,
            w_n: w_v,
        }
        ref = RefAll()
        for k, v in kwargs.items():
            ref_set(ref, k, int(v) if isinstance(v, Color) else v)
        ref.sub.a = 0
        ref.sub.SetInParent()
        m1 = All(**kwargs)
        m1.sub.a = 0  # assigning inside the sub-message marks it
        back = check_against_ref(m1, ref, kwargs)
        ok(betterproto.serialized_on_wire(back.sub))
        m2 = All()
        for k in reversed(list(kwargs)):
            setattr(m2, k, kwargs[k])
        m2.sub = Sub(a=0)
        check_against_ref(m2, ref, kwargs)

# ---- oneof switching: the last assignment wins, siblings are reset
for first, second in itertools.permutations(CHOICE[:6] + ["c_string", "c_sub"], 2):
    msg = All()
    ref = RefAll()
    for name in (first, second):
        v = {"a": 0} if name == "c_sub" else ("" if name == "c_string" else 0)
        setattr(msg, name, bp_value(name, v))
        ref_set(ref, name, v)
    ok(betterproto.which_one_of(msg, "choice")[0] == second)
    ok(msg.is_set(second) and not msg.is_set(first))
    check_against_ref(msg, ref, (first, second))

print("ok", checks, "checks")
