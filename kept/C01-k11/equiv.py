"""C01 keep1: Message.__eq__ (PLACEHOLDER-vs-default and NaN aware equality).

Exercises == / != between messages against (a) hand-written expectations and
(b) an independent reference model over thousands of generated message pairs,
and checks the binary round trip parse(bytes(m)) == m through that equality.
Must pass unchanged on the pristine tree and with the refactor applied.
"""
import copy
import math
import random
import struct
import sys
from dataclasses import dataclass
from decimal import Decimal
from typing import Dict, List, Optional

import betterproto
from betterproto import PLACEHOLDER, Message


class Colour(betterproto.Enum):
    ZERO = 0
    RED = 1
    NEG = -5


@dataclass(eq=False, repr=False)
class Child(betterproto.Message):
    d: float = betterproto.double_field(1)
    s: str = betterproto.string_field(2)


@dataclass(eq=False, repr=False)
class Other(betterproto.Message):
    d: float = betterproto.double_field(1)
    s: str = betterproto.string_field(2)


@dataclass(eq=False, repr=False)
class Msg(betterproto.Message):
    i: int = betterproto.int32_field(1)
    d: float = betterproto.double_field(2)
    f: float = betterproto.float_field(3)
    s: str = betterproto.string_field(4)
    b: bytes = betterproto.bytes_field(5)
    flag: bool = betterproto.bool_field(6)
    e: Colour = betterproto.enum_field(7)
    child: Child = betterproto.message_field(8)
    ds: List[float] = betterproto.double_field(9)
    children: List[Child] = betterproto.message_field(10)
    m: Dict[str, float] = betterproto.map_field(
        11, betterproto.TYPE_STRING, betterproto.TYPE_DOUBLE
    )
    mc: Dict[int, Child] = betterproto.map_field(
        12, betterproto.TYPE_INT64, betterproto.TYPE_MESSAGE
    )
    oa: int = betterproto.sint64_field(13, group="g")
    ob: str = betterproto.string_field(14, group="g")
    oc: Child = betterproto.message_field(15, group="g")
    od: float = betterproto.double_field(16, group="g")
    opt_d: Optional[float] = betterproto.double_field(17, optional=True)
    opt_c: Optional[Child] = betterproto.message_field(18, optional=True)
    w: Optional[float] = betterproto.message_field(19, wraps=betterproto.TYPE_DOUBLE)


@dataclass(eq=False, repr=False)
class Tree(betterproto.Message):
    v: float = betterproto.double_field(1)
    left: "Tree" = betterproto.message_field(2)
    kids: List["Tree"] = betterproto.message_field(3)


def nan() -> float:
    # a fresh object every time: identity shortcuts must not be what makes it work
    return struct.unpack("<d", struct.pack("<d", float("nan")))[0]


def raw(msg: Message, name: str):
    return object.__getattribute__(msg, name)


# ---------------------------------------------------------------- hand-written
def eq(a, b) -> bool:
    r = a == b
    assert isinstance(r, bool)
    assert (a != b) is (not r)
    return r


assert eq(Msg(), Msg())
assert eq(Msg(i=0), Msg()) and eq(Msg(), Msg(i=0))
assert not eq(Msg(i=1), Msg()) and not eq(Msg(), Msg(i=1))
assert eq(Msg(s=""), Msg()) and eq(Msg(b=b""), Msg()) and eq(Msg(flag=False), Msg())
assert eq(Msg(e=Colour.ZERO), Msg()) and eq(Msg(e=0), Msg())
assert not eq(Msg(e=Colour.NEG), Msg()) and eq(Msg(e=-5), Msg(e=Colour.NEG))
assert eq(Msg(e=Colour.try_value(77)), Msg(e=77))
assert eq(Msg(i=1), Msg(i=True)) and eq(Msg(d=1), Msg(d=1.0))
assert eq(Msg(d=-0.0), Msg()) and eq(Msg(d=0.0), Msg(d=-0.0))
assert eq(Msg(d=math.inf), Msg(d=math.inf)) and not eq(Msg(d=math.inf), Msg(d=-math.inf))

# NaN in scalar float fields: equal to NaN, not to anything else, in both orders
assert eq(Msg(d=nan()), Msg(d=nan()))
assert eq(Msg(f=nan()), Msg(f=nan()))
x = Msg(d=nan())
assert eq(x, x)
assert not eq(Msg(d=nan()), Msg()) and not eq(Msg(), Msg(d=nan()))
assert not eq(Msg(d=nan()), Msg(d=0.0)) and not eq(Msg(d=1.5), Msg(d=nan()))
assert not eq(Msg(d=nan()), Msg(d=math.inf))
assert eq(Msg(opt_d=nan()), Msg(opt_d=nan()))
assert not eq(Msg(opt_d=nan()), Msg()) and not eq(Msg(), Msg(opt_d=nan()))
assert eq(Msg(od=nan()), Msg(od=nan()))
assert eq(Msg(w=nan()), Msg(w=nan())) and not eq(Msg(w=nan()), Msg(w=None))
# NaN one level down is handled by the child's own __eq__
assert eq(Msg(child=Child(d=nan())), Msg(child=Child(d=nan())))
assert eq(Msg(oc=Child(d=nan())), Msg(oc=Child(d=nan())))
assert not eq(Msg(child=Child(d=nan())), Msg())
assert not eq(Msg(child=Child(d=nan())), Msg(child=Child(d=nan(), s="x")))


class F(float):
    pass


assert eq(Msg(d=F("nan")), Msg(d=nan())) and eq(Msg(d=nan()), Msg(d=F("nan")))
# things that are "nan-like" but not floats stay unequal
assert not eq(Msg(d=Decimal("NaN")), Msg(d=Decimal("NaN")))
assert not eq(Msg(d=Decimal("NaN")), Msg(d=nan()))
assert not eq(Msg(d=nan()), Msg(d=Decimal("NaN")))
# containers compare with plain list / dict semantics (identity, then ==)
n1 = nan()
assert eq(Msg(ds=[n1]), Msg(ds=[n1]))
assert not eq(Msg(ds=[nan()]), Msg(ds=[nan()]))
assert eq(Msg(m={"k": n1}), Msg(m={"k": n1}))
assert not eq(Msg(m={"k": nan()}), Msg(m={"k": nan()}))
assert eq(Msg(children=[Child(d=nan())]), Msg(children=[Child(d=nan())]))
assert eq(Msg(mc={1: Child(d=nan())}), Msg(mc={1: Child(d=nan())}))
assert eq(Msg(ds=[]), Msg()) and eq(Msg(m={}), Msg()) and eq(Msg(children=[]), Msg())
assert not eq(Msg(ds=[0.0]), Msg()) and not eq(Msg(children=[Child()]), Msg())

# unset vs default, also for messages / lazily created children
assert eq(Msg(child=Child()), Msg()) and eq(Msg(), Msg(child=Child()))
assert eq(Msg(child=Child(d=0.0, s="")), Msg())
lazy = Msg()
assert raw(lazy, "child") is PLACEHOLDER
_ = lazy.child
assert raw(lazy, "child") is not PLACEHOLDER
assert eq(lazy, Msg()) and eq(Msg(), lazy)
lazy.child.s = "x"
assert not eq(lazy, Msg()) and not eq(Msg(), lazy) and eq(lazy, Msg(child=Child(s="x")))

# oneofs: equality is by value (an explicitly selected default equals unset)
assert eq(Msg(oa=0), Msg()) and eq(Msg(), Msg(oa=0))
assert eq(Msg(ob=""), Msg(oa=0))
assert not eq(Msg(oa=1), Msg(ob="1")) and not eq(Msg(oa=1), Msg())
sw = Msg(oa=5)
sw.ob = "x"
assert raw(sw, "oa") is PLACEHOLDER
assert eq(sw, Msg(ob="x")) and eq(Msg(ob="x"), sw) and not eq(sw, Msg(oa=5))

# optional: None is the default
assert eq(Msg(opt_d=None), Msg()) and not eq(Msg(opt_d=0.0), Msg())
assert not eq(Msg(opt_c=Child()), Msg()) and eq(Msg(opt_c=Child()), Msg(opt_c=Child(d=0.0)))
assert eq(Msg(w=None), Msg()) and not eq(Msg(w=0.0), Msg()) and eq(Msg(w=0.0), Msg(w=-0.0))

# other types
assert Child().__eq__(Other()) is NotImplemented
assert Child().__eq__(5) is NotImplemented and Child().__eq__(None) is NotImplemented
assert not (Child() == Other()) and Child() != Other()
assert not (Child() == 0) and Child() != b"" and not (Child() == {})
assert not eq(Msg(child=Other()), Msg(child=Child()))
assert not eq(Msg(child=Other()), Msg())


class Sub(Child):
    pass


assert Child().__eq__(Sub()) is NotImplemented and not (Sub() == Child())

# recursive types: two unset sub-trees are equal without building defaults forever
assert eq(Tree(), Tree())
assert eq(Tree(left=Tree()), Tree()) and eq(Tree(), Tree(left=Tree(left=Tree())))
assert not eq(Tree(left=Tree(left=Tree(v=1.0))), Tree(left=Tree()))
assert eq(Tree(left=Tree(v=nan())), Tree(left=Tree(v=nan())))
assert eq(Tree(kids=[Tree(v=nan())]), Tree(kids=[Tree(v=nan())]))


def chain(depth: int, leaf: float) -> Tree:
    t = Tree(v=leaf)
    for _ in range(depth):
        t = Tree(left=t)
    return t


# one Python frame per level, as deep as the encoder itself can go
old_limit = sys.getrecursionlimit()
assert eq(chain(150, nan()), chain(150, nan()))
assert not eq(chain(150, nan()), chain(150, 1.0))
assert not eq(chain(150, 2.0), chain(149, 2.0))
deep = chain(300, nan())  # deeper than anything bytes() can encode (~247 levels)
assert eq(deep, chain(300, nan())) and not eq(deep, chain(300, 0.5))
assert eq(chain(240, -0.0), Tree().parse(bytes(chain(240, -0.0))))
assert sys.getrecursionlimit() == old_limit


# each field is compared at most once, in declaration order, stopping at the
# first difference
class Probe:
    log: List[str] = []

    def __init__(self, tag, differs):
        self.tag, self.differs = tag, differs

    def __ne__(self, other):
        Probe.log.append(f"ne:{self.tag}")
        return self.differs

    def __eq__(self, other):
        Probe.log.append(f"eq:{self.tag}")
        return not self.differs


for differs_at in (None, "i", "s", "b", "w"):
    names = ["i", "s", "b", "w"]
    a = Msg(**{n: Probe(n, n == differs_at) for n in names})
    b = Msg(**{n: object() for n in names})
    Probe.log = []
    result = a.__eq__(b)
    assert result is (differs_at is None)
    stop = names.index(differs_at) + 1 if differs_at else len(names)
    assert Probe.log == [f"ne:{n}" for n in names[:stop]], Probe.log
# a probe on the other side is only consulted by the reflected operator
a = Msg(i=1)
b = Msg(i=Probe("r", False))
Probe.log = []
assert a.__eq__(b) is True and Probe.log == ["ne:r"]
# unset on one side: the default is what gets compared
Probe.log = []
assert Msg(s=Probe("s", False)).__eq__(Msg()) is True and Probe.log == ["ne:s"]
Probe.log = []
assert Msg().__eq__(Msg(s=Probe("s", True))) is False and Probe.log == ["ne:s"]


# ------------------------------------------------------------ reference model
def model_values_equal(a, b) -> bool:
    if isinstance(a, Message) or isinstance(b, Message):
        if type(a) is not type(b):
            return False
        return model_eq(a, b)
    if isinstance(a, list) and isinstance(b, list):
        return len(a) == len(b) and all(
            x is y or model_values_equal_strict(x, y) for x, y in zip(a, b)
        )
    if isinstance(a, dict) and isinstance(b, dict):
        return a.keys() == b.keys() and all(
            a[k] is b[k] or model_values_equal_strict(a[k], b[k]) for k in a
        )
    if isinstance(a, float) and isinstance(b, float) and a != a and b != b:
        return True
    return a == b


def model_values_equal_strict(a, b) -> bool:
    # inside containers there is no NaN tolerance for bare floats
    if isinstance(a, Message) or isinstance(b, Message):
        return model_values_equal(a, b)
    return a == b


def model_eq(a: Message, b: Message) -> bool:
    assert type(a) is type(b)
    for name in a._betterproto.meta_by_field_name:
        va, vb = raw(a, name), raw(b, name)
        if va is PLACEHOLDER and vb is PLACEHOLDER:
            continue
        if va is PLACEHOLDER:
            va = a._betterproto.default_gen[name]()
        if vb is PLACEHOLDER:
            vb = b._betterproto.default_gen[name]()
        if not model_values_equal(va, vb):
            return False
    return True


rng = random.Random(20240901)
FLOATS = [0.0, -0.0, 1.5, -2.25, math.inf, -math.inf, "nan", 1e308, 5e-324]
STRS = ["", "a", "\U0001f600", "nul\x00"]


def rfloat():
    v = rng.choice(FLOATS)
    return nan() if v == "nan" else v


def rchild(depth=0):
    kw = {}
    if rng.random() < 0.6:
        kw["d"] = rfloat()
    if rng.random() < 0.4:
        kw["s"] = rng.choice(STRS)
    return Child(**kw)


def rmsg() -> Msg:
    kw = {}
    p = rng.random
    if p() < 0.3:
        kw["i"] = rng.choice([0, 1, -1, 2**31 - 1, -(2**31)])
    if p() < 0.5:
        kw["d"] = rfloat()
    if p() < 0.3:
        kw["f"] = rng.choice([0.0, 0.5, math.inf, nan()])
    if p() < 0.3:
        kw["s"] = rng.choice(STRS)
    if p() < 0.2:
        kw["b"] = rng.choice([b"", b"\x00", b"\xff" * 3])
    if p() < 0.2:
        kw["flag"] = rng.choice([False, True])
    if p() < 0.3:
        kw["e"] = rng.choice([Colour.ZERO, Colour.RED, Colour.NEG, Colour.try_value(9)])
    if p() < 0.4:
        kw["child"] = rchild()
    if p() < 0.3:
        kw["ds"] = [rfloat() for _ in range(rng.randrange(3))]
    if p() < 0.3:
        kw["children"] = [rchild() for _ in range(rng.randrange(3))]
    if p() < 0.3:
        kw["m"] = {rng.choice(STRS): rfloat() for _ in range(rng.randrange(3))}
    if p() < 0.3:
        kw["mc"] = {rng.choice([0, 1, -1]): rchild() for _ in range(rng.randrange(3))}
    q = p()
    if q < 0.15:
        kw["oa"] = rng.choice([0, -1, 2**63 - 1, -(2**63)])
    elif q < 0.3:
        kw["ob"] = rng.choice(STRS)
    elif q < 0.45:
        kw["oc"] = rchild()
    elif q < 0.6:
        kw["od"] = rfloat()
    if p() < 0.3:
        kw["opt_d"] = rng.choice([None, 0.0, nan(), 1.5])
    if p() < 0.3:
        kw["opt_c"] = rng.choice([None, Child(), rchild()])
    if p() < 0.3:
        kw["w"] = rng.choice([None, 0.0, nan(), -1.0])
    return Msg(**kw)


pool = [rmsg() for _ in range(400)]
checked = equal_pairs = 0
for _ in range(6000):
    a, b = rng.choice(pool), rng.choice(pool)
    if rng.random() < 0.25:
        b = copy.deepcopy(a)
    expected = model_eq(a, b)
    assert eq(a, b) is expected, (a, b, expected)
    assert eq(b, a) is model_eq(b, a)
    checked += 1
    equal_pairs += expected
assert equal_pairs > 500 and checked - equal_pairs > 500, (checked, equal_pairs)


# ------------------------------------------------ the property, through __eq__
def has_container_nan(m: Msg) -> bool:
    def bad(v):
        return isinstance(v, float) and v != v

    ds = raw(m, "ds")
    mm = raw(m, "m")
    return (ds is not PLACEHOLDER and any(bad(v) for v in ds)) or (
        mm is not PLACEHOLDER and any(bad(v) for v in mm.values())
    )


round_trips = 0
for m in pool:
    if "f" in m.__dict__ and raw(m, "f") is not PLACEHOLDER:
        pass  # the float32 values used above are all exactly representable
    data = bytes(m)
    back = Msg().parse(data)
    assert bytes(back) == data
    if has_container_nan(m):
        # bare NaN inside list / map never compares equal (plain container semantics)
        assert not eq(back, m) and not model_eq(back, m)
        continue
    assert eq(back, m) and eq(m, back), (m, back)
    assert model_eq(back, m)
    assert betterproto.which_one_of(back, "g")[0] == betterproto.which_one_of(m, "g")[0]
    round_trips += 1
assert round_trips > 200, round_trips

t = chain(60, nan())
t.left.kids.append(Tree(v=-math.inf))
assert eq(Tree().parse(bytes(t)), t)

print("OK", checked, equal_pairs, round_trips)
