"""C11 keep1 equivalence check: compile/importing.py reference helpers.

1. The library's parse_source_type_name / reference_* / get_type_reference are compared
   with an embedded copy of the reference implementation over a large grid of package
   pairs and type names (returned reference string AND the set of import lines).
2. End to end: services whose request / response types live in the same package, a child,
   a grandchild, the parent, the root (no package), a cousin, an unrelated tree and
   google.protobuf are generated, imported and called through an in-process grpclib
   channel for all four cardinalities.
"""
import asyncio
import contextlib
import importlib
import io
import itertools
import os
import re
import sys
import tempfile

from google.protobuf import descriptor_pb2 as d
from google.protobuf.compiler import plugin_pb2

import betterproto.plugin.compiler as plugin_compiler

plugin_compiler.subprocess.check_output = lambda cmd, input, encoding: input

import grpclib
from grpclib.testing import ChannelFor

from betterproto.casing import safe_snake_case
from betterproto.compile import importing
from betterproto.compile.naming import pythonize_class_name
from betterproto.lib.google.protobuf.compiler import CodeGeneratorRequest
from betterproto.plugin.parser import generate_code
from betterproto.plugin.typing_compiler import DirectImportTypingCompiler


# --------------------------------------------------------------------------- oracle
def o_parse_source_type_name(field_type_name):
    package_match = re.match(r"^\.?([^A-Z]+)\.(.+)", field_type_name)
    if package_match:
        package = package_match.group(1)
        name = package_match.group(2)
    else:
        package = ""
        name = field_type_name.lstrip(".")
    return package, name


def o_reference_absolute(imports, py_package, py_type):
    string_import = ".".join(py_package)
    string_alias = safe_snake_case(string_import)
    imports.add(f"import {string_import} as {string_alias}")
    return f'"{string_alias}.{py_type}"'


def o_reference_sibling(py_type):
    return f'"{py_type}"'


def o_reference_descendent(current_package, imports, py_package, py_type):
    importing_descendent = py_package[len(current_package) :]
    string_from = ".".join(importing_descendent[:-1])
    string_import = importing_descendent[-1]
    if string_from:
        string_alias = "_".join(importing_descendent)
        imports.add(f"from .{string_from} import {string_import} as {string_alias}")
        return f'"{string_alias}.{py_type}"'
    else:
        imports.add(f"from . import {string_import}")
        return f'"{string_import}.{py_type}"'


def o_reference_ancestor(current_package, imports, py_package, py_type):
    distance_up = len(current_package) - len(py_package)
    if py_package:
        string_import = py_package[-1]
        string_alias = f"_{'_' * distance_up}{string_import}__"
        string_from = f"..{'.' * distance_up}"
        imports.add(f"from {string_from} import {string_import} as {string_alias}")
        return f'"{string_alias}.{py_type}"'
    else:
        string_alias = f"{'_' * distance_up}{py_type}__"
        imports.add(f"from .{'.' * distance_up} import {py_type} as {string_alias}")
        return f'"{string_alias}"'


def o_reference_cousin(current_package, imports, py_package, py_type):
    shared_ancestry = os.path.commonprefix([current_package, py_package])
    distance_up = len(current_package) - len(shared_ancestry)
    string_from = f".{'.' * distance_up}" + ".".join(
        py_package[len(shared_ancestry) : -1]
    )
    string_import = py_package[-1]
    string_alias = (
        f"{'_' * distance_up}"
        + safe_snake_case(".".join(py_package[len(shared_ancestry) :]))
        + "__"
    )
    imports.add(f"from {string_from} import {string_import} as {string_alias}")
    return f'"{string_alias}.{py_type}"'


def o_get_type_reference(*, package, imports, source_type, pydantic=False):
    # unwrap=False flavour, the one the service compiler uses
    source_package, source_type = o_parse_source_type_name(source_type)
    current_package = package.split(".") if package else []
    py_package = source_package.split(".") if source_package else []
    py_type = pythonize_class_name(source_type)
    compiling_google_protobuf = current_package == ["google", "protobuf"]
    importing_google_protobuf = py_package == ["google", "protobuf"]
    if importing_google_protobuf and not compiling_google_protobuf:
        py_package = (
            ["betterproto", "lib"] + (["pydantic"] if pydantic else []) + py_package
        )
    if py_package[:1] == ["betterproto"]:
        return o_reference_absolute(imports, py_package, py_type)
    if py_package == current_package:
        return o_reference_sibling(py_type)
    if py_package[: len(current_package)] == current_package:
        return o_reference_descendent(current_package, imports, py_package, py_type)
    if current_package[: len(py_package)] == py_package:
        return o_reference_ancestor(current_package, imports, py_package, py_type)
    return o_reference_cousin(current_package, imports, py_package, py_type)


# ------------------------------------------------------------------ 1. grid comparison
def check_parse():
    names = [
        "", ".", "Msg", ".Msg", "a.Msg", ".a.Msg", ".a.b.Msg", "a.b.c.Msg.Inner",
        ".a.b.Msg.Inner.Deep", ".a_b.c1.Msg", "lower", ".lower", "a.lower", ".a.b.lower",
        ".google.protobuf.Empty", ".google.protobuf.Timestamp", "..Msg", ".a..Msg",
        "a.B.c.D", ".x.y.z", "A", ".A.B", "a.b.", ".a.b.C.", "ünï.Code", ".a.Ünï",
        ".1a.2b.Msg", "a b.Msg", ".a.MSG", ".a.mSG", "\n.a.Msg", ".a.Msg\n",
    ]
    for n in names:
        assert importing.parse_source_type_name(n) == o_parse_source_type_name(n), n
    comps = ["a", "b1", "c_d", "Msg", "Inner", "x"]
    count = 0
    for k in range(1, 5):
        for parts in itertools.product(comps, repeat=k):
            for lead in ("", "."):
                n = lead + ".".join(parts)
                assert importing.parse_source_type_name(n) == o_parse_source_type_name(n), n
                count += 1
    return count


def packages(components, max_depth):
    out = [[]]
    for k in range(1, max_depth + 1):
        out.extend(list(p) for p in itertools.product(components, repeat=k))
    return out


def check_reference_helpers():
    comps = ["a", "b", "c_d", "a1", "pkg"]
    pkgs = packages(comps, 3) + [
        ["google", "protobuf"], ["google"], ["google", "protobuf", "compiler"],
        ["betterproto", "lib", "google", "protobuf"], ["a", "b", "c_d", "a1", "pkg"],
        ["a", "b", "c_d", "a1"], ["a", "b", "x", "y", "z"], ["import"], ["a", "class"],
    ]
    py_types = ["Msg", "OuterInner", "Type_", "None_"]
    n = 0
    for cur in pkgs:
        for ref in pkgs:
            for py_type in py_types[: 2 if len(cur) + len(ref) > 4 else 4]:
                # every helper on every pair for which it is defined (same exception
                # otherwise)
                for name in ("reference_descendent", "reference_ancestor", "reference_cousin"):
                    got_imports, want_imports = set(), set()
                    try:
                        want = getattr(sys.modules[__name__], "o_" + name)(
                            list(cur), want_imports, list(ref), py_type
                        )
                    except Exception as err:
                        want = type(err)
                    try:
                        got = getattr(importing, name)(
                            list(cur), got_imports, list(ref), py_type
                        )
                    except Exception as err:
                        got = type(err)
                    # out-of-domain pairs (helper used for the wrong relationship) are
                    # only required to agree when the reference implementation succeeds
                    if isinstance(want, str):
                        assert got == want, (name, cur, ref, py_type, got, want)
                        assert got_imports == want_imports, (name, cur, ref, got_imports, want_imports)
                        n += 1
                if ref:
                    gi, wi = set(), set()
                    assert importing.reference_absolute(gi, list(ref), py_type) == o_reference_absolute(wi, list(ref), py_type)
                    assert gi == wi
                assert importing.reference_sibling(py_type) == o_reference_sibling(py_type)
    return n


def check_get_type_reference():
    comps = ["a", "b", "c_d", "pkg"]
    pkgs = packages(comps, 3) + [
        ["google", "protobuf"], ["google"], ["google", "protobuf", "compiler"],
        ["a", "b", "c_d", "pkg", "a"], ["a", "b", "c_d", "pkg"],
    ]
    type_names = ["Msg", "Outer.Inner", "HTTPRequest", "snake_Case", "None", "Empty",
                  "Timestamp", "StringValue"]
    tc = DirectImportTypingCompiler()
    n = 0
    for cur in pkgs:
        for ref in pkgs:
            for tn in type_names:
                source_type = "." + ".".join(ref + [tn])
                for pydantic in (False, True):
                    gi, wi = set(), set()
                    got = importing.get_type_reference(
                        package=".".join(cur), imports=gi, source_type=source_type,
                        typing_compiler=tc, unwrap=False, pydantic=pydantic,
                    )
                    want = o_get_type_reference(
                        package=".".join(cur), imports=wi, source_type=source_type,
                        pydantic=pydantic,
                    )
                    assert got == want, (cur, ref, tn, got, want)
                    assert gi == wi, (cur, ref, tn, gi, wi)
                    n += 1
    # imports accumulate into one set exactly as before
    gi, wi = set(), set()
    for cur in pkgs[:20]:
        for ref in pkgs:
            st = "." + ".".join(ref + ["Msg"])
            importing.get_type_reference(package=".".join(cur), imports=gi, source_type=st,
                                         typing_compiler=tc, unwrap=False)
            o_get_type_reference(package=".".join(cur), imports=wi, source_type=st)
    assert gi == wi
    return n


# ------------------------------------------------------------------------ 2. end to end
STRING = d.FieldDescriptorProto.TYPE_STRING
INT32 = d.FieldDescriptorProto.TYPE_INT32
OPTIONAL = d.FieldDescriptorProto.LABEL_OPTIONAL

# (package, message name) for every relationship seen from package "root.mid"
HOME = "root.mid"
TYPE_HOMES = {
    "sibling": ("root.mid", "Local"),
    "child": ("root.mid.kid", "Child"),
    "grandchild": ("root.mid.kid.deep_er", "GrandChild"),
    "parent": ("root", "Parent"),
    "rootpkg": ("", "Rootless"),
    "cousin": ("root.other.leaf", "Cousin"),
    "nephew": ("root.side", "Side"),
    "foreign": ("elsewhere.x1", "Foreign"),
}


def simple_message(name):
    m = d.DescriptorProto(name=name)
    m.field.add(name="text", number=1, type=STRING, label=OPTIONAL)
    m.field.add(name="count", number=2, type=INT32, label=OPTIONAL)
    return m


def full_name(kind):
    package, name = TYPE_HOMES[kind]
    return "." + (package + "." if package else "") + name


def build_request():
    files = {}
    for kind, (package, name) in TYPE_HOMES.items():
        f = files.setdefault(
            package,
            d.FileDescriptorProto(
                name=(package.replace(".", "_") or "rootless") + ".proto",
                package=package, syntax="proto3",
            ),
        )
        f.message_type.append(simple_message(name))
    home = files[HOME]
    kinds = list(TYPE_HOMES)
    # one service per request-type home; the reply type rotates through the homes
    plan = {}
    for i, req_kind in enumerate(kinds):
        rep_kind = kinds[(i + 3) % len(kinds)]
        service = home.service.add(name=f"Svc{req_kind.capitalize()}")
        for mname, cs, ss in [("CallUU", False, False), ("CallUS", False, True),
                              ("CallSU", True, False), ("CallSS", True, True)]:
            service.method.add(name=mname, input_type=full_name(req_kind),
                               output_type=full_name(rep_kind),
                               client_streaming=cs, server_streaming=ss)
        plan[service.name] = (req_kind, rep_kind)
    # well-known types from a different home package
    wk = files["root.side"].service.add(name="WellKnown")
    wk.method.add(name="Ping", input_type=".google.protobuf.Empty",
                  output_type=".google.protobuf.StringValue")
    wk.method.add(name="Ticks", input_type=".google.protobuf.Timestamp",
                  output_type=".google.protobuf.Duration", server_streaming=True)
    wk.method.add(name="Sum", input_type=".google.protobuf.Int32Value",
                  output_type="." + HOME + ".Local", client_streaming=True)
    raw = plugin_pb2.CodeGeneratorRequest()
    for f in files.values():
        raw.file_to_generate.append(f.name)
        raw.proto_file.append(f)
    return CodeGeneratorRequest().parse(raw.SerializeToString()), plan


def materialise(response, top):
    root = tempfile.mkdtemp(prefix="c11keep1")
    for out in response.file:
        path = os.path.join(root, top, out.name)
        os.makedirs(os.path.dirname(path), exist_ok=True)
        with open(path, "w") as fh:
            fh.write(out.content)
    sys.path.insert(0, root)


def module_of(top, package):
    return importlib.import_module(top + ("." + package if package else ""))


async def agen(items):
    for item in items:
        yield item


async def end_to_end():
    request, plan = build_request()
    with contextlib.redirect_stderr(io.StringIO()):
        response = generate_code(request)
    top = "c11keep1gen"
    materialise(response, top)
    home = module_of(top, HOME)
    classes = {k: getattr(module_of(top, p), n) for k, (p, n) in TYPE_HOMES.items()}
    checked = 0

    for service_name, (req_kind, rep_kind) in plan.items():
        Req, Rep = classes[req_kind], classes[rep_kind]
        Base = getattr(home, service_name + "Base")
        Stub = getattr(home, service_name + "Stub")
        calls = []

        class Impl(Base):
            async def call_uu(self, request):
                assert type(request) is Req
                calls.append(("uu", request))
                return Rep(text="uu:" + request.text, count=request.count)

            async def call_us(self, request):
                assert type(request) is Req
                calls.append(("us", request))
                for i in range(request.count):
                    yield Rep(text="us:" + request.text, count=i)

            async def call_su(self, request_iterator):
                got = [r async for r in request_iterator]
                assert all(type(r) is Req for r in got)
                calls.append(("su", got))
                return Rep(text="+".join(r.text for r in got), count=len(got))

            async def call_ss(self, request_iterator):
                async for r in request_iterator:
                    assert type(r) is Req
                    calls.append(("ss", r))
                    for i in range(r.count):
                        yield Rep(text="ss:" + r.text, count=i)

        # generated handler argument names follow the request type; call positionally
        async with ChannelFor([Impl()]) as channel:
            stub = Stub(channel)
            for n in range(4):
                calls.clear()
                q = Req(text=f"{req_kind}{n}", count=n)
                got = await stub.call_uu(q)
                assert type(got) is Rep and got == Rep(text="uu:" + q.text, count=n)
                assert calls == [("uu", q)]

                calls.clear()
                got = [r async for r in stub.call_us(q)]
                assert got == [Rep(text="us:" + q.text, count=i) for i in range(n)]
                assert all(type(r) is Rep for r in got)
                assert calls == [("us", q)]

                for source in (list, agen):
                    calls.clear()
                    qs = [Req(text=f"m{i}", count=i) for i in range(n)]
                    got = await stub.call_su(source(qs))
                    assert got == Rep(text="+".join(x.text for x in qs), count=n)
                    assert calls == [("su", qs)]

                    if n:
                        calls.clear()
                        got = [r async for r in stub.call_ss(source(qs))]
                        want = [Rep(text="ss:" + x.text, count=i) for x in qs for i in range(x.count)]
                        assert got == want, (got, want)
                        assert calls == [("ss", x) for x in qs]
                checked += 1

        # nothing overridden -> UNIMPLEMENTED
        async with ChannelFor([Base()]) as channel:
            stub = Stub(channel)
            try:
                await stub.call_uu(Req(text="x"))
            except grpclib.GRPCError as err:
                assert err.status is grpclib.const.Status.UNIMPLEMENTED
            else:
                raise AssertionError("expected UNIMPLEMENTED")

    # well-known types
    import datetime

    import betterproto.lib.google.protobuf as wkt

    side = module_of(top, "root.side")
    Local = classes["sibling"]

    class WK(side.WellKnownBase):
        async def ping(self, request):
            assert type(request) is wkt.Empty
            return wkt.StringValue(value="pong")

        async def ticks(self, request):
            assert type(request) is wkt.Timestamp
            for i in range(request.seconds):
                yield wkt.Duration(seconds=i, nanos=request.nanos)

        async def sum(self, request_iterator):
            values = [r.value async for r in request_iterator]
            return Local(text=",".join(map(str, values)), count=sum(values))

    async with ChannelFor([WK()]) as channel:
        stub = side.WellKnownStub(channel)
        assert await stub.ping(wkt.Empty()) == wkt.StringValue(value="pong")
        got = [x async for x in stub.ticks(wkt.Timestamp(seconds=3, nanos=5))]
        assert got == [wkt.Duration(seconds=i, nanos=5) for i in range(3)]
        got = await stub.sum([wkt.Int32Value(value=v) for v in (1, 0, 41)])
        assert got == Local(text="1,0,41", count=42)
        assert await stub.sum([]) == Local(text="", count=0)
    return checked


n1 = check_parse()
n2 = check_reference_helpers()
n3 = check_get_type_reference()
with contextlib.redirect_stderr(io.StringIO()):
    n4 = asyncio.run(asyncio.wait_for(end_to_end(), 90))
print(f"C11 keep1 equiv: OK ({n1} names, {n2} helper calls, {n3} references, {n4} service rounds)")
