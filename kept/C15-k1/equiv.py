"""Equivalence check for _Timestamp.from_datetime / timestamp_to_json (property C15).

Compares against google.protobuf's Timestamp for many datetimes (boundaries, random
instants over years 0001-9999, fixed UTC offsets) and against an independent oracle
for every possible microsecond value."""
import random
from dataclasses import dataclass
from datetime import datetime, timedelta, timezone

import betterproto
from betterproto import _Timestamp
from google.protobuf import timestamp_pb2

UTC = timezone.utc
EPOCH = datetime(1970, 1, 1, tzinfo=UTC)
MIN = datetime(1, 1, 1, tzinfo=UTC)
MAX = datetime(9999, 12, 31, 23, 59, 59, 999999, tzinfo=UTC)
SPAN_US = (MAX - MIN) // timedelta(microseconds=1)


@dataclass(eq=False, repr=False)
class Holder(betterproto.Message):
    ts: datetime = betterproto.message_field(1)


def oracle_pair(dt):
    """(seconds, nanos) by pure integer calendar arithmetic, independent of timedelta //."""
    off = dt.utcoffset()
    off_us = (off.days * 86400 + off.seconds) * 10**6 + off.microseconds
    days = dt.toordinal() - 719163  # date(1970, 1, 1).toordinal()
    us = ((days * 86400 + dt.hour * 3600 + dt.minute * 60 + dt.second) * 10**6
          + dt.microsecond - off_us)
    seconds, rem = divmod(us, 10**6)
    return seconds, rem * 1000


def oracle_json(dt):
    us = dt.microsecond
    if dt.tzinfo is not None:
        dt = dt.astimezone(UTC)
    head = "%04d-%02d-%02dT%02d:%02d:%02d" % (
        dt.year, dt.month, dt.day, dt.hour, dt.minute, dt.second)
    if us == 0:
        return head + "Z"
    if us % 1000 == 0:
        return head + ".%03dZ" % (us // 1000)
    return head + ".%06dZ" % us


def check(dt, *, reference=True):
    ts = _Timestamp.from_datetime(dt)
    assert type(ts) is _Timestamp
    assert type(ts.seconds) is int and type(ts.nanos) is int
    assert (ts.seconds, ts.nanos) == oracle_pair(dt), (dt, ts)
    assert 0 <= ts.nanos < 10**9
    if reference:
        ref = timestamp_pb2.Timestamp()
        ref.FromDatetime(dt)
        assert (ts.seconds, ts.nanos) == (ref.seconds, ref.nanos), (dt, ts, ref)
        # wire bytes decoded by the reference
        ref2 = timestamp_pb2.Timestamp.FromString(bytes(ts))
        assert (ref2.seconds, ref2.nanos) == (ref.seconds, ref.nanos)
        assert _Timestamp.timestamp_to_json(dt) == ref.ToJsonString(), dt
    # round trip
    back = Holder().parse(bytes(Holder(ts=dt))).ts
    if dt == EPOCH:
        assert back == EPOCH
    assert back == dt and back.utcoffset() == timedelta(0), (dt, back)
    assert ts.to_datetime() == dt
    # JSON
    js = _Timestamp.timestamp_to_json(dt)
    assert js == oracle_json(dt), (dt, js)
    d = Holder(ts=dt).to_dict()
    if dt != EPOCH:
        assert d == {"ts": js}, d
        assert Holder().from_dict(d).ts == dt
    else:
        assert d == {}


rng = random.Random(15)
cases = [
    MIN, MAX, EPOCH,
    EPOCH + timedelta(microseconds=1), EPOCH - timedelta(microseconds=1),
    EPOCH + timedelta(seconds=1), EPOCH - timedelta(seconds=1),
    EPOCH + timedelta(milliseconds=1), EPOCH - timedelta(milliseconds=1),
    MIN + timedelta(microseconds=1), MAX - timedelta(microseconds=1),
    MAX.replace(microsecond=0), MAX.replace(microsecond=999000),
    datetime(999, 12, 31, 23, 59, 59, 999999, tzinfo=UTC),
    datetime(1000, 1, 1, tzinfo=UTC),
    datetime(2038, 1, 19, 3, 14, 7, tzinfo=UTC), datetime(2038, 1, 19, 3, 14, 8, tzinfo=UTC),
    datetime(1901, 12, 13, 20, 45, 52, tzinfo=UTC),
    EPOCH + timedelta(microseconds=2**53), EPOCH + timedelta(microseconds=2**53 + 1),
    EPOCH + timedelta(microseconds=2**53 - 1), EPOCH - timedelta(microseconds=2**53 + 1),
    EPOCH + timedelta(seconds=2**31), EPOCH + timedelta(seconds=2**32),
    EPOCH + timedelta(seconds=2**32, microseconds=999999),
]
for _ in range(20000):
    dt = MIN + timedelta(microseconds=rng.randrange(SPAN_US + 1))
    kind = rng.randrange(4)
    if kind == 0:
        dt = dt.replace(microsecond=0)
    elif kind == 1:
        dt = dt.replace(microsecond=rng.randrange(1000) * 1000)
    elif kind == 2:
        dt = dt.replace(microsecond=rng.choice([1, 999, 1000, 1001, 999999, 999000, 500000]))
    cases.append(dt)
for dt in cases:
    check(dt)

# fixed UTC offsets (whole minutes, as the reference and RFC 3339 support)
offsets = [timedelta(hours=h, minutes=m) * s
           for h in (0, 1, 5, 9, 12, 14, 23) for m in (0, 30, 45, 59) for s in (1, -1)]
for _ in range(8000):
    off = rng.choice(offsets)
    base = MIN + timedelta(days=2) + timedelta(
        microseconds=rng.randrange(SPAN_US - 4 * 86400 * 10**6))
    if rng.random() < 0.3:
        base = base.replace(microsecond=rng.choice([0, 1000, 999000, 1, 999999]))
    dt = base.astimezone(timezone(off))
    assert dt == base
    check(dt)
    a, b = _Timestamp.from_datetime(dt), _Timestamp.from_datetime(base)
    assert (a.seconds, a.nanos) == (b.seconds, b.nanos)
    assert _Timestamp.timestamp_to_json(dt) == _Timestamp.timestamp_to_json(base)

# offsets with a sub-minute / sub-second part: oracle only (the reference has no notion of them)
for off in (timedelta(seconds=1), timedelta(seconds=-1), timedelta(hours=3, seconds=17),
            timedelta(hours=-3, seconds=-17)):
    for _ in range(500):
        base = MIN + timedelta(days=2) + timedelta(
            microseconds=rng.randrange(SPAN_US - 4 * 86400 * 10**6))
        check(base.astimezone(timezone(off)), reference=False)
for off in (timedelta(microseconds=250000), timedelta(microseconds=-1),
            timedelta(hours=2, microseconds=999999)):
    for _ in range(300):
        base = MIN + timedelta(days=2) + timedelta(
            microseconds=rng.randrange(SPAN_US - 4 * 86400 * 10**6))
        dt = base.astimezone(timezone(off))
        ts = _Timestamp.from_datetime(dt)
        assert (ts.seconds, ts.nanos) == oracle_pair(dt)
        assert _Timestamp.timestamp_to_json(dt) == oracle_json(dt)

# every microsecond value, naive and aware, for the fractional-digit selection
for us in range(10**6):
    dt = datetime(2021, 3, 4, 5, 6, 7, us)
    js = _Timestamp.timestamp_to_json(dt)
    if us == 0:
        exp = "2021-03-04T05:06:07Z"
    elif us % 1000 == 0:
        exp = "2021-03-04T05:06:07.%03dZ" % (us // 1000)
    else:
        exp = "2021-03-04T05:06:07.%06dZ" % us
    assert js == exp, (us, js)
    if us % 997 == 0:
        aware = dt.replace(tzinfo=timezone(timedelta(hours=-8)))
        assert _Timestamp.timestamp_to_json(aware) == exp.replace("T05", "T13"), aware

# naive datetimes: JSON treats the wall clock as UTC, encoding rejects them
assert _Timestamp.timestamp_to_json(datetime(5, 6, 7, 8, 9, 10, 1000)) == "0005-06-07T08:09:10.001Z"
try:
    _Timestamp.from_datetime(datetime(2020, 1, 1))
except TypeError:
    pass
else:
    raise AssertionError("naive datetime must be rejected")

# from_datetime stays callable with one positional argument on class and instance
assert _Timestamp.from_datetime(EPOCH) == _Timestamp()
assert bytes(_Timestamp.from_datetime(EPOCH)) == b""

print("C15 keep1 equiv: OK (%d instants)" % len(cases))
