"""C02 keep1: the varint writers (dump_varint / encode_varint / size_varint) against an
independent spec-level encoder and against google.protobuf."""
import io
import random
from dataclasses import dataclass
from typing import List, Dict

import betterproto
from betterproto import dump_varint, encode_varint, size_varint, decode_varint
from google.protobuf import descriptor_pb2, descriptor_pool, message_factory
from google.protobuf.internal import encoder as pb_encoder

rng = random.Random(20260205)


def spec_varint(n: int) -> bytes:
    """base-128, little endian groups, two's complement 64 bit for negatives"""
    assert -(1 << 63) <= n
    if n < 0:
        n += 1 << 64
    out = []
    while True:
        group = n % 128
        n //= 128
        if n:
            out.append(group + 128)
        else:
            out.append(group)
            return bytes(out)


def pb_varint(n: int) -> bytes:
    buf = []
    (pb_encoder._SignedVarintEncoder() if n < 0 else pb_encoder._VarintEncoder())(
        buf.append, n
    )
    return b"".join(buf)


class CountingStream:
    def __init__(self):
        self.data = b""

    def write(self, b):
        assert isinstance(b, (bytes, bytearray))
        self.data += bytes(b)
        return len(b)


# ------------------------------------------------------------------ values
values = set()
for k in range(0, 71):
    for d in (-2, -1, 0, 1, 2):
        v = (1 << k) + d
        if v < (1 << 64):
            values.add(v)
        if -v >= -(1 << 63):
            values.add(-v)
for k in range(1, 10):
    values.update({(1 << (7 * k)) - 1, 1 << (7 * k), (1 << (7 * k)) + 1})
values.update(range(-300, 1000))
values.update({0, 1, 127, 128, 255, 256, 16383, 16384, 2**31 - 1, 2**31, 2**32 - 1,
               2**32, 2**63 - 1, 2**63, 2**64 - 1, -1, -2**31, -2**31 - 1, -2**63,
               -2**63 + 1})
for _ in range(20000):
    bits = rng.randrange(1, 65)
    values.add(rng.getrandbits(bits))
    values.add(-rng.getrandbits(min(bits, 63)))
values = sorted(v for v in values if -(1 << 63) <= v < (1 << 64))

checked = 0
for v in values:
    want = spec_varint(v)
    got = encode_varint(v)
    assert type(got) is bytes
    assert got == want, (v, got, want)
    assert got == pb_varint(v), v
    assert size_varint(v) == len(want), (v, size_varint(v), len(want))
    assert isinstance(size_varint(v), int)
    # stream forms
    bio = io.BytesIO()
    assert dump_varint(v, bio) is None
    assert bio.getvalue() == want
    cs = CountingStream()
    dump_varint(v, cs)
    assert cs.data == want
    # appends after existing content
    bio = io.BytesIO()
    bio.write(b"\xff")
    dump_varint(v, bio)
    dump_varint(v, bio)
    assert bio.getvalue() == b"\xff" + want + want
    # round trip through the reader
    val, pos = decode_varint(want, 0)
    assert pos == len(want) and val == (v if v >= 0 else v + (1 << 64))
    # shape: continuation bits on all but the last byte, minimal length
    assert all(b & 0x80 for b in got[:-1]) and not got[-1] & 0x80
    assert len(got) == 1 or got[-1] != 0
    assert len(got) <= 10
    checked += 1

# bools and int subclasses behave like ints
assert encode_varint(True) == b"\x01" and encode_varint(False) == b"\x00"
assert size_varint(True) == 1 and size_varint(False) == 1


class Colour(betterproto.Enum):
    ZERO = 0
    BIG = 2**31 - 1
    NEG = -5
    MIN = -(2**31)


for member in Colour:
    assert encode_varint(member) == spec_varint(int(member))
    assert size_varint(member) == len(spec_varint(int(member)))
    assert type(encode_varint(member)) is bytes

# values beyond 64 bits are not part of the wire format, but the writers stay consistent
for v in (2**64, 2**64 + 1, 2**70, 2**100 + 12345):
    assert encode_varint(v) == spec_varint(v)
    assert size_varint(v) == len(spec_varint(v))

# error path: too negative -> ValueError, nothing written
for v in (-(2**63) - 1, -(2**64), -(2**100)):
    for fn in (encode_varint, size_varint):
        try:
            fn(v)
        except ValueError as e:
            assert "64-bit" in str(e)
        else:
            raise AssertionError(("no error", fn, v))
    bio = io.BytesIO()
    try:
        dump_varint(v, bio)
    except ValueError:
        pass
    else:
        raise AssertionError("no error")
    assert bio.getvalue() == b""
for bad in (1.5, "3", None):
    for fn in (encode_varint, size_varint):
        try:
            fn(bad)
        except (TypeError, AttributeError):
            pass
        else:
            raise AssertionError(("no error", fn, bad))


# ------------------------------------------------------------------ whole messages
@dataclass(eq=False, repr=False)
class Inner(betterproto.Message):
    a: int = betterproto.int64_field(1)
    s: str = betterproto.string_field(16)


@dataclass(eq=False, repr=False)
class Vars(betterproto.Message):
    i32: int = betterproto.int32_field(1)
    i64: int = betterproto.int64_field(2)
    u32: int = betterproto.uint32_field(3)
    u64: int = betterproto.uint64_field(4)
    s32: int = betterproto.sint32_field(5)
    s64: int = betterproto.sint64_field(6)
    b: bool = betterproto.bool_field(7)
    e: Colour = betterproto.enum_field(8)
    r_i32: List[int] = betterproto.int32_field(15)
    r_i64: List[int] = betterproto.int64_field(16)
    r_u64: List[int] = betterproto.uint64_field(2047)
    r_s64: List[int] = betterproto.sint64_field(2048)
    r_e: List[Colour] = betterproto.enum_field(300000)
    r_b: List[bool] = betterproto.bool_field(536870911)
    text: str = betterproto.string_field(17)
    blob: bytes = betterproto.bytes_field(18)
    inner: Inner = betterproto.message_field(19)
    r_inner: List[Inner] = betterproto.message_field(20)
    m: Dict[int, int] = betterproto.map_field(21, betterproto.TYPE_INT64, betterproto.TYPE_UINT64)


F = descriptor_pb2.FieldDescriptorProto
fdp = descriptor_pb2.FileDescriptorProto(name="c02_keep1.proto", package="c02keep1", syntax="proto3")
en = fdp.enum_type.add(name="Colour")
for n, v in (("ZERO", 0), ("BIG", 2**31 - 1), ("NEG", -5), ("MIN", -(2**31))):
    en.value.add(name=n, number=v)
inner = fdp.message_type.add(name="Inner")
inner.field.add(name="a", number=1, type=F.TYPE_INT64, label=F.LABEL_OPTIONAL)
inner.field.add(name="s", number=16, type=F.TYPE_STRING, label=F.LABEL_OPTIONAL)
msg = fdp.message_type.add(name="Vars")
O, R = F.LABEL_OPTIONAL, F.LABEL_REPEATED
for name, num, typ, lab, tn in [
    ("i32", 1, F.TYPE_INT32, O, None), ("i64", 2, F.TYPE_INT64, O, None),
    ("u32", 3, F.TYPE_UINT32, O, None), ("u64", 4, F.TYPE_UINT64, O, None),
    ("s32", 5, F.TYPE_SINT32, O, None), ("s64", 6, F.TYPE_SINT64, O, None),
    ("b", 7, F.TYPE_BOOL, O, None), ("e", 8, F.TYPE_ENUM, O, ".c02keep1.Colour"),
    ("r_i32", 15, F.TYPE_INT32, R, None), ("r_i64", 16, F.TYPE_INT64, R, None),
    ("r_u64", 2047, F.TYPE_UINT64, R, None), ("r_s64", 2048, F.TYPE_SINT64, R, None),
    ("r_e", 300000, F.TYPE_ENUM, R, ".c02keep1.Colour"),
    ("r_b", 536870911, F.TYPE_BOOL, R, None),
    ("text", 17, F.TYPE_STRING, O, None), ("blob", 18, F.TYPE_BYTES, O, None),
    ("inner", 19, F.TYPE_MESSAGE, O, ".c02keep1.Inner"),
    ("r_inner", 20, F.TYPE_MESSAGE, R, ".c02keep1.Inner"),
    ("m", 21, F.TYPE_MESSAGE, R, ".c02keep1.Vars.MEntry"),
]:
    f = msg.field.add(name=name, number=num, type=typ, label=lab)
    if tn:
        f.type_name = tn
entry = msg.nested_type.add(name="MEntry")
entry.options.map_entry = True
entry.field.add(name="key", number=1, type=F.TYPE_INT64, label=O)
entry.field.add(name="value", number=2, type=F.TYPE_UINT64, label=O)
pool = descriptor_pool.Default()
pool.Add(fdp)
RefVars = message_factory.GetMessageClass(pool.FindMessageTypeByName("c02keep1.Vars"))

I32 = [0, 1, -1, 127, 128, -128, 2**31 - 1, -(2**31), 300, -300, 16383, 16384]
I64 = I32 + [2**31, -(2**31) - 1, 2**63 - 1, -(2**63), 2**35, -(2**35), 2**56 - 1, 2**56]
U32 = [0, 1, 127, 128, 2**32 - 1, 2**31, 2**21 - 1, 2**21, 2**28, 2**28 - 1]
U64 = U32 + [2**32, 2**63, 2**64 - 1, 2**49 - 1, 2**49, 2**63 - 1]
ENUMS = list(Colour)
SCALARS = ["i32", "i64", "u32", "u64", "s32", "s64", "b", "e"]


def pick(pool_):
    return rng.choice(pool_)


def rand_fields():
    d = {}
    for name, src in (("i32", I32), ("i64", I64), ("u32", U32), ("u64", U64),
                      ("s32", I32), ("s64", I64)):
        if rng.random() < 0.7:
            d[name] = pick(src)
    if rng.random() < 0.5:
        d["b"] = True
    if rng.random() < 0.6:
        d["e"] = pick(ENUMS)
    for name, src in (("r_i32", I32), ("r_i64", I64), ("r_u64", U64), ("r_s64", I64)):
        if rng.random() < 0.6:
            d[name] = [pick(src) for _ in range(rng.choice([1, 2, 5, 20, 130]))]
    if rng.random() < 0.5:
        d["r_e"] = [pick(ENUMS) for _ in range(rng.randrange(1, 6))]
    if rng.random() < 0.5:
        d["r_b"] = [rng.random() < 0.5 for _ in range(rng.randrange(1, 200))]
    if rng.random() < 0.6:
        d["text"] = "é" * rng.choice([0, 1, 63, 64, 127, 128, 200, 8191, 8192, 20000])
    if rng.random() < 0.6:
        d["blob"] = bytes(rng.getrandbits(8) for _ in range(rng.choice([1, 127, 128, 16383, 16384])))
    if rng.random() < 0.6:
        d["inner"] = dict(a=pick(I64), s="x" * rng.choice([0, 1, 127, 128, 300]))
    if rng.random() < 0.5:
        d["r_inner"] = [dict(a=pick(I64), s="y" * rng.choice([0, 5, 130]))
                        for _ in range(rng.randrange(1, 4))]
    if rng.random() < 0.5:
        d["m"] = {pick(I64): pick(U64) for _ in range(rng.randrange(1, 5))}
    return d


def make_bp(d):
    kw = dict(d)
    if "inner" in kw:
        kw["inner"] = Inner(**kw["inner"])
    if "r_inner" in kw:
        kw["r_inner"] = [Inner(**x) for x in kw["r_inner"]]
    return Vars(**kw)


def make_ref(d):
    r = RefVars()
    for k, v in d.items():
        if k == "inner":
            r.inner.a = v["a"]
            r.inner.s = v["s"]
            r.inner.SetInParent()
        elif k == "r_inner":
            for x in v:
                r.r_inner.add(a=x["a"], s=x["s"])
        elif k == "m":
            for kk, vv in v.items():
                r.m[kk] = vv
        elif isinstance(v, list):
            getattr(r, k).extend([int(x) for x in v])
        else:
            setattr(r, k, int(v) if k == "e" else v)
    return r


def same(bp, ref):
    for k in SCALARS + ["text", "blob"]:
        assert getattr(bp, k) == getattr(ref, k), k
    for k in ("r_i32", "r_i64", "r_u64", "r_s64", "r_e", "r_b"):
        assert [int(x) for x in getattr(bp, k)] == [int(x) for x in getattr(ref, k)], k
    assert (bp.inner.a, bp.inner.s) == (ref.inner.a, ref.inner.s)
    assert [(x.a, x.s) for x in bp.r_inner] == [(x.a, x.s) for x in ref.r_inner]
    assert dict(bp.m) == dict(ref.m)


for it in range(1500):
    d = rand_fields()
    bp, ref = make_bp(d), make_ref(d)
    data = bytes(bp)
    assert len(bp) == len(data)
    same(bp, RefVars.FromString(data))            # betterproto -> reference
    assert RefVars.FromString(data) == ref
    ref_data = ref.SerializeToString(deterministic=True)
    same(Vars().parse(ref_data), ref)             # reference -> betterproto
    if "m" not in d or len(d["m"]) <= 1:
        # declaration order differs from field-number order only for 15..21 / 2047..;
        # compare as multisets of records by re-parsing with the reference instead
        assert RefVars.FromString(data).SerializeToString(deterministic=True) == ref_data
    # size-delimited framing uses dump_varint for the prefix
    bio = io.BytesIO()
    bp.dump(bio, betterproto.SIZE_DELIMITED)
    assert bio.getvalue() == spec_varint(len(data)) + data
    bio.seek(0)
    again = Vars().load(bio, betterproto.SIZE_DELIMITED)
    assert bytes(again) == data

# every scalar type at every boundary, one field at a time, byte-exact vs reference
for name, src in (("i32", I32), ("i64", I64), ("u32", U32), ("u64", U64), ("s32", I32),
                  ("s64", I64)):
    for v in src:
        bp = Vars(**{name: v})
        ref = RefVars(**{name: v})
        assert bytes(bp) == ref.SerializeToString(), (name, v)
        assert len(bp) == ref.ByteSize()
        rname = "r_" + name
        if rname in Vars.__dataclass_fields__:
            bp = Vars(**{rname: [v, v]})
            ref = RefVars(**{rname: [v, v]})
            assert bytes(bp) == ref.SerializeToString(), (rname, v)
            assert len(bp) == ref.ByteSize()
for e in ENUMS:
    assert bytes(Vars(e=e)) == RefVars(e=int(e)).SerializeToString()
    assert bytes(Vars(r_e=[e, e])) == RefVars(r_e=[int(e), int(e)]).SerializeToString()

print("ok:", checked, "varint values, 1500 random messages")
