"""C17 equivalence check for the refactor "one decode table per field number".

Exercises the part of Message.load that decides, for every occurrence on the
wire, whether the field number is known and whether the wire type fits the
declared type (-> decode into the field) or not (-> keep as unknown field):

  * every field kind x every wire type x several payloads, appended and
    prepended to a valid encoding, checked against a hand written table of
    which (kind, wire type) pairs fit, and against google.protobuf;
  * field numbers that are unknown (small, large, next to known ones);
  * all truncation points of a valid encoding;
  * single byte corruptions and random byte strings, whose complete outcome
    (exception type + text, or re-encoded bytes + unknown bytes) is hashed and
    compared with the digest obtained from the reference tree.
"""
import hashlib
import random
import struct
import sys
from dataclasses import dataclass
from datetime import datetime, timezone
from typing import Dict, List, Optional

import betterproto
from betterproto import Message

# --------------------------------------------------------------------------- schema


class Colour(betterproto.Enum):
    ZERO = 0
    RED = 1
    BLUE = 2
    NEG = -3


@dataclass(eq=False, repr=False)
class Sub(Message):
    x: int = betterproto.int32_field(1)
    y: str = betterproto.string_field(2)


@dataclass(eq=False, repr=False)
class Kitchen(Message):
    a: int = betterproto.int32_field(1)
    b: int = betterproto.int64_field(2)
    c: int = betterproto.uint32_field(3)
    d: int = betterproto.uint64_field(4)
    e: int = betterproto.sint32_field(5)
    f: int = betterproto.sint64_field(6)
    g: bool = betterproto.bool_field(7)
    h: Colour = betterproto.enum_field(8)
    i: int = betterproto.fixed32_field(9)
    j: int = betterproto.sfixed32_field(10)
    k: float = betterproto.float_field(11)
    l: int = betterproto.fixed64_field(12)
    m: int = betterproto.sfixed64_field(13)
    n: float = betterproto.double_field(14)
    s: str = betterproto.string_field(15)
    t: bytes = betterproto.bytes_field(16)
    sub: Sub = betterproto.message_field(17)
    mp: Dict[str, int] = betterproto.map_field(
        18, betterproto.TYPE_STRING, betterproto.TYPE_INT32
    )
    ra: List[int] = betterproto.int32_field(19)
    ri: List[int] = betterproto.fixed32_field(20)
    rn: List[float] = betterproto.double_field(21)
    rs: List[str] = betterproto.string_field(22)
    rsub: List[Sub] = betterproto.message_field(23)
    oa: int = betterproto.int32_field(24, group="choice")
    ob: str = betterproto.string_field(25, group="choice")
    opt: Optional[int] = betterproto.int32_field(26, optional=True)
    ts: datetime = betterproto.message_field(27)
    wrapped: Optional[int] = betterproto.message_field(28, wraps=betterproto.TYPE_INT32)
    re: List[Colour] = betterproto.enum_field(29)
    rb: List[bool] = betterproto.bool_field(30)
    rz: List[int] = betterproto.sint64_field(31)
    far: int = betterproto.sint32_field(1000)


VARINT, FIXED64, LEN, FIXED32 = 0, 1, 2, 5
# number -> (name, wire types that fit the declared type)
FITS = {
    1: ("a", {VARINT}), 2: ("b", {VARINT}), 3: ("c", {VARINT}), 4: ("d", {VARINT}),
    5: ("e", {VARINT}), 6: ("f", {VARINT}), 7: ("g", {VARINT}), 8: ("h", {VARINT}),
    9: ("i", {FIXED32}), 10: ("j", {FIXED32}), 11: ("k", {FIXED32}),
    12: ("l", {FIXED64}), 13: ("m", {FIXED64}), 14: ("n", {FIXED64}),
    15: ("s", {LEN}), 16: ("t", {LEN}), 17: ("sub", {LEN}), 18: ("mp", {LEN}),
    19: ("ra", {VARINT, LEN}), 20: ("ri", {FIXED32, LEN}), 21: ("rn", {FIXED64, LEN}),
    22: ("rs", {LEN}), 23: ("rsub", {LEN}), 24: ("oa", {VARINT}), 25: ("ob", {LEN}),
    26: ("opt", {VARINT}), 27: ("ts", {LEN}), 28: ("wrapped", {LEN}),
    29: ("re", {VARINT, LEN}), 30: ("rb", {VARINT, LEN}), 31: ("rz", {VARINT, LEN}),
    1000: ("far", {VARINT}),
}
UNKNOWN_NUMBERS = [32, 33, 99, 999, 1001, 12345, 2**29 - 1]
NAMES = [name for name, _ in FITS.values()]
assert sorted(FITS) == sorted(
    betterproto.FieldMetadata.get(fld).number
    for fld in __import__("dataclasses").fields(Kitchen)
)

# ------------------------------------------------------------------ reference schema
from google.protobuf import descriptor_pb2, descriptor_pool, message_factory
from google.protobuf import timestamp_pb2, wrappers_pb2  # noqa: F401
from google.protobuf.message import DecodeError

F = descriptor_pb2.FieldDescriptorProto
fdp = descriptor_pb2.FileDescriptorProto(
    name="c17_keep1_kitchen.proto", package="c17k1", syntax="proto3",
    dependency=["google/protobuf/timestamp.proto", "google/protobuf/wrappers.proto"],
)
en = fdp.enum_type.add(name="Colour")
for nm, num in (("ZERO", 0), ("RED", 1), ("BLUE", 2), ("NEG", -3)):
    en.value.add(name=nm, number=num)
sm = fdp.message_type.add(name="Sub")
sm.field.add(name="x", number=1, type=F.TYPE_INT32, label=F.LABEL_OPTIONAL)
sm.field.add(name="y", number=2, type=F.TYPE_STRING, label=F.LABEL_OPTIONAL)
km = fdp.message_type.add(name="Kitchen")
entry = km.nested_type.add(name="MpEntry")
entry.options.map_entry = True
entry.field.add(name="key", number=1, type=F.TYPE_STRING, label=F.LABEL_OPTIONAL)
entry.field.add(name="value", number=2, type=F.TYPE_INT32, label=F.LABEL_OPTIONAL)
km.oneof_decl.add(name="choice")
km.oneof_decl.add(name="_opt")
O, R = F.LABEL_OPTIONAL, F.LABEL_REPEATED
for name, number, typ, label, extra in [
    ("a", 1, F.TYPE_INT32, O, {}), ("b", 2, F.TYPE_INT64, O, {}),
    ("c", 3, F.TYPE_UINT32, O, {}), ("d", 4, F.TYPE_UINT64, O, {}),
    ("e", 5, F.TYPE_SINT32, O, {}), ("f", 6, F.TYPE_SINT64, O, {}),
    ("g", 7, F.TYPE_BOOL, O, {}),
    ("h", 8, F.TYPE_ENUM, O, {"type_name": ".c17k1.Colour"}),
    ("i", 9, F.TYPE_FIXED32, O, {}), ("j", 10, F.TYPE_SFIXED32, O, {}),
    ("k", 11, F.TYPE_FLOAT, O, {}), ("l", 12, F.TYPE_FIXED64, O, {}),
    ("m", 13, F.TYPE_SFIXED64, O, {}), ("n", 14, F.TYPE_DOUBLE, O, {}),
    ("s", 15, F.TYPE_STRING, O, {}), ("t", 16, F.TYPE_BYTES, O, {}),
    ("sub", 17, F.TYPE_MESSAGE, O, {"type_name": ".c17k1.Sub"}),
    ("mp", 18, F.TYPE_MESSAGE, R, {"type_name": ".c17k1.Kitchen.MpEntry"}),
    ("ra", 19, F.TYPE_INT32, R, {}), ("ri", 20, F.TYPE_FIXED32, R, {}),
    ("rn", 21, F.TYPE_DOUBLE, R, {}), ("rs", 22, F.TYPE_STRING, R, {}),
    ("rsub", 23, F.TYPE_MESSAGE, R, {"type_name": ".c17k1.Sub"}),
    ("oa", 24, F.TYPE_INT32, O, {"oneof_index": 0}),
    ("ob", 25, F.TYPE_STRING, O, {"oneof_index": 0}),
    ("opt", 26, F.TYPE_INT32, O, {"oneof_index": 1, "proto3_optional": True}),
    ("ts", 27, F.TYPE_MESSAGE, O, {"type_name": ".google.protobuf.Timestamp"}),
    ("wrapped", 28, F.TYPE_MESSAGE, O, {"type_name": ".google.protobuf.Int32Value"}),
    ("re", 29, F.TYPE_ENUM, R, {"type_name": ".c17k1.Colour"}),
    ("rb", 30, F.TYPE_BOOL, R, {}), ("rz", 31, F.TYPE_SINT64, R, {}),
    ("far", 1000, F.TYPE_SINT32, O, {}),
]:
    km.field.add(name=name, number=number, type=typ, label=label, **extra)
pool = descriptor_pool.Default()
pool.Add(fdp) if hasattr(pool, "Add") else pool.AddSerializedFile(fdp.SerializeToString())
RefKitchen = message_factory.GetMessageClass(pool.FindMessageTypeByName("c17k1.Kitchen"))


def ref_decode(data: bytes):
    try:
        return RefKitchen.FromString(data)
    except DecodeError:
        return None


# ------------------------------------------------------------------------- helpers
def varint(v: int) -> bytes:
    out = bytearray()
    while True:
        b = v & 0x7F
        v >>= 7
        if v:
            out.append(b | 0x80)
        else:
            out.append(b)
            return bytes(out)


def tag(number: int, wt: int) -> bytes:
    return varint(number << 3 | wt)


def ld(payload: bytes) -> bytes:
    return varint(len(payload)) + payload


INT_NAMES = "a b c d e f i j l m oa far".split()
UNSET = "<unset>"


def peek(msg: Message, name: str):
    """Value of a field, or UNSET for a oneof member that is not selected."""
    try:
        return getattr(msg, name)
    except AttributeError:
        return UNSET


def check_types(msg: Kitchen) -> None:
    """Every field holds a value of its declared Python type."""
    for nm in INT_NAMES:
        v = peek(msg, nm)
        if nm == "oa" and v is UNSET:
            continue
        assert type(v) is int, (nm, v)
    assert type(msg.g) is bool
    assert isinstance(msg.h, Colour)
    assert type(msg.k) is float and type(msg.n) is float
    assert type(msg.s) is str and type(msg.t) is bytes
    assert type(msg.sub) is Sub and type(msg.sub.x) is int and type(msg.sub.y) is str
    assert type(msg.mp) is dict
    assert all(type(k) is str and type(v) is int for k, v in msg.mp.items())
    assert all(type(v) is int for v in msg.ra + msg.ri + msg.rz)
    assert all(type(v) is float for v in msg.rn)
    assert all(type(v) is str for v in msg.rs)
    assert all(type(v) is Sub for v in msg.rsub)
    assert all(isinstance(v, Colour) for v in msg.re)
    assert all(type(v) is bool for v in msg.rb)
    assert msg.opt is None or type(msg.opt) is int
    assert msg.wrapped is None or type(msg.wrapped) is int
    assert isinstance(msg.ts, datetime)
    ob = peek(msg, "ob")
    assert ob is UNSET or type(ob) is str


def snapshot(msg: Kitchen) -> dict:
    """Comparable picture of all known fields (via the public serializer)."""
    snap = {}
    for nm in NAMES:
        v = peek(msg, nm)
        if v is UNSET:
            snap[nm] = UNSET
        elif isinstance(v, Message):
            snap[nm] = ("msg", bytes(v), v._serialized_on_wire)
        elif isinstance(v, list):
            snap[nm] = [bytes(x) if isinstance(x, Message) else repr(x) for x in v]
        else:
            snap[nm] = repr(v)
    return snap


def decode(data: bytes):
    try:
        msg = Kitchen().parse(data)
    except Exception as exc:  # noqa: BLE001
        return None, exc
    return msg, None


def outcome(data: bytes) -> str:
    msg, exc = decode(data)
    if exc is not None:
        return f"ERR {type(exc).__name__}: {exc}"
    check_types(msg)
    out = bytes(msg)
    assert len(msg) == len(out)
    again = Kitchen().parse(out)
    assert bytes(again) == out
    return f"OK {out.hex()} U {msg._unknown_fields.hex()} S {sorted(snapshot(msg).items())}"


# ---------------------------------------------------------------- a valid encoding
base = Kitchen(
    a=-5, b=-(2**40), c=4000000000, d=2**63 + 5, e=-77, f=-(2**50), g=True,
    h=Colour.BLUE, i=0xDEADBEEF, j=-123456, k=1.5, l=2**60 + 1, m=-(2**55), n=-2.25,
    s="héllo", t=b"\x00\xff\x10", sub=Sub(x=3, y="sub"), mp={"k": 9},
    ra=[1, -2, 300], ri=[7, 8], rn=[0.5, -1e300], rs=["p", "q"],
    rsub=[Sub(x=1), Sub(y="z")], ob="choice", opt=0,
    ts=datetime(2020, 2, 3, 4, 5, 6, 789000, tzinfo=timezone.utc), wrapped=0,
    re=[Colour.RED, Colour.NEG], rb=[True, False], rz=[-1, 2**40], far=-9,
)
base_wire = bytes(base)
base_msg, err = decode(base_wire)
assert err is None
check_types(base_msg)
assert bytes(base_msg) == base_wire and base_msg._unknown_fields == b""
base_snap = snapshot(base_msg)
empty_snap = snapshot(Kitchen())
ref_base = ref_decode(base_wire)
assert ref_base is not None
assert bytes(Kitchen().parse(ref_base.SerializeToString())) == base_wire

# ------------------------------------------- 1. wire type substitution on each kind
PAYLOADS = {
    VARINT: [varint(v) for v in (0, 1, 2, 127, 128, 2**31, 2**32 - 1, 2**63, 2**64 - 1)],
    FIXED32: [struct.pack("<I", v) for v in (0, 1, 0x7FC00000, 0xFFFFFFFF)],
    FIXED64: [struct.pack("<Q", v) for v in (0, 1, 0x7FF8000000000000, 2**64 - 1)],
    LEN: [ld(p) for p in (
        b"", b"\x01", b"\x08\x01", b"abc", b"\x08\x96\x01", b"\x0a\x01k\x10\x05",
        b"\x00" * 4, b"\x00" * 8, b"\x01\x02\x03\x04\x05\x06\x07\x08" * 2,
        b"\xff", b"\x80", b"\xc3\x28", b"\x12\x02hi",
    )],
}
stats = {"fit": 0, "isolated": 0, "rejected": 0, "ref_agree": 0, "ref_disagree": 0,
         "ref_same_value": 0}
digest1 = hashlib.sha256()
for number in sorted(FITS) + UNKNOWN_NUMBERS:
    name, fits = FITS.get(number, (None, set()))
    for wt in (VARINT, FIXED64, LEN, FIXED32):
        for payload in PAYLOADS[wt]:
            occ = tag(number, wt) + payload
            for data in (base_wire + occ, occ + base_wire, occ + occ):
                msg, exc = decode(data)
                ref = ref_decode(data)
                digest1.update(outcome(data).encode())
                if wt not in fits:
                    # unknown number or mismatching wire type: isolated, never
                    # rejected, never touching a known field
                    assert exc is None, (number, wt, payload, exc)
                    check_types(msg)
                    n_occ = 2 if data == occ + occ else 1
                    assert msg._unknown_fields == occ * n_occ, (number, wt, payload)
                    expect = base_snap if base_wire in data else empty_snap
                    assert snapshot(msg) == expect, (number, wt, payload)
                    assert bytes(msg) == (base_wire if base_wire in data else b"") + occ * n_occ
                    assert ref is not None, (number, wt, payload)
                    stats["isolated"] += 1
                    stats["ref_agree"] += 1
                    continue
                if exc is not None:
                    assert isinstance(exc, (ValueError, EOFError, struct.error, OverflowError)), exc
                    stats["rejected"] += 1
                else:
                    check_types(msg)
                    assert msg._unknown_fields == b"", (number, wt, payload)
                    snap = snapshot(msg)
                    expect = base_snap if base_wire in data else empty_snap
                    for other in NAMES:
                        if other == name or {other, name} == {"oa", "ob"}:
                            continue
                        assert snap[other] == expect[other], (number, wt, payload, other)
                    again = Kitchen().parse(bytes(msg))
                    assert bytes(again) == bytes(msg)
                    stats["fit"] += 1
                if (exc is None) == (ref is not None):
                    stats["ref_agree"] += 1
                    if exc is None:
                        via_ref = Kitchen().parse(ref.SerializeToString())
                        # (recorded only: the reference truncates over-wide
                        # varints to the declared width, betterproto does not)
                        stats["ref_same_value"] += snapshot(via_ref) == snapshot(msg)
                else:
                    stats["ref_disagree"] += 1
print("substitution:", stats, digest1.hexdigest()[:16])
assert stats["isolated"] > 1000 and stats["fit"] > 500 and stats["rejected"] > 20

# a number that is known in the sub-message but not in the parent, and vice versa
m, exc = decode(tag(17, LEN) + ld(tag(2, VARINT) + b"\x05" + tag(1, LEN) + ld(b"zz")))
assert exc is None and m.sub.x == 0 and m.sub.y == ""
assert m.sub._unknown_fields == tag(2, VARINT) + b"\x05" + tag(1, LEN) + ld(b"zz")
assert m._unknown_fields == b"" and m.a == 0 and m.b == 0

# two fields that (wrongly) share a number: the later declaration owns the number
@dataclass(eq=False, repr=False)
class Dup(Message):
    first: int = betterproto.int32_field(1)
    second: str = betterproto.string_field(1)
    many: List[int] = betterproto.uint32_field(2)
    one: int = betterproto.uint32_field(2)


d = Dup().parse(tag(1, LEN) + ld(b"hi") + tag(1, VARINT) + b"\x07" + tag(2, LEN) + ld(b"\x01\x02"))
assert d.second == "hi" and d.first == 0 and d.one == 0 and d.many == []
assert d._unknown_fields == tag(1, VARINT) + b"\x07" + tag(2, LEN) + ld(b"\x01\x02")
d = Dup().parse(tag(2, VARINT) + b"\x05")
assert d.one == 5 and d.many == [] and d._unknown_fields == b""


# --------------------------------------------------------- 2. all truncation points
boundaries = {0}
pos = 0
for fld in betterproto.parse_fields(base_wire):
    pos += len(fld.raw)
    boundaries.add(pos)
assert pos == len(base_wire)
for cut in range(len(base_wire) + 1):
    msg, exc = decode(base_wire[:cut])
    ref = ref_decode(base_wire[:cut])
    if cut in boundaries:
        assert exc is None and ref is not None, cut
        assert bytes(msg) == base_wire[:cut] or cut < len(base_wire)
    else:
        assert isinstance(exc, EOFError), (cut, exc)
        assert ref is None, cut
print("truncation: ok", len(base_wire), "cut points,", len(boundaries), "boundaries")

# ------------------------------------- 3. single byte corruptions, 4. random strings
digest2 = hashlib.sha256()
agree = total = 0
for at in range(len(base_wire)):
    for mask in (0x01, 0x03, 0x08, 0x80):
        data = bytearray(base_wire)
        data[at] ^= mask
        data = bytes(data)
        res = outcome(data)
        digest2.update(res.encode())
        total += 1
        agree += res.startswith("OK") == (ref_decode(data) is not None)
rng = random.Random(17)
for _ in range(3000):
    n = rng.choice((1, 2, 3, 4, 6, 9, 14, 30))
    data = bytes(rng.randrange(256) for _ in range(n))
    res = outcome(data)
    digest2.update(res.encode())
    total += 1
    agree += res.startswith("OK") == (ref_decode(data) is not None)
# random sequences of well-formed fields with arbitrary numbers and wire types
pool_numbers = sorted(FITS) + UNKNOWN_NUMBERS
for _ in range(1500):
    parts = []
    for _ in range(rng.randrange(1, 6)):
        wt = rng.choice((VARINT, FIXED64, LEN, FIXED32))
        parts.append(tag(rng.choice(pool_numbers), wt) + rng.choice(PAYLOADS[wt]))
    data = b"".join(parts)
    res = outcome(data)
    digest2.update(res.encode())
    total += 1
    agree += res.startswith("OK") == (ref_decode(data) is not None)
print("fuzz:", total, "inputs, accept/reject agreement with google.protobuf:", agree)
print("digests:", digest1.hexdigest(), digest2.hexdigest())

EXPECTED = ("e24a46e130b81c3b8398143ab2dec33acc0310c376390c51abfb364821624fd3",
            "e12708a9b6028a26564a5ab8b5871b48884ed9d8e3b02350fe74ecdf3e4f5610")
if "--print" not in sys.argv:
    assert (digest1.hexdigest(), digest2.hexdigest()) == EXPECTED, "outcomes changed"
print("equiv ok")
