"""
C12 equivalence check (flush-signal representation / flush loop / receiver mapping).

Exercises AsyncChannel under many randomly generated schedules of small
configurations (senders x items x receivers using receive() or async-for, close()
at any point, unbounded and bounded buffers, cancellation of one receiver) and
checks the C12 property at quiescence, followed by targeted checks of the flush
signal: number of released receivers, no surplus signal, odd / falsy items are
ordinary items, timeouts and cancellation of blocked receivers.

Run as:  PYTHONPATH=/tmp/wt/R10C12/src /venv/bin/python equiv.py
"""
import asyncio
import random

from betterproto.grpc.grpclib_client import ServiceStub
from betterproto.grpc.util.async_channel import (
    AsyncChannel,
    ChannelClosed,
    ChannelDone,
)


WAIT = 5.0


async def run_config(seed):
    """Runs one randomly generated small configuration under one randomly generated
    schedule (random numbers of event-loop yields between the steps of every task),
    checks the C12 property at quiescence and returns the event trace."""
    rng = random.Random(seed)
    n_senders = rng.randint(1, 2)
    n_items = rng.randint(1, 3)
    n_receivers = rng.randint(1, 3)
    buffer_limit = rng.choice([0, 0, 1, 2])
    modes = [rng.choice(["receive", "iter"]) for _ in range(n_receivers)]
    use_send_from = [rng.random() < 0.3 for _ in range(n_senders)]
    close_via_send_from = rng.random() < 0.15
    cancel_target = rng.randrange(n_receivers) if rng.random() < 0.5 else None
    double_close = rng.random() < 0.3
    max_yield = rng.choice([1, 2, 4, 8])

    channel = AsyncChannel(buffer_limit=buffer_limit)
    trace = []
    completed = []  # items whose send completed before the channel was closed
    maybe = []  # items whose send completed, but not clearly before the close
    rejected = []
    attempted = []
    received = []  # global receive log

    def plan(n=None):
        return rng.randint(0, max_yield if n is None else n)

    async def pause(n):
        for _ in range(n):
            await asyncio.sleep(0)

    async def sender(sid, pauses, batch):
        items = [(sid, i) for i in range(n_items)]
        if batch:
            await pause(pauses[0])
            was_closed = channel.closed()
            attempted.extend(items)
            try:
                await channel.send_from(items, close=close_via_send_from and sid == 0)
            except ChannelClosed:
                assert channel.closed()
                trace.append(("send_from-rejected", sid))
                rejected.extend(items)
                return
            assert not was_closed, "send_from on a closed channel was accepted"
            trace.append(("send_from-done", sid))
            # individual completion is not observable: with an unbounded buffer
            # the whole batch is enqueued atomically
            if buffer_limit == 0:
                completed.extend(items)
            else:
                maybe.extend(items)
            return
        for item, n in zip(items, pauses):
            await pause(n)
            was_closed = channel.closed()
            attempted.append(item)
            try:
                await channel.send(item)
            except ChannelClosed:
                assert channel.closed()
                trace.append(("send-rejected", item))
                rejected.append(item)
                continue
            assert not was_closed, "send on a closed channel was accepted"
            if channel.closed():
                maybe.append(item)
            else:
                completed.append(item)
            trace.append(("sent", item))

    async def receiver(rid, mode, pauses):
        pauses = iter(pauses)
        if mode == "iter":
            await pause(next(pauses))
            async for item in channel:
                trace.append(("got", rid, item))
                received.append(item)
                await pause(next(pauses))
            trace.append(("iter-end", rid))
            return
        while True:
            await pause(next(pauses))
            if channel.done():
                trace.append(("done", rid))
                return
            try:
                item = await channel.receive()
            except ChannelDone:
                trace.append(("channel-done", rid))
                return
            if item is None:
                assert channel.closed(), "receive() returned None on an open channel"
                trace.append(("none", rid))
                continue
            trace.append(("got", rid, item))
            received.append(item)

    async def closer(n, again):
        await pause(n)
        channel.close()
        trace.append(("close",))
        assert channel.closed()
        if again is not None:
            await pause(again)
            channel.close()
            trace.append(("close-again",))

    async def canceller(n, task):
        await pause(n)
        trace.append(("cancel", task.done()))
        task.cancel()

    senders = [
        asyncio.ensure_future(
            sender(s, [plan() for _ in range(n_items)], use_send_from[s])
        )
        for s in range(n_senders)
    ]
    receivers = [
        asyncio.ensure_future(
            receiver(r, modes[r], [plan() for _ in range(40)])
        )
        for r in range(n_receivers)
    ]
    others = [
        asyncio.ensure_future(
            closer(plan(3 * max_yield), plan() if double_close else None)
        )
    ]
    if cancel_target is not None:
        others.append(
            asyncio.ensure_future(
                canceller(plan(3 * max_yield), receivers[cancel_target])
            )
        )

    # quiescence: closer / canceller finish on their own; every receiver must terminate
    done, pending = await asyncio.wait(others, timeout=WAIT)
    assert not pending
    for t in done:
        t.result()
    done, pending = await asyncio.wait(receivers, timeout=WAIT)
    assert not pending, f"stranded receivers: {pending} (seed {seed})"
    for idx, t in enumerate(receivers):
        if t.cancelled():
            assert idx == cancel_target, "a receiver nobody cancelled was cancelled"
            trace.append(("receiver-cancelled", idx))
        else:
            t.result()  # re-raises unexpected errors
    # give senders that are merely behind (not blocked) the time to finish
    for _ in range(200):
        if all(t.done() for t in senders):
            break
        await asyncio.sleep(0)
    # the channel stays usable: whatever is left is still receivable
    while True:
        while not channel.done():
            try:
                item = await asyncio.wait_for(channel.receive(), WAIT)
            except ChannelDone:
                break
            if item is not None:
                trace.append(("drained", item))
                received.append(item)
        await pause(5)
        if channel.done():
            break
    assert channel.done()
    # senders: all finished, except ones blocked on a full bounded buffer
    for t in senders:
        if not t.done():
            assert buffer_limit > 0
            t.cancel()
    await asyncio.wait(senders, timeout=WAIT)
    for t in senders:
        if not t.cancelled():
            t.result()
    # later sends are rejected
    for send in (channel.send("x"), channel.send_from(["x"]), channel.send_from([])):
        try:
            await send
        except ChannelClosed:
            pass
        else:
            raise AssertionError("send on a closed channel was accepted")
    try:
        await channel.receive()
    except ChannelDone:
        pass
    else:
        raise AssertionError("receive on a done channel did not raise ChannelDone")
    assert [x async for x in channel] == []

    # exactly once, nothing invented, order per sender
    assert len(received) == len(set(received)), f"duplicate delivery {received}"
    for item in received:
        assert item in attempted, f"invented item {item!r}"
        assert item not in rejected, f"rejected item was delivered {item!r}"
    for item in completed:
        assert item in received, f"lost item {item!r} (seed {seed}): {trace}"
    for s in range(n_senders):
        mine = [i for (sid, i) in received if sid == s]
        assert mine == sorted(mine), f"out of order {received}"
    return trace


async def settle(n=6):
    for _ in range(n):
        await asyncio.sleep(0)


async def recv_once(channel, mode):
    """One receive step; returns ('item', x) | ('none',) | ('end',) | ('done',)"""
    if mode == "receive":
        try:
            item = await channel.receive()
        except ChannelDone:
            return ("done",)
        return ("none",) if item is None else ("item", item)
    try:
        return ("item", await channel.__anext__())
    except StopAsyncIteration:
        return ("end",)


async def assert_exhausted(channel):
    """closed, drained, and no surplus flush signal is left behind"""
    assert channel.closed() and channel.done()
    try:
        await channel.receive()
    except ChannelDone:
        pass
    else:
        raise AssertionError("receive() on a done channel must raise ChannelDone")
    assert [x async for x in channel] == []
    assert channel.done()


async def check_stranded_receivers():
    """k blocked receivers, j items sent, then close: the first min(j, k) receivers
    get the items, every other one is released exactly once, nothing is left over."""
    count = 0
    for buffer_limit in (0, 1, 2, 3):
        for k in range(0, 6):
            for j in range(0, 4):
                if buffer_limit and j > buffer_limit:
                    continue
                for gap in (0, 1, 3):  # yields between the sends and the close
                    for pattern in range(3):
                        modes = [
                            ("receive", "iter")[(i + pattern) % 2 if pattern else 0]
                            for i in range(k)
                        ]
                        channel = AsyncChannel(buffer_limit=buffer_limit)
                        tasks = [
                            asyncio.ensure_future(recv_once(channel, m)) for m in modes
                        ]
                        await settle(2)
                        assert not channel.done()
                        for i in range(j):
                            await channel.send(("it", i))
                        await settle(gap)
                        channel.close()
                        done, pending = await asyncio.wait(tasks, timeout=5) if tasks else ((), ())
                        assert not pending, (buffer_limit, k, j, gap, modes)
                        results = [t.result() for t in tasks]
                        expect = [("item", ("it", i)) for i in range(min(j, k))] + [
                            ("none",) if m == "receive" else ("end",)
                            for m in modes[j:]
                        ]
                        assert results == expect, (results, expect)
                        # surplus items stay receivable, in order
                        rest = []
                        while not channel.done():
                            rest.append(await channel.receive())
                        assert rest == [("it", i) for i in range(k, j)], rest
                        await settle(3)
                        await assert_exhausted(channel)
                        count += 1
    return count


ODD_ITEMS = [
    0, 0.0, "", b"", False, True, (), [], {}, set(), frozenset(), float("nan"),
    object(), object, type, Ellipsis, NotImplemented, ValueError("boom"),
    StopAsyncIteration(), ChannelDone("x"), ChannelClosed("y"), asyncio.CancelledError(),
    "<AsyncChannel flush signal>", repr(object()), [None], (None,), -1, 2**70,
]


async def check_odd_items():
    """Anything but the private flush signal is an ordinary item (by identity)."""
    for buffer_limit in (0, len(ODD_ITEMS) + 1):
        # async-for
        channel = AsyncChannel(buffer_limit=buffer_limit)
        await channel.send_from(ODD_ITEMS + [None], close=True)
        got = [x async for x in channel]
        assert len(got) == len(ODD_ITEMS) + 1
        assert all(a is b for a, b in zip(got, ODD_ITEMS + [None]))
        await assert_exhausted(channel)
        # receive()
        channel = AsyncChannel(buffer_limit=buffer_limit)
        for item in ODD_ITEMS:
            await channel.send(item)
        channel.close()
        got = []
        while not channel.done():
            got.append(await channel.receive())
        assert len(got) == len(ODD_ITEMS)
        assert all(a is b for a, b in zip(got, ODD_ITEMS))
        await assert_exhausted(channel)
    # None as an item of an open channel comes out of receive() as None
    channel = AsyncChannel()
    await channel.send(None)
    assert await channel.receive() is None and not channel.closed()
    # a blocked receiver is handed an odd item, its blocked sibling is released
    for item in ODD_ITEMS:
        for modes in (("receive", "iter"), ("iter", "receive"), ("iter", "iter")):
            channel = AsyncChannel()
            a = asyncio.ensure_future(recv_once(channel, modes[0]))
            b = asyncio.ensure_future(recv_once(channel, modes[1]))
            await settle(2)
            await channel.send(item)
            channel.close()
            ra, rb = await asyncio.wait_for(asyncio.gather(a, b), 5)
            assert ra[0] == "item" and ra[1] is item, ra
            assert rb == (("none",) if modes[1] == "receive" else ("end",)), rb
            await settle(3)
            await assert_exhausted(channel)


async def check_cancel_and_timeout():
    for buffer_limit in (0, 1, 2):
        for mode in ("receive", "iter"):
            # timeout of a blocked receiver surfaces as TimeoutError, nothing is lost
            channel = AsyncChannel(buffer_limit=buffer_limit)
            try:
                await asyncio.wait_for(recv_once(channel, mode), 0.01)
            except asyncio.TimeoutError:
                pass
            else:
                raise AssertionError("expected a timeout")
            assert not channel.done() and not channel.closed()
            await channel.send("a")
            assert await recv_once(channel, mode) == ("item", "a")
            # cancellation of one of three blocked receivers, at several points
            for cancel_at in range(4):
                for victim in range(3):
                    channel = AsyncChannel(buffer_limit=buffer_limit)
                    tasks = [
                        asyncio.ensure_future(recv_once(channel, mode)) for _ in range(3)
                    ]
                    await settle(2)
                    if cancel_at == 0:
                        tasks[victim].cancel()
                    await channel.send("x")
                    if cancel_at == 1:
                        tasks[victim].cancel()
                    await settle(1)
                    if cancel_at == 2:
                        tasks[victim].cancel()
                    channel.close()
                    if cancel_at == 3:
                        tasks[victim].cancel()
                    done, pending = await asyncio.wait(tasks, timeout=5)
                    assert not pending
                    assert tasks[victim].cancelled() or (
                        cancel_at >= 2 and victim == 0
                    ), (cancel_at, victim)
                    results = [t.result() for t in tasks if not t.cancelled()]
                    items = [r for r in results if r[0] == "item"]
                    rest = []
                    while not channel.done():
                        value = await channel.receive()
                        if value is not None:
                            rest.append(("item", value))
                    assert items + rest == [("item", "x")], (results, rest)
                    for r in results:
                        assert r[0] in ("item", "none", "end"), r
                    await settle(3)
                    assert channel.done()
                    try:
                        await channel.send("late")
                    except ChannelClosed:
                        pass
                    else:
                        raise AssertionError("send after close accepted")


class FakeStream:
    def __init__(self):
        self.sent = []
        self.ended = 0

    async def send_message(self, message):
        await asyncio.sleep(0)
        self.sent.append(message)

    async def end(self):
        self.ended += 1


async def check_consumer():
    """ServiceStub._send_messages forwards a request channel and ends the stream."""
    for buffer_limit in (0, 1):
        channel = AsyncChannel(buffer_limit=buffer_limit)
        stream = FakeStream()
        task = asyncio.ensure_future(ServiceStub._send_messages(stream, channel))
        await settle(2)
        for i in range(4):
            await channel.send(i)
            await settle(i % 3)
        assert not task.done()
        channel.close()
        await asyncio.wait_for(task, 5)
        assert stream.sent == [0, 1, 2, 3] and stream.ended == 1
        await settle(3)
        await assert_exhausted(channel)
        # cancelling the blocked sender task leaves the channel usable
        channel = AsyncChannel(buffer_limit=buffer_limit)
        stream = FakeStream()
        task = asyncio.ensure_future(ServiceStub._send_messages(stream, channel))
        await settle(2)
        task.cancel()
        await asyncio.wait([task], timeout=5)
        assert task.cancelled() and stream.ended == 0
        await channel.send("kept")
        channel.close()
        assert [x async for x in channel] == ["kept"]
        await settle(3)
        await assert_exhausted(channel)


async def main():
    n = 30000
    for seed in range(n):
        await run_config(seed)
    print(f"random schedules: {n} OK")
    print(f"stranded receiver grids: {await check_stranded_receivers()} OK")
    await check_odd_items()
    print("odd items OK")
    await check_cancel_and_timeout()
    print("cancel / timeout OK")
    await check_consumer()
    print("consumer OK")


if __name__ == "__main__":
    asyncio.run(main())
