"""Equivalence check for the encode-side value preprocessing
(dump_varint / size_varint / _preprocess_single / _len_preprocessed_single) and for
what the oneof machinery puts on the wire through it.  Plain asserts; exits 0 on
the reference tree and on the refactored tree."""
import copy
import pickle
import random
import struct
from dataclasses import dataclass
from datetime import datetime, timedelta, timezone
from typing import Optional

import betterproto
from betterproto import which_one_of

from google.protobuf import (
    descriptor_pb2,
    descriptor_pool,
    duration_pb2,
    message_factory,
    timestamp_pb2,
    wrappers_pb2,
)

rnd = random.Random(20240707)

# --------------------------------------------------------------------------- varints


def ref_varint(value):
    if value < 0:
        value += 1 << 64
    out = bytearray()
    while True:
        low = value & 0x7F
        value >>= 7
        if value:
            out.append(low | 0x80)
        else:
            out.append(low)
            return bytes(out)


class Recorder:
    def __init__(self):
        self.writes = []

    def write(self, data):
        assert type(data) is bytes
        self.writes.append(data)


edges = {0, 1, 2, 126, 127, 128, 129, 255, 256, 300}
for k in range(1, 11):
    for d in (-2, -1, 0, 1, 2):
        edges.add(max(0, (1 << (7 * k)) + d))
for k in (8, 16, 31, 32, 33, 62, 63, 64):
    for d in (-1, 0, 1):
        edges.add(max(0, (1 << k) + d))
edges = {v for v in edges if v < (1 << 64)}
values = sorted(edges)
values += [-1, -2, -127, -128, -129, -(1 << 31), -(1 << 31) - 1, -(1 << 62), -(1 << 63) + 1, -(1 << 63)]
values += [rnd.getrandbits(rnd.randint(1, 64)) for _ in range(3000)]
values += [-rnd.getrandbits(rnd.randint(1, 63)) - 1 for _ in range(1500)]

for v in values:
    expected = ref_varint(v)
    assert betterproto.encode_varint(v) == expected, v
    assert type(betterproto.encode_varint(v)) is bytes
    rec = Recorder()
    assert betterproto.dump_varint(v, rec) is None
    assert rec.writes == [expected[i : i + 1] for i in range(len(expected))], v
    assert betterproto.size_varint(v) == len(expected), v
    assert type(betterproto.size_varint(v)) is int
    # and back
    assert betterproto.decode_varint(expected, 0) == (v if v >= 0 else v + (1 << 64), len(expected))

# int subclasses travel too
assert betterproto.encode_varint(True) == b"\x01" and betterproto.size_varint(True) == 1
assert betterproto.encode_varint(False) == b"\x00" and betterproto.size_varint(False) == 1

for bad in (-(1 << 63) - 1, -(1 << 64), -(1 << 70)):
    for fn in (betterproto.encode_varint, betterproto.size_varint):
        try:
            fn(bad)
        except ValueError as e:
            assert "Negative value is not representable" in str(e)
        else:
            raise AssertionError(bad)
    rec = Recorder()
    try:
        betterproto.dump_varint(bad, rec)
    except ValueError:
        assert rec.writes == []
    else:
        raise AssertionError(bad)

# --------------------------------------------------------------- _preprocess_single

P = betterproto._preprocess_single
L = betterproto._len_preprocessed_single


def zz(v):
    return (v << 1) if v >= 0 else ((v << 1) ^ -1)


class Colour(betterproto.Enum):
    NONE = 0
    RED = 1
    NEG = -1
    BIG = 2147483647


@dataclass(eq=False, repr=False)
class Sub(betterproto.Message):
    val: int = betterproto.int32_field(1)
    name: str = betterproto.string_field(2)


def both(proto_type, value, expected, wraps=""):
    got = P(proto_type, wraps, value)
    assert got == expected, (proto_type, value, got, expected)
    assert type(got) is bytes, (proto_type, value)
    n = L(proto_type, wraps, value)
    assert n == len(expected) and type(n) is int, (proto_type, value, n)


i32 = [0, 1, -1, 127, 128, 2**31 - 1, -(2**31)] + [rnd.randint(-(2**31), 2**31 - 1) for _ in range(300)]
i64 = [0, 1, -1, 2**63 - 1, -(2**63), 2**32, -(2**32)] + [rnd.randint(-(2**63), 2**63 - 1) for _ in range(300)]
u32 = [0, 1, 127, 128, 2**32 - 1] + [rnd.randint(0, 2**32 - 1) for _ in range(300)]
u64 = [0, 1, 2**63, 2**64 - 1] + [rnd.randint(0, 2**64 - 1) for _ in range(300)]

for v in i32:
    both(betterproto.TYPE_INT32, v, ref_varint(v))
    both(betterproto.TYPE_SINT32, v, ref_varint(zz(v)))
    both(betterproto.TYPE_SFIXED32, v, struct.pack("<i", v))
    both(betterproto.TYPE_ENUM, v, ref_varint(v))
    both(betterproto.TYPE_ENUM, Colour.try_value(v), ref_varint(v))
for v in i64:
    both(betterproto.TYPE_INT64, v, ref_varint(v))
    both(betterproto.TYPE_SINT64, v, ref_varint(zz(v)))
    both(betterproto.TYPE_SFIXED64, v, struct.pack("<q", v))
for v in u32:
    both(betterproto.TYPE_UINT32, v, ref_varint(v))
    both(betterproto.TYPE_FIXED32, v, struct.pack("<I", v))
for v in u64:
    both(betterproto.TYPE_UINT64, v, ref_varint(v))
    both(betterproto.TYPE_FIXED64, v, struct.pack("<Q", v))
for v in (True, False):
    both(betterproto.TYPE_BOOL, v, b"\x01" if v else b"\x00")
for member in Colour:
    both(betterproto.TYPE_ENUM, member, ref_varint(int(member)))
floats = [0.0, -0.0, 1.5, -1.5, float("inf"), float("-inf"), 1e-45, 3.4e38, 1e300, 5e-324] + [
    rnd.uniform(-1e6, 1e6) for _ in range(200)
]
for v in floats:
    both(betterproto.TYPE_DOUBLE, v, struct.pack("<d", v))
    try:
        packed = struct.pack("<f", v)
    except OverflowError:
        for fn in (P, L):
            try:
                fn(betterproto.TYPE_FLOAT, "", v)
            except OverflowError:
                pass
            else:
                raise AssertionError(v)
    else:
        both(betterproto.TYPE_FLOAT, v, packed)
nan = float("nan")
assert P(betterproto.TYPE_DOUBLE, "", nan) == struct.pack("<d", nan) and L(betterproto.TYPE_DOUBLE, "", nan) == 8
assert P(betterproto.TYPE_FLOAT, "", nan) == struct.pack("<f", nan) and L(betterproto.TYPE_FLOAT, "", nan) == 4

strings = ["", "a", "abc", "é", "€", "\U0001f600", "x" * 127, "x" * 128, "é" * 200]
for v in strings:
    both(betterproto.TYPE_STRING, v, v.encode("utf-8"))
for v in (b"", b"\x00", b"abc", bytes(range(256)), b"z" * 300):
    both(betterproto.TYPE_BYTES, v, v)
    assert P(betterproto.TYPE_BYTES, "", v) is v  # passed through untouched
    both(betterproto.TYPE_MAP, v, v)  # pre-assembled map entries are passed through too
    assert P(betterproto.TYPE_MAP, "", v) is v
ba = bytearray(b"packed")
assert P(betterproto.TYPE_BYTES, "", ba) is ba and L(betterproto.TYPE_BYTES, "", ba) == 6

# embedded messages
for sub in (Sub(), Sub(val=0), Sub(val=5), Sub(val=-1, name="n"), Sub(name="é" * 70)):
    both(betterproto.TYPE_MESSAGE, sub, bytes(sub))
for dt in (
    datetime(1970, 1, 1, tzinfo=timezone.utc),
    datetime(2020, 5, 17, 12, 30, 15, 250000, tzinfo=timezone.utc),
    datetime(1969, 12, 31, 23, 59, 59, 999999, tzinfo=timezone.utc),
    datetime(1, 1, 1, tzinfo=timezone.utc),
    datetime(9999, 12, 31, 23, 59, 59, tzinfo=timezone.utc),
):
    ts = timestamp_pb2.Timestamp()
    ts.FromDatetime(dt)
    both(betterproto.TYPE_MESSAGE, dt, ts.SerializeToString())
for td in (
    timedelta(0),
    timedelta(seconds=1),
    timedelta(days=1, microseconds=5),
    timedelta(seconds=-1, microseconds=-500000),
    timedelta(days=-3650),
    timedelta(microseconds=1),
):
    du = duration_pb2.Duration()
    du.FromTimedelta(td)
    both(betterproto.TYPE_MESSAGE, td, du.SerializeToString())
wrapped = [
    (betterproto.TYPE_STRING, wrappers_pb2.StringValue, ["", "x", "é"]),
    (betterproto.TYPE_BYTES, wrappers_pb2.BytesValue, [b"", b"\x00\x01"]),
    (betterproto.TYPE_INT32, wrappers_pb2.Int32Value, [0, 1, -1, 2**31 - 1]),
    (betterproto.TYPE_INT64, wrappers_pb2.Int64Value, [0, -(2**63), 2**63 - 1]),
    (betterproto.TYPE_UINT32, wrappers_pb2.UInt32Value, [0, 2**32 - 1]),
    (betterproto.TYPE_UINT64, wrappers_pb2.UInt64Value, [0, 2**64 - 1]),
    (betterproto.TYPE_BOOL, wrappers_pb2.BoolValue, [False, True]),
    (betterproto.TYPE_FLOAT, wrappers_pb2.FloatValue, [0.0, 1.5]),
    (betterproto.TYPE_DOUBLE, wrappers_pb2.DoubleValue, [0.0, -2.25]),
]
for wraps, pb_cls, vals in wrapped:
    both(betterproto.TYPE_MESSAGE, None, b"", wraps=wraps)
    for v in vals:
        both(betterproto.TYPE_MESSAGE, v, pb_cls(value=v).SerializeToString(), wraps=wraps)
# a datetime / timedelta wins over `wraps`, as before
both(betterproto.TYPE_MESSAGE, timedelta(seconds=3), b"\x08\x03", wraps=betterproto.TYPE_STRING)

# error behaviour
def raises(exc, fn, *args):
    try:
        fn(*args)
    except exc:
        return
    except Exception as e:  # pragma: no cover
        raise AssertionError((fn, args, e))
    raise AssertionError((fn, args))


raises(AttributeError, P, betterproto.TYPE_STRING, "", 5)
raises(AttributeError, L, betterproto.TYPE_STRING, "", 5)
raises(struct.error, P, betterproto.TYPE_FIXED32, "", -1)
raises(struct.error, L, betterproto.TYPE_FIXED32, "", -1)
raises(struct.error, P, betterproto.TYPE_SFIXED32, "", 2**31)
raises(struct.error, L, betterproto.TYPE_SFIXED32, "", 2**31)
raises(TypeError, P, betterproto.TYPE_INT32, "", 1.5)
raises(AttributeError, L, betterproto.TYPE_INT32, "", 1.5)
raises(TypeError, P, betterproto.TYPE_INT32, "", "7")
raises(TypeError, L, betterproto.TYPE_INT32, "", "7")
raises(TypeError, P, betterproto.TYPE_SINT32, "", "7")
raises(TypeError, L, betterproto.TYPE_SINT32, "", "7")
raises(ValueError, P, betterproto.TYPE_INT64, "", -(2**63) - 1)
raises(ValueError, L, betterproto.TYPE_INT64, "", -(2**63) - 1)
raises(TypeError, L, betterproto.TYPE_BYTES, "", 5)
assert P(betterproto.TYPE_BYTES, "", 5) == 5  # unknown payloads are not touched
assert P("no-such-type", "", "q") == "q" and L("no-such-type", "", "q") == 1

# ------------------------------------------- oneof members on the wire vs. protobuf

fdp = descriptor_pb2.FileDescriptorProto()
fdp.name = "c07_keep1_equiv.proto"
fdp.package = "c07k1"
fdp.syntax = "proto3"
fdp.dependency.extend(
    [
        "google/protobuf/timestamp.proto",
        "google/protobuf/duration.proto",
        "google/protobuf/wrappers.proto",
    ]
)
en = fdp.enum_type.add()
en.name = "Colour"
for n, v in (("NONE", 0), ("RED", 1), ("NEG", -1), ("BIG", 2147483647)):
    ev = en.value.add()
    ev.name, ev.number = n, v
sm = fdp.message_type.add()
sm.name = "Sub"
f = sm.field.add()
f.name, f.number, f.type, f.label = "val", 1, f.TYPE_INT32, f.LABEL_OPTIONAL
f = sm.field.add()
f.name, f.number, f.type, f.label = "name", 2, f.TYPE_STRING, f.LABEL_OPTIONAL
mm = fdp.message_type.add()
mm.name = "Msg"
mm.oneof_decl.add().name = "g"
mm.oneof_decl.add().name = "h"
T = descriptor_pb2.FieldDescriptorProto
SPEC = [
    # name, number, pb type, type_name, oneof index
    ("i32", 1, T.TYPE_INT32, None, 0),
    ("i64", 2, T.TYPE_INT64, None, 0),
    ("u32", 3, T.TYPE_UINT32, None, 0),
    ("u64", 4, T.TYPE_UINT64, None, 0),
    ("s32", 5, T.TYPE_SINT32, None, 0),
    ("s64", 6, T.TYPE_SINT64, None, 0),
    ("bo", 7, T.TYPE_BOOL, None, 0),
    ("en", 8, T.TYPE_ENUM, ".c07k1.Colour", 0),
    ("f32", 9, T.TYPE_FIXED32, None, 0),
    ("f64", 10, T.TYPE_FIXED64, None, 0),
    ("sf32", 11, T.TYPE_SFIXED32, None, 0),
    ("sf64", 12, T.TYPE_SFIXED64, None, 0),
    ("fl", 13, T.TYPE_FLOAT, None, 0),
    ("db", 14, T.TYPE_DOUBLE, None, 0),
    ("st", 15, T.TYPE_STRING, None, 0),
    ("by", 16, T.TYPE_BYTES, None, 0),
    ("sub", 17, T.TYPE_MESSAGE, ".c07k1.Sub", 0),
    ("ts", 18, T.TYPE_MESSAGE, ".google.protobuf.Timestamp", 0),
    ("du", 19, T.TYPE_MESSAGE, ".google.protobuf.Duration", 0),
    ("wv", 20, T.TYPE_MESSAGE, ".google.protobuf.StringValue", 0),
    ("x", 30, T.TYPE_INT32, None, None),
    ("hs", 31, T.TYPE_STRING, None, 1),
    ("hsub", 32, T.TYPE_MESSAGE, ".c07k1.Sub", 1),
    ("hz", 33, T.TYPE_SINT64, None, 1),
]
for name, number, typ, type_name, oneof in SPEC:
    f = mm.field.add()
    f.name, f.number, f.type, f.label = name, number, typ, T.LABEL_OPTIONAL
    if type_name:
        f.type_name = type_name
    if oneof is not None:
        f.oneof_index = oneof
pool = descriptor_pool.Default()
pool.Add(fdp) if hasattr(pool, "Add") else pool.AddSerializedFile(fdp.SerializeToString())
PbMsg = message_factory.GetMessageClass(pool.FindMessageTypeByName("c07k1.Msg"))
PbSub = message_factory.GetMessageClass(pool.FindMessageTypeByName("c07k1.Sub"))


@dataclass(eq=False, repr=False)
class Msg(betterproto.Message):
    i32: int = betterproto.int32_field(1, group="g")
    i64: int = betterproto.int64_field(2, group="g")
    u32: int = betterproto.uint32_field(3, group="g")
    u64: int = betterproto.uint64_field(4, group="g")
    s32: int = betterproto.sint32_field(5, group="g")
    s64: int = betterproto.sint64_field(6, group="g")
    bo: bool = betterproto.bool_field(7, group="g")
    en: Colour = betterproto.enum_field(8, group="g")
    f32: int = betterproto.fixed32_field(9, group="g")
    f64: int = betterproto.fixed64_field(10, group="g")
    sf32: int = betterproto.sfixed32_field(11, group="g")
    sf64: int = betterproto.sfixed64_field(12, group="g")
    fl: float = betterproto.float_field(13, group="g")
    db: float = betterproto.double_field(14, group="g")
    st: str = betterproto.string_field(15, group="g")
    by: bytes = betterproto.bytes_field(16, group="g")
    sub: Sub = betterproto.message_field(17, group="g")
    ts: datetime = betterproto.message_field(18, group="g")
    du: timedelta = betterproto.message_field(19, group="g")
    wv: Optional[str] = betterproto.message_field(20, wraps=betterproto.TYPE_STRING, group="g")
    x: int = betterproto.int32_field(30)
    hs: str = betterproto.string_field(31, group="h")
    hsub: Sub = betterproto.message_field(32, group="h")
    hz: int = betterproto.sint64_field(33, group="h")


GROUP = {name: ("g", "h")[oneof] for name, _, _, _, oneof in SPEC if oneof is not None}
NUMBER = {name: number for name, number, *_ in SPEC}
DT0 = datetime(1970, 1, 1, tzinfo=timezone.utc)
CANDIDATES = {
    "i32": [0, 1, -1, 2**31 - 1, -(2**31), 300],
    "i64": [0, 1, -1, 2**63 - 1, -(2**63)],
    "u32": [0, 1, 2**32 - 1, 128],
    "u64": [0, 1, 2**64 - 1, 2**63],
    "s32": [0, 1, -1, 2**31 - 1, -(2**31), -64, 64],
    "s64": [0, 1, -1, 2**63 - 1, -(2**63)],
    "bo": [False, True],
    "en": [Colour.NONE, Colour.RED, Colour.NEG, Colour.BIG, Colour.try_value(77)],
    "f32": [0, 1, 2**32 - 1],
    "f64": [0, 1, 2**64 - 1],
    "sf32": [0, 1, -1, -(2**31), 2**31 - 1],
    "sf64": [0, 1, -1, -(2**63), 2**63 - 1],
    "fl": [0.0, 1.5, -2.25, float("inf")],
    "db": [0.0, 1.5, -1e300, float("-inf"), 5e-324],
    "st": ["", "a", "é€", "x" * 200],
    "by": [b"", b"\x00", bytes(range(256))],
    "sub": [lambda: Sub(), lambda: Sub(val=0), lambda: Sub(val=-7, name="n")],
    "ts": [DT0, datetime(2021, 3, 4, 5, 6, 7, 890000, tzinfo=timezone.utc), datetime(1960, 1, 1, tzinfo=timezone.utc)],
    "du": [timedelta(0), timedelta(seconds=5, microseconds=7), timedelta(days=-2, microseconds=1)],
    "wv": ["", "wrapped"],
    "hs": ["", "h"],
    "hsub": [lambda: Sub(), lambda: Sub(name="q")],
    "hz": [0, -1, 2**40],
}


def fresh(v):
    return v() if callable(v) else v


def to_pb(state, x):
    """state: group -> (member, value) / None"""
    pb = PbMsg()
    for sel in state.values():
        if sel is None:
            continue
        name, value = sel
        if isinstance(value, Sub):
            getattr(pb, name).CopyFrom(PbSub(val=value.val, name=value.name))
            getattr(pb, name).SetInParent()
        elif isinstance(value, datetime):
            getattr(pb, name).FromDatetime(value)
            getattr(pb, name).SetInParent()
        elif isinstance(value, timedelta):
            getattr(pb, name).FromTimedelta(value)
            getattr(pb, name).SetInParent()
        elif name == "wv":
            getattr(pb, name).value = value
            getattr(pb, name).SetInParent()
        else:
            setattr(pb, name, int(value) if name == "en" else value)
    if x:
        pb.x = x
    return pb


def verify(m, state, x, where):
    pb = to_pb(state, x)
    wire = pb.SerializeToString(deterministic=True)
    assert bytes(m) == wire, (where, bytes(m), wire)
    assert len(m) == len(wire), (where, len(m), len(wire))
    for group, sel in state.items():
        name, value = which_one_of(m, group)
        if sel is None:
            assert (name, value) == ("", None), (where, group, name)
            assert pb.WhichOneof(group) is None
        else:
            assert name == sel[0] == pb.WhichOneof(group), (where, group, name, sel[0])
            assert value == sel[1], (where, group, value, sel[1])
    on_wire = [f.number for f in betterproto.parse_fields(bytes(m))]
    expected = sorted([NUMBER[s[0]] for s in state.values() if s] + ([30] if x else []))
    assert on_wire == expected, (where, on_wire, expected)
    for name, group in GROUP.items():
        sel = state[group]
        if sel is not None and sel[0] != name:
            try:
                getattr(m, name)
            except AttributeError:
                pass
            else:
                raise AssertionError((where, name))
    # and back through the decoder
    again = Msg().parse(wire)
    assert bytes(again) == wire, where
    for group, sel in state.items():
        assert which_one_of(again, group)[0] == (sel[0] if sel else ""), (where, group)


# every member, every candidate value, alone and over a previously selected sibling
for name, cands in CANDIDATES.items():
    group = GROUP[name]
    for cand in cands:
        value = fresh(cand)
        state = {"g": None, "h": None}
        state[group] = (name, value)
        verify(Msg(**{name: value}), state, 0, f"ctor {name}")
        m = Msg()
        setattr(m, name, value)
        verify(m, state, 0, f"setattr {name}")
        m = Msg(i32=5, hz=-3)
        other = {"g": ("i32", 5), "h": ("hz", -3)}
        setattr(m, name, value)
        other[group] = (name, value)
        verify(m, other, 0, f"setattr {name} over sibling")

# random histories
members = list(CANDIDATES)
for run in range(150):
    m = Msg()
    state = {"g": None, "h": None}
    x = 0
    for step in range(25):
        op = rnd.choice(["set", "set", "set", "setx", "copy", "deepcopy", "pickle", "parse", "from_dict", "ctor"])
        if op == "set":
            name = rnd.choice(members)
            value = fresh(rnd.choice(CANDIDATES[name]))
            setattr(m, name, value)
            state[GROUP[name]] = (name, value)
        elif op == "setx":
            x = rnd.choice([0, 1, -1, 2**31 - 1])
            m.x = x
        elif op == "copy":
            m = copy.copy(m)
        elif op == "deepcopy":
            m = copy.deepcopy(m)
        elif op == "pickle":
            m = pickle.loads(pickle.dumps(m))
        elif op == "parse":
            # decode another message's encoding into this one: its members arrive last
            name = rnd.choice(members)
            value = fresh(rnd.choice(CANDIDATES[name]))
            m.parse(bytes(Msg(**{name: value})))
            state[GROUP[name]] = (name, value)
        elif op == "from_dict":
            name = rnd.choice(["i32", "s64", "bo", "st", "sub", "hs", "hz", "en", "db", "by"])
            value = fresh(rnd.choice(CANDIDATES[name]))
            if name == "en" and value.name is None:
                value = Colour.RED
            if name == "db" and value != value:
                value = 1.5
            m.from_dict(Msg(**{name: value}).to_dict())
            state[GROUP[name]] = (name, value)
        elif op == "ctor":
            kwargs = {}
            state = {"g": None, "h": None}
            for group in ("g", "h"):
                if rnd.random() < 0.7:
                    name = rnd.choice([n for n in members if GROUP[n] == group])
                    value = fresh(rnd.choice(CANDIDATES[name]))
                    kwargs[name] = value
                    state[group] = (name, value)
            x = rnd.choice([0, 9])
            if x:
                kwargs["x"] = x
            m = Msg(**kwargs)
        verify(m, state, x, f"run {run} step {step} {op}")

print("ok")
