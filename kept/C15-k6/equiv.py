"""C15 equivalence check for the Duration encode side: a timedelta stored in a Duration
field is written as exactly the (seconds, nanos) pair the reference implementation
(google.protobuf) produces for the same span, and reads back as the identical value.

Run as:  PYTHONPATH=/tmp/wt/R6C15/src /venv/bin/python equiv.py
"""
import io
import random
from dataclasses import dataclass
from datetime import timedelta
from typing import Dict, List, Optional

import betterproto
from google.protobuf import duration_pb2


@dataclass(eq=False, repr=False)
class One(betterproto.Message):
    d: timedelta = betterproto.message_field(1)


@dataclass(eq=False, repr=False)
class Many(betterproto.Message):
    d: timedelta = betterproto.message_field(1)
    ds: List[timedelta] = betterproto.message_field(2)
    dm: Dict[int, timedelta] = betterproto.map_field(
        3, betterproto.TYPE_INT32, betterproto.TYPE_MESSAGE
    )
    od: timedelta = betterproto.message_field(4, group="o")
    other: str = betterproto.string_field(5, group="o")
    opt: Optional[timedelta] = betterproto.message_field(6, optional=True)


class MyDelta(timedelta):
    """A timedelta subclass is still a timedelta."""


US = timedelta(microseconds=1)
MAX_S = 315_576_000_000


def reference(total_us: int) -> duration_pb2.Duration:
    """FromTimedelta / FromMicroseconds of the reference implementation."""
    ref = duration_pb2.Duration()
    ref.FromMicroseconds(total_us)
    # the documented normal form
    assert -10**9 < ref.nanos < 10**9
    assert not (ref.seconds > 0 and ref.nanos < 0) and not (ref.seconds < 0 and ref.nanos > 0)
    assert ref.seconds * 10**6 + ref.nanos // 1000 == total_us and ref.nanos % 1000 == 0
    return ref


def varint(n: int) -> bytes:
    n &= (1 << 64) - 1
    out = bytearray()
    while True:
        b = n & 0x7F
        n >>= 7
        if n:
            out.append(b | 0x80)
        else:
            out.append(b)
            return bytes(out)


def expected_payload(seconds: int, nanos: int) -> bytes:
    out = b""
    if seconds:
        out += b"\x08" + varint(seconds)
    if nanos:
        out += b"\x10" + varint(nanos)
    return out


def check(total_us: int, make=timedelta) -> None:
    td = make(microseconds=total_us)
    assert type(td) is make and td // US == total_us and td == total_us * US
    ref = reference(total_us)
    ref2 = duration_pb2.Duration()
    ref2.FromTimedelta(td)
    assert (ref2.seconds, ref2.nanos) == (ref.seconds, ref.nanos)

    # the conversion itself
    dur = betterproto._Duration.from_timedelta(td)
    assert type(dur) is betterproto._Duration
    assert (dur.seconds, dur.nanos) == (ref.seconds, ref.nanos), (td, dur.seconds, dur.nanos, ref)
    assert type(dur.seconds) is int and type(dur.nanos) is int
    assert dur.to_timedelta() == td

    # the bytes of a message with one Duration field, decoded by the reference
    data = bytes(One(d=td))
    payload = expected_payload(ref.seconds, ref.nanos)
    if total_us:
        assert data == b"\x0a" + bytes([len(payload)]) + payload, (td, data.hex())
        assert payload == ref.SerializeToString()
        back = duration_pb2.Duration()
        back.ParseFromString(data[2:])
        assert (back.seconds, back.nanos) == (ref.seconds, ref.nanos)
        assert back.ToTimedelta() == td
    else:
        assert data == b""
    assert len(One(d=td)) == len(data)
    assert One().parse(data).d == td


def check_many(values: List[int]) -> None:
    tds = [v * US for v in values]
    msg = Many(d=tds[0], ds=tds, dm={i - 1: t for i, t in enumerate(tds)}, od=tds[-1], opt=tds[0])
    data = bytes(msg)
    # expected bytes, field by field
    exp = bytearray()

    def sub(number: int, total_us: int, always: bool) -> bytes:
        ref = reference(total_us)
        p = expected_payload(ref.seconds, ref.nanos)
        if not p and not always:
            return b""
        return bytes([number << 3 | 2, len(p)]) + p

    exp += sub(1, values[0], False)
    for v in values:
        exp += sub(2, v, True)
    for i, v in enumerate(values):
        key = i - 1
        # (betterproto writes an int32 map key even when it is 0)
        entry = b"\x08" + varint(key) + sub(2, v, False)
        exp += bytes([3 << 3 | 2, len(entry)]) + entry
    exp += sub(4, values[-1], True)
    exp += sub(6, values[0], True)
    assert data == bytes(exp), (values, data.hex(), bytes(exp).hex())
    assert len(msg) == len(data)
    buf = io.BytesIO()
    msg.dump(buf, betterproto.SIZE_DELIMITED)
    assert buf.getvalue() == varint(len(data)) + data
    back = Many().parse(data)
    assert back.d == tds[0] and back.ds == tds and back.od == tds[-1] and back.opt == tds[0]
    assert back.dm == {i - 1: t for i, t in enumerate(tds)}
    assert betterproto.which_one_of(back, "o") == ("od", tds[-1])


POINTS = [
    0, 1, -1, 2, -2, 999, -999, 1000, -1000, 1001, -1001, 499_999, -499_999, 500_000,
    -500_000, 999_999, -999_999, 10**6, -(10**6), 10**6 + 1, -(10**6) - 1, 10**6 - 1,
    -(10**6) + 1, 1_500_000, -1_500_000, 1_999_999, -1_999_999, 2 * 10**6, -2 * 10**6,
    5 * 10**6, -5 * 10**6,
    86_400 * 10**6, -86_400 * 10**6, 86_400 * 10**6 - 1, -86_400 * 10**6 + 1,
    86_400 * 10**6 + 1, -86_400 * 10**6 - 1, 86_399 * 10**6 + 999_999,
    -86_399 * 10**6 - 999_999, 2 * 86_400 * 10**6, -2 * 86_400 * 10**6,
    2**31 * 10**6, -(2**31) * 10**6, 2**31 * 10**6 + 1, -(2**31) * 10**6 - 1,
    2**32 * 10**6 - 1, -(2**32) * 10**6 + 1,
    2**53 - 1, 2**53, 2**53 + 1, -(2**53) + 1, -(2**53), -(2**53) - 1,
    2**53 + 123_457, -(2**53) - 123_457, 2**56 + 3, -(2**56) - 3,
    MAX_S * 10**6, -MAX_S * 10**6, MAX_S * 10**6 - 1, -MAX_S * 10**6 + 1,
    MAX_S * 10**6 - 10**6, -MAX_S * 10**6 + 10**6,
    (MAX_S - 1) * 10**6 + 250_000, -(MAX_S - 1) * 10**6 - 250_000,
]

for us in POINTS:
    check(us)
    check(us, MyDelta)

# every microsecond around zero and around +-1 s, +-1 day (second / day boundaries)
for centre in (0, 10**6, -(10**6), 86_400 * 10**6, -86_400 * 10**6):
    for off in range(-2500, 2501):
        check(centre + off)

rnd = random.Random(1502)
for _ in range(20000):
    scale = rnd.choice([10**6, 3 * 10**6, 10**9, 10**12, 2**53, 2**55, MAX_S * 10**6])
    check(rnd.randint(-scale, scale))
for _ in range(5000):
    # whole seconds and whole milliseconds, both signs
    s = rnd.randint(-MAX_S + 1, MAX_S - 1)
    check(s * 10**6)
    check(s * 10**6 + (1 if s >= 0 else -1) * rnd.randrange(0, 1000) * 1000)

# timedeltas built from non-normalised constructor arguments
for kw in (
    dict(days=-1, seconds=86399, microseconds=999_999),
    dict(seconds=-1, microseconds=1),
    dict(seconds=1, microseconds=-1),
    dict(days=1, seconds=-86400),
    dict(milliseconds=-1500),
    dict(hours=-25, minutes=61, seconds=-61, microseconds=-61),
    dict(weeks=-3, microseconds=7),
):
    check(timedelta(**kw) // US)

# the extremes a timedelta can hold at all (outside the Duration range; still one sign)
for td in (timedelta.min, timedelta.max, timedelta.min + US, timedelta.max - US):
    total = td // US
    dur = betterproto._Duration.from_timedelta(td)
    s, u = divmod(abs(total), 10**6)
    sign = -1 if total < 0 else 1
    assert (dur.seconds, dur.nanos) == (sign * s, sign * u * 1000)

# containers: repeated, map values, oneof member, proto3 optional
for _ in range(1500):
    n = rnd.randint(1, 5)
    vals = [
        rnd.choice(POINTS) if rnd.random() < 0.5 else rnd.randint(-3 * 10**6, 3 * 10**6)
        for _ in range(n)
    ]
    check_many(vals)
check_many([0])
check_many([0, 0, 0])
check_many([-1, 0, 1])

print("C15 keep2 equiv OK")
