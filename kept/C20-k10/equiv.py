"""C20 keep2: the packed-run decoder inside Message.load() decides the item layout
(varint run / 4-byte items / 8-byte items) once per run instead of once per item.

This script decodes packed (and mixed packed / unpacked, multi-chunk, empty, truncated
and over-long) payloads for repeated enum fields - defined, undefined, zero, negative,
aliased and int32-boundary numbers - and for every other packable scalar type, and
compares the result with an independent decoder written here and with
google.protobuf.  It passes on the pristine tree and with the refactor applied.
"""
import math
import random
import struct
from dataclasses import dataclass
from typing import List

import betterproto
from google.protobuf import descriptor_pb2, descriptor_pool, message_factory

INT32_MIN, INT32_MAX = -(2**31), 2**31 - 1
INT64_MIN, INT64_MAX = -(2**63), 2**63 - 1


class Signal(betterproto.Enum):
    OFF = 0
    NONE = 0  # alias
    LOW = 1
    NEG = -3
    MINUS_THREE = -3  # alias
    HIGH = 7
    MAX = 2147483647
    MIN = -2147483648


DEFINED = {0: "OFF", 1: "LOW", -3: "NEG", 7: "HIGH", INT32_MAX: "MAX", INT32_MIN: "MIN"}


class NoZero(betterproto.Enum):
    ONE = 1
    M_ONE = -1


@dataclass(eq=False, repr=False)
class Rep(betterproto.Message):
    enums: List[Signal] = betterproto.enum_field(1)
    bools: List[bool] = betterproto.bool_field(2)
    i32: List[int] = betterproto.int32_field(3)
    i64: List[int] = betterproto.int64_field(4)
    u32: List[int] = betterproto.uint32_field(5)
    u64: List[int] = betterproto.uint64_field(6)
    s32: List[int] = betterproto.sint32_field(7)
    s64: List[int] = betterproto.sint64_field(8)
    f32: List[float] = betterproto.float_field(9)
    f64: List[float] = betterproto.double_field(10)
    fx32: List[int] = betterproto.fixed32_field(11)
    sfx32: List[int] = betterproto.sfixed32_field(12)
    fx64: List[int] = betterproto.fixed64_field(13)
    sfx64: List[int] = betterproto.sfixed64_field(14)
    nz: List[NoZero] = betterproto.enum_field(15)
    single: Signal = betterproto.enum_field(16)
    names: List[str] = betterproto.string_field(17)


FIELDS = {
    # name: (number, kind)
    "enums": (1, "enum"), "bools": (2, "bool"), "i32": (3, "int32"), "i64": (4, "int64"),
    "u32": (5, "uint32"), "u64": (6, "uint64"), "s32": (7, "sint32"), "s64": (8, "sint64"),
    "f32": (9, "float"), "f64": (10, "double"), "fx32": (11, "fixed32"),
    "sfx32": (12, "sfixed32"), "fx64": (13, "fixed64"), "sfx64": (14, "sfixed64"),
    "nz": (15, "enum"),
}
FIXED_FMT = {"float": "<f", "double": "<d", "fixed32": "<I", "sfixed32": "<i",
             "fixed64": "<Q", "sfixed64": "<q"}


def build_google_class():
    fdp = descriptor_pb2.FileDescriptorProto(
        name="c20_keep2.proto", package="c20k2", syntax="proto3"
    )
    e = fdp.enum_type.add(name="Signal")
    e.options.allow_alias = True
    for n, v in [("OFF", 0), ("NONE", 0), ("LOW", 1), ("NEG", -3), ("MINUS_THREE", -3),
                 ("HIGH", 7), ("MAX", INT32_MAX), ("MIN", INT32_MIN)]:
        e.value.add(name=n, number=v)
    e = fdp.enum_type.add(name="NoZero")
    for n, v in [("NZ_UNSPECIFIED", 0), ("ONE", 1), ("M_ONE", -1)]:
        e.value.add(name=n, number=v)
    F = descriptor_pb2.FieldDescriptorProto
    m = fdp.message_type.add(name="Rep")
    types = {"enum": F.TYPE_ENUM, "bool": F.TYPE_BOOL, "int32": F.TYPE_INT32,
             "int64": F.TYPE_INT64, "uint32": F.TYPE_UINT32, "uint64": F.TYPE_UINT64,
             "sint32": F.TYPE_SINT32, "sint64": F.TYPE_SINT64, "float": F.TYPE_FLOAT,
             "double": F.TYPE_DOUBLE, "fixed32": F.TYPE_FIXED32,
             "sfixed32": F.TYPE_SFIXED32, "fixed64": F.TYPE_FIXED64,
             "sfixed64": F.TYPE_SFIXED64}
    for name, (number, kind) in FIELDS.items():
        f = m.field.add(name=name, number=number, type=types[kind],
                        label=F.LABEL_REPEATED)
        if kind == "enum":
            f.type_name = ".c20k2.NoZero" if name == "nz" else ".c20k2.Signal"
    m.field.add(name="single", number=16, type=F.TYPE_ENUM, label=F.LABEL_OPTIONAL,
                type_name=".c20k2.Signal")
    m.field.add(name="names", number=17, type=F.TYPE_STRING, label=F.LABEL_REPEATED)
    pool = descriptor_pool.DescriptorPool()
    pool.Add(fdp)
    return message_factory.GetMessageClass(pool.FindMessageTypeByName("c20k2.Rep"))


GRep = build_google_class()


# ------------------------------------------------------------ independent wire code
def varint(n: int) -> bytes:
    if n < 0:
        n += 1 << 64
    out = bytearray()
    while True:
        b = n & 0x7F
        n >>= 7
        if n:
            out.append(b | 0x80)
        else:
            out.append(b)
            return bytes(out)


def tag(number: int, wire: int) -> bytes:
    return varint((number << 3) | wire)


def ld(number: int, payload: bytes) -> bytes:
    return tag(number, 2) + varint(len(payload)) + payload


def enc_item(kind: str, v) -> bytes:
    if kind in FIXED_FMT:
        return struct.pack(FIXED_FMT[kind], v)
    if kind in ("sint32", "sint64"):
        return varint((v << 1) ^ (v >> 63))
    return varint(int(v))


def unpacked(number: int, kind: str, v) -> bytes:
    wire = 5 if kind in ("float", "fixed32", "sfixed32") else (
        1 if kind in ("double", "fixed64", "sfixed64") else 0)
    return tag(number, wire) + enc_item(kind, v)


def same(a, b) -> bool:
    if isinstance(a, float) and isinstance(b, float) and math.isnan(a) and math.isnan(b):
        return True
    return a == b and type(a) is type(b) or (a == b and isinstance(a, betterproto.Enum))


def check_enum_items(items, numbers, enum_cls, defined) -> None:
    assert len(items) == len(numbers), (items, numbers)
    for got, n in zip(items, numbers):
        assert isinstance(got, enum_cls), (got, n)
        assert got == n and int(got) == n and got.value == n, (got, n)
        if n in defined:
            # the canonical member object, under its first declared name
            assert got is enum_cls(n) and got is enum_cls.try_value(n)
            assert got.name == defined[n] and got is enum_cls[defined[n]]
        else:
            assert got.name is None
            try:
                enum_cls(n)
            except ValueError:
                pass
            else:
                raise AssertionError(f"{n} should not be defined")


SAMPLES = {
    "enum": [0, 1, -3, 7, INT32_MAX, INT32_MIN, 2, -1, 5, 127, 128, 16383, 16384,
             -128, INT32_MAX - 1, INT32_MIN + 1, 300, -300],
    "bool": [True, False],
    "int32": [0, 1, -1, 127, 128, INT32_MAX, INT32_MIN, 300],
    "int64": [0, 1, -1, INT64_MAX, INT64_MIN, 2**32, -(2**32)],
    "uint32": [0, 1, 127, 128, 2**32 - 1],
    "uint64": [0, 1, 2**32, 2**64 - 1],
    "sint32": [0, 1, -1, INT32_MAX, INT32_MIN, 63, -64, 64, -65],
    "sint64": [0, 1, -1, INT64_MAX, INT64_MIN],
    "float": [0.0, 1.5, -2.25, float("inf"), float("-inf"), float("nan"), 3.0e38],
    "double": [0.0, 1.5, -2.25, float("inf"), float("nan"), 1e308, 5e-324],
    "fixed32": [0, 1, 2**32 - 1, 0x01020304],
    "sfixed32": [0, 1, -1, INT32_MAX, INT32_MIN],
    "fixed64": [0, 1, 2**64 - 1, 0x0102030405060708],
    "sfixed64": [0, 1, -1, INT64_MAX, INT64_MIN],
}
NZ_DEFINED = {1: "ONE", -1: "M_ONE"}


def check_decoded(msg: Rep, expect: dict) -> None:
    for name, (number, kind) in FIELDS.items():
        want = expect.get(name, [])
        got = getattr(msg, name)
        assert isinstance(got, list)
        if name == "enums":
            check_enum_items(got, want, Signal, DEFINED)
        elif name == "nz":
            check_enum_items(got, want, NoZero, NZ_DEFINED)
        else:
            assert len(got) == len(want), (name, got, want)
            for g, w in zip(got, want):
                if kind == "float" and not math.isnan(w) and not math.isinf(w):
                    w = struct.unpack("<f", struct.pack("<f", w))[0]
                assert same(g, w), (name, g, w)


def check_against_google(data: bytes, msg: Rep) -> None:
    g = GRep.FromString(data)
    for name, (number, kind) in FIELDS.items():
        theirs = list(getattr(g, name))
        ours = getattr(msg, name)
        assert len(theirs) == len(ours), (name, theirs, ours)
        for t, o in zip(theirs, ours):
            if isinstance(t, float) and math.isnan(t):
                assert math.isnan(o)
            else:
                assert t == o, (name, t, o)


def expect_error(data: bytes, exc_type, text=None) -> None:
    try:
        Rep().parse(data)
    except exc_type as e:
        assert type(e) is exc_type, (type(e), exc_type)
        if text is not None:
            assert text in str(e), str(e)
    else:
        raise AssertionError(f"no {exc_type.__name__} for {data!r}")


def main() -> None:
    # the three layouts partition the packable types (what the decoder relies on)
    assert set(betterproto.PACKED_TYPES) == (
        set(betterproto.WIRE_VARINT_TYPES)
        | set(betterproto.WIRE_FIXED_32_TYPES)
        | set(betterproto.WIRE_FIXED_64_TYPES)
    )
    assert set(betterproto.WIRE_FIXED_32_TYPES) == {
        betterproto.TYPE_FLOAT, betterproto.TYPE_FIXED32, betterproto.TYPE_SFIXED32}
    assert set(betterproto.WIRE_FIXED_64_TYPES) == {
        betterproto.TYPE_DOUBLE, betterproto.TYPE_FIXED64, betterproto.TYPE_SFIXED64}

    rnd = random.Random(2020)
    checked = 0

    # 1. one packed run per field, all sample values, hand-encoded
    for name, (number, kind) in FIELDS.items():
        values = SAMPLES[kind]
        for k in range(0, len(values) + 1):
            for vals in (values[:k], values[::-1][:k]):
                data = ld(number, b"".join(enc_item(kind, v) for v in vals))
                msg = Rep().parse(data)
                check_decoded(msg, {name: list(vals)})
                check_against_google(data, msg)
                # what betterproto writes is the same packed run (empty list: nothing)
                assert bytes(msg) == (data if vals else b"")
                checked += 1

    # 2. every enum number on its own, packed and unpacked, both enums
    for n in SAMPLES["enum"] + [rnd.randint(INT32_MIN, INT32_MAX) for _ in range(300)]:
        for name, number in (("enums", 1), ("nz", 15)):
            for data in (ld(number, varint(n)), tag(number, 0) + varint(n),
                         # 32-bit two's complement form of negative numbers (5 bytes)
                         ld(number, varint(n & 0xFFFFFFFF))):
                msg = Rep().parse(data)
                check_decoded(msg, {name: [n]})
                check_against_google(data, msg)
                back = Rep().parse(bytes(msg))
                check_decoded(back, {name: [n]})
                checked += 1

    # 3. several chunks for one field, packed and unpacked mixed, other fields between
    for _ in range(400):
        expect = {}
        data = b""
        for _chunk in range(rnd.randint(1, 6)):
            name = rnd.choice(list(FIELDS))
            number, kind = FIELDS[name]
            pool = SAMPLES[kind]
            if kind == "enum" and rnd.random() < 0.5:
                pool = [rnd.randint(-10, 10) for _ in range(4)]
            vals = [rnd.choice(pool) for _ in range(rnd.randint(0, 5))]
            if rnd.random() < 0.3:
                for v in vals:
                    data += unpacked(number, kind, v)
            else:
                data += ld(number, b"".join(enc_item(kind, v) for v in vals))
            expect.setdefault(name, []).extend(vals)
            if rnd.random() < 0.2:
                data += ld(17, b"str")
                expect.setdefault("names", []).append("str")
            if rnd.random() < 0.2:
                data += tag(99, 0) + varint(7)  # unknown field
        msg = Rep().parse(data)
        check_decoded(msg, expect)
        assert msg.names == expect.get("names", [])
        check_against_google(data, msg)
        again = Rep().parse(bytes(msg))
        check_decoded(again, expect)
        checked += 1

    # 4. what google writes (packed by default in proto3) is read back identically
    for _ in range(300):
        g = GRep()
        expect = {}
        for name, (number, kind) in FIELDS.items():
            if rnd.random() < 0.5:
                pool = SAMPLES[kind]
                vals = [rnd.choice(pool) for _ in range(rnd.randint(0, 6))]
                if kind == "float":
                    vals = [v for v in vals]
                getattr(g, name).extend(vals)
                expect[name] = vals
        data = g.SerializeToString()
        msg = Rep().parse(data)
        check_decoded(msg, expect)
        assert GRep.FromString(bytes(msg)) == g or any(
            isinstance(v, float) and math.isnan(v) for vs in expect.values() for v in vs
        )
        checked += 1

    # 5. non-minimal varints inside a packed enum run
    data = ld(1, b"\x81\x80\x00" + b"\x80\x00" + b"\xfd\xff\xff\xff\xff\xff\xff\xff\xff\x01")
    check_decoded(Rep().parse(data), {"enums": [1, 0, -3]})
    # a 10-byte varint whose top bits overflow 64 bits is still truncated to int32
    data = ld(1, b"\xff" * 9 + b"\x7f")
    check_decoded(Rep().parse(data), {"enums": [-1]})

    # 6. malformed runs fail the same way
    expect_error(ld(1, b"\x80"), EOFError)                      # truncated varint
    expect_error(ld(1, b"\x01\x02\xff"), EOFError)              # ... after good items
    expect_error(ld(15, b"\xff\xff"), EOFError)
    expect_error(ld(2, b"\x01\x80"), EOFError)
    expect_error(ld(1, b"\x80" * 10 + b"\x01"), ValueError, "Too many bytes")
    expect_error(ld(1, b"\x01" + b"\xff" * 11), ValueError, "Too many bytes")
    expect_error(ld(11, b"\x01\x02\x03"), struct.error)         # short fixed32 item
    expect_error(ld(11, b"\x01\x02\x03\x04\x05"), struct.error)
    expect_error(ld(9, b"\x00"), struct.error)
    expect_error(ld(12, b"\x00" * 7), struct.error)
    expect_error(ld(13, b"\x00" * 4), struct.error)             # short fixed64 item
    expect_error(ld(10, b"\x00" * 12), struct.error)
    expect_error(ld(14, b"\x00" * 15), struct.error)

    # 7. a length-delimited occurrence of a SINGULAR enum is not a packed run:
    #    it is kept as unknown data, the field keeps its default
    data = ld(16, varint(7) + varint(1))
    msg = Rep().parse(data)
    assert msg.single is Signal.OFF and bytes(msg) == data
    msg = Rep().parse(tag(16, 0) + varint(-3) + data)
    assert msg.single is Signal.NEG

    # 8. streaming entry points share the decoder
    import io

    payload = ld(1, b"".join(varint(n) for n in (0, -3, 9, INT32_MIN))) + ld(
        11, struct.pack("<II", 1, 2)) + ld(10, struct.pack("<d", 2.5))
    m = Rep().load(io.BytesIO(payload))
    check_decoded(m, {"enums": [0, -3, 9, INT32_MIN], "fx32": [1, 2], "f64": [2.5]})
    m = Rep().load(io.BytesIO(varint(len(payload)) + payload), betterproto.SIZE_DELIMITED)
    check_decoded(m, {"enums": [0, -3, 9, INT32_MIN], "fx32": [1, 2], "f64": [2.5]})
    m = Rep.FromString(payload)
    check_decoded(m, {"enums": [0, -3, 9, INT32_MIN], "fx32": [1, 2], "f64": [2.5]})
    # and JSON of the decoded enums: names for defined numbers, numbers otherwise
    assert m.to_dict()["enums"] == ["OFF", "NEG", 9, "MIN"]
    assert Rep().from_dict(m.to_dict()).enums == [0, -3, 9, INT32_MIN]

    print(f"OK ({checked} payloads checked)")


if __name__ == "__main__":
    main()
