"""C18 keep2: the three typing compilers of betterproto.plugin.typing_compiler.

Checks every method of every compiler against an independently written specification
(single calls with many argument shapes and random call sequences, including the imports
they record), then generates a three-package schema with services, maps, optional fields,
oneofs and cross-package references under all 3 x 2 option combinations, imports it,
checks that the configurations agree and compares source fingerprints with the ones
recorded on the reference tree.

Run:  PYTHONPATH=<worktree>/src /venv/bin/python equiv.py
"""
import contextlib
import dataclasses
import datetime
import hashlib
import importlib
import io
import itertools
import os
import shutil
import subprocess
import sys
import tempfile
import types
import typing

import betterproto
from betterproto.plugin import compiler as plugin_compiler

# ruff is not installed: the two formatting passes become the identity
plugin_compiler.subprocess.check_output = lambda cmd, input, encoding: input

from betterproto.lib.google.protobuf import FileDescriptorSet
from betterproto.lib.google.protobuf.compiler import CodeGeneratorRequest
from betterproto.plugin.models import monkey_patch_oneof_index
from betterproto.plugin.parser import generate_code

monkey_patch_oneof_index()

CONFIGS = [
    (t, p)
    for t in ("typing.direct", "typing.root", "typing.310")
    for p in (False, True)
]
WORK = tempfile.mkdtemp(prefix="c18_equiv_")
sys.path.insert(0, WORK)
_counter = itertools.count()


def descriptor_set(protos):
    d = tempfile.mkdtemp(prefix="c18_protos_")
    for name, text in protos.items():
        path = os.path.join(d, name)
        os.makedirs(os.path.dirname(path), exist_ok=True)
        with open(path, "w") as f:
            f.write(text)
    out = os.path.join(d, "ds.bin")
    subprocess.check_call(
        [sys.executable, "-m", "grpc_tools.protoc", f"-I{d}", "--include_imports",
         "--include_source_info", f"--descriptor_set_out={out}", *protos]
    )
    with open(out, "rb") as f:
        data = f.read()
    shutil.rmtree(d)
    return data


def generate(ds_bytes, files, parameter):
    """Run the plugin's generate_code; returns {file name: content}."""
    request = CodeGeneratorRequest(
        file_to_generate=list(files),
        parameter=parameter,
        proto_file=FileDescriptorSet().parse(ds_bytes).file,
    )
    with contextlib.redirect_stderr(io.StringIO()):
        response = generate_code(request)
    names = [f.name for f in response.file]
    assert len(names) == len(set(names)), names
    return {f.name: f.content for f in response.file}


def digest(sources):
    """Order-insensitive fingerprint of the generated sources (the trailing cross-package
    imports are emitted from a set, so line order may depend on the hash seed)."""
    h = hashlib.sha256()
    for name in sorted(sources):
        h.update(name.encode() + b"\0")
        h.update("\n".join(sorted(sources[name].splitlines())).encode() + b"\0")
    return h.hexdigest()[:16]


def import_sources(sources):
    root = f"c18gen{next(_counter)}"
    for name, content in sources.items():
        path = os.path.join(WORK, root, name)
        os.makedirs(os.path.dirname(path), exist_ok=True)
        with open(path, "w") as f:
            f.write(content)
    importlib.invalidate_caches()
    mods = {}
    for name in sorted(sources, key=len):
        compile(sources[name], name, "exec")
        package = ".".join(name.split("/")[:-1])
        mods[package] = importlib.import_module(".".join(filter(None, [root, package])))
    return mods


def parameter_of(cfg):
    typing_opt, pydantic = cfg
    return ",".join([typing_opt] + (["pydantic_dataclasses"] if pydantic else []))


def norm_type(t):
    origin = typing.get_origin(t)
    if origin is typing.Union or isinstance(t, types.UnionType):
        return ("union",) + tuple(sorted(repr(norm_type(a)) for a in typing.get_args(t)))
    if origin in (list, dict):
        return (origin.__name__,) + tuple(norm_type(a) for a in typing.get_args(t))
    if isinstance(t, type):
        mod = t.__module__
        if mod.startswith("c18gen"):
            mod = mod.partition(".")[2]
        mod = mod.replace("betterproto.lib.pydantic.", "betterproto.lib.")
        mod = mod.replace("betterproto.lib.std.", "betterproto.lib.")
        return (mod, t.__qualname__)
    return repr(t)


def norm_member(t):
    # a oneof member is `T` with standard and `Optional[T]` with pydantic dataclasses
    if typing.get_origin(t) is typing.Union or isinstance(t, types.UnionType):
        args = [a for a in typing.get_args(t) if a is not type(None)]
        if len(args) == 1:
            return norm_type(args[0])
    return norm_type(t)


def describe(mods):
    out = {}
    for package, mod in mods.items():
        for name in getattr(mod, "__all__", ()):
            obj = getattr(mod, name)
            if issubclass(obj, betterproto.Message):
                hints = obj._type_hints()
                fields = []
                for f in dataclasses.fields(obj):
                    m = betterproto.FieldMetadata.get(f)
                    fields.append((
                        f.name, m.number, m.proto_type, m.map_types, m.group, m.wraps,
                        None if m.group else m.optional,
                        norm_member(hints[f.name]) if m.group else norm_type(hints[f.name]),
                    ))
                out[package, name] = ("message", tuple(fields))
            elif issubclass(obj, betterproto.Enum):
                out[package, name] = ("enum", tuple((m.name, m.value) for m in obj))
            else:
                out[package, name] = ("service", tuple(sorted(k for k in vars(obj) if not k.startswith("_"))))
    return out


class E:  # enum member reference
    def __init__(self, package, enum, member):
        self.ref = (package, enum, member)

    def __repr__(self):
        return "E(%r, %r, %r)" % self.ref


def make(mods, spec):
    if isinstance(spec, tuple) and len(spec) == 3 and isinstance(spec[2], dict):
        package, name, kwargs = spec
        return getattr(mods[package], name)(**{k: make(mods, v) for k, v in kwargs.items()})
    if isinstance(spec, E):
        package, enum, member = spec.ref
        return getattr(getattr(mods[package], enum), member)
    if isinstance(spec, list):
        return [make(mods, v) for v in spec]
    if isinstance(spec, dict):
        return {k: make(mods, v) for k, v in spec.items()}
    return spec


def encodings(mods, values):
    out = []
    for spec in values:
        msg = make(mods, spec)
        data, text = bytes(msg), msg.to_json()
        again = type(msg)().parse(data)
        assert bytes(again) == data, spec
        assert again.to_json() == text, spec
        assert type(msg)().from_json(text).to_json() == text, spec
        out.append((data, text))
    return out


def check_configs_agree(ds, files, values, configs=CONFIGS):
    """The C18 statement itself: every configuration imports and agrees with the default."""
    reference = None
    digests = {}
    for cfg in configs:
        sources = generate(ds, files, parameter_of(cfg))
        digests[cfg] = digest(sources)
        mods = import_sources(sources)
        desc = describe(mods)
        enc = encodings(mods, values)
        if reference is None:
            reference = (desc, enc)
            continue
        assert desc.keys() == reference[0].keys(), (cfg, set(desc) ^ set(reference[0]))
        for key in desc:
            assert desc[key] == reference[0][key], (cfg, key, desc[key], reference[0][key])
        for spec, got, want in zip(values, enc, reference[1]):
            assert got[0] == want[0], ("bytes differ from default config", cfg, spec)
            assert got[1] == want[1], ("JSON differs from default config", cfg, spec)
    return digests, reference


# Fingerprints of the generated sources, recorded on the reference tree.
GOLDEN = {
    ("typing.direct", False): "1ca6a3b58bfd8fca",
    ("typing.direct", True): "b404d1f14e60c023",
    ("typing.root", False): "3d0cc6ac77282f79",
    ("typing.root", True): "ef61407ed369fe96",
    ("typing.310", False): "43bf79e0f0cb69a3",
    ("typing.310", True): "452f6b46c54070da",
}

import random

from betterproto.plugin.typing_compiler import (
    DirectImportTypingCompiler,
    NoTyping310TypingCompiler,
    TypingCompiler,
    TypingImportTypingCompiler,
)

METHODS = ("optional", "list", "dict", "union", "iterable", "async_iterable", "async_iterator")
TYPING_NAME = {"optional": "Optional", "list": "List", "dict": "Dict", "union": "Union",
               "iterable": "Iterable", "async_iterable": "AsyncIterable", "async_iterator": "AsyncIterator"}


def unquote(t):
    return t[1:-1] if t.startswith('"') else t


def expected(kind, method, args):
    """What each compiler has to return, written down independently of the library."""
    if kind == "direct":
        return TYPING_NAME[method] + "[" + ", ".join(args) + "]"
    if kind == "root":
        return "typing." + TYPING_NAME[method] + "[" + ", ".join(args) + "]"
    if method == "optional":
        return '"' + unquote(args[0]) + ' | None"'
    if method == "list":
        return '"list[' + unquote(args[0]) + ']"'
    if method == "dict":
        return '"dict[' + args[0] + ", " + unquote(args[1]) + ']"'
    if method == "union":
        return '"' + " | ".join(unquote(a) for a in args) + '"'
    return '"' + TYPING_NAME[method] + "[" + args[0] + ']"'


def expected_imports(kind, calls):
    names = {TYPING_NAME[m] for m in calls}
    if kind == "direct":
        return {"typing": names} if names else {}
    if kind == "root":
        return {"typing": None} if names else {}
    abc = {n for n in names if n in ("Iterable", "AsyncIterable", "AsyncIterator")}
    return {"collections.abc": abc} if abc else {}


def expected_lines(imports):
    lines = []
    for key, value in imports.items():
        if value is None:
            lines.append(f"import {key}")
        else:
            lines += [f"from {key} import ("] + [f"    {v}," for v in sorted(value)] + [")"]
    return lines


KINDS = {"direct": DirectImportTypingCompiler, "root": TypingImportTypingCompiler,
         "310": NoTyping310TypingCompiler}
ATOMS = ["int", "str", "float", '"Inner"', '"_b__.Other"', "builtins.int", '"int | None"',
         '"betterproto_lib_google_protobuf.Struct"', "", '"', '""', "grpclib.const.Handler",
         '"Deadline"', "Optional[int]", 'List["X"]', '"list[X]"', "a, b", ' "x"', 'x"', "typing.Any"]


def arity(method, rng):
    if method == "dict":
        return 2
    if method == "union":
        return rng.choice([0, 1, 2, 2, 3, 4])
    return 1


def check_compilers():
    rng = random.Random(18)
    for kind, cls in KINDS.items():
        assert issubclass(cls, TypingCompiler)
        fresh = cls()
        assert fresh.imports() == {} and list(fresh.import_lines()) == []
        assert cls() == cls() and repr(cls()) == repr(fresh)
        # every method with every atom, one call per fresh compiler
        for method in METHODS:
            for atom in ATOMS:
                for other in (ATOMS if method in ("dict", "union") else [None]):
                    args = (atom,) if other is None else (atom, other)
                    c = cls()
                    assert getattr(c, method)(*args) == expected(kind, method, args), (kind, method, args)
                    want = expected_imports(kind, [method])
                    assert c.imports() == want, (kind, method, c.imports(), want)
                    assert list(c.import_lines()) == expected_lines(want)
                    assert cls().imports() == {}  # no state shared between instances
        # random call sequences on one compiler, nested outputs fed back in
        for _ in range(400):
            c = cls()
            calls, pool = [], list(ATOMS)
            for _ in range(rng.randrange(0, 12)):
                method = rng.choice(METHODS)
                args = tuple(rng.choice(pool) for _ in range(arity(method, rng)))
                got = getattr(c, method)(*args)
                assert got == expected(kind, method, args), (kind, method, args, got)
                calls.append(method)
                pool.append(got)
                want = expected_imports(kind, calls)
                assert c.imports() == want, (kind, calls, c.imports())
                assert list(c.import_lines()) == expected_lines(want)
            assert (c == cls()) == (expected_imports(kind, calls) == {}), (kind, calls)
    # keyword arguments as used by callers / the abstract signatures
    assert DirectImportTypingCompiler().dict(key="str", value="int") == "Dict[str, int]"
    assert TypingImportTypingCompiler().dict(value="int", key="str") == "typing.Dict[str, int]"
    assert NoTyping310TypingCompiler().dict(key="str", value='"X"') == '"dict[str, X]"'
    assert DirectImportTypingCompiler().optional(type="int") == "Optional[int]"
    assert NoTyping310TypingCompiler().async_iterator(type="X") == '"AsyncIterator[X]"'
    assert DirectImportTypingCompiler().union() == "Union[]"
    assert TypingImportTypingCompiler().union() == "typing.Union[]"
    assert NoTyping310TypingCompiler().union() == '""'
    # the 3.10 compiler never needs the typing module
    c = NoTyping310TypingCompiler()
    c.optional("int"), c.list("int"), c.dict("str", "int"), c.union("a", "b")
    assert c.imports() == {} and c == NoTyping310TypingCompiler()


PROTOS = {
    "zoo/animals.proto": """
syntax = "proto3";
package zoo.animals;
import "zoo/food/menu.proto";
import "zoo/base.proto";
import "google/protobuf/wrappers.proto";
import "google/protobuf/duration.proto";

enum Diet { DIET_ANY = 0; DIET_PLANTS = 1; DIET_MEAT = 2; }
message Animal {
  string name = 1;
  optional uint32 legs = 2;
  repeated zoo.food.Dish likes = 3;
  map<string, zoo.food.Dish> schedule = 4;
  map<uint64, Diet> diet_by_year = 5;
  oneof home { string cage = 6; zoo.Area area = 7; google.protobuf.BoolValue wild = 8; Diet fed_as = 9; }
  optional Diet diet = 10;
  repeated google.protobuf.DoubleValue weights = 11;
  google.protobuf.Duration nap = 12;
  optional zoo.Area born_in = 13;
  map<string, google.protobuf.BytesValue> tags = 14;
  repeated Animal children = 15;
  int32 int = 16;
  repeated int32 counts = 17;
}
service Keeper {
  rpc Feed(Animal) returns (zoo.food.Dish);
  rpc Observe(zoo.Area) returns (stream Animal);
  rpc Count(stream Animal) returns (zoo.Area);
  rpc Trade(stream zoo.food.Dish) returns (stream zoo.food.Dish);
}
""",
    "zoo/food/menu.proto": """
syntax = "proto3";
package zoo.food;
message Dish { string what = 1; repeated float grams = 2; map<string, bool> flags = 3; }
service Kitchen { rpc Cook(Dish) returns (Dish); }
""",
    "zoo/base.proto": """
syntax = "proto3";
package zoo;
message Area { sint32 x = 1; sint32 y = 2; }
""",
}
FILES = list(PROTOS)
Z, AN, F = "zoo", "zoo.animals", "zoo.food"
VALUES = [
    (AN, "Animal", {}),
    (AN, "Animal", {"name": "gnu", "legs": 0, "likes": [(F, "Dish", {"what": "hay", "grams": [1.5, 0.0]}), (F, "Dish", {})],
                    "schedule": {"am": (F, "Dish", {"flags": {"hot": False, "": True}})},
                    "diet_by_year": {2**40: E(AN, "Diet", "MEAT"), 0: E(AN, "Diet", "ANY")}}),
    (AN, "Animal", {"cage": ""}),
    (AN, "Animal", {"area": (Z, "Area", {"x": -1, "y": 2**31 - 1})}),
    (AN, "Animal", {"wild": False}),
    (AN, "Animal", {"fed_as": E(AN, "Diet", "ANY")}),
    (AN, "Animal", {"diet": E(AN, "Diet", "PLANTS"), "weights": [0.0, 2.5], "born_in": (Z, "Area", {}),
                    "nap": datetime.timedelta(minutes=90, microseconds=1)}),
    (AN, "Animal", {"diet": E(AN, "Diet", "ANY"), "tags": {}, "children": [(AN, "Animal", {"name": "kid", "int": -7})],
                    "int": 2**31 - 1, "counts": [0, -1, 5]}),
    (F, "Dish", {"what": "x" * 300}),
    (Z, "Area", {"x": -(2**31)}),
]


def check_generated():
    ds = descriptor_set(PROTOS)
    digests, _ = check_configs_agree(ds, FILES, VALUES)
    print("digests", digests)
    for cfg, want in GOLDEN.items():
        assert digests[cfg] == want, ("generated source changed", cfg, digests[cfg], want)
    for cfg in CONFIGS:
        sources = generate(ds, FILES, parameter_of(cfg))
        animals, food, base = (sources[f"{p}/__init__.py"] for p in ("zoo/animals", "zoo/food", "zoo"))
        if cfg[0] == "typing.direct":
            for name in ("AsyncIterable", "AsyncIterator", "Dict", "Iterable", "List", "Optional", "Union"):
                assert f"    {name},\n" in animals, (cfg, name)
            for name in ("AsyncIterable", "AsyncIterator", "Iterable", "Union"):
                assert f"    {name},\n" not in food, (cfg, name)
            assert "from typing import (" not in base
        elif cfg[0] == "typing.root":
            assert "\nimport typing\n" in animals and "\nimport typing\n" in food
            assert "import typing\n" not in base
        else:
            assert "from collections.abc import (\n    AsyncIterable,\n    AsyncIterator,\n    Iterable,\n)" in animals
            assert "collections.abc" not in food and "collections.abc" not in base


def main():
    check_compilers()
    check_generated()
    print("keep2 equiv: OK")


if __name__ == "__main__":
    try:
        main()
    finally:
        shutil.rmtree(WORK, ignore_errors=True)
