"""C19 / keep2: which field from_dict / from_pydict route a JSON key to.

For every key a message emits (both casings), the field's own name, the original proto
field name and keys that belong to no field, the routing is compared with an
independent model: the emitted keys of the class first (first field wins, own names
override), otherwise the name the plugin derives from the key."""
import builtins
import dataclasses
import itertools
import json
import keyword
import re
from typing import Dict, List, Optional

import betterproto
from betterproto import Casing
from betterproto.casing import camel_case, safe_snake_case, snake_case
from betterproto.compile.naming import pythonize_field_name

from google.protobuf import descriptor_pb2, descriptor_pool, json_format, message_factory


def make_message(field_names, name="M"):
    return dataclasses.make_dataclass(
        name,
        [(n, int, betterproto.int32_field(i)) for i, n in enumerate(field_names, 1)],
        bases=(betterproto.Message,), eq=False, repr=False,
    )


def model_field_for_key(field_names, key):
    table = {}
    for name in field_names:
        for casing in (camel_case, snake_case):
            table.setdefault(casing(name).rstrip("_"), name)
    for name in field_names:
        table[name] = name
    name = table.get(key)
    if name is None:
        name = safe_snake_case(key)
    return name if name in field_names else None


def routed_fields(cls, key):
    """The fields that receive the value of `key`, by every entry point (must agree)."""
    results = []
    for msg in (
        cls.from_dict({key: 7}),
        cls().from_dict({key: 7}),
        cls().from_pydict({key: 7}),
        cls().from_json(json.dumps({key: 7})),
    ):
        hit = [f.name for f in dataclasses.fields(msg) if getattr(msg, f.name) == 7]
        assert all(getattr(msg, f.name) in (0, 7) for f in dataclasses.fields(msg))
        assert len(hit) <= 1, (key, hit)
        results.append(hit[0] if hit else None)
    assert len(set(results)) == 1, (key, results)
    return results[0]


def check_class(field_names, extra_keys=()):
    cls = make_message(field_names)
    keys = list(extra_keys)
    for name in field_names:
        keys += [name, camel_case(name).rstrip("_"), snake_case(name).rstrip("_"),
                 name.upper(), name.capitalize(), name.rstrip("_"), name + "_", "_" + name,
                 camel_case(name), camel_case(name)[:1].upper() + camel_case(name)[1:],
                 name.replace("_", "-"), name.replace("_", "."), name.replace("_", "")]
    size = len(cls._betterproto.field_name_by_key)
    for key in dict.fromkeys(keys):
        expected = model_field_for_key(field_names, key)
        assert routed_fields(cls, key) == expected, (field_names, key, expected)
        # the table itself only knows emitted keys and own names
        known = cls._betterproto.field_name_by_key.get(key)
        assert (key in cls._betterproto.field_name_by_key) == (known is not None)
        if known is not None:
            assert known == expected, (field_names, key)
    assert len(cls._betterproto.field_name_by_key) == size  # nothing is memoised
    # full round trip in both casings, when the emitted keys are distinct
    msg = cls(**{n: i for i, n in enumerate(field_names, 1)})
    for casing in (Casing.CAMEL, Casing.SNAKE):
        for emitted in (msg.to_dict(casing=casing), msg.to_pydict(casing=casing)):
            if len(emitted) == len(field_names):
                for back in (cls.from_dict(emitted), cls().from_dict(emitted),
                             cls().from_pydict(emitted)):
                    for i, n in enumerate(field_names, 1):
                        if model_field_for_key(field_names, casing(n).rstrip("_")) == n:
                            assert getattr(back, n) == i, (field_names, casing, n)
    return cls


# ------------------------------------------------------------ one field per class
CORPUS = [
    "address_line_1", "ipv4_address", "x_y_z", "HTTPStatus", "httpStatus", "HTTP2xx",
    "user_id", "userId", "UserID", "User_Id", "USER_ID", "Content_Type", "ETag",
    "sha256_sum", "SHA256Sum", "utf8", "a1b2", "A1B2", "_private", "__dunder",
    "trailing_", "trailing__", "foo__bar", "Foo__Bar", "_", "__", "_1", "_1a",
]
for word in keyword.kwlist + keyword.softkwlist + [b for b in dir(builtins) if b.islower()]:
    CORPUS += [word, word.capitalize(), word.upper(), word + "_", "_" + word]
proto_names = [n for n in dict.fromkeys(CORPUS) if re.fullmatch("[A-Za-z_][A-Za-z0-9_]*", n)]
for length in range(1, 5):
    proto_names += ["".join(c) for c in itertools.product("aB1_", repeat=length) if c[0] != "1"]

count = 0
for proto_name in dict.fromkeys(proto_names):
    field = pythonize_field_name(proto_name)
    cls = check_class([field], extra_keys=[proto_name, "unknown", "", "nope_1", "Nope"])
    # the property: emitted keys and the original name come back to the field
    assert routed_fields(cls, proto_name) == field, (proto_name, field)
    assert routed_fields(cls, camel_case(field).rstrip("_")) == field
    assert routed_fields(cls, snake_case(field).rstrip("_")) == field
    count += 1

# ------------------------------------------------------------ several fields, lossy keys
GROUPS = [
    ["address_line_1", "address_line_2", "city"],
    ["address_line_1", "address_line1"],
    ["address_line1", "address_line_1"],
    ["x_y_z", "x_yz", "xyz"],
    ["x_yz", "x_y_z"],
    ["a_1", "a1"], ["a1", "a_1"],
    ["class_", "type", "from_", "import_", "none", "true", "match", "_1"],
    ["ipv4_address", "ipv_4_address", "ipv4address"],
    ["http2_xx", "http_2xx", "http_status"],
    ["foo", "foo_", "foo_bar", "foo_bar_"],
    ["a", "b", "a_b", "ab", "a_b_c", "ab_c", "a_bc", "abc"],
    ["_"], ["_", "a"],
]
alphabet_fields = sorted({pythonize_field_name("".join(c)) for n in range(1, 4)
                          for c in itertools.product("ab1_", repeat=n) if c[0] != "1"})
GROUPS += [list(pair) for pair in itertools.permutations(alphabet_fields[:14], 2)]
GROUPS.append(alphabet_fields)
for group in GROUPS:
    check_class(group, extra_keys=["unknown", "addressLine1", "address_line1", "xYZ", "xYz",
                                   "x_yz", "a1", "A1", "Class", "class", "None", "1", "_1",
                                   "HTTP2xx", "http2Xx", "ipv4Address", "fooBar", "foo"])
    count += 1

# None values and unknown keys are skipped, later duplicates of a field win
Addr = make_message(["address_line_1", "x_y_z", "class_"])
assert Addr.from_dict({"addressLine1": None, "xYZ": 3, "zzz": 1}).to_dict() == {"xYZ": 3}
assert Addr().from_pydict({"addressLine1": None, "xYZ": 3, "zzz": 1}).to_dict() == {"xYZ": 3}
assert Addr.from_dict({"address_line_1": 1, "addressLine1": 2}).address_line_1 == 2
assert Addr().from_pydict({"addressLine1": 2, "address_line_1": 1}).address_line_1 == 1
assert Addr.from_dict({"class": 4, "Class": 5, "CLASS": 6}).class_ == 6
for bad_key in (None, 5, ("a",)):
    for call in (Addr.from_dict, Addr().from_dict, Addr().from_pydict):
        try:
            call({bad_key: 1})
        except TypeError:
            pass
        else:
            raise AssertionError(f"key {bad_key!r} accepted")


# ------------------------------------------------------------ nested messages and maps
@dataclasses.dataclass(eq=False, repr=False)
class Inner(betterproto.Message):
    address_line_1: str = betterproto.string_field(1)
    x_y_z: int = betterproto.int32_field(2)


@dataclasses.dataclass(eq=False, repr=False)
class Outer(betterproto.Message):
    inner_msg_1: Inner = betterproto.message_field(1)
    inner_list_2: List[Inner] = betterproto.message_field(2)
    by_name_3: Dict[str, Inner] = betterproto.map_field(
        3, betterproto.TYPE_STRING, betterproto.TYPE_MESSAGE)
    maybe_4: Optional[int] = betterproto.int32_field(4, optional=True)


outer = Outer(
    inner_msg_1=Inner("a", 1),
    inner_list_2=[Inner("b", 2), Inner("c", 3)],
    by_name_3={"address_line_1": Inner("d", 4)},
    maybe_4=0,
)
for casing in (Casing.CAMEL, Casing.SNAKE):
    emitted = outer.to_dict(casing=casing)
    assert len(emitted) == 4
    for back in (Outer.from_dict(emitted), Outer().from_dict(emitted),
                 Outer().from_pydict(outer.to_pydict(casing=casing)),
                 Outer().from_json(outer.to_json(casing=casing))):
        assert back == outer, (casing, back)
        assert bytes(back) == bytes(outer)
original_names = {
    "inner_msg_1": {"address_line_1": "a", "x_y_z": 1},
    "Inner_List_2": [{"ADDRESS_LINE_1": "b", "X_Y_Z": 2}, {"addressLine1": "c", "xYZ": 3}],
    "byName3": {"address_line_1": {"address-line-1": "d", "x.y.z": 4}},
    "MAYBE_4": 0,
}
assert Outer.from_dict(original_names) == outer
assert Outer().from_dict(original_names) == outer

# ------------------------------------------------------------ google.protobuf agrees
file_proto = descriptor_pb2.FileDescriptorProto(name="c19_keep2.proto", package="c19k2", syntax="proto3")
msg_proto = file_proto.message_type.add(name="Addr")
GOOGLE_FIELDS = ["address_line_1", "ipv4_address", "x_y_z", "user_id", "sha256_sum", "from", "class"]
for number, proto_name in enumerate(GOOGLE_FIELDS, 1):
    msg_proto.field.add(name=proto_name, number=number,
                        type=descriptor_pb2.FieldDescriptorProto.TYPE_INT32,
                        label=descriptor_pb2.FieldDescriptorProto.LABEL_OPTIONAL)
pool = descriptor_pool.DescriptorPool()
pool.Add(file_proto)
GAddr = message_factory.GetMessageClass(pool.FindMessageTypeByName("c19k2.Addr"))
BAddr = make_message([pythonize_field_name(n) for n in GOOGLE_FIELDS], "BAddr")
gmsg = GAddr(**{n: i for i, n in enumerate(GOOGLE_FIELDS, 1)})
bmsg = BAddr.from_dict(json_format.MessageToDict(gmsg))  # google's lowerCamelCase keys
assert bytes(bmsg) == gmsg.SerializeToString()
bmsg = BAddr.from_dict(json_format.MessageToDict(gmsg, preserving_proto_field_name=True))
assert bytes(bmsg) == gmsg.SerializeToString()
for casing in (Casing.CAMEL, Casing.SNAKE):
    parsed = json_format.ParseDict(bmsg.to_dict(casing=casing), GAddr())
    assert parsed == gmsg, casing

print(f"C19 keep2 ok: {count} message classes checked")
