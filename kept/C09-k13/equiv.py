"""C09 equivalence script for the refactor "dump() and __bytes__ share a chunk generator".

Checks, over a large seeded corpus of hand-defined message values (every scalar kind,
packed / unpacked repeated fields, maps, oneofs, proto3 optionals, wrappers,
Timestamp / Duration, nesting, unknown fields, empty-but-present members):

  * len(m) == len(bytes(m)); dump(stream) writes bytes(m) (as bytes-like writes);
    dump(stream, SIZE_DELIMITED) writes varint(len) + bytes(m); SerializeToString == bytes
  * bytes(m), decoded by google.protobuf (dynamic messages built from an equivalent
    descriptor), equals the google message built from the same Python values
  * a digest over all encodings / sizes equals the value recorded on the reference tree,
    so the encodings are byte-for-byte what they were before the refactor
"""
import hashlib
import random
import struct
import sys
from dataclasses import dataclass
from datetime import datetime, timedelta, timezone
from io import BytesIO
from typing import Dict, List, Optional

import betterproto
from google.protobuf import descriptor_pb2, descriptor_pool, message_factory
from google.protobuf import duration_pb2, timestamp_pb2, wrappers_pb2  # noqa: F401

UTC = timezone.utc
EPOCH = datetime(1970, 1, 1, tzinfo=UTC)


# --------------------------------------------------------------------------- betterproto side
class Color(betterproto.Enum):
    ZERO = 0
    RED = 1
    NEG = -1
    BIG = 2147483647


@dataclass(eq=False, repr=False)
class Leaf(betterproto.Message):
    a: int = betterproto.int32_field(1)
    s: str = betterproto.string_field(2)
    zz: List[int] = betterproto.sint64_field(3)


@dataclass(eq=False, repr=False)
class Empty(betterproto.Message):
    pass


@dataclass(eq=False, repr=False)
class All(betterproto.Message):
    f_int32: int = betterproto.int32_field(1)
    f_int64: int = betterproto.int64_field(2)
    f_uint32: int = betterproto.uint32_field(3)
    f_uint64: int = betterproto.uint64_field(4)
    f_sint32: int = betterproto.sint32_field(5)
    f_sint64: int = betterproto.sint64_field(6)
    f_bool: bool = betterproto.bool_field(7)
    f_enum: "Color" = betterproto.enum_field(8)
    f_fixed32: int = betterproto.fixed32_field(9)
    f_sfixed32: int = betterproto.sfixed32_field(10)
    f_fixed64: int = betterproto.fixed64_field(11)
    f_sfixed64: int = betterproto.sfixed64_field(12)
    f_float: float = betterproto.float_field(13)
    f_double: float = betterproto.double_field(14)
    f_string: str = betterproto.string_field(15)
    f_bytes: bytes = betterproto.bytes_field(16)
    f_msg: "Leaf" = betterproto.message_field(17)
    r_int32: List[int] = betterproto.int32_field(18)
    r_sint32: List[int] = betterproto.sint32_field(19)
    r_double: List[float] = betterproto.double_field(20)
    r_float: List[float] = betterproto.float_field(21)
    r_fixed64: List[int] = betterproto.fixed64_field(22)
    r_bool: List[bool] = betterproto.bool_field(23)
    r_enum: List["Color"] = betterproto.enum_field(24)
    r_string: List[str] = betterproto.string_field(25)
    r_bytes: List[bytes] = betterproto.bytes_field(26)
    r_msg: List["Leaf"] = betterproto.message_field(27)
    m_si: Dict[str, int] = betterproto.map_field(
        30, betterproto.TYPE_STRING, betterproto.TYPE_INT32
    )
    m_is: Dict[int, str] = betterproto.map_field(
        31, betterproto.TYPE_INT64, betterproto.TYPE_STRING
    )
    m_sl: Dict[str, "Leaf"] = betterproto.map_field(
        32, betterproto.TYPE_STRING, betterproto.TYPE_MESSAGE
    )
    m_bb: Dict[bool, bytes] = betterproto.map_field(
        33, betterproto.TYPE_BOOL, betterproto.TYPE_BYTES
    )
    m_zd: Dict[int, float] = betterproto.map_field(
        34, betterproto.TYPE_SINT32, betterproto.TYPE_DOUBLE
    )
    o_int: int = betterproto.int32_field(40, group="choice")
    o_str: str = betterproto.string_field(41, group="choice")
    o_bytes: bytes = betterproto.bytes_field(42, group="choice")
    o_msg: "Leaf" = betterproto.message_field(43, group="choice")
    o_enum: "Color" = betterproto.enum_field(44, group="choice")
    o_empty: "Empty" = betterproto.message_field(45, group="choice")
    p_int: Optional[int] = betterproto.int32_field(50, optional=True)
    p_str: Optional[str] = betterproto.string_field(51, optional=True)
    p_msg: Optional["Leaf"] = betterproto.message_field(52, optional=True)
    p_bool: Optional[bool] = betterproto.bool_field(53, optional=True)
    p_double: Optional[float] = betterproto.double_field(54, optional=True)
    w_int: Optional[int] = betterproto.message_field(60, wraps=betterproto.TYPE_INT32)
    w_str: Optional[str] = betterproto.message_field(61, wraps=betterproto.TYPE_STRING)
    w_bool: Optional[bool] = betterproto.message_field(62, wraps=betterproto.TYPE_BOOL)
    w_double: Optional[float] = betterproto.message_field(
        63, wraps=betterproto.TYPE_DOUBLE
    )
    w_bytes: Optional[bytes] = betterproto.message_field(
        64, wraps=betterproto.TYPE_BYTES
    )
    w_u64: Optional[int] = betterproto.message_field(65, wraps=betterproto.TYPE_UINT64)
    ts: datetime = betterproto.message_field(70)
    dur: timedelta = betterproto.message_field(71)
    r_ts: List[datetime] = betterproto.message_field(72)
    child: "All" = betterproto.message_field(80)
    f_far: int = betterproto.int32_field(2047)
    f_farther: str = betterproto.string_field(2048)
    f_last: int = betterproto.uint32_field(536870911)


@dataclass(eq=False, repr=False)
class Lite(betterproto.Message):
    """Knows only a few of All's fields: the rest arrives as unknown fields."""

    f_int64: int = betterproto.int64_field(2)
    f_string: str = betterproto.string_field(15)
    r_sint32: List[int] = betterproto.sint32_field(19)
    o_str: str = betterproto.string_field(41, group="choice")
    o_msg: "Leaf" = betterproto.message_field(43, group="choice")
    p_str: Optional[str] = betterproto.string_field(51, optional=True)
    child: "Lite" = betterproto.message_field(80)


# --------------------------------------------------------------------------- google side
FD = descriptor_pb2.FieldDescriptorProto
_T = {
    "int32": FD.TYPE_INT32, "int64": FD.TYPE_INT64, "uint32": FD.TYPE_UINT32,
    "uint64": FD.TYPE_UINT64, "sint32": FD.TYPE_SINT32, "sint64": FD.TYPE_SINT64,
    "bool": FD.TYPE_BOOL, "fixed32": FD.TYPE_FIXED32, "sfixed32": FD.TYPE_SFIXED32,
    "fixed64": FD.TYPE_FIXED64, "sfixed64": FD.TYPE_SFIXED64, "float": FD.TYPE_FLOAT,
    "double": FD.TYPE_DOUBLE, "string": FD.TYPE_STRING, "bytes": FD.TYPE_BYTES,
}


def _build_google():
    f = descriptor_pb2.FileDescriptorProto()
    f.name = "c09_equiv.proto"
    f.package = "c09"
    f.syntax = "proto3"
    f.dependency.extend(
        [
            "google/protobuf/wrappers.proto",
            "google/protobuf/timestamp.proto",
            "google/protobuf/duration.proto",
        ]
    )
    e = f.enum_type.add()
    e.name = "Color"
    for n, v in (("ZERO", 0), ("RED", 1), ("NEG", -1), ("BIG", 2147483647)):
        ev = e.value.add()
        ev.name, ev.number = n, v

    leaf = f.message_type.add()
    leaf.name = "Leaf"
    empty = f.message_type.add()
    empty.name = "Empty"
    m = f.message_type.add()
    m.name = "All"

    def add(msg, name, number, typ, repeated=False, oneof=None, optional=False):
        fd = msg.field.add()
        fd.name, fd.number = name, number
        fd.label = FD.LABEL_REPEATED if repeated else FD.LABEL_OPTIONAL
        if typ in _T:
            fd.type = _T[typ]
        elif typ == "Color":
            fd.type, fd.type_name = FD.TYPE_ENUM, ".c09.Color"
        else:
            fd.type, fd.type_name = FD.TYPE_MESSAGE, typ
        if oneof is not None:
            fd.oneof_index = oneof
        if optional:
            fd.proto3_optional = True
        return fd

    add(leaf, "a", 1, "int32")
    add(leaf, "s", 2, "string")
    add(leaf, "zz", 3, "sint64", repeated=True)

    m.oneof_decl.add().name = "choice"
    scal = [
        "int32", "int64", "uint32", "uint64", "sint32", "sint64", "bool", "Color",
        "fixed32", "sfixed32", "fixed64", "sfixed64", "float", "double", "string", "bytes",
    ]
    for i, t in enumerate(scal, start=1):
        add(m, "f_" + ("enum" if t == "Color" else t), i, t)
    add(m, "f_msg", 17, ".c09.Leaf")
    for name, num, t in (
        ("r_int32", 18, "int32"), ("r_sint32", 19, "sint32"), ("r_double", 20, "double"),
        ("r_float", 21, "float"), ("r_fixed64", 22, "fixed64"), ("r_bool", 23, "bool"),
        ("r_enum", 24, "Color"), ("r_string", 25, "string"), ("r_bytes", 26, "bytes"),
        ("r_msg", 27, ".c09.Leaf"),
    ):
        add(m, name, num, t, repeated=True)

    def add_map(name, number, kt, vt):
        entry = m.nested_type.add()
        entry.name = "".join(p.capitalize() for p in name.split("_")) + "Entry"
        entry.options.map_entry = True
        add(entry, "key", 1, kt)
        add(entry, "value", 2, vt)
        add(m, name, number, ".c09.All." + entry.name, repeated=True)

    add_map("m_si", 30, "string", "int32")
    add_map("m_is", 31, "int64", "string")
    add_map("m_sl", 32, "string", ".c09.Leaf")
    add_map("m_bb", 33, "bool", "bytes")
    add_map("m_zd", 34, "sint32", "double")
    add(m, "o_int", 40, "int32", oneof=0)
    add(m, "o_str", 41, "string", oneof=0)
    add(m, "o_bytes", 42, "bytes", oneof=0)
    add(m, "o_msg", 43, ".c09.Leaf", oneof=0)
    add(m, "o_enum", 44, "Color", oneof=0)
    add(m, "o_empty", 45, ".c09.Empty", oneof=0)
    for i, (name, num, t) in enumerate(
        (
            ("p_int", 50, "int32"), ("p_str", 51, "string"), ("p_msg", 52, ".c09.Leaf"),
            ("p_bool", 53, "bool"), ("p_double", 54, "double"),
        ),
        start=1,
    ):
        m.oneof_decl.add().name = "_" + name
        add(m, name, num, t, oneof=i, optional=True)
    add(m, "w_int", 60, ".google.protobuf.Int32Value")
    add(m, "w_str", 61, ".google.protobuf.StringValue")
    add(m, "w_bool", 62, ".google.protobuf.BoolValue")
    add(m, "w_double", 63, ".google.protobuf.DoubleValue")
    add(m, "w_bytes", 64, ".google.protobuf.BytesValue")
    add(m, "w_u64", 65, ".google.protobuf.UInt64Value")
    add(m, "ts", 70, ".google.protobuf.Timestamp")
    add(m, "dur", 71, ".google.protobuf.Duration")
    add(m, "r_ts", 72, ".google.protobuf.Timestamp", repeated=True)
    add(m, "child", 80, ".c09.All")
    add(m, "f_far", 2047, "int32")
    add(m, "f_farther", 2048, "string")
    add(m, "f_last", 536870911, "uint32")

    pool = descriptor_pool.Default()
    pool.AddSerializedFile(f.SerializeToString())
    return message_factory.GetMessageClass(pool.FindMessageTypeByName("c09.All"))


GAll = _build_google()


# --------------------------------------------------------------------------- value generation
I32 = [0, 1, -1, 127, 128, 16383, 16384, 2**31 - 1, -(2**31), -64, -65, 300, 2**21, 2**28]
I64 = I32 + [2**63 - 1, -(2**63), 2**35, 2**42 - 1, 2**49, 2**56, -(2**56)]
U32 = [0, 1, 127, 128, 16383, 16384, 2**32 - 1, 2**21 - 1, 2**21, 2**28]
U64 = U32 + [2**64 - 1, 2**63, 2**35 - 1, 2**35, 2**56 - 1, 2**56]
F32 = [0.0, 1.0, -1.5, 3.5, 2.0**-10, float("inf"), float("-inf"), 1e10, 16777216.0]
F64 = F32 + [1e300, -2.5e-300, 0.1, 1 / 3, float("nan")]
STR = ["", "a", "abc", "é", "ࠀ", "日本語", "\U0001f600", "x" * 127, "x" * 128, "y" * 300, "\x00"]
BYT = [b"", b"\x00", b"ab", b"\xff" * 127, b"\xfe" * 128, b"z" * 16384, bytes(range(256))]
COL = [Color.ZERO, Color.RED, Color.NEG, Color.BIG]
TSS = [
    EPOCH,
    datetime(1970, 1, 1, 0, 0, 0, 1, tzinfo=UTC),
    datetime(2024, 2, 29, 12, 30, 15, 123456, tzinfo=UTC),
    datetime(1969, 12, 31, 23, 59, 59, 500000, tzinfo=UTC),
    datetime(1969, 12, 31, 23, 59, 59, tzinfo=UTC),
    datetime(1901, 5, 6, 7, 8, 9, 10, tzinfo=UTC),
    datetime(9999, 12, 31, 23, 59, 59, 999999, tzinfo=UTC),
    datetime(1, 1, 1, tzinfo=UTC),
]
DUR = [
    timedelta(0), timedelta(seconds=1), timedelta(microseconds=1), timedelta(seconds=-1),
    timedelta(seconds=-1.5), timedelta(microseconds=-1), timedelta(days=400, microseconds=7),
    timedelta(days=-3, seconds=5), timedelta(seconds=127, microseconds=999999),
]


def gen_leaf(rng):
    kw = {}
    if rng.random() < 0.6:
        kw["a"] = rng.choice(I32)
    if rng.random() < 0.6:
        kw["s"] = rng.choice(STR)
    if rng.random() < 0.5:
        kw["zz"] = [rng.choice(I64) for _ in range(rng.randrange(0, 5))]
    return kw


SCALARS = {
    "f_int32": I32, "f_int64": I64, "f_uint32": U32, "f_uint64": U64, "f_sint32": I32,
    "f_sint64": I64, "f_bool": [False, True], "f_enum": COL, "f_fixed32": U32,
    "f_sfixed32": I32, "f_fixed64": U64, "f_sfixed64": I64, "f_float": F32,
    "f_double": F64, "f_string": STR, "f_bytes": BYT, "f_far": I32, "f_farther": STR,
    "f_last": U32,
}
REPEATED = {
    "r_int32": I32, "r_sint32": I32, "r_double": F64, "r_float": F32, "r_fixed64": U64,
    "r_bool": [False, True], "r_enum": COL, "r_string": STR, "r_bytes": BYT, "r_ts": TSS,
}
MAPS = {
    "m_si": (STR, I32), "m_is": (I64, STR), "m_bb": ([False, True], BYT), "m_zd": (I32, F64),
}
ONEOF = {"o_int": I32, "o_str": STR, "o_bytes": BYT, "o_enum": COL}
OPTIONAL = {"p_int": I32, "p_str": STR, "p_bool": [False, True], "p_double": F64}
WRAPPED = {
    "w_int": I32, "w_str": STR, "w_bool": [False, True], "w_double": F64, "w_bytes": BYT,
    "w_u64": U64,
}


def gen_all(rng, depth=0, density=0.3):
    """A plain description {field: python value} (sub-messages as dicts)."""
    d = {}
    for name, pool in SCALARS.items():
        if rng.random() < density:
            d[name] = rng.choice(pool)
    if rng.random() < density:
        d["f_msg"] = gen_leaf(rng)
    for name, pool in REPEATED.items():
        if rng.random() < density:
            n = rng.choice([0, 1, 2, 3, 7, 130]) if name != "r_bytes" else rng.randrange(0, 3)
            d[name] = [rng.choice(pool) for _ in range(n)]
    if rng.random() < density:
        d["r_msg"] = [gen_leaf(rng) for _ in range(rng.randrange(0, 4))]
    for name, (kp, vp) in MAPS.items():
        if rng.random() < density:
            d[name] = {rng.choice(kp): rng.choice(vp) for _ in range(rng.randrange(0, 4))}
    if rng.random() < density:
        d["m_sl"] = {rng.choice(STR): gen_leaf(rng) for _ in range(rng.randrange(0, 3))}
    if rng.random() < 0.5:
        name = rng.choice(list(ONEOF) + ["o_msg", "o_empty"])
        if name == "o_msg":
            d[name] = gen_leaf(rng)
        elif name == "o_empty":
            d[name] = {}
        else:
            d[name] = rng.choice(ONEOF[name])
    for name, pool in OPTIONAL.items():
        if rng.random() < density:
            d[name] = rng.choice(pool)
    if rng.random() < density:
        d["p_msg"] = gen_leaf(rng)
    for name, pool in WRAPPED.items():
        if rng.random() < density:
            d[name] = rng.choice(pool)
    if rng.random() < density:
        d["ts"] = rng.choice(TSS)
    if rng.random() < density:
        d["dur"] = rng.choice(DUR)
    if depth < 3 and rng.random() < 0.35:
        d["child"] = gen_all(rng, depth + 1, density)
    return d


def to_bp(d):
    kw = {}
    for k, v in d.items():
        if k in ("f_msg", "o_msg", "p_msg"):
            kw[k] = Leaf(**v)
        elif k == "o_empty":
            kw[k] = Empty()
        elif k == "r_msg":
            kw[k] = [Leaf(**x) for x in v]
        elif k == "m_sl":
            kw[k] = {kk: Leaf(**vv) for kk, vv in v.items()}
        elif k == "child":
            kw[k] = to_bp(v)
        elif isinstance(v, list):
            kw[k] = list(v)
        elif isinstance(v, dict):
            kw[k] = dict(v)
        else:
            kw[k] = v
    return All(**kw)


def _ts_parts(dt):
    us = (dt - EPOCH) // timedelta(microseconds=1)
    s, u = divmod(us, 10**6)
    return s, u * 1000


def _dur_parts(td):
    us = td // timedelta(microseconds=1)
    s, u = divmod(abs(us), 10**6)
    return (-s, -u * 1000) if us < 0 else (s, u * 1000)


def _is_neg_zero(v):
    return isinstance(v, float) and v == 0 and struct.pack("<d", v) != struct.pack("<d", 0.0)


def fill_leaf(g, d):
    # a Leaf constructed from keywords is always "present"
    g.SetInParent()
    if "a" in d:
        g.a = d["a"]
    if "s" in d:
        g.s = d["s"]
    g.zz.extend(d.get("zz", []))


def fill_google(g, d):
    """Build the google message that bytes(to_bp(d)) is expected to decode to."""
    for k, v in d.items():
        if k in ("f_msg", "o_msg", "p_msg"):
            # A singular (non-oneof, non-optional) child that equals the default is sent
            # iff it was marked as set: Leaf(...) with a keyword is, Leaf() is not.
            if k == "f_msg" and not v:
                continue
            fill_leaf(getattr(g, k), v)
        elif k == "o_empty":
            g.o_empty.SetInParent()
        elif k == "r_msg":
            for x in v:
                fill_leaf(g.r_msg.add(), x)
        elif k == "m_sl":
            for kk, vv in v.items():
                fill_leaf(g.m_sl[kk], vv)
        elif k == "child":
            if not v:
                continue
            g.child.SetInParent()
            fill_google(g.child, v)
        elif k == "ts":
            if v != EPOCH:
                g.ts.seconds, g.ts.nanos = _ts_parts(v)
        elif k == "dur":
            if v != timedelta(0):
                g.dur.seconds, g.dur.nanos = _dur_parts(v)
        elif k == "r_ts":
            for x in v:
                t = g.r_ts.add()
                t.seconds, t.nanos = _ts_parts(x)
        elif k.startswith("w_"):
            getattr(g, k).value = v
            getattr(g, k).SetInParent()
        elif isinstance(v, list):
            getattr(g, k).extend(v)
        elif isinstance(v, dict):
            for kk, vv in v.items():
                getattr(g, k)[kk] = vv
        else:
            setattr(g, k, v)
    return g


def canon(g):
    """Deterministic serialisation used to compare google messages (NaN-safe)."""
    return g.SerializeToString(deterministic=True)


# --------------------------------------------------------------------------- the property
def varint(n):
    out = bytearray()
    while True:
        b = n & 0x7F
        n >>= 7
        if n:
            out.append(b | 0x80)
        else:
            out.append(b)
            return bytes(out)


class Recorder:
    def __init__(self):
        self.chunks = []

    def write(self, b):
        assert isinstance(b, (bytes, bytearray, memoryview)), type(b)
        self.chunks.append(bytes(b))
        return len(b)


DIGEST = hashlib.sha256()
COUNT = 0


def check(m, what):
    global COUNT
    data = bytes(m)
    assert type(data) is bytes
    n = len(m)
    assert n == len(data), f"{what}: len(m)={n}, len(bytes(m))={len(data)}"
    s = BytesIO()
    assert m.dump(s) is None
    assert s.getvalue() == data, f"{what}: dump() != bytes()"
    r = Recorder()
    m.dump(r)
    assert b"".join(r.chunks) == data, f"{what}: dump() to a plain writer != bytes()"
    s = BytesIO()
    m.dump(s, betterproto.SIZE_DELIMITED)
    assert s.getvalue() == varint(len(data)) + data, f"{what}: delimited dump"
    r = Recorder()
    m.dump(r, delimit=betterproto.SIZE_DELIMITED)
    assert b"".join(r.chunks) == varint(len(data)) + data, f"{what}: delimited dump (writer)"
    assert m.SerializeToString() == data, f"{what}: SerializeToString"
    # repeated calls are stable
    assert bytes(m) == data and len(m) == n
    DIGEST.update(varint(n) + data)
    COUNT += 1
    return data


def check_against_google(d, what):
    m = to_bp(d)
    data = check(m, what)
    skip = any(_is_neg_zero(x) for x in _walk(d))
    if not skip:
        got = GAll.FromString(data)
        want = fill_google(GAll(), d)
        assert canon(got) == canon(want), f"{what}: google decodes a different message"
    # round trip through betterproto keeps the encoding and the property
    again = All().parse(data)
    assert check(again, what + " (reparsed)") == data
    # the same bytes seen by a class that knows few of the fields -> unknown fields
    lite = Lite().parse(data)
    ldata = check(lite, what + " (lite)")
    assert len(ldata) == len(data)
    if not skip:
        assert canon(GAll.FromString(ldata)) == canon(GAll.FromString(data)), what
    return m


def _walk(d):
    for v in d.values():
        if isinstance(v, dict):
            yield from _walk(v)
            yield from v.keys()
        elif isinstance(v, list):
            for x in v:
                if isinstance(x, dict):
                    yield from _walk(x)
                else:
                    yield x
        else:
            yield v


def main():
    # 1. hand-picked corner cases --------------------------------------------------------
    check(All(), "empty")
    check(Leaf(), "empty leaf")
    check(Empty(), "field-less")
    corner = [
        {"f_msg": {}},
        {"f_msg": {"a": 0}},
        {"f_msg": {"s": ""}},
        {"o_msg": {}},
        {"o_empty": {}},
        {"o_str": ""},
        {"o_bytes": b""},
        {"o_int": 0},
        {"o_enum": Color.ZERO},
        {"p_int": 0},
        {"p_str": ""},
        {"p_bool": False},
        {"p_double": 0.0},
        {"p_msg": {}},
        {"w_int": 0},
        {"w_str": ""},
        {"w_bool": False},
        {"w_double": 0.0},
        {"w_bytes": b""},
        {"w_u64": 0},
        {"ts": EPOCH},
        {"dur": timedelta(0)},
        {"r_ts": [EPOCH, EPOCH]},
        {"r_msg": [{}, {}, {"a": 0}]},
        {"r_string": ["", ""]},
        {"r_bytes": [b""]},
        {"r_int32": [0]},
        {"r_int32": [-1] * 13},
        {"r_bool": [False] * 128},
        {"m_si": {"": 0}},
        {"m_is": {0: ""}},
        {"m_sl": {"": {}}},
        {"m_bb": {False: b""}},
        {"m_zd": {0: 0.0, -1: float("inf")}},
        {"child": {"child": {"child": {"f_int32": 1}}}},
        {"child": {"o_empty": {}}},
        {"child": {"p_str": ""}},
        {"f_far": 1, "f_farther": "x", "f_last": 1},
        {"f_bytes": b"q" * 127},
        {"f_bytes": b"q" * 128},
        {"f_bytes": b"q" * 16383},
        {"f_bytes": b"q" * 16384},
        {"f_string": "é" * 64},
        {"f_enum": Color.NEG, "r_enum": [Color.NEG, Color.BIG, Color.ZERO]},
    ]
    for i, d in enumerate(corner):
        check_against_google(d, f"corner[{i}] {sorted(d)}")
    for name, pool in SCALARS.items():
        for v in pool:
            check_against_google({name: v}, f"{name}={v!r:.40}")
    for name, pool in {**ONEOF, **OPTIONAL, **WRAPPED}.items():
        for v in pool:
            check_against_google({name: v}, f"{name}={v!r:.40}")
    for v in TSS:
        check_against_google({"ts": v}, f"ts={v!r}")
    for v in DUR:
        check_against_google({"dur": v}, f"dur={v!r}")

    # 2. members that are empty but present / filled in place ---------------------------------
    m = All()
    m.f_msg = Leaf()
    check(m, "assigned empty child")
    m = All()
    m.f_msg.a = 5
    m.r_int32.append(0)
    m.m_si["k"] = 0
    m.child.child.f_string = "deep"
    check(m, "filled in place")
    m = All(o_int=3)
    m.o_str = ""
    check(m, "oneof switched to empty string")
    m.o_msg = Leaf()
    check(m, "oneof switched to empty message")
    m.o_empty = Empty()
    check(m, "oneof switched to field-less message")
    m = All(p_msg=Leaf(), p_str="", p_int=0)
    m.p_str = None
    check(m, "optional reset to None")
    m = All().parse(bytes(All(f_msg=Leaf(), child=All())))
    check(m, "received empty children")
    m = All().parse(b"\x8a\x01\x00" + b"\x82\x05\x00" + b"\xf8\xff\x7f\x05")
    check(m, "received empty child, unknown tail")
    m = Leaf().parse(bytes(All(f_int32=7, f_string="unknown to leaf", r_double=[1.0])))
    check(m, "leaf with unknown fields")
    check(All(f_msg=m, r_msg=[m, Leaf()], m_sl={"u": m}, o_msg=m), "unknown fields nested")

    # 3. seeded random corpus ----------------------------------------------------------------
    rng = random.Random(0xC09)
    for i in range(260):
        density = rng.choice([0.08, 0.2, 0.45, 0.8])
        d = gen_all(rng, density=density)
        check_against_google(d, f"random[{i}]")

    digest = DIGEST.hexdigest()
    print(f"checked {COUNT} message values, digest {digest}")
    assert COUNT == EXPECTED_COUNT, COUNT
    assert digest == EXPECTED_DIGEST, "encodings differ from the reference tree"
    print("C09 equiv: OK")


EXPECTED_COUNT = 2116
EXPECTED_DIGEST = "5505b90675b2a5916218d41f09c1470d5370556ca8dcb47709e31cd8187e842b"

if __name__ == "__main__":
    main()
