"""C19 keep2 equivalence check: casing.safe_snake_case / casing.sanitize_name (and what is
built on them: pythonize_field_name / pythonize_method_name / pythonize_class_name /
pythonize_enum_member_name, import aliases, the from_dict fallback for keys that are not
in the JSON key table) against a frozen reference copy of the original definitions, over
an exhaustive identifier space, keywords in every capitalisation and odd strings, asked
repeatedly and in different orders (so results do not depend on call history).
"""
import dataclasses
import itertools
import keyword
import random
import re

import betterproto
from betterproto import casing
from betterproto.casing import safe_snake_case, sanitize_name, snake_case
from betterproto.compile import naming

# ------------------------------------------------------------------ frozen reference
SYMBOLS = "[^a-zA-Z0-9]*"
WORD = "[A-Z]*[a-z]*[0-9]*"
WORD_UPPER = "[A-Z]+(?![a-z])[0-9]*"


def ref_snake_case(value):
    def substitute_word(symbols, word, is_start):
        if not word:
            return ""
        delimiter_count = 0 if is_start else 1
        return ("_" * delimiter_count) + word.lower()

    return re.sub(
        f"(^)?({SYMBOLS})({WORD_UPPER}|{WORD})",
        lambda groups: substitute_word(groups[2], groups[3], groups[1] is not None),
        value,
    )


def ref_sanitize_name(value):
    if keyword.iskeyword(value):
        return f"{value}_"
    if not value.isidentifier():
        return f"_{value}"
    return value


def ref_safe_snake_case(value):
    value = ref_snake_case(value)
    value = ref_sanitize_name(value)
    return value


# ------------------------------------------------------------------ inputs
def words(alphabet, max_len):
    for n in range(0, max_len + 1):
        for t in itertools.product(alphabet, repeat=n):
            yield "".join(t)


inputs = set(words("aA1_", 6)) | set(words("abAB12_", 4))
for kw in keyword.kwlist + list(keyword.softkwlist) + ["int", "str", "print", "self"]:
    for variant in (kw, kw.lower(), kw.upper(), kw.capitalize(), kw + "_", "_" + kw,
                    kw + "__", kw + "1", kw[:1].upper() + kw[1:], kw.swapcase()):
        inputs.add(variant)
inputs |= {
    "", " ", "a b", "foo.bar", "foo-bar", "kabob-case", "1", "1a", "_1", "__", "é", "aé",
    "éa", "名前", "x²", "address_line_1", "ipv4_address", "x_y_z", "HTTPStatus",
    "HTTP2xx", "betterproto.lib.google.protobuf", "google.protobuf", "a.b.c", "async",
    "await", "None", "True", "False", "none", "true", "false", "Match", "match", "_",
    "class\n", "class ", "\tif",
}
inputs = sorted(inputs)
print(len(inputs), "inputs")
assert len(inputs) > 2 * 4096  # more than any plausible cache holds

# ------------------------------------------------------------------ 1. reference agreement
def check_all(order):
    for value in order:
        want = ref_safe_snake_case(value)
        got = safe_snake_case(value)
        assert got == want and type(got) is str, (value, got, want)
        assert sanitize_name(value) == ref_sanitize_name(value), value
        assert snake_case(value) == ref_snake_case(value), value
        # what the property wants from the mapping
        if value.isascii():
            assert got.isidentifier() and not keyword.iskeyword(got), (value, got)
            assert safe_snake_case(got) == got, (value, got)
        assert naming.pythonize_field_name(value) == want
        assert naming.pythonize_method_name(value) == want


check_all(inputs)                      # first time
check_all(inputs)                      # again, same order
check_all(reversed(inputs))            # other order
rng = random.Random(19)
shuffled = inputs[:]
rng.shuffle(shuffled)
check_all(shuffled)
for value in rng.choices(inputs, k=20000):  # hot/cold mixture
    assert safe_snake_case(value) == ref_safe_snake_case(value), value
# keyword form of the call and the metadata of the function are kept
assert safe_snake_case(value="fooBar") == "foo_bar"
assert safe_snake_case.__name__ == "safe_snake_case" and safe_snake_case.__doc__
assert betterproto.safe_snake_case("Class") == "class_"

# non-str input is rejected with TypeError, every time
for bad in (None, 1, b"ab", ["a"], ("a",)):
    for _ in range(2):
        try:
            safe_snake_case(bad)
        except TypeError:
            pass
        else:
            raise AssertionError(f"{bad!r} accepted")

# ------------------------------------------------------------------ 2. sanitize_name == keyword table
for kw in keyword.kwlist:
    assert sanitize_name(kw) == kw + "_"
    assert sanitize_name(kw + "_") == kw + "_"
for soft in keyword.softkwlist:
    assert sanitize_name(soft) == soft
for value in inputs:
    out = sanitize_name(value)
    assert out == ref_sanitize_name(value)
    assert (out == value) == (value.isidentifier() and not keyword.iskeyword(value))
assert sanitize_name("") == "_" and sanitize_name("1") == "_1" and sanitize_name("a b") == "_a b"

# ------------------------------------------------------------------ 3. class / enum member names
for value in inputs:
    if len(value) <= 5:
        want = ref_sanitize_name(casing.pascal_case(value))
        assert naming.pythonize_class_name(value) == want, value
for enum_name, prefix in [("E", "E_"), ("Color", "COLOR_"), ("HttpVersion", "HTTP_VERSION_")]:
    for value in inputs:
        if len(value) > 4 or not value.isascii():
            continue
        for name in (value, prefix + value):
            rest = name[len(prefix):].strip("_") if name.startswith(prefix) else ""
            want = ref_sanitize_name(rest or name)
            assert naming.pythonize_enum_member_name(name, enum_name) == want, (name, enum_name)

# ------------------------------------------------------------------ 4. import aliases
from betterproto.compile.importing import get_type_reference
from betterproto.plugin.typing_compiler import DirectImportTypingCompiler

for package, source, want_ref, want_import in [
    ("a", ".google.protobuf.Struct", '"betterproto_lib_google_protobuf.Struct"',
     "import betterproto.lib.google.protobuf as betterproto_lib_google_protobuf"),
    ("a.b", ".a.c.d.Msg", '"_c_d__.Msg"', "from ..c import d as _c_d__"),
    ("a.b", ".x.class.Msg", '"__x_class__.Msg"', "from ...x import class as __x_class__"),
    ("a.b", ".x.None", '"__x__.None_"', "from ... import x as __x__"),
]:
    for _ in range(2):
        imports = set()
        ref = get_type_reference(
            package=package, imports=imports, source_type=source,
            typing_compiler=DirectImportTypingCompiler(),
        )
        assert ref == want_ref, (source, ref)
        assert imports == {want_import}, (source, imports)

# ------------------------------------------------------------------ 5. from_dict fallback
# Proto names that are neither the python name nor an emitted key reach the field through
# safe_snake_case(key); the same key must keep meaning "not a field" for another class.
def make(name, fields):
    return dataclasses.make_dataclass(
        name, fields, bases=(betterproto.Message,), eq=False, repr=False
    )


proto_names = [
    "HTTPStatus", "FooBar", "foo__bar", "_foo", "foo_", "Class", "IN", "Import", "None",
    "async", "await", "kabob-case", "address_line_1", "addressLine1", "x_y_z", "XYZ",
    "ipv4_address", "IPv4Address", "a1b", "_", "__", "_1", "match", "Type",
]
other = make("Other", [("unrelated", int, betterproto.int32_field(1))])
for round_ in range(3):
    for i, proto in enumerate(proto_names):
        fname = ref_safe_snake_case(proto)
        cls = make(f"F{i}", [(fname, int, betterproto.int32_field(1))])
        msg = cls(**{fname: 5})
        keys = {proto, fname, betterproto.Casing.CAMEL(fname).rstrip("_"),
                betterproto.Casing.SNAKE(fname).rstrip("_")}
        for key in keys | set(msg.to_dict()) | set(msg.to_dict(betterproto.Casing.SNAKE)):
            assert getattr(cls.from_dict({key: 5}), fname) == 5, (proto, key)
            assert getattr(cls().from_dict({key: 5}), fname) == 5, (proto, key)
            assert getattr(cls().from_pydict({key: 5}), fname) == 5, (proto, key)
            assert other.from_dict({key: 5}).unrelated == 0
            assert other().from_pydict({key: 5}).unrelated == 0
        assert getattr(cls.from_dict({"definitely_not_a_field": 5}), fname) == 0

print("OK")
