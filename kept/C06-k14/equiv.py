"""C06 equivalence check for the refactored type-resolution helpers behind
encoding/decoding: Message._cls_for, ProtoClassMetadata._get_cls_by_field (with the
new _map_entry_cls helper), _pack_fmt and _get_wrapper (per-call dicts turned into
module-level tables).

Part 1 checks the helpers and the per-class cls_by_field table directly for every
annotation shape.  Part 2 runs the presence matrix of the property (field kind x
{never set, default, non-default} x {constructor, attribute, parse, from_dict},
alone and combined) against the reference implementation; Part 3 does the same for
repeated / map fields of every class-carrying kind (messages, enums, wrappers,
fixed-width types), whose decoding goes through the touched tables.

Exits 0 on the pristine tree and with the refactor applied.
"""
import dataclasses
import random
import struct
import sys
from datetime import datetime, timedelta, timezone
from io import BytesIO
from typing import Dict, List, Optional

import betterproto
from betterproto import FieldMetadata, _get_wrapper, _pack_fmt, encode_varint
from google.protobuf import (
    descriptor_pb2,
    descriptor_pool,
    json_format,
    message_factory,
    wrappers_pb2,
)


class Kind(betterproto.Enum):
    ZERO = 0
    ONE = 1
    TWO = 2
    BIG = 300
    NEG = -1


# =========================================================================== #
# Part 1: the helpers themselves
# =========================================================================== #
EXPECTED_FMT = {
    betterproto.TYPE_DOUBLE: "<d",
    betterproto.TYPE_FLOAT: "<f",
    betterproto.TYPE_FIXED32: "<I",
    betterproto.TYPE_FIXED64: "<Q",
    betterproto.TYPE_SFIXED32: "<i",
    betterproto.TYPE_SFIXED64: "<q",
}
ALL_TYPES = [
    getattr(betterproto, n)
    for n in dir(betterproto)
    if n.startswith("TYPE_") and isinstance(getattr(betterproto, n), str)
]
assert len(ALL_TYPES) == 18
for proto_type in ALL_TYPES + ["", "group", None, 5]:
    if proto_type in EXPECTED_FMT:
        assert _pack_fmt(proto_type) == EXPECTED_FMT[proto_type]
        assert betterproto.FIXED_TYPES.count(proto_type) == 1
        struct.pack(_pack_fmt(proto_type), 0)
    else:
        try:
            _pack_fmt(proto_type)
        except KeyError as e:
            assert e.args == (proto_type,)
        else:
            raise AssertionError(proto_type)

EXPECTED_WRAPPER = {
    betterproto.TYPE_BOOL: betterproto.BoolValue,
    betterproto.TYPE_BYTES: betterproto.BytesValue,
    betterproto.TYPE_DOUBLE: betterproto.DoubleValue,
    betterproto.TYPE_FLOAT: betterproto.FloatValue,
    betterproto.TYPE_INT32: betterproto.Int32Value,
    betterproto.TYPE_INT64: betterproto.Int64Value,
    betterproto.TYPE_STRING: betterproto.StringValue,
    betterproto.TYPE_UINT32: betterproto.UInt32Value,
    betterproto.TYPE_UINT64: betterproto.UInt64Value,
}
for proto_type in ALL_TYPES + ["", "group", None, 5]:
    if proto_type in EXPECTED_WRAPPER:
        assert _get_wrapper(proto_type) is EXPECTED_WRAPPER[proto_type]
        # the same class on every call, a fresh instance each time it is called
        assert _get_wrapper(proto_type) is _get_wrapper(proto_type)
        a, b = _get_wrapper(proto_type)(), _get_wrapper(proto_type)()
        assert a is not b and bytes(a) == b""
    else:
        try:
            _get_wrapper(proto_type)
        except KeyError as e:
            assert e.args == (proto_type,)
        else:
            raise AssertionError(proto_type)


@dataclasses.dataclass(eq=False, repr=False)
class Leaf(betterproto.Message):
    x: int = betterproto.int32_field(1)


@dataclasses.dataclass(eq=False, repr=False)
class Shapes(betterproto.Message):
    plain_int: int = betterproto.int32_field(1)
    plain_msg: Leaf = betterproto.message_field(2)
    plain_enum: Kind = betterproto.enum_field(3)
    opt_int: Optional[int] = betterproto.int32_field(4, optional=True)
    opt_msg: Optional[Leaf] = betterproto.message_field(5, optional=True)
    opt_enum: Optional[Kind] = betterproto.enum_field(6, optional=True)
    rep_int: List[int] = betterproto.int32_field(7)
    rep_msg: List[Leaf] = betterproto.message_field(8)
    rep_enum: List[Kind] = betterproto.enum_field(9)
    wrapped: Optional[int] = betterproto.message_field(10, wraps=betterproto.TYPE_INT32)
    rep_wrapped: List[Optional[int]] = betterproto.message_field(
        11, wraps=betterproto.TYPE_INT32
    )
    map_str_int: Dict[str, int] = betterproto.map_field(
        12, betterproto.TYPE_STRING, betterproto.TYPE_INT32
    )
    map_int_msg: Dict[int, Leaf] = betterproto.map_field(
        13, betterproto.TYPE_INT64, betterproto.TYPE_MESSAGE
    )
    map_str_enum: Dict[str, Kind] = betterproto.map_field(
        14, betterproto.TYPE_STRING, betterproto.TYPE_ENUM
    )
    stamp: datetime = betterproto.message_field(15)
    span: timedelta = betterproto.message_field(16)
    opt_stamp: Optional[datetime] = betterproto.message_field(17, optional=True)
    rep_stamp: List[datetime] = betterproto.message_field(18)
    map_str_stamp: Dict[str, datetime] = betterproto.map_field(
        19, betterproto.TYPE_STRING, betterproto.TYPE_MESSAGE
    )
    one_msg: Leaf = betterproto.message_field(20, group="g")
    one_int: int = betterproto.int32_field(21, group="g")
    fwd: "Leaf" = betterproto.message_field(22)
    opt_fwd: "Optional[Leaf]" = betterproto.message_field(23, optional=True)
    new_opt: "int | None" = betterproto.int32_field(24, optional=True)
    new_opt_msg: "Leaf | None" = betterproto.message_field(25, optional=True)
    new_list: "list[Leaf]" = betterproto.message_field(26)
    new_map: "dict[str, Leaf]" = betterproto.map_field(
        27, betterproto.TYPE_STRING, betterproto.TYPE_MESSAGE
    )


shape_fields = {f.name: f for f in dataclasses.fields(Shapes)}


def cls_for(name, index=0):
    return Shapes._cls_for(shape_fields[name], index=index)


NoneType = type(None)
EXPECTED_CLS = {
    # name: (index 0, index 1 or Exception, index -1)
    "plain_int": (int, int),
    "plain_msg": (Leaf, Leaf),
    "plain_enum": (Kind, Kind),
    "opt_int": (int, NoneType),
    "opt_msg": (Leaf, NoneType),
    "opt_enum": (Kind, NoneType),
    "rep_int": (int, IndexError),
    "rep_msg": (Leaf, IndexError),
    "rep_enum": (Kind, IndexError),
    "wrapped": (int, NoneType),
    "rep_wrapped": (Optional[int], IndexError),
    "map_str_int": (str, int),
    "map_int_msg": (int, Leaf),
    "map_str_enum": (str, Kind),
    "stamp": (datetime, datetime),
    "span": (timedelta, timedelta),
    "opt_stamp": (datetime, NoneType),
    "rep_stamp": (datetime, IndexError),
    "map_str_stamp": (str, datetime),
    "one_msg": (Leaf, Leaf),
    "one_int": (int, int),
    "fwd": (Leaf, Leaf),
    "opt_fwd": (Leaf, NoneType),
    "new_opt": (int, NoneType),
    "new_opt_msg": (Leaf, NoneType),
    "new_list": (Leaf, IndexError),
    "new_map": (str, Leaf),
}
assert set(EXPECTED_CLS) == set(shape_fields)
hints = Shapes._type_hints()
for name, (first, second) in EXPECTED_CLS.items():
    assert cls_for(name) == first, (name, cls_for(name))
    assert cls_for(name, 0) == first
    if isinstance(second, type) and issubclass(second, Exception):
        try:
            cls_for(name, 1)
        except second:
            pass
        else:
            raise AssertionError(name)
    else:
        assert cls_for(name, 1) == second, (name, cls_for(name, 1))
    # a negative index returns the annotation itself
    assert cls_for(name, -1) == hints[name], name
    assert Shapes._type_hint(name) == hints[name]

table = Shapes._betterproto.cls_by_field
expected_keys = []
for name, field in shape_fields.items():
    expected_keys.append(name)
    if FieldMetadata.get(field).proto_type == betterproto.TYPE_MAP:
        expected_keys.append(name + ".value")
assert list(table) == expected_keys, list(table)
for name, field in shape_fields.items():
    meta = FieldMetadata.get(field)
    if meta.proto_type != betterproto.TYPE_MAP:
        assert table[name] == EXPECTED_CLS[name][0], name
        continue
    key_cls, value_cls = EXPECTED_CLS[name]
    assert table[name + ".value"] == value_cls, name
    entry = table[name]
    assert issubclass(entry, betterproto.Message) and entry.__name__ == "Entry"
    entry_fields = dataclasses.fields(entry)
    assert [f.name for f in entry_fields] == ["key", "value"]
    assert [f.type for f in entry_fields] == [key_cls, value_cls], name
    key_meta, value_meta = (FieldMetadata.get(f) for f in entry_fields)
    assert key_meta == FieldMetadata(1, meta.map_types[0]), name
    assert value_meta == FieldMetadata(2, meta.map_types[1]), name
    assert all(f.default is betterproto.PLACEHOLDER for f in entry_fields)
    assert bytes(entry()) == b""
    # each map field gets its own entry class
    assert sum(1 for v in table.values() if v is entry) == 1
# the table is built once per class
assert Shapes._betterproto.cls_by_field is table
assert Shapes()._betterproto.cls_by_field is table

# decoding goes through the table: sub-messages, enums, wrappers, timestamps
epoch = datetime(1970, 1, 1, tzinfo=timezone.utc)
s = Shapes(
    plain_msg=Leaf(x=0),
    opt_msg=Leaf(),
    opt_enum=Kind.ZERO,
    rep_msg=[Leaf(), Leaf(x=2)],
    rep_enum=[Kind.ZERO, Kind.TWO],
    wrapped=0,
    rep_wrapped=[0, 5],
    map_str_int={"": 0, "a": 1},
    map_int_msg={0: Leaf(), -3: Leaf(x=4)},
    map_str_enum={"k": Kind.TWO},
    opt_stamp=epoch,
    rep_stamp=[epoch, datetime(2020, 1, 2, 3, 4, 5, 6000, tzinfo=timezone.utc)],
    map_str_stamp={"t": datetime(2001, 1, 1, tzinfo=timezone.utc)},
    one_msg=Leaf(),
    opt_fwd=Leaf(x=1),
    new_opt=0,
    new_opt_msg=Leaf(),
    new_list=[Leaf(x=7)],
    new_map={"m": Leaf(x=8)},
    span=timedelta(seconds=-1, microseconds=5),
)
back = Shapes().parse(bytes(s))
assert back == s and bytes(back) == bytes(s) and len(s) == len(bytes(s))
for name in ("plain_msg", "opt_msg", "opt_enum", "wrapped", "opt_stamp", "opt_fwd",
             "new_opt", "new_opt_msg", "one_msg", "rep_msg", "map_int_msg"):
    assert s.is_set(name) and back.is_set(name), name
for name in ("opt_int", "fwd", "one_int", "stamp", "plain_enum", "plain_int"):
    assert not back.is_set(name), name
assert type(back.opt_msg) is Leaf and betterproto.serialized_on_wire(back.opt_msg)
assert type(back.opt_enum) is Kind and type(back.rep_enum[1]) is Kind
assert type(back.map_str_enum["k"]) is Kind
assert back.wrapped == 0 and back.rep_wrapped == [0, 5]
assert type(back.map_int_msg[-3]) is Leaf and back.map_int_msg[-3].x == 4
assert back.opt_stamp == epoch and back.rep_stamp[1].microsecond == 6000
assert betterproto.which_one_of(back, "g") == ("one_msg", Leaf())
assert Shapes.from_dict(s.to_dict()) == s
assert Shapes().from_dict(s.to_dict()) == s
assert Shapes().from_json(s.to_json()) == s

# =========================================================================== #
# Part 2: presence matrix against the reference implementation
# =========================================================================== #
F = descriptor_pb2.FieldDescriptorProto
bp = betterproto


@dataclasses.dataclass(eq=False, repr=False)
class Sub(betterproto.Message):
    val: int = betterproto.int32_field(1)
    name: str = betterproto.string_field(2)


@dataclasses.dataclass(eq=False, repr=False)
class Empty(betterproto.Message):
    pass


# suffix, betterproto field function, python type, descriptor type, default, non-defaults
SCALARS = [
    ("i32", bp.int32_field, int, F.TYPE_INT32, 0, [-7, 2**31 - 1, 128]),
    ("i64", bp.int64_field, int, F.TYPE_INT64, 0, [2**40 + 3, -(2**63)]),
    ("u32", bp.uint32_field, int, F.TYPE_UINT32, 0, [4000000000, 127]),
    ("u64", bp.uint64_field, int, F.TYPE_UINT64, 0, [2**64 - 1, 16384]),
    ("s32", bp.sint32_field, int, F.TYPE_SINT32, 0, [-(2**31), 64]),
    ("s64", bp.sint64_field, int, F.TYPE_SINT64, 0, [-(2**63), 2**63 - 1]),
    ("b", bp.bool_field, bool, F.TYPE_BOOL, False, [True]),
    ("f32", bp.fixed32_field, int, F.TYPE_FIXED32, 0, [2**32 - 1]),
    ("f64", bp.fixed64_field, int, F.TYPE_FIXED64, 0, [2**64 - 1]),
    ("sf32", bp.sfixed32_field, int, F.TYPE_SFIXED32, 0, [-5]),
    ("sf64", bp.sfixed64_field, int, F.TYPE_SFIXED64, 0, [-(2**63)]),
    ("fl", bp.float_field, float, F.TYPE_FLOAT, 0.0, [2.5, -0.125]),
    ("db", bp.double_field, float, F.TYPE_DOUBLE, 0.0, [-1e300, 0.1]),
    ("st", bp.string_field, str, F.TYPE_STRING, "", ["héllo", "x" * 200]),
    ("by", bp.bytes_field, bytes, F.TYPE_BYTES, b"", [b"\x00\xff", b"z" * 130]),
    ("en", bp.enum_field, Kind, F.TYPE_ENUM, Kind.ZERO, [Kind.TWO, Kind.BIG]),
]
WRAPPERS = [
    ("i32", bp.TYPE_INT32, int, "Int32Value", 0, [-3, 300]),
    ("i64", bp.TYPE_INT64, int, "Int64Value", 0, [-(2**63)]),
    ("u32", bp.TYPE_UINT32, int, "UInt32Value", 0, [2**32 - 1]),
    ("u64", bp.TYPE_UINT64, int, "UInt64Value", 0, [2**64 - 1]),
    ("fl", bp.TYPE_FLOAT, float, "FloatValue", 0.0, [2.5]),
    ("db", bp.TYPE_DOUBLE, float, "DoubleValue", 0.0, [1e-300]),
    ("b", bp.TYPE_BOOL, bool, "BoolValue", False, [True]),
    ("st", bp.TYPE_STRING, str, "StringValue", "", ["w" * 128]),
    ("by", bp.TYPE_BYTES, bytes, "BytesValue", b"", [b"\x01"]),
]
BIG_NUMBER = 2**29 - 1

bp_fields = []  # (name, type, dataclass field)
ref_fields = []  # kwargs for FieldDescriptorProto
ref_oneofs = ["choice", "other"]
IMPLICIT, OPTIONAL, ONEOF, WRAPPED, PLAIN_MSG = [], [], [], [], []
VARIANTS = {}  # name -> (default value, [non default values])
MSG_FIELDS = set()
ENUM_FIELDS = set()
WRAPPER_FIELDS = set()


def add_ref(name, number, ftype, **kw):
    ref_fields.append(dict(name=name, number=number, type=ftype, label=F.LABEL_OPTIONAL, **kw))


def type_kw(ftype):
    return {"type_name": ".c06.Kind"} if ftype == F.TYPE_ENUM else {}


def add_optional_ref(name, number, ftype, **kw):
    ref_oneofs.append("_" + name)
    add_ref(name, number, ftype, oneof_index=len(ref_oneofs) - 1, proto3_optional=True, **kw)


# implicit presence scalars 1..16, plain sub-message 17, field-less sub-message 18
for i, (sfx, fn, pt, ft, dflt, nd) in enumerate(SCALARS):
    name = "imp_" + sfx
    bp_fields.append((name, pt, fn(1 + i)))
    add_ref(name, 1 + i, ft, **type_kw(ft))
    IMPLICIT.append(name)
    VARIANTS[name] = (dflt, nd)
    if ft == F.TYPE_ENUM:
        ENUM_FIELDS.add(name)
bp_fields.append(("plain", Sub, bp.message_field(17)))
add_ref("plain", 17, F.TYPE_MESSAGE, type_name=".c06.Sub")
bp_fields.append(("nothing", Empty, bp.message_field(18)))
add_ref("nothing", 18, F.TYPE_MESSAGE, type_name=".c06.Empty")
PLAIN_MSG += ["plain", "nothing"]
MSG_FIELDS.update(PLAIN_MSG)

# proto3 optional 21..37
for i, (sfx, fn, pt, ft, dflt, nd) in enumerate(SCALARS):
    name = "opt_" + sfx
    bp_fields.append((name, Optional[pt], fn(21 + i, optional=True)))
    add_optional_ref(name, 21 + i, ft, **type_kw(ft))
    OPTIONAL.append(name)
    VARIANTS[name] = (dflt, nd)
    if ft == F.TYPE_ENUM:
        ENUM_FIELDS.add(name)
bp_fields.append(("opt_msg", Optional[Sub], bp.message_field(37, optional=True)))
add_optional_ref("opt_msg", 37, F.TYPE_MESSAGE, type_name=".c06.Sub")
OPTIONAL.append("opt_msg")
MSG_FIELDS.add("opt_msg")

# oneof "choice" 41..57
for i, (sfx, fn, pt, ft, dflt, nd) in enumerate(SCALARS):
    name = "one_" + sfx
    bp_fields.append((name, pt, fn(41 + i, group="choice")))
    add_ref(name, 41 + i, ft, oneof_index=0, **type_kw(ft))
    ONEOF.append(name)
    VARIANTS[name] = (dflt, nd)
    if ft == F.TYPE_ENUM:
        ENUM_FIELDS.add(name)
bp_fields.append(("one_msg", Sub, bp.message_field(57, group="choice")))
add_ref("one_msg", 57, F.TYPE_MESSAGE, type_name=".c06.Sub", oneof_index=0)
ONEOF.append("one_msg")
MSG_FIELDS.add("one_msg")

# wrappers 61..69
for i, (sfx, wt, pt, ref_name, dflt, nd) in enumerate(WRAPPERS):
    name = "wrap_" + sfx
    bp_fields.append((name, Optional[pt], bp.message_field(61 + i, wraps=wt)))
    add_ref(name, 61 + i, F.TYPE_MESSAGE, type_name=".google.protobuf." + ref_name)
    WRAPPED.append(name)
    WRAPPER_FIELDS.add(name)
    VARIANTS[name] = (dflt, nd)

# second oneof group "other" 2047 / 2048 (two-byte / three-byte keys)
OTHER = ["oth_st", "oth_msg", "oth_wrap"]
bp_fields.append(("oth_st", str, bp.string_field(2047, group="other")))
add_ref("oth_st", 2047, F.TYPE_STRING, oneof_index=1)
VARIANTS["oth_st"] = ("", ["other"])
bp_fields.append(("oth_msg", Sub, bp.message_field(2048, group="other")))
add_ref("oth_msg", 2048, F.TYPE_MESSAGE, type_name=".c06.Sub", oneof_index=1)
MSG_FIELDS.add("oth_msg")
bp_fields.append(
    ("oth_wrap", Optional[int], bp.message_field(2049, wraps=bp.TYPE_INT32, group="other"))
)
add_ref("oth_wrap", 2049, F.TYPE_MESSAGE, type_name=".google.protobuf.Int32Value", oneof_index=1)
WRAPPER_FIELDS.add("oth_wrap")
VARIANTS["oth_wrap"] = (0, [77])

# the largest possible field number (five-byte key)
bp_fields.append(("opt_big", Optional[int], bp.int32_field(BIG_NUMBER, optional=True)))
add_optional_ref("opt_big", BIG_NUMBER, F.TYPE_INT32)
OPTIONAL.append("opt_big")
VARIANTS["opt_big"] = (0, [-1, 5])

MSG_VARIANTS = (Sub(), [Sub(val=9), Sub(name="n" * 150), Sub(val=-1, name="q")])

All = dataclasses.make_dataclass(
    "All", bp_fields, bases=(betterproto.Message,), eq=False, repr=False
)
All.__module__ = __name__


def build_reference():
    pool = descriptor_pool.DescriptorPool()
    pool.AddSerializedFile(wrappers_pb2.DESCRIPTOR.serialized_pb)
    fd = descriptor_pb2.FileDescriptorProto(
        name="c06_equiv.proto",
        package="c06",
        syntax="proto3",
        dependency=["google/protobuf/wrappers.proto"],
    )
    enum = fd.enum_type.add(name="Kind")
    for member in Kind:
        enum.value.add(name=member.name, number=int(member))
    sub = fd.message_type.add(name="Sub")
    sub.field.add(name="val", number=1, type=F.TYPE_INT32, label=F.LABEL_OPTIONAL)
    sub.field.add(name="name", number=2, type=F.TYPE_STRING, label=F.LABEL_OPTIONAL)
    fd.message_type.add(name="Empty")
    msg = fd.message_type.add(name="All")
    for name in ref_oneofs:
        msg.oneof_decl.add(name=name)
    for kw in ref_fields:
        msg.field.add(**kw)
    pool.Add(fd)
    get = message_factory.GetMessageClass
    return tuple(
        get(pool.FindMessageTypeByName("c06." + n)) for n in ("Sub", "Empty", "All")
    )


RefSub, RefEmpty, RefAll = build_reference()
PRESENCE = OPTIONAL + WRAPPED + PLAIN_MSG
GROUPS = {"choice": ONEOF, "other": OTHER}


def ref_set(ref, name, value):
    if name in MSG_FIELDS:
        child = getattr(ref, name)
        child.SetInParent()
        if isinstance(value, Sub):
            child.val = value.val
            child.name = value.name
            child.SetInParent()
    elif name in WRAPPER_FIELDS:
        child = getattr(ref, name)
        child.SetInParent()
        child.value = value
    elif name in ENUM_FIELDS:
        setattr(ref, name, int(value))
    else:
        setattr(ref, name, value)


def copy_value(value):
    if isinstance(value, Sub):
        # built by the constructor exactly like the original
        kwargs = {}
        if value.is_set("val"):
            kwargs["val"] = value.val
        if value.is_set("name"):
            kwargs["name"] = value.name
        return Sub(**kwargs)
    if isinstance(value, Empty):
        return Empty()
    return value


def check_presence(msg, ref, label):
    for name in PRESENCE:
        assert msg.is_set(name) == ref.HasField(name), (label, name)
    for name in MSG_FIELDS & set(PLAIN_MSG):
        raw_set = betterproto.serialized_on_wire(getattr(msg, name))
        assert raw_set == ref.HasField(name), (label, name)
    for group, members in GROUPS.items():
        which = betterproto.which_one_of(msg, group)[0]
        assert which == (ref.WhichOneof(group) or ""), (label, group, which)
        for name in members:
            assert msg.is_set(name) == (which == name), (label, name)


def check(msg, ref, label):
    ref_bytes = ref.SerializeToString()
    data = bytes(msg)
    assert data == ref_bytes, (label, data, ref_bytes)
    assert len(msg) == len(ref_bytes), (label, len(msg), len(ref_bytes))
    assert msg.SerializeToString() == ref_bytes
    with BytesIO() as stream:
        msg.dump(stream, betterproto.SIZE_DELIMITED)
        assert stream.getvalue() == encode_varint(len(ref_bytes)) + ref_bytes, label
    check_presence(msg, ref, label)
    decoded = All().parse(ref_bytes)
    check_presence(decoded, ref, label + " (decoded)")
    assert bytes(decoded) == ref_bytes, (label, bytes(decoded), ref_bytes)
    assert decoded == msg, label
    with BytesIO(encode_varint(len(ref_bytes)) + ref_bytes + b"tail") as stream:
        delimited = All().load(stream, betterproto.SIZE_DELIMITED)
        assert stream.read() == b"tail"
    assert bytes(delimited) == ref_bytes, label


def run_spec(spec, label):
    """spec: list of (field name, value); at most one member per oneof group."""
    ref = RefAll()
    for name, value in spec:
        ref_set(ref, name, value)

    # via constructor
    check(All(**{n: copy_value(v) for n, v in spec}), ref, label + " ctor")
    # via attribute assignment
    msg = All()
    for name, value in spec:
        setattr(msg, name, copy_value(value))
    check(msg, ref, label + " attr")
    # via parse
    check(All().parse(ref.SerializeToString()), ref, label + " parse")
    check(All.FromString(ref.SerializeToString()), ref, label + " FromString")
    # via from_dict (both key styles, class and instance form)
    for keep_names in (False, True):
        as_dict = json_format.MessageToDict(ref, preserving_proto_field_name=keep_names)
        check(All.from_dict(as_dict), ref, label + " from_dict")
        check(All().from_dict(as_dict), ref, label + " instance from_dict")


def variants(name):
    if name in MSG_FIELDS:
        if name == "nothing":
            return [Empty()]
        if name == "plain":
            # a plain sub-message is present once something was assigned inside it
            return [Sub(val=0), Sub(name="")] + MSG_VARIANTS[1]
        return [MSG_VARIANTS[0], Sub(val=0)] + MSG_VARIANTS[1]
    default, non_default = VARIANTS[name]
    return [default] + list(non_default)


# --- never set --------------------------------------------------------------- #
fresh = All()
assert bytes(fresh) == b"" and len(fresh) == 0
assert RefAll().SerializeToString() == b""
check(fresh, RefAll(), "fresh")
for name in IMPLICIT:
    value = getattr(fresh, name)
    assert value == VARIANTS[name][0] and type(value) is type(VARIANTS[name][0]), name
for name in OPTIONAL + WRAPPED:
    assert getattr(fresh, name) is None, name
assert fresh.plain == Sub() and not betterproto.serialized_on_wire(fresh.plain)
for name in ONEOF + OTHER:
    try:
        getattr(fresh, name)
    except AttributeError:
        pass
    else:
        raise AssertionError(name)
assert bytes(fresh) == b"", "reading must not set anything"
check(fresh, RefAll(), "fresh after reads")

# an untouched default instance in a plain sub-message field is not present
untouched = All(plain=Sub())
assert bytes(untouched) == b"" and not untouched.is_set("plain")
untouched = All()
untouched.plain = Sub()
assert bytes(untouched) == b"" and not untouched.is_set("plain")

# --- every field alone, every variant, every way of setting it --------------- #
count = 0
for name, _, _ in bp_fields:
    for value in variants(name):
        if name in IMPLICIT and value == VARIANTS[name][0]:
            # implicit presence holding the default: never emitted
            for msg in (All(**{name: value}), All()):
                setattr(msg, name, value)
                assert bytes(msg) == b"" and len(msg) == 0, name
            continue
        run_spec([(name, value)], f"{name}={value!r}")
        count += 1
assert count > 150

# something assigned inside a plain / materialised sub-message
msg, ref = All(), RefAll()
msg.plain.val = 0
ref.plain.val = 0
ref.plain.SetInParent()
check(msg, ref, "plain.val = 0 in place")
msg.plain.name = "x" * 300
ref.plain.name = "x" * 300
check(msg, ref, "plain.name in place")

# --- combinations -------------------------------------------------------------- #
rng = random.Random(2006)
all_single = IMPLICIT + PLAIN_MSG + OPTIONAL + WRAPPED
for round_no in range(120):
    spec = []
    for name in rng.sample(all_single, rng.randrange(0, 12)):
        spec.append((name, rng.choice(variants(name))))
    for members in GROUPS.values():
        if rng.random() < 0.8:
            name = rng.choice(members)
            spec.append((name, rng.choice(variants(name))))
    rng.shuffle(spec)
    run_spec(spec, f"combo {round_no}")

# everything at once, all defaults / all non-defaults
for pick in (lambda vs: vs[0], lambda vs: vs[-1]):
    spec = [(n, pick(variants(n))) for n in all_single]
    spec += [("one_msg", pick(variants("one_msg"))), ("oth_wrap", pick(variants("oth_wrap")))]
    run_spec(spec, "everything")

# oneof members assigned one after the other: the last one wins on both sides
for round_no in range(40):
    msg, ref = All(), RefAll()
    for _ in range(rng.randrange(2, 6)):
        group = rng.choice(list(GROUPS))
        name = rng.choice(GROUPS[group])
        value = rng.choice(variants(name))
        setattr(msg, name, copy_value(value))
        ref_set(ref, name, value)
    check(msg, ref, f"oneof sequence {round_no}")

# --- hand made wire data: unknown numbers, foreign wire types, empty payloads -- #
WIRE = [
    b"",
    b"\xa8\x01\x00",  # opt_i32 = 0
    b"\xaa\x01\x00",  # opt_i32 number, length-delimited: not the field
    b"\xad\x01\x00\x00\x00\x00",  # opt_i32 number, fixed32: not the field
    b"\xc8\x02\x05\xcd\x02\x01\x00\x00\x00",  # one_i32 = 5, then its number as fixed32
    b"\x8a\x01\x00",  # plain, empty payload
    b"\x8a\x01\x03\xf8\x07\x01",  # plain with an unknown field only
    b"\x88\x01\x01",  # plain number as varint
    b"\xea\x03\x00",  # wrap_i32 with empty payload
    b"\xe8\x03\x07",  # wrap_i32 number as varint
    b"\xca\x03\x00\xfa\x7f\x00",  # one_msg empty, oth_st empty
    b"\x82\x80\x01\x00\x8a\x80\x01\x00",  # oth_msg then oth_wrap
    b"\xc0\x3e\x01",  # unknown number 1000
    b"\xf8\xff\xff\xff\x0f\x00",  # opt_big = 0
    b"\xf8\xff\xff\xff\x0f\xff\xff\xff\xff\xff\xff\xff\xff\xff\x01",  # opt_big = -1
    b"\x92\x01\x00",  # nothing (field-less message) received
    b"\xaa\x02\x00\xaa\x02\x02\x08\x03",  # opt_msg twice
]
for data in WIRE:
    ref = RefAll.FromString(data)
    decoded = All().parse(data)
    check_presence(decoded, ref, repr(data))
    assert len(decoded) == len(bytes(decoded))
    again = All().parse(bytes(decoded))
    check_presence(again, ref, repr(data) + " re-encoded")
    assert bytes(again) == bytes(decoded)


# =========================================================================== #
# Part 3: repeated / map fields of class-carrying kinds against the reference
# =========================================================================== #
@dataclasses.dataclass(eq=False, repr=False)
class Bag(betterproto.Message):
    subs: List[Sub] = betterproto.message_field(1)
    kinds: List[Kind] = betterproto.enum_field(2)
    wraps: List[Optional[int]] = betterproto.message_field(3, wraps=betterproto.TYPE_INT32)
    floats: List[float] = betterproto.float_field(4)
    doubles: List[float] = betterproto.double_field(5)
    sfixed: List[int] = betterproto.sfixed32_field(6)
    fixed: List[int] = betterproto.fixed64_field(7)
    by_name: Dict[str, Sub] = betterproto.map_field(
        8, betterproto.TYPE_STRING, betterproto.TYPE_MESSAGE
    )
    by_id: Dict[int, Kind] = betterproto.map_field(
        9, betterproto.TYPE_SINT64, betterproto.TYPE_ENUM
    )
    by_flag: Dict[bool, float] = betterproto.map_field(
        10, betterproto.TYPE_BOOL, betterproto.TYPE_DOUBLE
    )
    by_fixed: Dict[int, int] = betterproto.map_field(
        11, betterproto.TYPE_FIXED32, betterproto.TYPE_SFIXED64
    )
    one: Sub = betterproto.message_field(12)


def build_bag_reference():
    pool = descriptor_pool.DescriptorPool()
    pool.AddSerializedFile(wrappers_pb2.DESCRIPTOR.serialized_pb)
    fd = descriptor_pb2.FileDescriptorProto(
        name="c06_bag.proto",
        package="c06bag",
        syntax="proto3",
        dependency=["google/protobuf/wrappers.proto"],
    )
    enum = fd.enum_type.add(name="Kind")
    for member in Kind:
        enum.value.add(name=member.name, number=int(member))
    sub = fd.message_type.add(name="Sub")
    sub.field.add(name="val", number=1, type=F.TYPE_INT32, label=F.LABEL_OPTIONAL)
    sub.field.add(name="name", number=2, type=F.TYPE_STRING, label=F.LABEL_OPTIONAL)
    bag = fd.message_type.add(name="Bag")
    R = F.LABEL_REPEATED
    bag.field.add(name="subs", number=1, type=F.TYPE_MESSAGE, type_name=".c06bag.Sub", label=R)
    bag.field.add(name="kinds", number=2, type=F.TYPE_ENUM, type_name=".c06bag.Kind", label=R)
    bag.field.add(
        name="wraps", number=3, type=F.TYPE_MESSAGE,
        type_name=".google.protobuf.Int32Value", label=R,
    )
    bag.field.add(name="floats", number=4, type=F.TYPE_FLOAT, label=R)
    bag.field.add(name="doubles", number=5, type=F.TYPE_DOUBLE, label=R)
    bag.field.add(name="sfixed", number=6, type=F.TYPE_SFIXED32, label=R)
    bag.field.add(name="fixed", number=7, type=F.TYPE_FIXED64, label=R)

    def add_map(name, number, key_type, value_type, **value_kw):
        entry = bag.nested_type.add(name="".join(p.title() for p in name.split("_")) + "Entry")
        entry.options.map_entry = True
        entry.field.add(name="key", number=1, type=key_type, label=F.LABEL_OPTIONAL)
        entry.field.add(name="value", number=2, type=value_type, label=F.LABEL_OPTIONAL, **value_kw)
        bag.field.add(
            name=name, number=number, type=F.TYPE_MESSAGE,
            type_name=".c06bag.Bag." + entry.name, label=R,
        )

    add_map("by_name", 8, F.TYPE_STRING, F.TYPE_MESSAGE, type_name=".c06bag.Sub")
    add_map("by_id", 9, F.TYPE_SINT64, F.TYPE_ENUM, type_name=".c06bag.Kind")
    add_map("by_flag", 10, F.TYPE_BOOL, F.TYPE_DOUBLE)
    add_map("by_fixed", 11, F.TYPE_FIXED32, F.TYPE_SFIXED64)
    bag.field.add(
        name="one", number=12, type=F.TYPE_MESSAGE, type_name=".c06bag.Sub",
        label=F.LABEL_OPTIONAL,
    )
    pool.Add(fd)
    return message_factory.GetMessageClass(pool.FindMessageTypeByName("c06bag.Bag"))


RefBag = build_bag_reference()
rng = random.Random(606)
for round_no in range(150):
    ref = RefBag()
    kwargs = {}
    if rng.random() < 0.7:
        items = [
            (rng.choice([0, 0, 5, -1]), rng.choice(["", "n"]))
            for _ in range(rng.randrange(0, 4))
        ]
        kwargs["subs"] = [Sub(val=v, name=n) for v, n in items]
        for v, n in items:
            ref.subs.add(val=v, name=n)
    if rng.random() < 0.7:
        items = [rng.choice(list(Kind)) for _ in range(rng.randrange(0, 5))]
        kwargs["kinds"] = items
        ref.kinds.extend(int(k) for k in items)
    if rng.random() < 0.7:
        items = [rng.choice([0, 1, -1, 300]) for _ in range(rng.randrange(0, 4))]
        kwargs["wraps"] = items
        for v in items:
            ref.wraps.add(value=v)
    if rng.random() < 0.7:
        items = [rng.choice([0.0, 2.5, -0.125]) for _ in range(rng.randrange(0, 4))]
        kwargs["floats"] = items
        ref.floats.extend(items)
    if rng.random() < 0.7:
        items = [rng.choice([0.0, 0.1, -1e300]) for _ in range(rng.randrange(0, 4))]
        kwargs["doubles"] = items
        ref.doubles.extend(items)
    if rng.random() < 0.7:
        items = [rng.choice([0, -1, 2**31 - 1, -(2**31)]) for _ in range(rng.randrange(0, 4))]
        kwargs["sfixed"] = items
        ref.sfixed.extend(items)
    if rng.random() < 0.7:
        items = [rng.choice([0, 1, 2**64 - 1]) for _ in range(rng.randrange(0, 4))]
        kwargs["fixed"] = items
        ref.fixed.extend(items)
    if rng.random() < 0.7:
        n_items = rng.randrange(0, 2)  # one entry at most: map order is not specified
        kwargs["by_name"] = {}
        for _ in range(n_items):
            # (non-empty keys and values: the bytes of an entry whose string key
            # or message value is empty are outside what this script is about)
            k, v = rng.choice(["kk", "k"]), rng.choice([7, 3])
            kwargs["by_name"][k] = Sub(val=v)
            ref.by_name[k].val = v
    if rng.random() < 0.7 and rng.random() < 0.5:
        k, v = rng.choice([0, -5, 2**40]), rng.choice(list(Kind))
        kwargs["by_id"] = {k: v}
        ref.by_id[k] = int(v)
    if rng.random() < 0.5:
        k, v = rng.choice([False, True]), rng.choice([0.0, 1.5])
        kwargs["by_flag"] = {k: v}
        ref.by_flag[k] = v
    if rng.random() < 0.5:
        k, v = rng.choice([0, 2**32 - 1]), rng.choice([0, -(2**63)])
        kwargs["by_fixed"] = {k: v}
        ref.by_fixed[k] = v
    if rng.random() < 0.5:
        v = rng.choice([0, 9])
        kwargs["one"] = Sub(val=v)
        ref.one.val = v
        ref.one.SetInParent()

    ref_bytes = ref.SerializeToString()
    msg = Bag(**kwargs)
    assert bytes(msg) == ref_bytes, (round_no, bytes(msg), ref_bytes)
    assert len(msg) == len(ref_bytes)
    decoded = Bag().parse(ref_bytes)
    assert decoded == msg and bytes(decoded) == ref_bytes, round_no
    assert decoded.is_set("one") == ref.HasField("one") == msg.is_set("one")
    for item in decoded.subs:
        assert type(item) is Sub and betterproto.serialized_on_wire(item)
    for item in decoded.kinds:
        assert type(item) is Kind
    for key, item in decoded.by_name.items():
        assert type(item) is Sub and type(key) is str
    for key, item in decoded.by_id.items():
        assert type(item) is Kind and type(key) is int
    for key in decoded.by_flag:
        assert type(key) is bool
    as_dict = json_format.MessageToDict(ref)
    from_dict = Bag.from_dict(as_dict)
    assert bytes(from_dict) == ref_bytes, (round_no, as_dict)
    assert bytes(Bag().from_dict(as_dict)) == ref_bytes
    assert from_dict.is_set("one") == ref.HasField("one")

print("C06 keep2 equiv: OK")
