# ---------------------------------------------------------------------------
# Reference side: build google.protobuf message classes for hand-written
# betterproto dataclasses (same field names, numbers, types, oneofs, maps).
# ---------------------------------------------------------------------------
import dataclasses
import typing
from datetime import datetime, timedelta

import betterproto
from google.protobuf import (  # noqa: F401  (imports register the well-known types)
    descriptor_pb2,
    descriptor_pool,
    duration_pb2,
    json_format,
    message_factory,
    timestamp_pb2,
    wrappers_pb2,
)

_FD = descriptor_pb2.FieldDescriptorProto
_SCALAR = {
    "bool": _FD.TYPE_BOOL, "int32": _FD.TYPE_INT32, "int64": _FD.TYPE_INT64,
    "uint32": _FD.TYPE_UINT32, "uint64": _FD.TYPE_UINT64, "sint32": _FD.TYPE_SINT32,
    "sint64": _FD.TYPE_SINT64, "float": _FD.TYPE_FLOAT, "double": _FD.TYPE_DOUBLE,
    "fixed32": _FD.TYPE_FIXED32, "sfixed32": _FD.TYPE_SFIXED32,
    "fixed64": _FD.TYPE_FIXED64, "sfixed64": _FD.TYPE_SFIXED64,
    "string": _FD.TYPE_STRING, "bytes": _FD.TYPE_BYTES,
}
_WRAPPER = {
    "bool": "BoolValue", "bytes": "BytesValue", "double": "DoubleValue",
    "float": "FloatValue", "int32": "Int32Value", "int64": "Int64Value",
    "string": "StringValue", "uint32": "UInt32Value", "uint64": "UInt64Value",
}


def build_reference(package, *classes):
    """Return {betterproto class: google.protobuf class} for ``classes`` (messages and
    enums they use are discovered from the type hints)."""
    fdp = descriptor_pb2.FileDescriptorProto(
        name=f"{package}.proto", package=package, syntax="proto3"
    )
    fdp.dependency.extend([
        "google/protobuf/timestamp.proto",
        "google/protobuf/duration.proto",
        "google/protobuf/wrappers.proto",
    ])
    todo, seen_msgs, seen_enums = list(classes), [], []

    def type_ref(py_type, fld, proto_type, wraps):
        """Fill type / type_name of ``fld`` for one (non-map) element type."""
        if proto_type == "message":
            fld.type = _FD.TYPE_MESSAGE
            if wraps:
                fld.type_name = f".google.protobuf.{_WRAPPER[wraps]}"
            elif py_type is datetime:
                fld.type_name = ".google.protobuf.Timestamp"
            elif py_type is timedelta:
                fld.type_name = ".google.protobuf.Duration"
            else:
                fld.type_name = f".{package}.{py_type.__name__}"
                if py_type not in seen_msgs and py_type not in todo:
                    todo.append(py_type)
        elif proto_type == "enum":
            fld.type = _FD.TYPE_ENUM
            fld.type_name = f".{package}.{py_type.__name__}"
            if py_type not in seen_enums:
                seen_enums.append(py_type)
        else:
            fld.type = _SCALAR[proto_type]

    def strip(hint):
        """(element type(s), is_list, is_dict) of a type hint."""
        origin = typing.get_origin(hint)
        args = typing.get_args(hint)
        if origin is list:
            return args[0], True, False
        if origin is dict:
            return args, False, True
        if origin is typing.Union:
            return [a for a in args if a is not type(None)][0], False, False
        return hint, False, False

    while todo:
        cls = todo.pop(0)
        if cls in seen_msgs:
            continue
        seen_msgs.append(cls)
        msg = fdp.message_type.add(name=cls.__name__)
        hints = cls._type_hints()
        oneofs = []
        for f in dataclasses.fields(cls):
            meta = betterproto.FieldMetadata.get(f)
            if meta.group and meta.group not in oneofs:
                oneofs.append(meta.group)
                msg.oneof_decl.add(name=meta.group)
        synthetic = []
        for f in dataclasses.fields(cls):
            meta = betterproto.FieldMetadata.get(f)
            fld = msg.field.add(name=f.name, number=meta.number)
            fld.label = _FD.LABEL_OPTIONAL
            elem, is_list, is_dict = strip(hints[f.name])
            if meta.proto_type == "map":
                kt, vt = meta.map_types
                entry_name = "".join(p.capitalize() for p in f.name.split("_")) + "Entry"
                entry = msg.nested_type.add(name=entry_name)
                entry.options.map_entry = True
                kf = entry.field.add(name="key", number=1, label=_FD.LABEL_OPTIONAL)
                type_ref(elem[0], kf, kt, None)
                vf = entry.field.add(name="value", number=2, label=_FD.LABEL_OPTIONAL)
                type_ref(elem[1], vf, vt, None)
                fld.label = _FD.LABEL_REPEATED
                fld.type = _FD.TYPE_MESSAGE
                fld.type_name = f".{package}.{cls.__name__}.{entry_name}"
                continue
            type_ref(elem, fld, meta.proto_type, meta.wraps)
            if is_list:
                fld.label = _FD.LABEL_REPEATED
            if meta.group:
                fld.oneof_index = oneofs.index(meta.group)
            elif meta.optional:
                fld.proto3_optional = True
                synthetic.append(fld)
        for fld in synthetic:  # synthetic oneofs come after the real ones
            msg.oneof_decl.add(name=f"_{fld.name}")
            fld.oneof_index = len(msg.oneof_decl) - 1
    for enum_cls in seen_enums:
        ed = fdp.enum_type.add(name=enum_cls.__name__)
        for member in enum_cls:
            ed.value.add(name=member.name, number=int(member))
    pool = descriptor_pool.Default()
    pool.Add(fdp)
    return {
        cls: message_factory.GetMessageClass(
            pool.FindMessageTypeByName(f"{package}.{cls.__name__}")
        )
        for cls in seen_msgs
    }


def det(ref_msg):
    """Canonical bytes of a reference message (map entries sorted, NaN-safe compare)."""
    return ref_msg.SerializeToString(deterministic=True)


def check_json_against_reference(msg, ref_cls, **to_json_kwargs):
    """The two directions of the property for one betterproto message ``msg``."""
    # the message as the reference implementation sees it (via the wire format)
    expected = ref_cls.FromString(bytes(msg))
    # 1. betterproto JSON -> reference parser -> same message
    text = msg.to_json(**to_json_kwargs)
    parsed = json_format.Parse(text, ref_cls())
    assert det(parsed) == det(expected), (
        f"reference parsed betterproto JSON {text} into a different message:\n"
        f"{parsed!r}\nvs expected\n{expected!r}"
    )
    # 2. reference JSON -> betterproto parser -> same message
    ref_text = json_format.MessageToJson(expected)
    back = type(msg)().from_json(ref_text)
    assert det(ref_cls.FromString(bytes(back))) == det(expected), (
        f"betterproto parsed reference JSON {ref_text} into a different message: {back!r}"
    )
    return text, ref_text


# ---------------------------------------------------------------------------
# equiv.py for C05 / keep1: _scalar_to_json / _scalar_from_json (JSON form of map
# values and wrapper values), checked against fixed expectations and against
# google.protobuf.json_format in both directions.
# ---------------------------------------------------------------------------
import json
import math
import random
import struct
from dataclasses import dataclass
from typing import Dict, List, Optional

from betterproto import _scalar_from_json, _scalar_to_json

ALL_TYPES = [
    "bool", "int32", "int64", "uint32", "uint64", "sint32", "sint64", "float",
    "double", "fixed32", "sfixed32", "fixed64", "sfixed64", "string", "bytes",
]
INT64S = ["int64", "uint64", "sint64", "fixed64", "sfixed64"]
INT32S = ["int32", "uint32", "sint32", "fixed32", "sfixed32"]
inf, nan = float("inf"), float("nan")

# --- 1. direct golden checks -------------------------------------------------
for t in INT64S:
    for v in (0, 1, -1, 2**63 - 1, -(2**63), 2**64 - 1, 2**53 + 1, 10**18):
        out = _scalar_to_json(t, v)
        assert out == str(v) and type(out) is str, (t, v, out)
        back = _scalar_from_json(t, out)
        assert back == v and type(back) is int, (t, v, back)
        # plain JSON numbers are accepted for 64-bit types too
        assert _scalar_from_json(t, v) == v
    assert _scalar_from_json(t, "007") == 7
    assert _scalar_from_json(t, 3.0) == 3 and type(_scalar_from_json(t, 3.0)) is int
    for bad in ("", "x", "1.5"):
        try:
            _scalar_from_json(t, bad)
        except ValueError:
            pass
        else:
            raise AssertionError((t, bad))
for t in INT32S:
    for v in (0, 1, -1, 2**31 - 1, -(2**31), 2**32 - 1):
        assert _scalar_to_json(t, v) is v
        assert _scalar_from_json(t, v) is v
    # 32-bit types are passed through untouched, whatever the JSON value is
    assert _scalar_from_json(t, "12") == "12"
for v in (True, False):
    assert _scalar_to_json("bool", v) is v and _scalar_from_json("bool", v) is v
for v in ("", "abc", "Infinity", "NaN", "12", "é\U0001f600"):
    assert _scalar_to_json("string", v) is v and _scalar_from_json("string", v) is v
for raw, text in [
    (b"", ""), (b"\x00", "AA=="), (b"\xff\xfe", "//4="), (b"\xfb\xff\xbf", "+/+/"),
    (b"hello world", "aGVsbG8gd29ybGQ="), (bytes(range(256)), None),
]:
    out = _scalar_to_json("bytes", raw)
    assert type(out) is str
    if text is not None:
        assert out == text, (raw, out)
    back = _scalar_from_json("bytes", out)
    assert back == raw and type(back) is bytes
assert _scalar_from_json("bytes", b"AA==") == b"\x00"
for t in ("float", "double"):
    assert _scalar_to_json(t, inf) == "Infinity"
    assert _scalar_to_json(t, -inf) == "-Infinity"
    assert _scalar_to_json(t, nan) == "NaN"
    assert _scalar_from_json(t, "Infinity") == inf
    assert _scalar_from_json(t, "-Infinity") == -inf
    assert math.isnan(_scalar_from_json(t, "NaN"))
    for v in (0.0, -0.0, 1.5, -2.25, 1e-320, 5e-324, 1.7976931348623157e308, 3.4028234663852886e38, 1e-7):
        out = _scalar_to_json(t, v)
        assert out is v
        back = _scalar_from_json(t, out)
        assert type(back) is float and struct.pack("<d", back) == struct.pack("<d", v)
    assert _scalar_to_json(t, 3) == 3 and type(_scalar_to_json(t, 3)) is int
    assert _scalar_from_json(t, 3) == 3.0 and type(_scalar_from_json(t, 3)) is float
    assert _scalar_from_json(t, "1.5") == 1.5
    assert _scalar_from_json(t, "1e3") == 1000.0
    try:
        _scalar_from_json(t, "abc")
    except ValueError:
        pass
    else:
        raise AssertionError(t)
# types that never reach a codec are passed through
marker = object()
for t in ("message", "enum", "map", "no-such-type", ""):
    assert _scalar_to_json(t, marker) is marker
    assert _scalar_from_json(t, marker) is marker
assert _scalar_to_json("int32", None) is None and _scalar_from_json("string", None) is None
assert _scalar_to_json("int64", None) == "None"  # str() of whatever is given
for t in ("bytes",):
    try:
        _scalar_to_json(t, None)
    except TypeError:
        pass
    else:
        raise AssertionError(t)


# --- 2. maps and wrappers against the reference implementation ----------------
@dataclass(eq=False, repr=False)
class Maps(betterproto.Message):
    m_bool: Dict[str, bool] = betterproto.map_field(1, "string", "bool")
    m_int32: Dict[int, int] = betterproto.map_field(2, "int32", "int32")
    m_int64: Dict[int, int] = betterproto.map_field(3, "int64", "int64")
    m_uint32: Dict[int, int] = betterproto.map_field(4, "uint32", "uint32")
    m_uint64: Dict[int, int] = betterproto.map_field(5, "uint64", "uint64")
    m_sint32: Dict[int, int] = betterproto.map_field(6, "sint32", "sint32")
    m_sint64: Dict[int, int] = betterproto.map_field(7, "sint64", "sint64")
    m_float: Dict[str, float] = betterproto.map_field(8, "string", "float")
    m_double: Dict[bool, float] = betterproto.map_field(9, "bool", "double")
    m_fixed32: Dict[int, int] = betterproto.map_field(10, "fixed32", "fixed32")
    m_sfixed32: Dict[int, int] = betterproto.map_field(11, "sfixed32", "sfixed32")
    m_fixed64: Dict[int, int] = betterproto.map_field(12, "fixed64", "fixed64")
    m_sfixed64: Dict[int, int] = betterproto.map_field(13, "sfixed64", "sfixed64")
    m_string: Dict[str, str] = betterproto.map_field(14, "string", "string")
    m_bytes: Dict[str, bytes] = betterproto.map_field(15, "string", "bytes")


@dataclass(eq=False, repr=False)
class Wrappers(betterproto.Message):
    w_bool: Optional[bool] = betterproto.message_field(1, wraps="bool")
    w_bytes: Optional[bytes] = betterproto.message_field(2, wraps="bytes")
    w_double: Optional[float] = betterproto.message_field(3, wraps="double")
    w_float: Optional[float] = betterproto.message_field(4, wraps="float")
    w_int32: Optional[int] = betterproto.message_field(5, wraps="int32")
    w_int64: Optional[int] = betterproto.message_field(6, wraps="int64")
    w_string: Optional[str] = betterproto.message_field(7, wraps="string")
    w_uint32: Optional[int] = betterproto.message_field(8, wraps="uint32")
    w_uint64: Optional[int] = betterproto.message_field(9, wraps="uint64")


refs = build_reference("c05keep1", Maps, Wrappers)
RefMaps, RefWrappers = refs[Maps], refs[Wrappers]

RANGES = {
    "int32": (-(2**31), 2**31 - 1), "sint32": (-(2**31), 2**31 - 1),
    "sfixed32": (-(2**31), 2**31 - 1), "uint32": (0, 2**32 - 1),
    "fixed32": (0, 2**32 - 1), "int64": (-(2**63), 2**63 - 1),
    "sint64": (-(2**63), 2**63 - 1), "sfixed64": (-(2**63), 2**63 - 1),
    "uint64": (0, 2**64 - 1), "fixed64": (0, 2**64 - 1),
}
rng = random.Random(20260405)


def f32(x):
    return struct.unpack("<f", struct.pack("<f", x))[0]


def gen(t):
    # (-0.0 is left out: betterproto treats it as the default 0.0 on the wire, which is
    # outside this property and independent of the code under test)
    if t in RANGES:
        lo, hi = RANGES[t]
        return rng.choice([lo, hi, 0, 1, min(hi, 2**53 + 1), rng.randint(lo, hi), rng.randint(-5, 5) if lo < 0 else rng.randint(0, 5)])
    if t == "bool":
        return rng.random() < 0.5
    if t == "string":
        return rng.choice(["", "a", "Infinity", "NaN", "-1", "true", "café \U0001f600", "x" * rng.randint(0, 9), '"\\\n'])
    if t == "bytes":
        return rng.choice([b"", b"\x00", b"\xfb\xff\xbf", rng.randbytes(rng.randint(0, 12))])
    if t == "double":
        return rng.choice([0.0, inf, -inf, nan, 1.5, 1e-320, 1.7976931348623157e308, rng.uniform(-1e6, 1e6), rng.random() * 10 ** rng.randint(-300, 300), float(rng.randint(-9, 9))])
    if t == "float":
        return rng.choice([0.0, inf, -inf, nan, 1.5, f32(1e-45), f32(3.4028234663852886e38), f32(rng.uniform(-1e6, 1e6)), f32(rng.random() * 10 ** rng.randint(-30, 30)), float(rng.randint(-9, 9))])
    raise AssertionError(t)


MAP_TYPES = {f.name: betterproto.FieldMetadata.get(f).map_types for f in dataclasses.fields(Maps)}
WRAP_TYPES = {f.name: betterproto.FieldMetadata.get(f).wraps for f in dataclasses.fields(Wrappers)}

count = 0
for _ in range(400):
    kwargs = {}
    for name, (kt, vt) in MAP_TYPES.items():
        if rng.random() < 0.6:
            kwargs[name] = {gen(kt): gen(vt) for _ in range(rng.randint(0, 4))}
    msg = Maps(**kwargs)
    text, ref_text = check_json_against_reference(msg, RefMaps)
    check_json_against_reference(msg, RefMaps, include_default_values=True)
    # the JSON text itself: 64-bit values are strings, bytes are base64 strings
    doc = json.loads(text)
    for name, (kt, vt) in MAP_TYPES.items():
        camel = betterproto.casing.camel_case(name)
        for k, v in doc.get(camel, {}).items():
            assert type(k) is str
            if vt in INT64S or vt == "bytes" or vt == "string":
                assert type(v) is str, (name, v)
            elif vt in INT32S:
                assert type(v) is int, (name, v)
            elif vt == "bool":
                assert type(v) is bool
            else:
                assert type(v) is float or v in ("Infinity", "-Infinity", "NaN"), (name, v)
    # and betterproto reads its own text back to the same message
    assert bytes(Maps().from_json(text)) == bytes(msg) or det(RefMaps.FromString(bytes(Maps().from_json(text)))) == det(RefMaps.FromString(bytes(msg)))
    count += 1

for _ in range(400):
    kwargs = {name: gen(t) for name, t in WRAP_TYPES.items() if rng.random() < 0.6}
    msg = Wrappers(**kwargs)
    text, ref_text = check_json_against_reference(msg, RefWrappers)
    check_json_against_reference(msg, RefWrappers, include_default_values=True)
    doc = json.loads(text)
    assert set(doc) == {betterproto.casing.camel_case(n) for n in kwargs}, (doc, kwargs)
    for name, t in WRAP_TYPES.items():
        camel = betterproto.casing.camel_case(name)
        if camel in doc and t in ("int64", "uint64", "bytes"):
            assert type(doc[camel]) is str
    back = Wrappers().from_json(ref_text)
    for name in WRAP_TYPES:
        a, b = getattr(back, name), getattr(msg, name)
        if isinstance(b, float) and math.isnan(b):
            assert math.isnan(a)
        elif WRAP_TYPES[name] == "float" and b is not None:
            assert f32(a) == b or a == b
        else:
            assert a == b and type(a) is type(b), (name, a, b)
    count += 1

# every wrapper holding its zero value is still emitted, unset ones are not
zero = Wrappers(w_bool=False, w_bytes=b"", w_double=0.0, w_float=0.0, w_int32=0,
                w_int64=0, w_string="", w_uint32=0, w_uint64=0)
assert json.loads(zero.to_json()) == {
    "wBool": False, "wBytes": "", "wDouble": 0.0, "wFloat": 0.0, "wInt32": 0,
    "wInt64": "0", "wString": "", "wUint32": 0, "wUint64": "0",
}
check_json_against_reference(zero, RefWrappers)
assert Wrappers().to_json() == "{}"
extreme = Wrappers(w_double=nan, w_float=-inf, w_int64=-(2**63), w_uint64=2**64 - 1, w_bytes=b"\xfb\xff\xbf")
assert json.loads(extreme.to_json()) == {
    "wBytes": "+/+/", "wDouble": "NaN", "wFloat": "-Infinity",
    "wInt64": "-9223372036854775808", "wUint64": "18446744073709551615",
}
check_json_against_reference(extreme, RefWrappers)

print(f"C05 keep1 equiv: OK ({count} random messages)")
