"""C15 keep2 equivalence check: Message.to_dict for repeated Timestamp / Duration fields
and for map fields (Timestamp, Duration, message, enum and scalar values) yields the
same JSON values as before, and the Timestamp / Duration texts are the reference's.

Each betterproto dict is (a) compared with an independently computed expectation,
(b) compared with google.protobuf's own JSON text for the same value, (c) fed to
google.protobuf's json_format parser and the resulting (seconds, nanos) pairs are
checked, (d) parsed back by betterproto.from_dict and compared with the original
message; a digest of all dicts is compared with the one recorded on the pristine tree.
"""
import hashlib
import json
import random
from dataclasses import dataclass
from datetime import datetime, timedelta, timezone
from typing import Dict, List

from google.protobuf import (
    descriptor_pb2,
    descriptor_pool,
    duration_pb2,
    json_format,
    message_factory,
    timestamp_pb2,
)

import betterproto
from betterproto import Casing

US = timedelta(microseconds=1)
EPOCH = datetime(1970, 1, 1, tzinfo=timezone.utc)


class Colour(betterproto.Enum):
    COLOUR_UNSPECIFIED = 0
    RED = 1
    GREEN = 2


@dataclass(eq=False, repr=False)
class Leaf(betterproto.Message):
    when: datetime = betterproto.message_field(1)
    span: timedelta = betterproto.message_field(2)
    stamps: List[datetime] = betterproto.message_field(3)


@dataclass(eq=False, repr=False)
class M(betterproto.Message):
    rep_ts: List[datetime] = betterproto.message_field(1)
    rep_d: List[timedelta] = betterproto.message_field(2)
    rep_leaf: List[Leaf] = betterproto.message_field(3)
    map_ts: Dict[str, datetime] = betterproto.map_field(
        4, betterproto.TYPE_STRING, betterproto.TYPE_MESSAGE
    )
    map_d: Dict[int, timedelta] = betterproto.map_field(
        5, betterproto.TYPE_INT32, betterproto.TYPE_MESSAGE
    )
    map_leaf: Dict[str, Leaf] = betterproto.map_field(
        6, betterproto.TYPE_STRING, betterproto.TYPE_MESSAGE
    )
    map_enum: Dict[str, Colour] = betterproto.map_field(
        7, betterproto.TYPE_STRING, betterproto.TYPE_ENUM
    )
    map_i64: Dict[str, int] = betterproto.map_field(
        8, betterproto.TYPE_STRING, betterproto.TYPE_INT64
    )
    map_bytes: Dict[bool, bytes] = betterproto.map_field(
        9, betterproto.TYPE_BOOL, betterproto.TYPE_BYTES
    )
    map_dbl: Dict[str, float] = betterproto.map_field(
        10, betterproto.TYPE_STRING, betterproto.TYPE_DOUBLE
    )
    map_str: Dict[str, str] = betterproto.map_field(
        11, betterproto.TYPE_STRING, betterproto.TYPE_STRING
    )


# ----------------------------------------------------------------------------------
# the reference schema for the Timestamp / Duration carrying fields
# ----------------------------------------------------------------------------------
def build_reference():
    F = descriptor_pb2.FieldDescriptorProto
    fdp = descriptor_pb2.FileDescriptorProto(
        name="c15_keep2_ref.proto", package="c15k2", syntax="proto3"
    )
    fdp.dependency.append("google/protobuf/timestamp.proto")
    fdp.dependency.append("google/protobuf/duration.proto")
    TS, DU = ".google.protobuf.Timestamp", ".google.protobuf.Duration"

    leaf = fdp.message_type.add(name="Leaf")
    leaf.field.add(name="when", number=1, type=F.TYPE_MESSAGE, type_name=TS,
                   label=F.LABEL_OPTIONAL)
    leaf.field.add(name="span", number=2, type=F.TYPE_MESSAGE, type_name=DU,
                   label=F.LABEL_OPTIONAL)
    leaf.field.add(name="stamps", number=3, type=F.TYPE_MESSAGE, type_name=TS,
                   label=F.LABEL_REPEATED)

    msg = fdp.message_type.add(name="M")
    msg.field.add(name="rep_ts", number=1, type=F.TYPE_MESSAGE, type_name=TS,
                  label=F.LABEL_REPEATED)
    msg.field.add(name="rep_d", number=2, type=F.TYPE_MESSAGE, type_name=DU,
                  label=F.LABEL_REPEATED)
    msg.field.add(name="rep_leaf", number=3, type=F.TYPE_MESSAGE,
                  type_name=".c15k2.Leaf", label=F.LABEL_REPEATED)
    for fname, number, ktype, vtype in (
        ("map_ts", 4, F.TYPE_STRING, TS),
        ("map_d", 5, F.TYPE_INT32, DU),
        ("map_leaf", 6, F.TYPE_STRING, ".c15k2.Leaf"),
    ):
        entry_name = "".join(p.capitalize() for p in fname.split("_")) + "Entry"
        entry = msg.nested_type.add(name=entry_name)
        entry.options.map_entry = True
        entry.field.add(name="key", number=1, type=ktype, label=F.LABEL_OPTIONAL)
        entry.field.add(name="value", number=2, type=F.TYPE_MESSAGE, type_name=vtype,
                        label=F.LABEL_OPTIONAL)
        msg.field.add(name=fname, number=number, type=F.TYPE_MESSAGE,
                      type_name=f".c15k2.M.{entry_name}", label=F.LABEL_REPEATED)
    pool = descriptor_pool.Default()
    pool.Add(fdp)
    return message_factory.GetMessageClass(pool.FindMessageTypeByName("c15k2.M"))


Ref = build_reference()


# ----------------------------------------------------------------------------------
# independent expectations
# ----------------------------------------------------------------------------------
def ts_pair(dt):
    s, us = divmod((dt - EPOCH) // US, 10**6)
    return s, us * 1000


def du_pair(td):
    total = td // US
    s, us = divmod(abs(total), 10**6)
    if total < 0:
        s, us = -s, -us
    return s, us * 1000


def ts_text(dt):
    utc = dt.astimezone(timezone.utc)
    text = (f"{utc.year:04d}-{utc.month:02d}-{utc.day:02d}"
            f"T{utc.hour:02d}:{utc.minute:02d}:{utc.second:02d}")
    us = utc.microsecond
    if us == 0:
        return text + "Z"
    if us % 1000 == 0:
        return f"{text}.{us // 1000:03d}Z"
    return f"{text}.{us:06d}Z"


def du_text(td):
    total = td // US
    sign = "-" if total < 0 else ""
    s, us = divmod(abs(total), 10**6)
    if us % 1000 == 0:
        return f"{sign}{s}.{us // 1000:03d}s"
    return f"{sign}{s}.{us:06d}s"


def ref_ts_text(dt):
    s, n = ts_pair(dt)
    return timestamp_pb2.Timestamp(seconds=s, nanos=n).ToJsonString()


def ref_du_text(td):
    s, n = du_pair(td)
    return duration_pb2.Duration(seconds=s, nanos=n).ToJsonString()


def same_duration_text(ours, ref):
    # the reference omits the fraction of a whole number of seconds ("5s"); betterproto
    # always prints at least three digits ("5.000s"). Everything else is identical.
    return ours == ref or ("." not in ref and ours == ref[:-1] + ".000s")


# ----------------------------------------------------------------------------------
# value generators
# ----------------------------------------------------------------------------------
rng = random.Random(0x15C2)
ZONES = [
    timezone.utc,
    timezone(timedelta(hours=5, minutes=30)),
    timezone(timedelta(hours=-9, minutes=-30)),
    timezone(timedelta(hours=14)),
]
LO = datetime(1, 1, 2, tzinfo=timezone.utc)
HI = datetime(9999, 12, 30, tzinfo=timezone.utc)
SPAN_US = (HI - LO) // US
MAX_D_US = 315_576_000_000 * 10**6

SPECIAL_TS = [
    EPOCH, EPOCH + US, EPOCH - US, EPOCH - timedelta(seconds=1),
    EPOCH - timedelta(microseconds=1_500_000),
    datetime(1, 1, 1, tzinfo=timezone.utc),
    datetime(9999, 12, 31, 23, 59, 59, 999999, tzinfo=timezone.utc),
    datetime(1970, 1, 1, 5, 30, tzinfo=ZONES[1]),
    datetime(1970, 1, 1, 0, 0, tzinfo=ZONES[1]),
    datetime(2020, 2, 29, 12, 0, 0, 5, tzinfo=ZONES[2]),
    datetime(2020, 2, 29, 12, 0, 0, 120000, tzinfo=ZONES[3]),
    EPOCH + timedelta(microseconds=2**53 + 1),
]
SPECIAL_D = [
    timedelta(0), US, -US, timedelta(seconds=1), timedelta(seconds=-1),
    timedelta(microseconds=-1_500_000), timedelta(microseconds=-500_000),
    timedelta(microseconds=10), timedelta(microseconds=1_000_005),
    timedelta(microseconds=MAX_D_US), timedelta(microseconds=-MAX_D_US),
    timedelta(microseconds=2**53 + 1), timedelta(microseconds=-(2**53) - 1),
]


def rand_ts():
    if rng.random() < 0.3:
        return rng.choice(SPECIAL_TS)
    if rng.random() < 0.3:
        dt = EPOCH + timedelta(microseconds=rng.randrange(-3 * 10**6, 3 * 10**6))
    elif rng.random() < 0.3:
        dt = LO + timedelta(milliseconds=rng.randrange(SPAN_US // 1000))
    else:
        dt = LO + timedelta(microseconds=rng.randrange(SPAN_US))
    return dt.astimezone(rng.choice(ZONES))


def rand_d():
    if rng.random() < 0.3:
        return rng.choice(SPECIAL_D)
    if rng.random() < 0.3:
        return timedelta(microseconds=rng.randrange(-3 * 10**6, 3 * 10**6))
    if rng.random() < 0.3:
        return timedelta(milliseconds=rng.randrange(-MAX_D_US // 1000, MAX_D_US // 1000))
    return timedelta(microseconds=rng.randrange(-MAX_D_US, MAX_D_US + 1))


def rand_leaf():
    leaf = Leaf()
    if rng.random() < 0.7:
        leaf.when = rand_ts()
    if rng.random() < 0.7:
        leaf.span = rand_d()
    if rng.random() < 0.5:
        leaf.stamps = [rand_ts() for _ in range(rng.randrange(3))]
    return leaf


def rand_message():
    m = M()
    r = rng.random
    n = lambda: rng.randrange(4)
    if r() < 0.6:
        m.rep_ts = [rand_ts() for _ in range(n())]
    if r() < 0.6:
        m.rep_d = [rand_d() for _ in range(n())]
    if r() < 0.4:
        m.rep_leaf = [rand_leaf() for _ in range(n())]
    if r() < 0.6:
        m.map_ts = {("" if i == 0 else f"key_{i}"): rand_ts() for i in range(n())}
    if r() < 0.6:
        m.map_d = {rng.choice([0, 1, -7, 2**31 - 5]) + i: rand_d() for i in range(n())}
    if r() < 0.4:
        m.map_leaf = {f"l{i}": rand_leaf() for i in range(n())}
    if r() < 0.3:
        m.map_enum = {f"e{i}": rng.choice([Colour.RED, Colour.GREEN,
                                           Colour.COLOUR_UNSPECIFIED, Colour.try_value(7)])
                      for i in range(n())}
    if r() < 0.3:
        m.map_i64 = {f"i{i}": rng.choice([0, -1, 2**53 + 1, -(2**63)]) for i in range(n())}
    if r() < 0.3:
        m.map_bytes = {bool(i % 2): bytes([i, 255]) for i in range(n())}
    if r() < 0.3:
        m.map_dbl = {f"d{i}": rng.choice([0.0, 1.5, float("inf"), -float("inf"), 1e-7])
                     for i in range(n())}
    if r() < 0.3:
        m.map_str = {f"s{i}": rng.choice(["", "x", "2020-01-01T00:00:00Z", "1.5s"])
                     for i in range(n())}
    return m


# ----------------------------------------------------------------------------------
# expectations for a whole dict
# ----------------------------------------------------------------------------------
def expect_leaf(leaf, name, include_default_values):
    out = {}
    if leaf.when != EPOCH or include_default_values:
        out[name("when")] = ts_text(leaf.when)
    if leaf.span != timedelta(0) or include_default_values:
        out[name("span")] = du_text(leaf.span)
    if leaf.stamps or include_default_values:
        out[name("stamps")] = [ts_text(x) for x in leaf.stamps]
    return out


digest = hashlib.sha256()


def check(m, casing, include_default_values):
    name = (lambda s: casing(s).rstrip("_"))
    d = m.to_dict(casing, include_default_values)
    digest.update(json.dumps(d, sort_keys=True, default=str).encode())

    # (a) independent expectation for the Timestamp / Duration carrying fields
    want = {}
    if m.rep_ts or include_default_values:
        want[name("rep_ts")] = [ts_text(x) for x in m.rep_ts]
    if m.rep_d or include_default_values:
        want[name("rep_d")] = [du_text(x) for x in m.rep_d]
    if m.rep_leaf or include_default_values:
        want[name("rep_leaf")] = [expect_leaf(x, name, include_default_values)
                                  for x in m.rep_leaf]
    if m.map_ts or include_default_values:
        want[name("map_ts")] = {k: ts_text(v) for k, v in m.map_ts.items()}
    if m.map_d or include_default_values:
        want[name("map_d")] = {k: du_text(v) for k, v in m.map_d.items()}
    if m.map_leaf or include_default_values:
        want[name("map_leaf")] = {k: expect_leaf(v, name, include_default_values)
                                  for k, v in m.map_leaf.items()}
    got = {k: v for k, v in d.items() if k in want or k in (
        name("rep_ts"), name("rep_d"), name("rep_leaf"),
        name("map_ts"), name("map_d"), name("map_leaf"))}
    assert got == want, (got, want)
    for key in ("map_ts", "map_d", "map_leaf"):
        if name(key) in d:
            assert list(d[name(key)]) == list(getattr(m, key)), "entry order changed"

    # other map kinds keep their JSON mapping
    if name("map_enum") in d:
        assert d[name("map_enum")] == {
            k: (v.name if v in (Colour.RED, Colour.GREEN, Colour.COLOUR_UNSPECIFIED)
                and isinstance(v.name, str) and v.name is not None else int(v))
            for k, v in m.map_enum.items()
        }, d[name("map_enum")]
    if name("map_i64") in d:
        assert d[name("map_i64")] == {k: str(v) for k, v in m.map_i64.items()}
    if name("map_str") in d:
        assert d[name("map_str")] == m.map_str
    if name("map_bytes") in d:
        assert all(isinstance(v, str) for v in d[name("map_bytes")].values())
    if name("map_dbl") in d:
        assert set(d[name("map_dbl")]) == set(m.map_dbl)

    # (b) the reference prints the same texts
    for x, text in zip(m.rep_ts, d.get(name("rep_ts"), [])):
        assert text == ref_ts_text(x), (text, ref_ts_text(x))
    for k, x in m.map_ts.items():
        assert d[name("map_ts")][k] == ref_ts_text(x)
    for x, text in zip(m.rep_d, d.get(name("rep_d"), [])):
        assert same_duration_text(text, ref_du_text(x)), (text, ref_du_text(x))
    for k, x in m.map_d.items():
        assert same_duration_text(d[name("map_d")][k], ref_du_text(x))

    # (c) the reference's JSON parser reads the exact pairs out of our dict
    if casing is Casing.CAMEL:
        subset = {}
        for key in ("rep_ts", "rep_d", "rep_leaf", "map_ts", "map_d", "map_leaf"):
            if name(key) in d:
                value = d[name(key)]
                if key == "map_d":
                    value = {str(k): v for k, v in value.items()}
                subset[name(key)] = value
        ref = json_format.ParseDict(subset, Ref())
        assert [(x.seconds, x.nanos) for x in ref.rep_ts] == [ts_pair(x) for x in m.rep_ts]
        assert [(x.seconds, x.nanos) for x in ref.rep_d] == [du_pair(x) for x in m.rep_d]
        assert {k: (v.seconds, v.nanos) for k, v in ref.map_ts.items()} == {
            k: ts_pair(v) for k, v in m.map_ts.items()}
        assert {k: (v.seconds, v.nanos) for k, v in ref.map_d.items()} == {
            k: du_pair(v) for k, v in m.map_d.items()}
        assert len(ref.rep_leaf) == len(m.rep_leaf)
        for rl, leaf in zip(ref.rep_leaf, m.rep_leaf):
            assert (rl.when.seconds, rl.when.nanos) == ts_pair(leaf.when)
            assert (rl.span.seconds, rl.span.nanos) == du_pair(leaf.span)
            assert [(x.seconds, x.nanos) for x in rl.stamps] == [ts_pair(x) for x in leaf.stamps]
        for k, leaf in m.map_leaf.items():
            rl = ref.map_leaf[k]
            assert (rl.when.seconds, rl.when.nanos) == ts_pair(leaf.when)
            assert (rl.span.seconds, rl.span.nanos) == du_pair(leaf.span)

    # (d) and betterproto reads the identical values back (also through real JSON text)
    for source in (d, json.loads(json.dumps(d)) if _jsonable(d) else d):
        back = M().from_dict(source)
        assert back.rep_ts == m.rep_ts and back.rep_d == m.rep_d
        assert back.map_ts == m.map_ts and back.map_d == m.map_d
        assert [bytes(x) for x in back.rep_leaf] == [bytes(x) for x in m.rep_leaf]
        assert {k: bytes(v) for k, v in back.map_leaf.items()} == {
            k: bytes(v) for k, v in m.map_leaf.items()}
        assert back.map_i64 == m.map_i64 and back.map_str == m.map_str
        assert back.map_bytes == m.map_bytes
        assert {k: int(v) for k, v in back.map_enum.items()} == {
            k: int(v) for k, v in m.map_enum.items()}


def _jsonable(d):
    try:
        json.dumps(d)
        return True
    except (TypeError, ValueError):
        return False


for special in SPECIAL_TS:
    for casing in (Casing.CAMEL, Casing.SNAKE):
        for inc in (False, True):
            check(M(rep_ts=[special, special], map_ts={"a": special, "": special}),
                  casing, inc)
for special in SPECIAL_D:
    for casing in (Casing.CAMEL, Casing.SNAKE):
        for inc in (False, True):
            check(M(rep_d=[special, special], map_d={1: special, 0: special}), casing, inc)
check(M(), Casing.CAMEL, False)
check(M(), Casing.CAMEL, True)
check(M(), Casing.SNAKE, True)

for i in range(2500):
    check(rand_message(), rng.choice((Casing.CAMEL, Casing.SNAKE)), rng.random() < 0.4)

# to_json goes through the same code
m = M(rep_ts=[SPECIAL_TS[9]], map_d={3: timedelta(microseconds=-1_000_005)})
assert json.loads(m.to_json()) == {
    "repTs": ["2020-02-29T21:30:00.000005Z"],
    "mapD": {"3": "-1.000005s"},
}

EXPECTED = "30495d402c7f1f66e89eddd1cb548650e47be91f110117d976fcf40d9c704533"
got = digest.hexdigest()
assert got == EXPECTED, f"emitted JSON changed: {got}"
print("C15 keep2 equiv: OK", got[:16])
