"""C01 keep2: datetime -> Timestamp and timedelta -> Duration conversion.

Checks _Timestamp.from_datetime / _Duration.from_timedelta (and everything that
encodes through them) against an independent exact reference, against
google.protobuf's own well-known types, and through full binary round trips of
messages with Timestamp / Duration fields in every position (singular, oneof,
proto3 optional, repeated, map value).  Must pass unchanged on the pristine tree
and with the refactor applied.
"""
import random
from dataclasses import dataclass
from datetime import datetime, timedelta, timezone
from fractions import Fraction
from typing import Dict, List, Optional

from google.protobuf import duration_pb2, timestamp_pb2

import betterproto
from betterproto import _Duration, _Timestamp

UTC = timezone.utc
EPOCH = datetime(1970, 1, 1, tzinfo=UTC)
US = timedelta(microseconds=1)


# ------------------------------------------------------------------ reference
def total_us(delta: timedelta) -> int:
    # from the normalised components, no timedelta arithmetic involved
    return (delta.days * 86400 + delta.seconds) * 1_000_000 + delta.microseconds


def ref_timestamp(dt: datetime):
    exact = Fraction(total_us(dt - EPOCH), 1_000_000)
    seconds = exact.numerator // exact.denominator  # floor
    nanos = (exact - seconds) * 1_000_000_000
    assert nanos.denominator == 1 and 0 <= nanos < 10**9
    return seconds, int(nanos)


def ref_duration(delta: timedelta):
    us = total_us(delta)
    sign = -1 if us < 0 else 1
    mag = Fraction(abs(us), 1_000_000)
    seconds = mag.numerator // mag.denominator
    nanos = (mag - seconds) * 1_000_000_000
    assert nanos.denominator == 1
    return sign * seconds, sign * int(nanos)


def varint(n: int) -> bytes:
    n &= (1 << 64) - 1
    out = bytearray()
    while n > 0x7F:
        out.append(0x80 | (n & 0x7F))
        n >>= 7
    out.append(n)
    return bytes(out)


def ref_wkt_bytes(seconds: int, nanos: int) -> bytes:
    out = b""
    if seconds:
        out += b"\x08" + varint(seconds)
    if nanos:
        out += b"\x10" + varint(nanos)
    return out


# --------------------------------------------------------------------- inputs
rng = random.Random(77)

DATETIMES = [
    EPOCH,
    EPOCH + US,
    EPOCH - US,
    EPOCH + timedelta(seconds=1),
    EPOCH - timedelta(seconds=1),
    EPOCH - timedelta(seconds=1, microseconds=1),
    EPOCH + timedelta(microseconds=999_999),
    EPOCH - timedelta(microseconds=999_999),
    EPOCH - timedelta(microseconds=500_000),
    EPOCH + timedelta(seconds=2**31 - 1),
    EPOCH + timedelta(seconds=2**31),
    EPOCH - timedelta(seconds=2**31),
    EPOCH - timedelta(seconds=2**31, microseconds=1),
    EPOCH + timedelta(seconds=2**32, microseconds=1),
    datetime(1969, 12, 31, 23, 59, 59, 999999, tzinfo=UTC),
    datetime(1, 1, 1, tzinfo=UTC),
    datetime(1, 1, 1, 0, 0, 0, 1, tzinfo=UTC),
    datetime(9999, 12, 31, 23, 59, 59, 999999, tzinfo=UTC),
    datetime(9999, 12, 31, 23, 59, 59, tzinfo=UTC),
    datetime(2038, 1, 19, 3, 14, 7, tzinfo=UTC),
    datetime(2038, 1, 19, 3, 14, 8, tzinfo=UTC),
    datetime(1901, 12, 13, 20, 45, 52, tzinfo=UTC),
    datetime(2020, 2, 29, 12, 0, 0, 123456, tzinfo=UTC),
    datetime(2262, 4, 11, 23, 47, 16, 854775, tzinfo=UTC),  # ~2**63 ns
    datetime(2255, 6, 5, 23, 47, 34, 740993, tzinfo=UTC),  # ~2**53 us
    # other offsets, incl. ones that move the date across the epoch
    datetime(1970, 1, 1, 1, 0, 0, tzinfo=timezone(timedelta(hours=1))),
    datetime(1970, 1, 1, 0, 30, 0, 5, tzinfo=timezone(timedelta(hours=1))),
    datetime(1969, 12, 31, 20, 0, 0, 7, tzinfo=timezone(timedelta(hours=-5, minutes=-30))),
    datetime(2021, 6, 1, 0, 0, 0, 999999, tzinfo=timezone(timedelta(hours=14))),
    datetime(2021, 6, 1, 0, 0, 0, 1, tzinfo=timezone(-timedelta(hours=23, minutes=59))),
]
lo, hi = total_us(datetime(1, 1, 2, tzinfo=UTC) - EPOCH), total_us(
    datetime(9999, 12, 30, tzinfo=UTC) - EPOCH
)
for _ in range(4000):
    DATETIMES.append(EPOCH + rng.randint(lo, hi) * US)
for _ in range(2000):
    # near the epoch and near whole seconds, both sides
    base = rng.randint(-5, 5) * 1_000_000 + rng.choice([-2, -1, 0, 1, 2, 499_999, 500_000])
    DATETIMES.append(EPOCH + base * US)
for _ in range(500):
    tz = timezone(timedelta(minutes=rng.randint(-1439, 1439)))
    DATETIMES.append((EPOCH + rng.randint(lo, hi) * US).astimezone(tz))

TIMEDELTAS = [
    timedelta(0),
    US,
    -US,
    timedelta(seconds=1),
    -timedelta(seconds=1),
    timedelta(seconds=1, microseconds=500_000),
    -timedelta(seconds=1, microseconds=500_000),
    timedelta(microseconds=999_999),
    -timedelta(microseconds=999_999),
    timedelta(seconds=1, microseconds=1),
    -timedelta(seconds=1, microseconds=1),
    timedelta(seconds=-1, microseconds=1),
    timedelta(days=-1),
    timedelta(days=-1, microseconds=1),
    timedelta(days=1, microseconds=-1),
    timedelta.max,
    timedelta.min,
    timedelta.min + US,
    timedelta.max - US,
    timedelta.resolution,
    timedelta(seconds=2**31),
    -timedelta(seconds=2**31),
    timedelta(seconds=2**31 - 1, microseconds=999_999),
    -timedelta(seconds=2**31, microseconds=999_999),
    timedelta(microseconds=2**53),
    timedelta(microseconds=2**53 + 1),
    -timedelta(microseconds=2**53 + 1),
    timedelta(microseconds=2**62 + 12345),
    -timedelta(microseconds=2**62 + 12345),
    timedelta(seconds=315_576_000_000),
    -timedelta(seconds=315_576_000_000),
    timedelta(seconds=315_576_000_000) - US,
    -timedelta(seconds=315_576_000_000) + US,
]
TD_MAX_US = total_us(timedelta.max)
TD_MIN_US = total_us(timedelta.min)
for _ in range(4000):
    TIMEDELTAS.append(rng.randint(TD_MIN_US, TD_MAX_US) * US)
for _ in range(3000):
    base = rng.randint(-5, 5) * 1_000_000 + rng.choice([-2, -1, 0, 1, 2, 499_999, 500_000])
    TIMEDELTAS.append(base * US)
for _ in range(1000):
    TIMEDELTAS.append(rng.randint(-(10**13), 10**13) * US)

# ------------------------------------------------------- the conversion itself
for dt in DATETIMES:
    ts = _Timestamp.from_datetime(dt)
    assert type(ts) is _Timestamp
    assert type(ts.seconds) is int and type(ts.nanos) is int
    assert (ts.seconds, ts.nanos) == ref_timestamp(dt), (dt, ts)
    assert 0 <= ts.nanos < 10**9 and ts.nanos % 1000 == 0
    assert betterproto.serialized_on_wire(ts)
    data = bytes(ts)
    assert data == ref_wkt_bytes(ts.seconds, ts.nanos)
    assert len(ts) == len(data)
    g = timestamp_pb2.Timestamp()
    g.FromDatetime(dt)
    assert (g.seconds, g.nanos) == (ts.seconds, ts.nanos), (dt, g, ts)
    assert g.SerializeToString() == data
    back = ts.to_datetime()
    assert back == dt and back.tzinfo is UTC and back.microsecond == dt.astimezone(UTC).microsecond
    assert _Timestamp().parse(data).to_datetime() == dt

GOOGLE_MAX = 315_576_000_000
for delta in TIMEDELTAS:
    d = _Duration.from_timedelta(delta)
    assert type(d) is _Duration
    assert type(d.seconds) is int and type(d.nanos) is int
    assert (d.seconds, d.nanos) == ref_duration(delta), (delta, d)
    assert abs(d.nanos) < 10**9 and d.nanos % 1000 == 0
    assert not (d.seconds > 0 and d.nanos < 0) and not (d.seconds < 0 and d.nanos > 0)
    assert betterproto.serialized_on_wire(d)
    data = bytes(d)
    assert data == ref_wkt_bytes(d.seconds, d.nanos)
    assert len(d) == len(data)
    if abs(d.seconds) <= GOOGLE_MAX:
        g = duration_pb2.Duration()
        g.FromTimedelta(delta)
        assert (g.seconds, g.nanos) == (d.seconds, d.nanos), (delta, g, d)
        assert g.SerializeToString() == data
    assert d.to_timedelta() == delta, (delta, d)
    assert _Duration().parse(data).to_timedelta() == delta
    # the private keyword the default is bound to still works and still means
    # "the unit to count in"
    assert _Duration.from_timedelta(delta, _1_microsecond=US) == d

# wrong inputs fail the same way as before: naive datetimes cannot be offset
try:
    _Timestamp.from_datetime(datetime(2020, 1, 1))
except TypeError:
    pass
else:
    raise AssertionError("naive datetime accepted")


# --------------------------------------------------- messages using the types
@dataclass(eq=False, repr=False)
class Event(betterproto.Message):
    at: datetime = betterproto.message_field(1)
    took: timedelta = betterproto.message_field(2)
    o_at: datetime = betterproto.message_field(3, group="when")
    o_took: timedelta = betterproto.message_field(4, group="when")
    o_n: int = betterproto.int32_field(5, group="when")
    opt_at: Optional[datetime] = betterproto.message_field(6, optional=True)
    opt_took: Optional[timedelta] = betterproto.message_field(7, optional=True)
    ats: List[datetime] = betterproto.message_field(8)
    tooks: List[timedelta] = betterproto.message_field(9)
    at_by: Dict[str, datetime] = betterproto.map_field(
        10, betterproto.TYPE_STRING, betterproto.TYPE_MESSAGE
    )
    took_by: Dict[int, timedelta] = betterproto.map_field(
        11, betterproto.TYPE_SINT64, betterproto.TYPE_MESSAGE
    )


def field(number: int, payload: bytes) -> bytes:
    return varint((number << 3) | 2) + varint(len(payload)) + payload


def ts_bytes(dt):
    return ref_wkt_bytes(*ref_timestamp(dt))


def du_bytes(delta):
    return ref_wkt_bytes(*ref_duration(delta))


def check(m: Event, expected: bytes = None) -> None:
    data = bytes(m)
    if expected is not None:
        assert data == expected, (m, data, expected)
    assert len(m) == len(data)
    back = Event().parse(data)
    assert back == m and m == back, (m, back)
    assert betterproto.which_one_of(back, "when") == betterproto.which_one_of(m, "when")
    assert (back.opt_at is None) == (m.opt_at is None)
    assert (back.opt_took is None) == (m.opt_took is None)
    assert bytes(back) == data


check(Event(), b"")
# default values: skipped when plain, kept when selected in a oneof / optional
check(Event(at=EPOCH, took=timedelta(0)), b"")
check(Event(o_at=EPOCH), field(3, b""))
check(Event(o_took=timedelta(0)), field(4, b""))
check(Event(opt_at=EPOCH, opt_took=timedelta(0)), field(6, b"") + field(7, b""))
check(Event(ats=[EPOCH], tooks=[timedelta(0)]), field(8, b"") + field(9, b""))

sample_dt = DATETIMES[:30] + rng.sample(DATETIMES[30:], 400)
sample_td = TIMEDELTAS[:33] + rng.sample(TIMEDELTAS[33:], 400)
for i in range(max(len(sample_dt), len(sample_td))):
    dt = sample_dt[i % len(sample_dt)]
    td = sample_td[i % len(sample_td)]
    plain = b""
    if dt != EPOCH:
        plain += field(1, ts_bytes(dt))
    if td != timedelta(0):
        plain += field(2, du_bytes(td))
    check(Event(at=dt, took=td), plain)
    check(Event(o_at=dt), field(3, ts_bytes(dt)))
    check(Event(o_took=td), field(4, du_bytes(td)))
    check(
        Event(opt_at=dt, opt_took=td),
        field(6, ts_bytes(dt)) + field(7, du_bytes(td)),
    )
    dt2 = sample_dt[(i * 7 + 3) % len(sample_dt)]
    td2 = sample_td[(i * 7 + 3) % len(sample_td)]
    check(
        Event(ats=[dt, dt2, dt], tooks=[td, td2]),
        b"".join(field(8, ts_bytes(x)) for x in (dt, dt2, dt))
        + b"".join(field(9, du_bytes(x)) for x in (td, td2)),
    )
    entry_at = b"\x0a\x01k" + (field(2, ts_bytes(dt)) if ts_bytes(dt) else b"")
    entry_took = b"\x08" + varint((i << 1)) + (
        field(2, du_bytes(td)) if du_bytes(td) else b""
    )
    check(
        Event(at_by={"k": dt}, took_by={i: td}),
        field(10, entry_at) + field(11, entry_took),
    )
    # everything at once
    check(
        Event(
            at=dt,
            took=td,
            o_took=td2,
            opt_at=dt2,
            ats=[dt2],
            tooks=[td, td],
            at_by={"": dt, "\U0001f600": dt2},
            took_by={-1: td, 2**62: td2},
        )
    )

print("OK", len(DATETIMES), len(TIMEDELTAS))
