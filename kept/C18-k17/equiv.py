import os, sys
if os.environ.get("PYTHONHASHSEED") != "0":
    # generated modules list their trailing imports in set order: pin the hash seed so that
    # the rendered text is reproducible and can be compared with the recorded digests
    os.environ["PYTHONHASHSEED"] = "0"
    os.execv(sys.executable, [sys.executable] + sys.argv)
import hashlib, importlib, itertools, os, sys, tempfile, shutil
from google.protobuf import descriptor_pb2 as dpb

import betterproto
from betterproto.plugin import compiler as plugin_compiler
plugin_compiler.subprocess.check_output = lambda cmd, input, encoding: input
from betterproto.plugin import parser as plugin_parser
from betterproto.lib.google.protobuf.compiler import CodeGeneratorRequest

F = dpb.FieldDescriptorProto
OPTIONS = [",".join(filter(None, (t, p))) for t in ("", "typing.direct", "typing.root", "typing.310")
           for p in ("", "pydantic_dataclasses")]


def msg(name, fields=(), nested=(), enums=(), oneofs=()):
    m = dpb.DescriptorProto(name=name)
    for od in oneofs:
        m.oneof_decl.add(name=od)
    for i, f in enumerate(fields, 1):
        fname, ftype, tname, extra = (list(f) + [None, {}])[:4] if len(f) < 4 else f
        fd = m.field.add(name=fname, number=i, type=ftype,
                         label=(extra or {}).get("label", F.LABEL_OPTIONAL))
        if tname:
            fd.type_name = tname
        if extra and "oneof" in extra:
            fd.oneof_index = extra["oneof"]
        if extra and extra.get("p3opt"):
            fd.proto3_optional = True
    for n in nested:
        m.nested_type.add().CopyFrom(n)
    for e in enums:
        m.enum_type.add().CopyFrom(e)
    return m


def enum(name, *values):
    e = dpb.EnumDescriptorProto(name=name)
    for i, v in enumerate(values):
        e.value.add(name=v, number=i)
    return e


def map_entry(name, ktype, vtype, vtname=None):
    m = dpb.DescriptorProto(name=name)
    m.options.map_entry = True
    m.field.add(name="key", number=1, type=ktype, label=F.LABEL_OPTIONAL)
    v = m.field.add(name="value", number=2, type=vtype, label=F.LABEL_OPTIONAL)
    if vtname:
        v.type_name = vtname
    return m


def service(name, methods):
    s = dpb.ServiceDescriptorProto(name=name)
    for mname, i, o, cs, ss in methods:
        s.method.add(name=mname, input_type=i, output_type=o, client_streaming=cs, server_streaming=ss)
    return s


def four(prefix, pairs):
    """One method per streaming cardinality for every (input, output) pair."""
    out = []
    for n, (i, o) in enumerate(pairs):
        for cs, ss in itertools.product((False, True), repeat=2):
            out.append((f"{prefix}{n}{'S' if cs else 'U'}{'S' if ss else 'U'}", i, o, cs, ss))
    return out


def fdp(name, package, messages=(), enums=(), services=(), deps=()):
    f = dpb.FileDescriptorProto(name=name, syntax="proto3")
    if package:
        f.package = package
    f.dependency.extend(deps)
    for m in messages:
        f.message_type.add().CopyFrom(m)
    for e in enums:
        f.enum_type.add().CopyFrom(e)
    for s in services:
        f.service.add().CopyFrom(s)
    return f


def build_files():
    REP = {"label": F.LABEL_REPEATED}
    files = []
    files.append(fdp("root.proto", "", messages=[
        msg("Ping", [("id", F.TYPE_INT32), ("deep", F.TYPE_MESSAGE, ".a.b.c.Deep"),
                     ("far", F.TYPE_MESSAGE, ".z.Far"), ("tags", F.TYPE_STRING, None, REP)]),
        msg("Pong", [("ok", F.TYPE_BOOL), ("ping", F.TYPE_MESSAGE, ".Ping"),
                     ("when", F.TYPE_MESSAGE, ".google.protobuf.Timestamp"),
                     ("maybe", F.TYPE_MESSAGE, ".google.protobuf.Int32Value")]),
    ], services=[service("Top", four("Call", [(".Ping", ".Pong"), (".a.Msg", ".a.b.c.Deep"),
                                              (".google.protobuf.Empty", ".z.Far")]))]))
    inner = msg("Inner", [("v", F.TYPE_SINT64)])
    files.append(fdp("a/x.proto", "a", messages=[
        msg("Msg", [("name", F.TYPE_STRING), ("inner", F.TYPE_MESSAGE, ".a.Msg.Inner"),
                    ("kind", F.TYPE_ENUM, ".a.Kind"),
                    ("counts", F.TYPE_MESSAGE, ".a.Msg.CountsEntry", REP),
                    ("opt", F.TYPE_INT32, None, {"oneof": 1, "p3opt": True}),
                    ("x", F.TYPE_STRING, None, {"oneof": 0}),
                    ("y", F.TYPE_MESSAGE, ".a.b.Mid", {"oneof": 0}),
                    ("root_ping", F.TYPE_MESSAGE, ".Ping"),
                    ("dur", F.TYPE_MESSAGE, ".google.protobuf.Duration"),
                    ("blobs", F.TYPE_BYTES, None, REP)],
            nested=[inner, map_entry("CountsEntry", F.TYPE_STRING, F.TYPE_MESSAGE, ".a.b.c.Deep")],
            oneofs=["choice", "_opt"]),
    ], enums=[enum("Kind", "KIND_UNSPECIFIED", "KIND_ONE", "KIND_TWO")],
        services=[service("Svc", four("Do", [
            (".a.Msg", ".a.Msg.Inner"), (".a.b.c.Deep", ".Ping"), (".a.b.Mid", ".a.b.c.e.Deeper"),
            (".google.protobuf.StringValue", ".google.protobuf.Timestamp"),
            (".google.protobuf.Empty", ".google.protobuf.Empty")])),
            service("second_svc", four("other_call", [(".a.Msg", ".a.Msg")]))]))
    files.append(fdp("a/b/y.proto", "a.b", messages=[
        msg("Mid", [("up", F.TYPE_MESSAGE, ".a.Msg"), ("down", F.TYPE_MESSAGE, ".a.b.c.Deep"),
                    ("downer", F.TYPE_MESSAGE, ".a.b.c.e.Deeper"), ("cousin", F.TYPE_MESSAGE, ".a.d.Cousin"),
                    ("far", F.TYPE_MESSAGE, ".z.Far"), ("rootp", F.TYPE_MESSAGE, ".Pong"),
                    ("kind", F.TYPE_ENUM, ".a.Kind", REP), ("inner", F.TYPE_MESSAGE, ".a.Msg.Inner"),
                    ("by_id", F.TYPE_MESSAGE, ".a.b.Mid.ByIdEntry", REP)],
            nested=[map_entry("ByIdEntry", F.TYPE_INT64, F.TYPE_ENUM, ".a.Kind")]),
    ], services=[service("MidService", four("Go", [
        (".a.b.Mid", ".a.Msg"), (".a.d.Cousin", ".a.b.c.Deep"), (".z.Far", ".a.b.c.e.Deeper"),
        (".Ping", ".a.d.f.SecondCousin")]))]))
    files.append(fdp("a/b/c/z.proto", "a.b.c", messages=[
        msg("Deep", [("n", F.TYPE_FIXED32), ("top", F.TYPE_MESSAGE, ".a.Msg"), ("mid", F.TYPE_MESSAGE, ".a.b.Mid"),
                     ("root", F.TYPE_MESSAGE, ".Ping"), ("c2", F.TYPE_MESSAGE, ".a.d.f.SecondCousin")]),
    ], services=[service("DeepSvc", four("M", [(".a.b.c.Deep", ".a.Msg"), (".Ping", ".a.b.Mid"),
                                               (".a.d.f.SecondCousin", ".a.b.c.e.Deeper")]))]))
    files.append(fdp("a/b/c/e/w.proto", "a.b.c.e", messages=[
        msg("Deeper", [("d", F.TYPE_DOUBLE), ("up3", F.TYPE_MESSAGE, ".a.Msg"), ("c", F.TYPE_MESSAGE, ".a.d.Cousin")])]))
    files.append(fdp("a/d/c.proto", "a.d", messages=[
        msg("Cousin", [("deep", F.TYPE_MESSAGE, ".a.b.c.Deep"), ("s", F.TYPE_MESSAGE, ".a.d.f.SecondCousin")])],
        services=[service("CousinSvc", four("C", [(".a.b.c.Deep", ".a.d.Cousin"), (".a.d.Cousin", ".z.Far")]))]))
    files.append(fdp("a/d/f/s.proto", "a.d.f", messages=[
        msg("SecondCousin", [("e", F.TYPE_MESSAGE, ".a.b.c.e.Deeper"), ("f", F.TYPE_FLOAT)])]))
    files.append(fdp("z.proto", "z", messages=[msg("Far", [("q", F.TYPE_UINT64), ("m", F.TYPE_MESSAGE, ".a.Msg")])],
                     services=[service("FarSvc", four("F", [(".z.Far", ".a.b.c.e.Deeper")]))]))
    return files


def generate(option):
    req = dpb_request(option)
    resp = plugin_parser.generate_code(req)
    return {f.name: f.content for f in resp.file}


def dpb_request(option):
    from google.protobuf.compiler import plugin_pb2
    r = plugin_pb2.CodeGeneratorRequest(parameter=option)
    for f in build_files():
        r.proto_file.add().CopyFrom(f)
        r.file_to_generate.append(f.name)
    return CodeGeneratorRequest().parse(r.SerializeToString())


def digest(files):
    h = hashlib.sha256()
    for name in sorted(files):
        h.update(name.encode() + b"\0" + files[name].encode() + b"\0")
    return h.hexdigest()


def import_tree(files, tag):
    """Write a generated tree under a unique top-level package and import every module."""
    root = tempfile.mkdtemp(prefix="c18_")
    top = os.path.join(root, tag)
    for name, content in files.items():
        path = os.path.join(top, name)
        os.makedirs(os.path.dirname(path), exist_ok=True)
        with open(path, "w") as fh:
            fh.write(content)
    sys.path.insert(0, root)
    mods = {}
    try:
        for name in sorted(files):
            modname = ".".join([tag] + name.split("/")[:-1])
            mods[modname[len(tag) + 1:]] = importlib.import_module(modname)
    finally:
        sys.path.remove(root)
        shutil.rmtree(root, ignore_errors=True)
    return mods

GOLDEN = {
    "": "77c15c7e5e5860dee3774ff085b03ae778ea4b994c8fe4bc3c541a59c1f22091",
    "pydantic_dataclasses": "8060a1ae228e3b6f7d4aa598e33d80bf602b7e1de40bb818ecd653b419daa822",
    "typing.direct": "77c15c7e5e5860dee3774ff085b03ae778ea4b994c8fe4bc3c541a59c1f22091",
    "typing.direct,pydantic_dataclasses": "8060a1ae228e3b6f7d4aa598e33d80bf602b7e1de40bb818ecd653b419daa822",
    "typing.root": "7f6e84b2e2179b6d65460e258f9ccdc7b77aa90758a169068fee1541d8f3db03",
    "typing.root,pydantic_dataclasses": "b80bb738536024d3c36ad098cfda55bc6c694ef99bc1367451c2b84ac18b9b04",
    "typing.310": "1707afdd3499041276b09f40a452dd8c7ea2946cd548d91e666815279f3e5e21",
    "typing.310,pydantic_dataclasses": "063f67e80840e19d21c8761ac0c32a34ae7ba8a61efd184aacae92d8bb6f0fc2",
}

TC_IMPORTS = {"import grpclib.server", "from betterproto.grpc.grpclib_client import MetadataLike",
              "from grpclib.metadata import Deadline"}

captured = []
_orig_compiler = plugin_parser.outputfile_compiler


def _capturing(output_file):
    captured.append(output_file)
    return _orig_compiler(output_file=output_file)


plugin_parser.outputfile_compiler = _capturing


def describe(mods):
    """Configuration independent description of every generated class."""
    out = {}
    for modname, mod in mods.items():
        for cname in mod.__all__:
            cls = getattr(mod, cname)
            if isinstance(cls, type) and issubclass(cls, betterproto.Message):
                meta = cls()._betterproto
                out[modname, cname] = sorted(
                    (m.number, n, m.proto_type, m.group, m.optional, m.map_types, m.wraps)
                    for n, m in meta.meta_by_field_name.items())
            elif isinstance(cls, type) and issubclass(cls, betterproto.Enum):
                out[modname, cname] = sorted((e.name, e.value) for e in cls)
            else:
                out[modname, cname] = sorted(n for n in vars(cls) if not n.startswith("__"))
    return out


def sample(mods):
    a, abc, root = mods["a"], mods["a.b.c"], mods[""]
    m = a.Msg(name="né", inner=a.MsgInner(v=-5), kind=a.Kind.TWO,
              counts={"k": abc.Deep(n=7, root=root.Ping(id=3, tags=["x", "y"]))},
              opt=0, y=mods["a.b"].Mid(kind=[a.Kind.ONE, a.Kind.TWO], by_id={4: a.Kind.ONE}),
              blobs=[b"\x00\xff", b""])
    return bytes(m), m.to_json(), bytes(a.Msg().parse(bytes(m)))


def check_all(unit_checks):
    descriptions, samples = {}, {}
    for i, opt in enumerate(OPTIONS):
        del captured[:]
        files = generate(opt)
        assert len(files) == 8, sorted(files)
        for name, content in files.items():
            compile(content, name, "exec")
        assert digest(files) == GOLDEN[opt], (opt, digest(files))
        unit_checks(opt, files, list(captured))
        mods = import_tree(files, f"c18gen{i}")
        descriptions[opt] = describe(mods)
        samples[opt] = sample(mods)
    assert all(d == descriptions[""] for d in descriptions.values())
    assert all(s == samples[""] for s in samples.values()), samples
    assert len(descriptions[""]) > 20
    print("ok:", len(OPTIONS), "configurations,", len(descriptions[""]), "classes, sample bytes",
          len(samples[""][0]))

from betterproto.compile.importing import get_type_reference
from betterproto.casing import safe_snake_case


def unit_checks(opt, files, output_files):
    n_methods = 0
    for of in output_files:
        content = files["/".join(filter(None, of.package.split(".")) ) + "/__init__.py" if of.package else "__init__.py"]
        if of.services:
            assert of.imports_type_checking_only == TC_IMPORTS, of.imports_type_checking_only
            for line in TC_IMPORTS:
                assert f"    {line}\n" in content
        else:
            assert of.imports_type_checking_only == set()
            assert "MetadataLike" not in content
        for svc in of.services:
            for method in svc.methods:
                n_methods += 1
                p = method.proto_obj
                route = "/" + (of.package + "." if of.package else "") + svc.proto_obj.name + "/" + p.name
                assert method.route == route, (method.route, route)
                assert content.count(f'"{route}"') == 2, route  # stub call + __mapping__ key
                for got, source in ((method.py_input_message_type, p.input_type),
                                    (method.py_output_message_type, p.output_type)):
                    scratch = set()
                    want = get_type_reference(package=of.package, imports=scratch, source_type=source,
                                              typing_compiler=of.typing_compiler, unwrap=False,
                                              pydantic=of.pydantic_dataclasses)
                    assert want.startswith('"') and want.endswith('"')
                    assert got == want[1:-1] and '"' not in got, (got, want)
                    assert scratch <= of.imports_end, (scratch, of.imports_end)
                    if source.startswith(".google.protobuf."):
                        lib = "betterproto.lib.pydantic" if "pydantic" in opt else "betterproto.lib"
                        assert got == safe_snake_case(lib + ".google.protobuf") + "." + source.split(".")[-1]
                assert method.py_input_message_param == safe_snake_case(method.py_input_message_type)
                assert method.client_streaming == p.client_streaming
                assert method.server_streaming == p.server_streaming
    assert n_methods == 4 * (3 + 5 + 1 + 4 + 3 + 2 + 1), n_methods


check_all(unit_checks)
