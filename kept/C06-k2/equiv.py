"""Equivalence check for the dump/__len__ "emit or skip" decision (property C06).

Builds the same logical message with betterproto and with google.protobuf (the
reference) through every way of setting a field, and compares the encoding, the
computed size and the presence reports.  Exits 0 when everything agrees.
"""
import copy
import io
import itertools
import pickle
import random
from dataclasses import dataclass
from typing import Dict, List, Optional

import betterproto
from google.protobuf import descriptor_pb2, descriptor_pool, json_format, message_factory
from google.protobuf import wrappers_pb2  # noqa: F401  (registers wrappers.proto)

PKG = "c06equiv"
FD = descriptor_pb2.FieldDescriptorProto

# --------------------------------------------------------------------------- #
# reference schema (proto3), built dynamically
# --------------------------------------------------------------------------- #
fdp = descriptor_pb2.FileDescriptorProto(
    name="c06_equiv.proto", package=PKG, syntax="proto3"
)
fdp.dependency.append("google/protobuf/wrappers.proto")
en = fdp.enum_type.add(name="Color")
en.value.add(name="ZERO", number=0)
en.value.add(name="ONE", number=1)
en.value.add(name="TWO", number=2)

sub_d = fdp.message_type.add(name="Sub")
sub_d.field.add(name="x", number=1, type=FD.TYPE_INT32, label=FD.LABEL_OPTIONAL)
sub_d.field.add(name="s", number=2, type=FD.TYPE_STRING, label=FD.LABEL_OPTIONAL)
fdp.message_type.add(name="Empty")

m_d = fdp.message_type.add(name="M")
m_d.oneof_decl.add(name="g1")
m_d.oneof_decl.add(name="g2")


def _f(name, number, type_, type_name=None, oneof=None, optional=False, repeated=False):
    f = m_d.field.add(
        name=name,
        number=number,
        type=type_,
        label=FD.LABEL_REPEATED if repeated else FD.LABEL_OPTIONAL,
    )
    if type_name:
        f.type_name = f".{PKG}.{type_name}" if "." not in type_name else type_name
    if oneof is not None:
        f.oneof_index = oneof
    if optional:
        m_d.oneof_decl.add(name="_" + name)
        f.oneof_index = len(m_d.oneof_decl) - 1
        f.proto3_optional = True
    return f


_f("i", 1, FD.TYPE_INT32)
_f("s", 2, FD.TYPE_STRING)
_f("b", 3, FD.TYPE_BYTES)
_f("f", 4, FD.TYPE_BOOL)
_f("d", 5, FD.TYPE_DOUBLE)
_f("e", 6, FD.TYPE_ENUM, "Color")
_f("sub", 7, FD.TYPE_MESSAGE, "Sub")
_f("oi", 8, FD.TYPE_INT32, optional=True)
_f("os", 9, FD.TYPE_STRING, optional=True)
_f("ob", 10, FD.TYPE_BYTES, optional=True)
_f("osub", 11, FD.TYPE_MESSAGE, "Sub", optional=True)
_f("oe", 12, FD.TYPE_ENUM, "Color", optional=True)
_f("wi", 13, FD.TYPE_MESSAGE, ".google.protobuf.Int32Value")
_f("ws", 14, FD.TYPE_MESSAGE, ".google.protobuf.StringValue")
_f("wb", 15, FD.TYPE_MESSAGE, ".google.protobuf.BoolValue")
_f("a_i", 16, FD.TYPE_INT32, oneof=0)
_f("a_s", 17, FD.TYPE_STRING, oneof=0)
_f("a_b", 18, FD.TYPE_BYTES, oneof=0)
_f("a_m", 19, FD.TYPE_MESSAGE, "Sub", oneof=0)
_f("a_e", 20, FD.TYPE_MESSAGE, "Empty", oneof=0)
_f("a_c", 21, FD.TYPE_ENUM, "Color", oneof=0)
_f("z_i", 22, FD.TYPE_SINT64, oneof=1)
_f("z_d", 23, FD.TYPE_DOUBLE, oneof=1)
_f("ri", 24, FD.TYPE_INT32, repeated=True)
entry = m_d.nested_type.add(name="MpEntry")
entry.options.map_entry = True
entry.field.add(name="key", number=1, type=FD.TYPE_STRING, label=FD.LABEL_OPTIONAL)
entry.field.add(name="value", number=2, type=FD.TYPE_INT32, label=FD.LABEL_OPTIONAL)
_f("mp", 25, FD.TYPE_MESSAGE, "M.MpEntry", repeated=True)
_f("fx", 26, FD.TYPE_FIXED32)
_f("si", 27, FD.TYPE_SINT32)
_f("u64", 28, FD.TYPE_UINT64)
_f("fl", 29, FD.TYPE_FLOAT)
_f("of", 30, FD.TYPE_BOOL, optional=True)
_f("od", 31, FD.TYPE_DOUBLE, optional=True)
_f("wy", 32, FD.TYPE_MESSAGE, ".google.protobuf.BytesValue")
_f("wd", 33, FD.TYPE_MESSAGE, ".google.protobuf.DoubleValue")
# real oneofs must precede the synthetic ones of proto3 optional fields
_real = [o for o in m_d.oneof_decl if not o.name.startswith("_")]
assert [o.name for o in m_d.oneof_decl][:2] == ["g1", "g2"] and len(_real) == 2

pool = descriptor_pool.Default()
pool.Add(fdp)
RM = message_factory.GetMessageClass(pool.FindMessageTypeByName(f"{PKG}.M"))


# --------------------------------------------------------------------------- #
# the same schema for betterproto, written the way the plugin writes it
# --------------------------------------------------------------------------- #
class Color(betterproto.Enum):
    ZERO = 0
    ONE = 1
    TWO = 2


@dataclass(eq=False, repr=False)
class Sub(betterproto.Message):
    x: int = betterproto.int32_field(1)
    s: str = betterproto.string_field(2)


@dataclass(eq=False, repr=False)
class Empty(betterproto.Message):
    pass


@dataclass(eq=False, repr=False)
class M(betterproto.Message):
    i: int = betterproto.int32_field(1)
    s: str = betterproto.string_field(2)
    b: bytes = betterproto.bytes_field(3)
    f: bool = betterproto.bool_field(4)
    d: float = betterproto.double_field(5)
    e: "Color" = betterproto.enum_field(6)
    sub: "Sub" = betterproto.message_field(7)
    oi: Optional[int] = betterproto.int32_field(8, optional=True)
    os: Optional[str] = betterproto.string_field(9, optional=True)
    ob: Optional[bytes] = betterproto.bytes_field(10, optional=True)
    osub: Optional["Sub"] = betterproto.message_field(11, optional=True)
    oe: Optional["Color"] = betterproto.enum_field(12, optional=True)
    wi: Optional[int] = betterproto.message_field(13, wraps=betterproto.TYPE_INT32)
    ws: Optional[str] = betterproto.message_field(14, wraps=betterproto.TYPE_STRING)
    wb: Optional[bool] = betterproto.message_field(15, wraps=betterproto.TYPE_BOOL)
    a_i: int = betterproto.int32_field(16, group="g1")
    a_s: str = betterproto.string_field(17, group="g1")
    a_b: bytes = betterproto.bytes_field(18, group="g1")
    a_m: "Sub" = betterproto.message_field(19, group="g1")
    a_e: "Empty" = betterproto.message_field(20, group="g1")
    a_c: "Color" = betterproto.enum_field(21, group="g1")
    z_i: int = betterproto.sint64_field(22, group="g2")
    z_d: float = betterproto.double_field(23, group="g2")
    ri: List[int] = betterproto.int32_field(24)
    mp: Dict[str, int] = betterproto.map_field(
        25, betterproto.TYPE_STRING, betterproto.TYPE_INT32
    )
    fx: int = betterproto.fixed32_field(26)
    si: int = betterproto.sint32_field(27)
    u64: int = betterproto.uint64_field(28)
    fl: float = betterproto.float_field(29)
    of: Optional[bool] = betterproto.bool_field(30, optional=True)
    od: Optional[float] = betterproto.double_field(31, optional=True)
    wy: Optional[bytes] = betterproto.message_field(32, wraps=betterproto.TYPE_BYTES)
    wd: Optional[float] = betterproto.message_field(33, wraps=betterproto.TYPE_DOUBLE)


IMPLICIT = {  # field -> (default, non-default values)
    "i": (0, [1, -1, 2**31 - 1]),
    "s": ("", ["x", "é"]),
    "b": (b"", [b"\x00", b"ab"]),
    "f": (False, [True]),
    "d": (0.0, [1.5, float("inf")]),
    "e": (0, [1, 2]),
    "fx": (0, [7]),
    "si": (0, [-1, 3]),
    "u64": (0, [2**64 - 1]),
    "fl": (0.0, [0.5]),
}
OPTIONAL = {
    "oi": (0, [5, -3]),
    "os": ("", ["y"]),
    "ob": (b"", [b"\x01"]),
    "oe": (0, [2]),
    "of": (False, [True]),
    "od": (0.0, [2.25]),
}
WRAPPER = {
    "wi": (0, [9, -9]),
    "ws": ("", ["w"]),
    "wb": (False, [True]),
    "wy": (b"", [b"q"]),
    "wd": (0.0, [0.125]),
}
G1 = {
    "a_i": (0, [4]),
    "a_s": ("", ["o"]),
    "a_b": (b"", [b"\xff"]),
    "a_c": (0, [1]),
    "a_m": ({}, [{"x": 0}, {"x": 3}, {"s": "t"}]),
    "a_e": ("EMPTY", []),
}
G2 = {"z_i": (0, [-5, 6]), "z_d": (0.0, [3.5])}
# plain sub-message: only states in which it is present (something assigned in it)
SUB_PRESENT = [{"x": 0}, {"s": ""}, {"x": 0, "s": ""}, {"x": 8}, {"x": 2, "s": "k"}]
OSUB = ({}, [{"x": 0}, {"x": 1}])
ENUM_FIELDS = {"e", "oe", "a_c"}
SUB_FIELDS = {"sub", "osub", "a_m"}
GROUP_OF = {**{n: "g1" for n in G1}, **{n: "g2" for n in G2}}


# --------------------------------------------------------------------------- #
# builders: a spec is an ordered list of (field, value)
# --------------------------------------------------------------------------- #
def bp_value(field, value):
    if field in SUB_FIELDS:
        return Sub(**value)
    if field == "a_e":
        return Empty()
    if field in ENUM_FIELDS:
        return Color(value)
    if field == "ri":
        return list(value)
    if field == "mp":
        return dict(value)
    return value


def ref_build(spec):
    r = RM()
    for field, value in spec:
        if field in SUB_FIELDS:
            child = getattr(r, field)
            if field != "sub":
                # assigning a whole message to an optional / oneof member replaces it
                r.ClearField(field)
                child = getattr(r, field)
            child.SetInParent()
            for k, v in value.items():
                setattr(child, k, v)
        elif field == "a_e":
            r.a_e.SetInParent()
        elif field in WRAPPER:
            getattr(r, field).value = value
        elif field == "ri":
            r.ri.extend(value)
        elif field == "mp":
            r.mp.update(value)
        else:
            setattr(r, field, value)
    return r


def bp_constructor(spec):
    return M(**{field: bp_value(field, value) for field, value in spec})


def bp_assign(spec, in_place_sub):
    m = M()
    for field, value in spec:
        if field == "sub" and in_place_sub:
            for k, v in value.items():
                setattr(m.sub, k, v)
        elif field == "ri" and in_place_sub:
            m.ri.extend(value)
        elif field == "mp" and in_place_sub:
            m.mp.update(value)
        else:
            setattr(m, field, bp_value(field, value))
    return m


# --------------------------------------------------------------------------- #
# comparison
# --------------------------------------------------------------------------- #
CHECKS = 0


def same(a, b):
    if isinstance(a, float) and isinstance(b, float):
        return a == b or (a != a and b != b)
    return a == b


def check(m, r, label):
    global CHECKS
    CHECKS += 1
    want = r.SerializeToString(deterministic=True)
    got = bytes(m)
    assert got == want, (label, got, want)
    assert len(m) == len(got), (label, len(m), len(got))
    assert m.SerializeToString() == got, label
    if not want:
        assert got == b"", label

    stream = io.BytesIO()
    m.dump(stream, delimit=betterproto.SIZE_DELIMITED)
    framed = stream.getvalue()
    assert framed == betterproto.encode_varint(len(want)) + want, (label, framed)

    for field, (default, _) in IMPLICIT.items():
        assert same(getattr(m, field), getattr(r, field)), (label, field)
    assert list(m.ri) == list(r.ri), label
    assert dict(m.mp) == dict(r.mp), label
    for field in list(OPTIONAL) + ["osub"]:
        has = r.HasField(field)
        assert m.is_set(field) == has, (label, field, has)
        assert (getattr(m, field) is not None) == has, (label, field, has)
        if has and field != "osub":
            assert same(getattr(m, field), getattr(r, field)), (label, field)
        if has and field == "osub":
            assert (m.osub.x, m.osub.s) == (r.osub.x, r.osub.s), label
    for field in WRAPPER:
        has = r.HasField(field)
        assert (getattr(m, field) is not None) == has, (label, field, has)
        assert m.is_set(field) == has, (label, field, has)
        if has:
            assert same(getattr(m, field), getattr(r, field).value), (label, field)
    for group, members in (("g1", G1), ("g2", G2)):
        which = r.WhichOneof(group) or ""
        name, value = betterproto.which_one_of(m, group)
        assert name == which, (label, group, name, which)
        for member in members:
            assert m.is_set(member) == (member == which), (label, member)
            assert hasattr(m, member) == (member == which), (label, member)
        if which in ("a_m",):
            assert (value.x, value.s) == (r.a_m.x, r.a_m.s), label
        elif which == "a_e":
            assert isinstance(value, Empty), label
        elif which:
            assert same(value, getattr(r, which)), (label, which)
        else:
            assert value is None, label
    has = r.HasField("sub")
    assert betterproto.serialized_on_wire(m.sub) == has, (label, "sub", has)
    assert m.is_set("sub") == has, (label, "sub")
    assert (m.sub.x, m.sub.s) == (r.sub.x, r.sub.s), label
    return got


def run_spec(spec, label, constructor_ok=True):
    r = ref_build(spec)
    wire = r.SerializeToString(deterministic=True)
    results = []
    if constructor_ok:
        results.append(("ctor", bp_constructor(spec)))
    results.append(("assign", bp_assign(spec, in_place_sub=False)))
    results.append(("assign-in-place", bp_assign(spec, in_place_sub=True)))
    results.append(("parse", M().parse(wire)))
    results.append(("FromString", M.FromString(wire)))
    results.append(("load", M().load(io.BytesIO(wire))))
    framed = io.BytesIO(betterproto.encode_varint(len(wire)) + wire + b"\x08\x01")
    results.append(("load-delimited", M().load(framed, betterproto.SIZE_DELIMITED)))
    as_dict = json_format.MessageToDict(r)
    results.append(("from_dict-cls", M.from_dict(as_dict)))
    results.append(("from_dict-inst", M().from_dict(as_dict)))
    as_dict_snake = json_format.MessageToDict(r, preserving_proto_field_name=True)
    results.append(("from_dict-snake", M.from_dict(as_dict_snake)))
    results.append(("from_json", M().from_json(json_format.MessageToJson(r))))
    for how, m in results:
        got = check(m, r, (label, how))
        # and once more after a trip over the wire / through copies
        check(M().parse(got), r, (label, how, "reparsed"))
    first = results[0][1]
    check(copy.deepcopy(first), r, (label, "deepcopy"))
    check(copy.copy(first), r, (label, "copy"))
    check(pickle.loads(pickle.dumps(first)), r, (label, "pickle"))


def specs_for(field, table):
    default, others = table[field]
    for value in [default] + list(others):
        yield [(field, {} if value == "EMPTY" else value)]


# --------------------------------------------------------------------------- #
# 1. a fresh message
# --------------------------------------------------------------------------- #
fresh = M()
assert bytes(fresh) == b"" and len(fresh) == 0
check(fresh, RM(), "fresh")
check(M().parse(b""), RM(), "parsed-empty")
assert (fresh.i, fresh.s, fresh.b, fresh.f, fresh.d, fresh.e) == (0, "", b"", False, 0.0, 0)
assert fresh.oi is None and fresh.wi is None and fresh.osub is None
assert fresh.ri == [] and fresh.mp == {}
assert bytes(fresh) == b"" and len(fresh) == 0  # still, after all those reads
check(fresh, RM(), "fresh-after-reads")

# --------------------------------------------------------------------------- #
# 2. every field alone: default and non-default, every way of setting it
# --------------------------------------------------------------------------- #
for table in (IMPLICIT, OPTIONAL, WRAPPER, G1, G2):
    for field in table:
        for spec in specs_for(field, table):
            run_spec(spec, ("single", spec))
for inner in SUB_PRESENT:
    run_spec([("sub", inner)], ("single-sub", inner))
for inner in [OSUB[0]] + OSUB[1]:
    run_spec([("osub", inner)], ("single-osub", inner))
run_spec([("ri", [0])], "ri-zero")
run_spec([("ri", [0, 1, -1])], "ri")
run_spec([("ri", [])], "ri-empty")
run_spec([("mp", {"a": 0})], "mp-default-value")
run_spec([("mp", {"k": 3})], "mp")
run_spec([("mp", {})], "mp-empty")

# --------------------------------------------------------------------------- #
# 3. pairs: a present (possibly empty) field followed / preceded by defaults
# --------------------------------------------------------------------------- #
presence_fields = (
    [("sub", v) for v in SUB_PRESENT[:2]]
    + [("osub", {}), ("a_m", {}), ("a_e", {}), ("os", ""), ("ob", b""), ("ws", "")]
    + [("wi", 0), ("a_s", ""), ("a_b", b""), ("z_d", 0.0), ("oi", 0), ("of", False)]
)
for (f1, v1), (f2, v2) in itertools.permutations(presence_fields, 2):
    if f1 == f2 or GROUP_OF.get(f1, 1) == GROUP_OF.get(f2, 2):
        continue
    run_spec([(f1, v1), (f2, v2), ("s", ""), ("i", 0), ("b", b"")], ("pair", f1, f2))

# --------------------------------------------------------------------------- #
# 4. random combinations (at most one member per oneof, so constructor is valid)
# --------------------------------------------------------------------------- #
rng = random.Random(606)


def pick(table, field):
    default, others = table[field]
    value = rng.choice([default, default] + list(others))
    return {} if value == "EMPTY" else value


for trial in range(200):
    spec = []
    for table in (IMPLICIT, OPTIONAL, WRAPPER):
        for field in table:
            if rng.random() < 0.4:
                spec.append((field, pick(table, field)))
    if rng.random() < 0.6:
        member = rng.choice(list(G1))
        spec.append((member, pick(G1, member)))
    if rng.random() < 0.6:
        member = rng.choice(list(G2))
        spec.append((member, pick(G2, member)))
    if rng.random() < 0.5:
        spec.append(("sub", rng.choice(SUB_PRESENT)))
    if rng.random() < 0.4:
        spec.append(("osub", rng.choice([OSUB[0]] + OSUB[1])))
    if rng.random() < 0.3:
        spec.append(("ri", rng.choice([[0], [1, 2], [0, 0]])))
    if rng.random() < 0.3:
        spec.append(("mp", rng.choice([{"a": 0}, {"a": 1}])))
    rng.shuffle(spec)
    run_spec(spec, ("random", trial))

# --------------------------------------------------------------------------- #
# 5. sequences of assignments that switch oneof members back and forth
# --------------------------------------------------------------------------- #
for trial in range(200):
    spec = []
    for _ in range(rng.randint(2, 7)):
        table = rng.choice([G1, G1, G2, OPTIONAL, WRAPPER, IMPLICIT])
        field = rng.choice(list(table))
        spec.append((field, pick(table, field)))
    r = ref_build(spec)
    check(bp_assign(spec, in_place_sub=False), r, ("sequence", trial))
    m = M().parse(bytes(bp_assign(spec[: len(spec) // 2], in_place_sub=False)))
    for field, value in spec[len(spec) // 2 :]:
        setattr(m, field, bp_value(field, value))
    check(m, r, ("sequence-after-parse", trial))

# --------------------------------------------------------------------------- #
# 6. a message nested three deep: presence of every level is independent
# --------------------------------------------------------------------------- #
@dataclass(eq=False, repr=False)
class Inner(betterproto.Message):
    v: int = betterproto.int32_field(1)


@dataclass(eq=False, repr=False)
class Mid(betterproto.Message):
    inner: "Inner" = betterproto.message_field(1)
    n: int = betterproto.int32_field(2)


@dataclass(eq=False, repr=False)
class Outer(betterproto.Message):
    pad: int = betterproto.int32_field(1)
    mid: "Mid" = betterproto.message_field(2)
    tail: str = betterproto.string_field(3)


o = Outer()
assert o.mid.inner.v == 0 and bytes(o) == b"" and len(o) == 0
assert not betterproto.serialized_on_wire(o.mid)
o.mid.n = 0
assert bytes(o) == b"\x12\x00" and len(o) == 2
o = Outer().parse(b"\x12\x02\x0a\x00")
assert betterproto.serialized_on_wire(o.mid) and betterproto.serialized_on_wire(o.mid.inner)
assert bytes(o) == b"\x12\x02\x0a\x00" and len(o) == 4
o = Outer(mid=Mid(inner=Inner(v=0)), tail="")
assert bytes(o) == b"\x12\x02\x0a\x00" and len(o) == 4
o = Outer(pad=0, mid=Mid(), tail="")
assert bytes(o) == b"" and len(o) == 0
o = Outer.from_dict({"mid": {"inner": {}}})
assert bytes(o) == b"\x12\x02\x0a\x00" and len(o) == 4
o = Outer.from_dict({"mid": {}})
assert bytes(o) == b"\x12\x00" and len(o) == 2

# --------------------------------------------------------------------------- #
# 7. remaining shapes that go through the same emit-or-skip decision
# --------------------------------------------------------------------------- #
from datetime import datetime, timedelta, timezone


@dataclass(eq=False, repr=False)
class Misc(betterproto.Message):
    subs: List["Sub"] = betterproto.message_field(1)
    ws: List[Optional[int]] = betterproto.message_field(2, wraps=betterproto.TYPE_INT32)
    ts: datetime = betterproto.message_field(3)
    dur: timedelta = betterproto.message_field(4)
    ow: Optional[int] = betterproto.message_field(
        5, wraps=betterproto.TYPE_INT32, optional=True
    )
    gw: Optional[int] = betterproto.message_field(
        6, wraps=betterproto.TYPE_INT32, group="g"
    )
    gs: str = betterproto.string_field(7, group="g")
    packed: List[int] = betterproto.sint32_field(8)
    names: List[str] = betterproto.string_field(9)
    msgs: Dict[int, "Sub"] = betterproto.map_field(
        10, betterproto.TYPE_INT32, betterproto.TYPE_MESSAGE
    )
    mid: "Mid" = betterproto.message_field(11)
    ots: Optional[datetime] = betterproto.message_field(12, optional=True)


def enc(m, want):
    got = bytes(m)
    assert got == want, (got, want)
    assert len(m) == len(want), (len(m), len(want))
    stream = io.BytesIO()
    m.dump(stream, betterproto.SIZE_DELIMITED)
    assert stream.getvalue() == betterproto.encode_varint(len(want)) + want
    again = type(m)().parse(got)
    assert bytes(again) == want and len(again) == len(want)


EPOCH = datetime(1970, 1, 1, tzinfo=timezone.utc)
enc(Misc(), b"")
enc(Misc(subs=[]), b"")
enc(Misc(subs=[Sub()]), b"\x0a\x00")
enc(Misc(subs=[Sub(), Sub(x=1), Sub(x=0)]), b"\x0a\x00\x0a\x02\x08\x01\x0a\x00")
enc(Misc(ws=[0]), b"\x12\x00")
enc(Misc(ws=[0, 7]), b"\x12\x00\x12\x02\x08\x07")
enc(Misc(ts=EPOCH), b"")
enc(Misc(ts=EPOCH + timedelta(seconds=1)), b"\x1a\x02\x08\x01")
enc(Misc(dur=timedelta(0)), b"")
enc(Misc(dur=timedelta(seconds=2)), b"\x22\x02\x08\x02")
enc(Misc(ow=None), b"")
enc(Misc(ow=0), b"\x2a\x00")
enc(Misc(ow=3), b"\x2a\x02\x08\x03")
enc(Misc(gw=0), b"\x32\x00")
enc(Misc(gw=4), b"\x32\x02\x08\x04")
enc(Misc(gs=""), b"\x3a\x00")
enc(Misc(gs="a"), b"\x3a\x01a")
enc(Misc(packed=[]), b"")
enc(Misc(packed=[0]), b"\x42\x01\x00")
enc(Misc(packed=[0, -1]), b"\x42\x02\x00\x01")
enc(Misc(names=[""]), b"\x4a\x00")
enc(Misc(names=["", "b"]), b"\x4a\x00\x4a\x01b")
enc(Misc(msgs={}), b"")
enc(Misc(msgs={1: Sub()}), b"\x52\x02\x08\x01")
enc(Misc(msgs={1: Sub(x=2)}), b"\x52\x06\x08\x01\x12\x02\x08\x02")
enc(Misc(ots=EPOCH), b"\x62\x00")
enc(Misc(ots=None), b"")
m = Misc()
m.gw = 0
m.gs = ""
enc(m, b"\x3a\x00")
m.gw = 0
enc(m, b"\x32\x00")
# a nested message filled in place below an untouched level is still written
m = Misc()
m.mid.inner.v = 1
assert not betterproto.serialized_on_wire(m.mid)
enc(m, b"\x5a\x04\x0a\x02\x08\x01")
m = Misc()
m.mid.inner.v = 0  # present only at the innermost level, equal to the default above
assert betterproto.serialized_on_wire(m.mid.inner) and not betterproto.serialized_on_wire(m.mid)
enc(m, b"")
m = Misc()
m.subs.append(Sub())
m.names.append("")
enc(m, b"\x0a\x00\x4a\x00")
# unknown fields ride along after the known ones
m = Misc().parse(b"\xf8\x01\x05\x3a\x00")
assert betterproto.which_one_of(m, "g") == ("gs", "")
enc(m, b"\x3a\x00\xf8\x01\x05")

print(f"equiv OK ({CHECKS} message comparisons)")
