"""Equivalence check for the field-merge step of Message.load.

A schema with singular scalars, a nested message, repeated scalars / strings /
messages, maps, two oneof groups, proto3-optional fields, wrappers, Timestamp and
Duration is defined both for google.protobuf (dynamically) and for betterproto (by
hand). An independent record-level encoder writes many legal encodings of random
messages: shuffled field order, repeated scalars split into packed chunks and/or
unpacked elements, duplicated singular scalars, several members of a oneof group,
map entries with swapped / missing key or value, interleaved unknown fields. The
reference decoder is the oracle: betterproto must decode the same values and the
same presence, and its re-serialisation must be read back by the reference as the
same message again.
"""
import random
import struct
from dataclasses import dataclass
from datetime import datetime, timedelta, timezone
from typing import Dict, List, Optional

from google.protobuf import (
    descriptor_pb2,
    descriptor_pool,
    duration_pb2,
    message_factory,
    timestamp_pb2,
    wrappers_pb2,
)

import betterproto

rnd = random.Random(0xC02)
F = descriptor_pb2.FieldDescriptorProto
OPT, REP = F.LABEL_OPTIONAL, F.LABEL_REPEATED

# =============================================================== reference schema
fdp = descriptor_pb2.FileDescriptorProto(
    name="c02_keep2_equiv.proto",
    package="c02keep2",
    syntax="proto3",
    dependency=[
        "google/protobuf/wrappers.proto",
        "google/protobuf/timestamp.proto",
        "google/protobuf/duration.proto",
    ],
)
en = fdp.enum_type.add(name="Color")
for n, v in (("ZERO", 0), ("RED", 1), ("NEG", -1), ("BIG", 2**31 - 1), ("LOW", -(2**31))):
    en.value.add(name=n, number=v)

inner = fdp.message_type.add(name="Inner")
inner.field.add(name="x", number=1, type=F.TYPE_INT32, label=OPT)
inner.field.add(name="t", number=2, type=F.TYPE_STRING, label=OPT)

outer = fdp.message_type.add(name="Outer")


def fld(name, number, ftype, label=OPT, type_name=None, oneof=None, p3opt=False):
    f = outer.field.add(name=name, number=number, type=ftype, label=label)
    if type_name:
        f.type_name = type_name
    if oneof is not None:
        f.oneof_index = oneof
    if p3opt:
        f.proto3_optional = True
    return f


def map_fld(name, number, ktype, vtype, v_type_name=None):
    entry = outer.nested_type.add(name="".join(p.title() for p in name.split("_")) + "Entry")
    entry.options.map_entry = True
    entry.field.add(name="key", number=1, type=ktype, label=OPT)
    v = entry.field.add(name="value", number=2, type=vtype, label=OPT)
    if v_type_name:
        v.type_name = v_type_name
    fld(name, number, F.TYPE_MESSAGE, REP, ".c02keep2.Outer." + entry.name)


outer.oneof_decl.add(name="pick")  # 0
outer.oneof_decl.add(name="other")  # 1
outer.oneof_decl.add(name="_opt_i")  # 2 (synthetic)
outer.oneof_decl.add(name="_opt_s")  # 3 (synthetic)

fld("i32", 1, F.TYPE_INT32)
fld("s64", 2, F.TYPE_SINT64)
fld("b", 3, F.TYPE_BOOL)
fld("d", 4, F.TYPE_DOUBLE)
fld("f32", 5, F.TYPE_FIXED32)
fld("s", 6, F.TYPE_STRING)
fld("by", 7, F.TYPE_BYTES)
fld("en", 8, F.TYPE_ENUM, type_name=".c02keep2.Color")
fld("inner", 9, F.TYPE_MESSAGE, type_name=".c02keep2.Inner")
fld("r_i32", 10, F.TYPE_INT32, REP)
fld("r_s64", 11, F.TYPE_SINT64, REP)
fld("r_d", 12, F.TYPE_DOUBLE, REP)
fld("r_f32", 13, F.TYPE_FIXED32, REP)
fld("r_b", 14, F.TYPE_BOOL, REP)
fld("r_en", 15, F.TYPE_ENUM, REP, ".c02keep2.Color")
fld("r_s", 16, F.TYPE_STRING, REP)
fld("r_inner", 17, F.TYPE_MESSAGE, REP, ".c02keep2.Inner")
map_fld("m_si", 18, F.TYPE_STRING, F.TYPE_INT32)
map_fld("m_ii", 19, F.TYPE_INT32, F.TYPE_MESSAGE, ".c02keep2.Inner")
map_fld("m_bs", 20, F.TYPE_BOOL, F.TYPE_STRING)
fld("o_i", 21, F.TYPE_INT32, oneof=0)
fld("o_s", 22, F.TYPE_STRING, oneof=0)
fld("o_m", 23, F.TYPE_MESSAGE, type_name=".c02keep2.Inner", oneof=0)
fld("o_b", 24, F.TYPE_BOOL, oneof=0)
fld("p_i", 25, F.TYPE_SINT32, oneof=1)
fld("p_by", 26, F.TYPE_BYTES, oneof=1)
fld("opt_i", 27, F.TYPE_INT32, oneof=2, p3opt=True)
fld("opt_s", 28, F.TYPE_STRING, oneof=3, p3opt=True)
fld("w_i", 29, F.TYPE_MESSAGE, type_name=".google.protobuf.Int32Value")
fld("w_s", 30, F.TYPE_MESSAGE, type_name=".google.protobuf.StringValue")
fld("ts", 31, F.TYPE_MESSAGE, type_name=".google.protobuf.Timestamp")
fld("du", 32, F.TYPE_MESSAGE, type_name=".google.protobuf.Duration")

pool = descriptor_pool.DescriptorPool()
for dep in (wrappers_pb2, timestamp_pb2, duration_pb2):
    pool.AddSerializedFile(dep.DESCRIPTOR.serialized_pb)
pool.Add(fdp)
RefOuter = message_factory.GetMessageClass(pool.FindMessageTypeByName("c02keep2.Outer"))


# ============================================================== betterproto schema
class Color(betterproto.Enum):
    ZERO = 0
    RED = 1
    NEG = -1
    BIG = 2**31 - 1
    LOW = -(2**31)


@dataclass(eq=False, repr=False)
class Inner(betterproto.Message):
    x: int = betterproto.int32_field(1)
    t: str = betterproto.string_field(2)


@dataclass(eq=False, repr=False)
class Outer(betterproto.Message):
    i32: int = betterproto.int32_field(1)
    s64: int = betterproto.sint64_field(2)
    b: bool = betterproto.bool_field(3)
    d: float = betterproto.double_field(4)
    f32: int = betterproto.fixed32_field(5)
    s: str = betterproto.string_field(6)
    by: bytes = betterproto.bytes_field(7)
    en: "Color" = betterproto.enum_field(8)
    inner: "Inner" = betterproto.message_field(9)
    r_i32: List[int] = betterproto.int32_field(10)
    r_s64: List[int] = betterproto.sint64_field(11)
    r_d: List[float] = betterproto.double_field(12)
    r_f32: List[int] = betterproto.fixed32_field(13)
    r_b: List[bool] = betterproto.bool_field(14)
    r_en: List["Color"] = betterproto.enum_field(15)
    r_s: List[str] = betterproto.string_field(16)
    r_inner: List["Inner"] = betterproto.message_field(17)
    m_si: Dict[str, int] = betterproto.map_field(
        18, betterproto.TYPE_STRING, betterproto.TYPE_INT32
    )
    m_ii: Dict[int, "Inner"] = betterproto.map_field(
        19, betterproto.TYPE_INT32, betterproto.TYPE_MESSAGE
    )
    m_bs: Dict[bool, str] = betterproto.map_field(
        20, betterproto.TYPE_BOOL, betterproto.TYPE_STRING
    )
    o_i: int = betterproto.int32_field(21, group="pick")
    o_s: str = betterproto.string_field(22, group="pick")
    o_m: "Inner" = betterproto.message_field(23, group="pick")
    o_b: bool = betterproto.bool_field(24, group="pick")
    p_i: int = betterproto.sint32_field(25, group="other")
    p_by: bytes = betterproto.bytes_field(26, group="other")
    opt_i: Optional[int] = betterproto.int32_field(27, optional=True)
    opt_s: Optional[str] = betterproto.string_field(28, optional=True)
    w_i: Optional[int] = betterproto.message_field(29, wraps=betterproto.TYPE_INT32)
    w_s: Optional[str] = betterproto.message_field(30, wraps=betterproto.TYPE_STRING)
    ts: datetime = betterproto.message_field(31)
    du: timedelta = betterproto.message_field(32)


EPOCH = datetime(1970, 1, 1, tzinfo=timezone.utc)


# ==================================================================== comparison
def same_inner(bp, ref):
    assert isinstance(bp, Inner)
    assert bp.x == ref.x and type(bp.x) is int, (bp.x, ref.x)
    assert bp.t == ref.t and type(bp.t) is str


def same(bp, ref):
    for name in ("i32", "s64", "b", "d", "f32", "s", "by"):
        x, y = getattr(bp, name), getattr(ref, name)
        assert x == y and type(x) is type(y), (name, x, y)
        if isinstance(x, float):
            assert struct.pack("<d", x) == struct.pack("<d", y), (name, x, y)
    assert int(bp.en) == ref.en, (bp.en, ref.en)
    assert isinstance(bp.en, Color)

    assert betterproto.serialized_on_wire(bp.inner) == ref.HasField("inner")
    same_inner(bp.inner, ref.inner)

    for name in ("r_i32", "r_s64", "r_d", "r_f32", "r_b", "r_s"):
        x, y = getattr(bp, name), list(getattr(ref, name))
        assert x == y, (name, x, y)
        assert [type(v) for v in x] == [type(v) for v in y], (name, x, y)
        if name == "r_d":
            assert [struct.pack("<d", v) for v in x] == [struct.pack("<d", v) for v in y]
    assert [int(v) for v in bp.r_en] == list(ref.r_en), (bp.r_en, list(ref.r_en))
    assert all(isinstance(v, Color) for v in bp.r_en)
    assert len(bp.r_inner) == len(ref.r_inner)
    for a, b in zip(bp.r_inner, ref.r_inner):
        same_inner(a, b)

    assert bp.m_si == dict(ref.m_si), (bp.m_si, dict(ref.m_si))
    assert bp.m_bs == dict(ref.m_bs), (bp.m_bs, dict(ref.m_bs))
    assert set(bp.m_ii) == set(ref.m_ii), (bp.m_ii, ref.m_ii)
    for k in bp.m_ii:
        same_inner(bp.m_ii[k], ref.m_ii[k])

    for group in ("pick", "other"):
        which = ref.WhichOneof(group)
        name, value = betterproto.which_one_of(bp, group)
        assert name == (which or ""), (group, name, which)
        if which == "o_m":
            same_inner(value, ref.o_m)
        elif which:
            y = getattr(ref, which)
            assert value == y and type(value) is type(y), (which, value, y)
        else:
            assert value is None
        # members that are not selected are not readable
        for member in {"pick": ("o_i", "o_s", "o_m", "o_b"), "other": ("p_i", "p_by")}[group]:
            if member != which:
                try:
                    getattr(bp, member)
                except AttributeError:
                    pass
                else:
                    raise AssertionError(f"{member} readable although {which} is set")

    for name in ("opt_i", "opt_s", "w_i", "w_s"):
        x = getattr(bp, name)
        if ref.HasField(name):
            y = getattr(ref, name)
            y = y.value if name.startswith("w_") else y
            assert x == y and type(x) is type(y), (name, x, y)
        else:
            assert x is None, (name, x)

    if ref.HasField("ts"):
        want = EPOCH + timedelta(seconds=ref.ts.seconds, microseconds=ref.ts.nanos // 1000)
        assert bp.ts == want, (bp.ts, want)
    else:
        assert bp.ts == EPOCH
    if ref.HasField("du"):
        want = timedelta(seconds=ref.du.seconds, microseconds=ref.du.nanos // 1000)
        assert bp.du == want, (bp.du, want)
    else:
        assert bp.du == timedelta(0)


# ===================================================== independent record encoder
def varint(v, width=0):
    v &= (1 << 64) - 1
    out = []
    while True:
        out.append(v & 0x7F)
        v >>= 7
        if not v:
            break
    while len(out) < width:
        out.append(0)
    return bytes(b | 0x80 for b in out[:-1]) + bytes(out[-1:])


def pv(v):
    """A varint payload, sometimes padded."""
    return varint(v, rnd.choice((0, 0, 0, 2, 5, 10)))


def tag(number, wt):
    return varint((number << 3) | wt, rnd.choice((0, 0, 0, 2, 3)))


def zz(n):
    return (n << 1) ^ (n >> 63)


def rec_varint(number, v):
    return tag(number, 0) + pv(v)


def rec_len(number, payload):
    return tag(number, 2) + varint(len(payload), rnd.choice((0, 0, 2, 4))) + payload


def rec_f32(number, v):
    return tag(number, 5) + struct.pack("<I", v)


def rec_f64(number, v):
    return tag(number, 1) + struct.pack("<d", v)


def enc_inner(x, t):
    parts = []
    if x or rnd.random() < 0.2:
        parts.append(rec_varint(1, x))
    if t or rnd.random() < 0.2:
        parts.append(rec_len(2, t.encode()))
    if rnd.random() < 0.2:
        parts.append(rec_varint(7, rnd.getrandbits(20)))  # unknown inside
    rnd.shuffle(parts)
    return b"".join(parts)


def r_i32():
    return rnd.choice((0, 1, -1, 127, 128, 2**31 - 1, -(2**31), rnd.randint(-(2**31), 2**31 - 1)))


def r_i64():
    return rnd.choice((0, 1, -1, 2**63 - 1, -(2**63), rnd.randint(-(2**63), 2**63 - 1)))


def r_dbl():
    return rnd.choice((0.0, 1.5, -2.25, 1e300, float("inf"), rnd.uniform(-1e6, 1e6)))


def r_dbl_elem():
    # -0.0 only as a list element: a singular proto3 double that compares equal
    # to the default is not written back by betterproto (on either tree)
    return rnd.choice((-0.0, r_dbl()))


def r_u32():
    return rnd.choice((0, 1, 2**32 - 1, rnd.getrandbits(32)))


def r_str(maxlen=12):
    return "".join(rnd.choice("abé中\U0001f600 \x00") for _ in range(rnd.randint(0, maxlen)))


def r_bytes():
    return bytes(rnd.getrandbits(8) for _ in range(rnd.randint(0, 10)))


def r_enum():
    return rnd.choice((0, 1, -1, 2**31 - 1, -(2**31), 5, -7))


def r_bool():
    return rnd.random() < 0.5


def dup(maker, lo=1, hi=3):
    """One to three occurrences of a singular scalar (the reference picks the winner)."""
    return [maker() for _ in range(rnd.randint(lo, hi))]


def repeated_scalar(number, items, one, unpacked_record):
    """Split items into runs; each run is one packed chunk or unpacked elements."""
    recs = []
    i = 0
    while i < len(items):
        n = rnd.randint(1, len(items) - i)
        run = items[i : i + n]
        i += n
        if rnd.random() < 0.5:
            recs.append(rec_len(number, b"".join(one(v) for v in run)))
        else:
            recs.extend(unpacked_record(number, v) for v in run)
    if rnd.random() < 0.1:
        recs.append(rec_len(number, b""))  # an empty packed chunk adds nothing
    return recs


def map_entry(number, krec, vrec):
    parts = []
    if krec is not None:
        parts.append(krec)
    if vrec is not None:
        parts.append(vrec)
    if rnd.random() < 0.15 and krec is not None:
        parts.insert(0, krec)  # duplicated key inside the entry
    rnd.shuffle(parts)
    return rec_len(number, b"".join(parts))


def unknown_record():
    number = rnd.choice((33, 50, 99, 1000, 2**29 - 1))
    kind = rnd.randrange(4)
    if kind == 0:
        return rec_varint(number, rnd.getrandbits(rnd.randint(1, 64)))
    if kind == 1:
        return rec_len(number, r_bytes())
    if kind == 2:
        return rec_f32(number, rnd.getrandbits(32))
    return tag(number, 1) + struct.pack("<Q", rnd.getrandbits(64))


def random_encoding():
    """Returns groups of records. Records inside a group keep their relative order
    (so that element order of repeated fields is well defined); groups interleave."""
    groups = []

    def maybe(p=0.6):
        return rnd.random() < p

    if maybe():
        groups.append([rec_varint(1, v) for v in dup(r_i32)])
    if maybe():
        groups.append([rec_varint(2, zz(v)) for v in dup(r_i64)])
    if maybe():
        groups.append([rec_varint(3, int(v)) for v in dup(r_bool)])
    if maybe():
        groups.append([rec_f64(4, v) for v in dup(r_dbl)])
    if maybe():
        groups.append([rec_f32(5, v) for v in dup(r_u32)])
    if maybe():
        groups.append([rec_len(6, v.encode()) for v in dup(r_str)])
    if maybe():
        groups.append([rec_len(7, v) for v in dup(r_bytes)])
    if maybe():
        groups.append([rec_varint(8, v) for v in dup(r_enum)])
    if maybe(0.5):
        groups.append([rec_len(9, enc_inner(r_i32(), r_str()) if maybe(0.7) else b"")])

    n = lambda: rnd.randint(0, 7)  # noqa: E731
    groups.append(repeated_scalar(10, [r_i32() for _ in range(n())], pv, rec_varint))
    groups.append(
        repeated_scalar(
            11, [r_i64() for _ in range(n())], lambda v: pv(zz(v)), lambda k, v: rec_varint(k, zz(v))
        )
    )
    groups.append(
        repeated_scalar(12, [r_dbl_elem() for _ in range(n())], lambda v: struct.pack("<d", v), rec_f64)
    )
    groups.append(
        repeated_scalar(13, [r_u32() for _ in range(n())], lambda v: struct.pack("<I", v), rec_f32)
    )
    groups.append(
        repeated_scalar(
            14, [r_bool() for _ in range(n())], lambda v: pv(int(v)), lambda k, v: rec_varint(k, int(v))
        )
    )
    groups.append(repeated_scalar(15, [r_enum() for _ in range(n())], pv, rec_varint))
    groups.append([rec_len(16, r_str().encode()) for _ in range(n())])
    groups.append(
        [rec_len(17, enc_inner(r_i32(), r_str()) if maybe(0.8) else b"") for _ in range(n())]
    )

    # maps; duplicate keys are allowed for scalar values (last wins)
    recs = []
    for _ in range(rnd.randint(0, 4)):
        k = rnd.choice(("", "a", "b", r_str(4)))
        krec = rec_len(1, k.encode()) if (k or maybe(0.5)) else None
        vrec = rec_varint(2, r_i32()) if maybe(0.85) else None
        recs.append(map_entry(18, krec, vrec))
    groups.append(recs)
    recs = []
    for k in rnd.sample([0, 1, -1, 2**31 - 1, -(2**31), 77], rnd.randint(0, 4)):
        krec = rec_varint(1, k) if (k or maybe(0.5)) else None
        vrec = rec_len(2, enc_inner(r_i32(), r_str())) if maybe(0.8) else None
        recs.append(map_entry(19, krec, vrec))
    groups.append(recs)
    recs = []
    for _ in range(rnd.randint(0, 3)):
        k = r_bool()
        krec = rec_varint(1, int(k)) if (k or maybe(0.5)) else None
        vrec = rec_len(2, r_str().encode()) if maybe(0.85) else None
        recs.append(map_entry(20, krec, vrec))
    groups.append(recs)

    # oneof groups: several members, each possibly more than once; one message at most
    recs = []
    used_msg = False
    for _ in range(rnd.randint(0, 4)):
        m = rnd.choice(("o_i", "o_s", "o_m", "o_b"))
        if m == "o_i":
            recs.append(rec_varint(21, rnd.choice((0, r_i32()))))
        elif m == "o_s":
            recs.append(rec_len(22, rnd.choice(("", r_str())).encode()))
        elif m == "o_b":
            recs.append(rec_varint(24, int(r_bool())))
        elif not used_msg:
            used_msg = True
            recs.append(rec_len(23, enc_inner(r_i32(), r_str()) if maybe(0.7) else b""))
    groups.append(recs)
    recs = []
    for _ in range(rnd.randint(0, 3)):
        if maybe(0.5):
            v = rnd.choice((0, r_i32()))
            recs.append(rec_varint(25, zz(v)))
        else:
            recs.append(rec_len(26, rnd.choice((b"", r_bytes()))))
    groups.append(recs)

    if maybe(0.5):
        groups.append([rec_varint(27, v) for v in dup(lambda: rnd.choice((0, r_i32())))])
    if maybe(0.5):
        groups.append([rec_len(28, v.encode()) for v in dup(lambda: rnd.choice(("", r_str())))])
    if maybe(0.5):
        v = rnd.choice((0, r_i32()))
        groups.append([rec_len(29, rec_varint(1, v) if (v or maybe(0.3)) else b"")])
    if maybe(0.5):
        v = rnd.choice(("", r_str()))
        groups.append([rec_len(30, rec_len(1, v.encode()) if (v or maybe(0.3)) else b"")])
    if maybe(0.5):
        secs = rnd.choice((0, 1, -1, rnd.randint(-62135596800, 253402300799)))
        nanos = rnd.choice((0, 1000, 999999000, rnd.randrange(10**6) * 1000))
        parts = [rec_varint(1, secs)] * bool(secs) + [rec_varint(2, nanos)] * bool(nanos)
        rnd.shuffle(parts)
        groups.append([rec_len(31, b"".join(parts))])
    if maybe(0.5):
        sign = rnd.choice((1, -1))
        secs = sign * rnd.choice((0, 1, rnd.randint(0, 10**9)))
        nanos = sign * rnd.choice((0, 1000, 999999000, rnd.randrange(10**6) * 1000))
        parts = [rec_varint(1, secs)] * bool(secs) + [rec_varint(2, nanos)] * bool(nanos)
        rnd.shuffle(parts)
        groups.append([rec_len(32, b"".join(parts))])

    groups.append([unknown_record() for _ in range(rnd.randint(0, 4))])
    return groups


def interleave(groups):
    """Random merge that keeps the order inside every group."""
    groups = [list(g) for g in groups if g]
    out = []
    while groups:
        g = rnd.choice(groups)
        out.append(g.pop(0))
        if not g:
            groups.remove(g)
    return b"".join(out)


# ======================================================================= the run
N = 1500
for case in range(N):
    data = interleave(random_encoding())
    ref = RefOuter.FromString(data)
    bp = Outer().parse(data)
    same(bp, ref)
    assert Outer.FromString(data) == bp

    # what betterproto writes back is the same message for the reference
    again = RefOuter.FromString(bytes(bp))
    same(bp, again)
    same(Outer().parse(bytes(bp)), again)
    # and the canonical reference bytes decode to the same values, too
    same(Outer().parse(ref.SerializeToString()), ref)

    # parsing a second buffer into the same instance: scalars are replaced,
    # repeated fields and scalar-valued maps are merged (as MergeFromString does)
    if case % 3 == 0:
        more = interleave(random_encoding())
        bp.parse(more)
        ref.MergeFromString(more)
        for name in ("i32", "s64", "b", "d", "f32", "s", "by"):
            assert getattr(bp, name) == getattr(ref, name), name
        for name in ("r_i32", "r_s64", "r_d", "r_f32", "r_b", "r_s"):
            assert getattr(bp, name) == list(getattr(ref, name)), name
        assert [int(v) for v in bp.r_en] == list(ref.r_en)
        assert len(bp.r_inner) == len(ref.r_inner)
        assert bp.m_si == dict(ref.m_si) and bp.m_bs == dict(ref.m_bs)
        for group in ("pick", "other"):
            assert betterproto.which_one_of(bp, group)[0] == (ref.WhichOneof(group) or "")

# a few fixed, hand-checked encodings
m = Outer().parse(bytes([0x50, 0x01, 0x52, 0x02, 0x02, 0x03, 0x50, 0x04, 0x52, 0x00, 0x52, 0x01, 0x05]))
assert m.r_i32 == [1, 2, 3, 4, 5]
m = Outer().parse(bytes([0xA8, 0x01, 0x07, 0xB2, 0x01, 0x00, 0xA8, 0x01, 0x00]))
assert betterproto.which_one_of(m, "pick") == ("o_i", 0)
m = Outer().parse(bytes([0xA8, 0x01, 0x07, 0xB2, 0x01, 0x00]))
assert betterproto.which_one_of(m, "pick") == ("o_s", "")
m = Outer().parse(bytes([0x08, 0x05, 0x08, 0x00]))
assert m.i32 == 0 and bytes(m) == b""
m = Outer().parse(bytes([0xD8, 0x01, 0x05, 0xD8, 0x01, 0x00]))
assert m.opt_i == 0 and bytes(m) == bytes([0xD8, 0x01, 0x00])
m = Outer().parse(bytes([0x92, 0x01, 0x00]))
assert m.m_si == {"": 0}
m = Outer().parse(bytes([0x4A, 0x00]))
assert betterproto.serialized_on_wire(m.inner) and bytes(m) == bytes([0x4A, 0x00])

print("ok", N)
