"""C18 keep2: the per-class tables that the runtime derives from the annotations of a
generated class (ProtoClassMetadata.default_gen / cls_by_field, Message._cls_for,
Message._get_field_default_gen) are the same for every annotation style the plugin can
emit (typing.direct, typing.root, typing.310; standard or pydantic dataclasses), and the
classes keep encoding equal values to equal bytes and JSON.

Part 1  hand-written classes in the three annotation styles x two dataclass flavours:
        exact contents of default_gen and cls_by_field, helper methods, error paths.
Part 2  a schema rendered by the plugin under all six option combinations: tables,
        defaults of unset fields, bytes / JSON agreement, and the bytes are checked
        against google.protobuf (parse + re-serialise, field values, reverse direction).

Run: PYTHONPATH=<worktree>/src /venv/bin/python equiv.py
"""
import atexit
import contextlib
import dataclasses
import datetime as dt
import importlib
import io
import os
import shutil
import sys
import tempfile
import textwrap
import typing
import warnings

import grpc_tools
from google.protobuf import descriptor_pb2, descriptor_pool, message_factory
from grpc_tools import protoc as _protoc

import betterproto
from betterproto import Message, datetime_default_gen
from betterproto.lib.google.protobuf import FileDescriptorSet
from betterproto.lib.google.protobuf.compiler import CodeGeneratorRequest
from betterproto.plugin import compiler as plugin_compiler
from betterproto.plugin.models import monkey_patch_oneof_index
from betterproto.plugin.parser import generate_code

plugin_compiler.subprocess.check_output = lambda cmd, input, encoding: input
monkey_patch_oneof_index()
warnings.simplefilter("ignore")

WORK = tempfile.mkdtemp(prefix="c18_keep2_")
atexit.register(shutil.rmtree, WORK, ignore_errors=True)
sys.path.insert(0, WORK)
sys.dont_write_bytecode = True
WKT = os.path.join(os.path.dirname(grpc_tools.__file__), "_proto")
UTC = dt.timezone.utc
NoneType = type(None)

CONFIGS = [
    (typing_opt, pydantic)
    for typing_opt in ("typing.direct", "typing.root", "typing.310")
    for pydantic in (False, True)
]

# --------------------------------------------------------------------------------------
# Part 1: hand-written modules, one per (annotation style, dataclass flavour)
# --------------------------------------------------------------------------------------
STYLES = {
    "direct": dict(
        imports="from typing import Dict, List, Optional",
        opt=lambda t: f"Optional[{t}]", lst=lambda t: f"List[{t}]", dct=lambda k, v: f"Dict[{k}, {v}]",
    ),
    "root": dict(
        imports="import typing",
        opt=lambda t: f"typing.Optional[{t}]", lst=lambda t: f"typing.List[{t}]",
        dct=lambda k, v: f"typing.Dict[{k}, {v}]",
    ),
    "310": dict(
        imports="",
        opt=lambda t: '"%s | None"' % t.strip('"'), lst=lambda t: '"list[%s]"' % t.strip('"'),
        dct=lambda k, v: '"dict[%s, %s]"' % (k, v.strip('"')),
    ),
}


def hand_module_source(style: str, pydantic: bool) -> str:
    s = STYLES[style]
    opt, lst, dct = s["opt"], s["lst"], s["dct"]
    oneof_opt = ", optional=True" if pydantic else ""

    def member(t):  # pydantic variants declare oneof members Optional
        return opt(t) if pydantic else t

    decorator = '@dataclass(eq=False, repr=False, config={"extra": "forbid"})' if pydantic else "@dataclass(eq=False, repr=False)"
    return textwrap.dedent(f'''
        {"from pydantic.dataclasses import dataclass" if pydantic else "from dataclasses import dataclass"}
        from datetime import datetime, timedelta
        {s["imports"]}
        import betterproto


        class Mood(betterproto.Enum):
            CALM = 0
            WILD = 1
            {"""
            @classmethod
            def __get_pydantic_core_schema__(cls, _source_type, _handler):
                from pydantic_core import core_schema

                return core_schema.int_schema()
            """ if pydantic else ""}

        {decorator}
        class Big(betterproto.Message):
            i32: int = betterproto.int32_field(1)
            f64: float = betterproto.double_field(2)
            flag: bool = betterproto.bool_field(3)
            text: str = betterproto.string_field(4)
            raw: bytes = betterproto.bytes_field(5)
            mood: "Mood" = betterproto.enum_field(6)
            kid: "Small" = betterproto.message_field(7)
            when: datetime = betterproto.message_field(8)
            span: timedelta = betterproto.message_field(9)
            o_i32: {opt("int")} = betterproto.int32_field(10, optional=True)
            o_text: {opt("str")} = betterproto.string_field(11, optional=True)
            o_mood: {opt('"Mood"')} = betterproto.enum_field(12, optional=True)
            o_kid: {opt('"Small"')} = betterproto.message_field(13, optional=True)
            o_when: {opt("datetime")} = betterproto.message_field(14, optional=True)
            w_i32: {opt("int")} = betterproto.message_field(15, wraps=betterproto.TYPE_INT32)
            w_text: {opt("str")} = betterproto.message_field(16, wraps=betterproto.TYPE_STRING)
            r_i32: {lst("int")} = betterproto.int32_field(17)
            r_text: {lst("str")} = betterproto.string_field(18)
            r_mood: {lst('"Mood"')} = betterproto.enum_field(19)
            r_kid: {lst('"Small"')} = betterproto.message_field(20)
            r_when: {lst("datetime")} = betterproto.message_field(21)
            r_w: {lst(opt("bool"))} = betterproto.message_field(22, wraps=betterproto.TYPE_BOOL)
            m_si: {dct("str", "int")} = betterproto.map_field(23, betterproto.TYPE_STRING, betterproto.TYPE_SINT32)
            m_ik: {dct("int", '"Small"')} = betterproto.map_field(24, betterproto.TYPE_INT64, betterproto.TYPE_MESSAGE)
            m_bm: {dct("bool", '"Mood"')} = betterproto.map_field(25, betterproto.TYPE_BOOL, betterproto.TYPE_ENUM)
            m_sw: {dct("str", "datetime")} = betterproto.map_field(26, betterproto.TYPE_STRING, betterproto.TYPE_MESSAGE)
            m_sb: {dct("str", "bytes")} = betterproto.map_field(27, betterproto.TYPE_STRING, betterproto.TYPE_BYTES)
            a_i32: {member("int")} = betterproto.int32_field(28{oneof_opt}, group="a")
            a_text: {member("str")} = betterproto.string_field(29{oneof_opt}, group="a")
            a_kid: {member('"Small"')} = betterproto.message_field(30{oneof_opt}, group="a")
            a_mood: {member('"Mood"')} = betterproto.enum_field(31{oneof_opt}, group="a")
            a_when: {member("datetime")} = betterproto.message_field(32{oneof_opt}, group="a")
            b_flag: {member("bool")} = betterproto.bool_field(33{oneof_opt}, group="b")
            b_raw: {member("bytes")} = betterproto.bytes_field(34{oneof_opt}, group="b")
            me: "Big" = betterproto.message_field(35)


        {decorator}
        class Small(betterproto.Message):
            n: int = betterproto.sint64_field(1)
            back: {opt('"Big"')} = betterproto.message_field(2, optional=True)


        {decorator}
        class Hollow(betterproto.Message):
            pass
    ''')


def install_text(name: str, source: str):
    with open(os.path.join(WORK, name + ".py"), "w") as fh:
        fh.write(source)
    importlib.invalidate_caches()
    return importlib.import_module(name)


def check_entry(entry, key_type, value_type, key_proto, value_proto):
    assert issubclass(entry, Message) and entry.__name__ == "Entry"
    fields = dataclasses.fields(entry)
    assert [f.name for f in fields] == ["key", "value"]
    assert [f.type for f in fields] == [key_type, value_type], [f.type for f in fields]
    metas = [betterproto.FieldMetadata.get(f) for f in fields]
    assert [(m.number, m.proto_type) for m in metas] == [(1, key_proto), (2, value_proto)]
    assert all(m.group is None and m.wraps is None and not m.optional and m.map_types is None for m in metas)


def part1():
    count = 0
    for style in STYLES:
        for pydantic in (False, True):
            mod = install_text(f"hand_{style}_{'pyd' if pydantic else 'std'}", hand_module_source(style, pydantic))
            Big, Small, Mood, Hollow = mod.Big, mod.Small, mod.Mood, mod.Hollow
            meta = Big._betterproto
            member_cls = lambda plain: plain  # cls_by_field drops the Optional of pydantic oneof members
            want_cls = {
                "i32": int, "f64": float, "flag": bool, "text": str, "raw": bytes, "mood": Mood, "kid": Small,
                "when": dt.datetime, "span": dt.timedelta, "o_i32": int, "o_text": str, "o_mood": Mood,
                "o_kid": Small, "o_when": dt.datetime, "w_i32": int, "w_text": str, "r_i32": int, "r_text": str,
                "r_mood": Mood, "r_kid": Small, "r_when": dt.datetime,
                "m_si.value": int, "m_ik.value": Small, "m_bm.value": Mood, "m_sw.value": dt.datetime,
                "m_sb.value": bytes,
                "a_i32": int, "a_text": str, "a_kid": Small, "a_mood": Mood, "a_when": dt.datetime,
                "b_flag": bool, "b_raw": bytes, "me": Big,
            }
            got_cls = dict(meta.cls_by_field)
            # r_w: List[Optional[bool]] -> first argument of the list, i.e. Optional[bool]
            r_w = got_cls.pop("r_w")
            assert r_w == typing.Optional[bool] and set(typing.get_args(r_w)) == {bool, NoneType}, r_w
            for name, (kt, vt, kp, vp) in {
                "m_si": (str, int, "string", "sint32"), "m_ik": (int, Small, "int64", "message"),
                "m_bm": (bool, Mood, "bool", "enum"), "m_sw": (str, dt.datetime, "string", "message"),
                "m_sb": (str, bytes, "string", "bytes"),
            }.items():
                check_entry(got_cls.pop(name), kt, vt, kp, vp)
            assert list(got_cls) == [k for k in want_cls], (list(got_cls), list(want_cls))
            for name, want in want_cls.items():
                assert got_cls[name] is want, (style, pydantic, name, got_cls[name], want)
            # insertion order of the table: declaration order, "<map>.value" right after its map
            order = list(meta.cls_by_field)
            assert order.index("m_si.value") == order.index("m_si") + 1
            assert [n for n in order if "." not in n] == [f.name for f in dataclasses.fields(Big)]

            oneof_default = NoneType if pydantic else None
            want_gen = {
                "i32": int, "f64": float, "flag": bool, "text": str, "raw": bytes, "mood": Mood.try_value,
                "kid": Small, "when": datetime_default_gen, "span": dt.timedelta,
                "o_i32": NoneType, "o_text": NoneType, "o_mood": NoneType, "o_kid": NoneType, "o_when": NoneType,
                "w_i32": NoneType, "w_text": NoneType,
                "r_i32": list, "r_text": list, "r_mood": list, "r_kid": list, "r_when": list, "r_w": list,
                "m_si": dict, "m_ik": dict, "m_bm": dict, "m_sw": dict, "m_sb": dict,
                "a_i32": oneof_default or int, "a_text": oneof_default or str, "a_kid": oneof_default or Small,
                "a_mood": oneof_default or Mood.try_value, "a_when": oneof_default or datetime_default_gen,
                "b_flag": oneof_default or bool, "b_raw": oneof_default or bytes, "me": Big,
            }
            assert list(meta.default_gen) == list(want_gen)
            for name, want in want_gen.items():
                got = meta.default_gen[name]
                assert got == want and type(got) is type(want), (style, pydantic, name, got, want)
                if want in (list, dict, NoneType, int, float, bool, str, bytes, Small, Big, dt.timedelta,
                            datetime_default_gen):
                    assert got is want
                count += 1
            assert meta.default_gen["mood"].__self__ is Mood

            # the helper class methods agree with the tables, for every index
            for field in dataclasses.fields(Big):
                assert Big._get_field_default_gen(field) == meta.default_gen[field.name]
                hint = Big._type_hint(field.name)
                assert Big._cls_for(field, index=-1) is hint or Big._cls_for(field, index=-1) == hint
                args = getattr(hint, "__args__", None)
                if args:
                    assert Big._cls_for(field) is args[0] or Big._cls_for(field) == args[0]
                    assert Big._cls_for(field, index=len(args) - 1) == args[-1]
                    try:
                        Big._cls_for(field, index=len(args))
                    except IndexError:
                        pass
                    else:
                        raise AssertionError("index past the arguments must raise")
                else:
                    assert Big._cls_for(field) is hint and Big._cls_for(field, index=1) is hint
            # the static builders still accept (cls, fields)
            rebuilt = betterproto.ProtoClassMetadata._get_default_gen(Big, dataclasses.fields(Big))
            assert rebuilt == meta.default_gen
            rebuilt = betterproto.ProtoClassMetadata._get_cls_by_field(Small, dataclasses.fields(Small))
            assert rebuilt == {"n": int, "back": Big}

            assert Small._betterproto.cls_by_field == {"n": int, "back": Big}
            assert Small._betterproto.default_gen == {"n": int, "back": NoneType}
            assert Hollow._betterproto.cls_by_field == {} and Hollow._betterproto.default_gen == {}

            # what unset fields read as
            big = Big()
            assert (big.i32, big.f64, big.flag, big.text, big.raw) == (0, 0.0, False, "", b"")
            assert big.mood is Mood.CALM and big.when == betterproto.DATETIME_ZERO and big.span == dt.timedelta(0)
            assert big.o_i32 is None and big.o_kid is None and big.w_i32 is None and big.w_text is None
            assert big.r_i32 == [] and big.r_w == [] and big.m_si == {} and big.m_ik == {}
            assert isinstance(big.kid, Small) and isinstance(big.me, Big) and big.kid.back is None
            fresh = Big()
            # (an unset repeated wrapper field is rendered as an empty list by to_dict)
            assert bytes(fresh) == b"" and fresh.to_json() == '{"rW": []}' and len(fresh) == 0
    return count


def part1_errors():
    """Hints the tables cannot be built from fail the same way as before."""
    mod = install_text("hand_errors", textwrap.dedent('''
        from dataclasses import dataclass
        from typing import Iterable, Tuple, TypeVar
        import betterproto

        T = TypeVar("T")

        @dataclass(eq=False, repr=False)
        class Generic(betterproto.Message):
            x: T = betterproto.int32_field(1)

        @dataclass(eq=False, repr=False)
        class Dangling(betterproto.Message):
            x: "Nowhere" = betterproto.message_field(1)

        @dataclass(eq=False, repr=False)
        class OtherOrigins(betterproto.Message):
            it: Iterable[int] = betterproto.int32_field(1)
            tup: Tuple[str, int] = betterproto.int32_field(2)
            typ: type = betterproto.int32_field(3)
    '''))
    for cls, error in ((mod.Generic, TypeError), (mod.Dangling, NameError)):
        try:
            cls._betterproto
        except error:
            pass
        else:
            raise AssertionError(f"{cls.__name__}: expected {error.__name__}")
        assert "_betterproto_meta" not in vars(cls)
    other = mod.OtherOrigins._betterproto
    hints = typing.get_type_hints(mod.OtherOrigins)
    # a parametrised hint that is neither Optional, list nor dict is its own default generator
    assert other.default_gen["it"] == hints["it"] and other.default_gen["tup"] == hints["tup"]
    assert other.default_gen["typ"] is type
    assert other.cls_by_field == {"it": int, "tup": str, "typ": type}
    field = dataclasses.fields(mod.OtherOrigins)[1]
    assert mod.OtherOrigins._cls_for(field, index=1) is int


# --------------------------------------------------------------------------------------
# Part 2: plugin output under the six option combinations
# --------------------------------------------------------------------------------------
PROTOS = {
    "shop/v1/order.proto": """
syntax = "proto3";
package shop.v1;
import "google/protobuf/timestamp.proto";
import "google/protobuf/duration.proto";
import "google/protobuf/wrappers.proto";
import "google/protobuf/empty.proto";
import "shop/common/types.proto";
import "shop/v1/sub/leaf.proto";
enum Status { STATUS_UNKNOWN = 0; STATUS_OPEN = 1; STATUS_DONE = 2; NEG = -3; }
message Order {
  int32 id = 1;
  optional string note = 2;
  repeated Status history = 3;
  map<string, shop.common.Money> prices = 4;
  map<int32, Status> states = 5;
  map<string, google.protobuf.Int32Value> boxed = 6;
  oneof payment {
    int32 cash = 7; string card = 8; shop.common.Money money = 9;
    google.protobuf.Timestamp paid_at = 10; Status pstatus = 25; google.protobuf.Empty nothing = 26;
  }
  oneof shipping { string addr = 27; bool pickup = 28; }
  google.protobuf.Timestamp created = 11;
  google.protobuf.Duration ttl = 12;
  optional google.protobuf.Timestamp updated = 13;
  google.protobuf.Int32Value w = 14;
  google.protobuf.StringValue ws = 15;
  repeated google.protobuf.Timestamp stamps = 16;
  optional Status ostatus = 17;
  message Line {
    bytes sku = 1; double qty = 2; repeated Line kids = 3; Order back = 4;
    enum Kind { K0 = 0; K1 = 1; }
    Kind kind = 5;
  }
  repeated Line lines = 18;
  Line main = 19;
  shop.v1.sub.Leaf leaf = 20;
  optional shop.common.Money omoney = 21;
  google.protobuf.Empty e = 22;
  sint64 s64 = 29; fixed32 f32 = 30; float fl = 31; bool flag = 32; bytes raw = 33; uint64 u64 = 34;
  optional int32 oi = 35; optional bool ob = 36; optional bytes oby = 37; optional double od = 38;
  repeated string names = 39; repeated sint32 packed = 40; repeated google.protobuf.BoolValue wbs = 41;
  map<string, google.protobuf.Timestamp> when = 42;
  map<string, bytes> blobs = 43;
}
message Nothing {}
service Orders {
  rpc Get(shop.common.Money) returns (Order);
  rpc Watch(Order) returns (stream shop.common.Money);
  rpc Upload(stream shop.common.Money) returns (Order);
  rpc Chat(stream Order) returns (stream Order);
}
""",
    "shop/common/types.proto": """
syntax = "proto3";
package shop.common;
message Money { int64 units = 1; string currency = 2; }
enum Region { REGION_NONE = 0; REGION_EU = 1; }
""",
    "shop/v1/sub/leaf.proto": """
syntax = "proto3";
package shop.v1.sub;
import "shop/common/types.proto";
message Leaf { shop.common.Region region = 1; repeated shop.common.Money ms = 2; }
""",
}


def descriptor_set() -> bytes:
    src = os.path.join(WORK, "proto_src")
    for fn, text in PROTOS.items():
        os.makedirs(os.path.dirname(os.path.join(src, fn)), exist_ok=True)
        with open(os.path.join(src, fn), "w") as fh:
            fh.write(text)
    out = os.path.join(src, "set.bin")
    rc = _protoc.main(["protoc", f"-I{src}", f"-I{WKT}", "--include_imports",
                       "--include_source_info", f"--descriptor_set_out={out}", *PROTOS])
    assert rc == 0, "protoc failed"
    with open(out, "rb") as fh:
        return fh.read()


def generate(fds, typing_opt, pydantic):
    params = [typing_opt] + (["pydantic_dataclasses"] if pydantic else [])
    request = CodeGeneratorRequest(file_to_generate=list(PROTOS), parameter=",".join(params),
                                   proto_file=FileDescriptorSet().parse(fds).file)
    with contextlib.redirect_stderr(io.StringIO()):
        response = generate_code(request)
    return {f.name: f.content for f in response.file}


def install(root, files):
    base = os.path.join(WORK, root)
    os.makedirs(base)
    open(os.path.join(base, "__init__.py"), "w").close()
    for path, content in files.items():
        full = os.path.join(base, path)
        os.makedirs(os.path.dirname(full), exist_ok=True)
        with open(full, "w") as fh:
            fh.write(content)
    importlib.invalidate_caches()


def order_values(v1, common, sub):
    O, Line, Money = v1.Order, v1.OrderLine, common.Money
    Empty = O._betterproto.cls_by_field["e"]
    I32 = O._betterproto.cls_by_field["boxed.value"]
    t = lambda *a: dt.datetime(*a, tzinfo=UTC)
    full = dict(
        id=3, note="", history=[v1.Status.OPEN, v1.Status.NEG], prices={"a": Money(units=5, currency="EUR")},
        states={1: v1.Status.DONE}, boxed={"b": I32(value=4)}, created=t(2021, 1, 1), ttl=dt.timedelta(seconds=3),
        w=0, ws="x", stamps=[t(2022, 1, 1)], ostatus=v1.Status.UNKNOWN,
        lines=[Line(sku=b"s", qty=1.5, kind=v1.OrderLineKind.K1, kids=[Line()])], main=Line(back=O(id=1)),
        leaf=sub.Leaf(region=common.Region.EU, ms=[Money(units=1)]), omoney=Money(), e=Empty(),
        s64=-5, f32=7, fl=1.5, flag=True, raw=b"\x00\xff", u64=2**63, oi=0, ob=False, oby=b"", od=0.0,
        names=["a", ""], packed=[-1, 0, 1], wbs=[True, False], when={"t": t(2023, 1, 1)}, blobs={"k": b"v"},
    )
    out = [O(), O(**full)]
    for pick in ({"cash": 0}, {"card": ""}, {"money": Money()}, {"paid_at": t(2020, 1, 1)},
                 {"pstatus": v1.Status.UNKNOWN}, {"nothing": Empty()}):
        for ship in ({"addr": ""}, {"pickup": False}, {"pickup": True}, {}):
            out.append(O(**full, **pick, **ship))
            out.append(O(**pick, **ship))
    # one field at a time
    out += [O(**{name: value}) for name, value in full.items()]
    # assignment after construction, and filling defaults in place
    late = O()
    late.history.append(v1.Status.DONE)
    late.main.qty = 2.0
    late.leaf.ms.append(Money(currency="X"))
    late.prices["z"] = Money(units=-1)
    late.card = "4111"
    late.cash = 12
    out.append(late)
    return out


def pb_classes(fds):
    pool = descriptor_pool.DescriptorPool()
    for f in descriptor_pb2.FileDescriptorSet.FromString(fds).file:
        pool.Add(f)
    return message_factory.GetMessageClass(pool.FindMessageTypeByName("shop.v1.Order"))


def part2():
    fds = descriptor_set()
    PbOrder = pb_classes(fds)
    results = {}
    for typing_opt, pydantic in CONFIGS:
        root = "k2_" + typing_opt.replace(".", "_") + ("_pyd" if pydantic else "_std")
        install(root, generate(fds, typing_opt, pydantic))
        v1 = importlib.import_module(root + ".shop.v1")
        common = importlib.import_module(root + ".shop.common")
        sub = importlib.import_module(root + ".shop.v1.sub")
        O, Line = v1.Order, v1.OrderLine
        meta = O._betterproto
        gp = sys.modules["betterproto.lib.pydantic.google.protobuf" if pydantic else "betterproto.lib.google.protobuf"]
        # tables of the generated class
        want = {
            "id": int, "note": str, "history": v1.Status, "prices.value": common.Money, "states.value": v1.Status,
            "boxed.value": gp.Int32Value, "cash": int, "card": str, "money": common.Money, "paid_at": dt.datetime,
            "pstatus": v1.Status, "nothing": gp.Empty, "addr": str, "pickup": bool, "created": dt.datetime,
            "ttl": dt.timedelta, "updated": dt.datetime, "w": int, "ws": str, "stamps": dt.datetime,
            "ostatus": v1.Status, "lines": Line, "main": Line, "leaf": sub.Leaf, "omoney": common.Money,
            "e": gp.Empty, "s64": int, "f32": int, "fl": float, "flag": bool, "raw": bytes, "u64": int,
            "oi": int, "ob": bool, "oby": bytes, "od": float, "names": str, "packed": int,
            "when.value": dt.datetime, "blobs.value": bytes,
        }
        for name, cls in want.items():
            assert meta.cls_by_field[name] is cls, (typing_opt, pydantic, name, meta.cls_by_field[name])
        assert set(typing.get_args(meta.cls_by_field["wbs"])) == {bool, NoneType}
        for name in ("prices", "states", "boxed", "when", "blobs"):
            entry = meta.cls_by_field[name]
            assert issubclass(entry, Message)
            assert [f.name for f in dataclasses.fields(entry)] == ["key", "value"]
            assert dataclasses.fields(entry)[1].type is meta.cls_by_field[name + ".value"]
        oneof = NoneType if pydantic else None
        want_gen = {
            "id": int, "note": NoneType, "history": list, "prices": dict, "states": dict, "boxed": dict,
            "cash": oneof or int, "card": oneof or str, "money": oneof or common.Money,
            "paid_at": oneof or datetime_default_gen, "pstatus": oneof or v1.Status.try_value,
            "nothing": oneof or gp.Empty, "addr": oneof or str, "pickup": oneof or bool,
            "created": datetime_default_gen, "ttl": dt.timedelta, "updated": NoneType, "w": NoneType,
            "ws": NoneType, "stamps": list, "ostatus": NoneType, "lines": list, "main": Line, "leaf": sub.Leaf,
            "omoney": NoneType, "e": gp.Empty, "s64": int, "f32": int, "fl": float, "flag": bool, "raw": bytes,
            "u64": int, "oi": NoneType, "ob": NoneType, "oby": NoneType, "od": NoneType, "names": list,
            "packed": list, "wbs": list, "when": dict, "blobs": dict,
        }
        assert list(meta.default_gen) == [f.name for f in dataclasses.fields(O)]
        for name, gen in want_gen.items():
            assert meta.default_gen[name] == gen, (typing_opt, pydantic, name, meta.default_gen[name], gen)
        assert Line._betterproto.cls_by_field == {
            "sku": bytes, "qty": float, "kids": Line, "back": O, "kind": v1.OrderLineKind}
        assert v1.Nothing._betterproto.default_gen == {}
        # services are there with the four cardinalities
        mapping = v1.OrdersBase().__mapping__()
        assert sorted(h.cardinality.name for h in mapping.values()) == [
            "STREAM_STREAM", "STREAM_UNARY", "UNARY_STREAM", "UNARY_UNARY"]

        values = order_values(v1, common, sub)
        encoded = [bytes(v) for v in values]
        results[(typing_opt, pydantic)] = (encoded, [v.to_json() for v in values])

        # against google.protobuf: parse + deterministic re-serialisation gives our top-level
        # records, and what it serialises is read back to the same message
        for value, data in zip(values, encoded):
            pb_data = PbOrder.FromString(data).SerializeToString(deterministic=True)
            # (protobuf writes in field number order, betterproto in declaration order)
            records = lambda raw: sorted((f.number, f.raw) for f in betterproto.parse_fields(raw))
            assert records(pb_data) == records(data), (typing_opt, pydantic, value)
            again = O().parse(pb_data)
            assert again == value and bytes(again) == data and again.to_json() == value.to_json()
            assert len(value) == len(data)
        pb = PbOrder.FromString(encoded[1])
        assert pb.id == 3 and pb.HasField("note") and pb.note == "" and list(pb.history) == [1, -3]
        assert pb.prices["a"].units == 5 and pb.states[1] == 2 and pb.boxed["b"].value == 4
        assert pb.created.seconds == 1609459200 and pb.ttl.seconds == 3 and pb.w.value == 0 and pb.HasField("w")
        assert pb.ws.value == "x" and pb.HasField("e") and pb.HasField("omoney") and pb.HasField("ostatus")
        assert pb.lines[0].kids[0].ByteSize() == 0 and pb.main.back.id == 1 and pb.leaf.ms[0].units == 1
        assert pb.u64 == 2**63 and pb.s64 == -5 and list(pb.packed) == [-1, 0, 1] and [b.value for b in pb.wbs] == [True, False]
        assert pb.WhichOneof("payment") is None and pb.WhichOneof("shipping") is None
        late = PbOrder.FromString(encoded[-1])
        assert late.WhichOneof("payment") == "cash" and late.cash == 12 and late.main.qty == 2.0
        assert late.prices["z"].units == -1 and late.leaf.ms[0].currency == "X" and list(late.history) == [2]

    reference = results[("typing.direct", False)]
    for config, got in results.items():
        assert got[0] == reference[0], (config, "bytes differ from the default configuration")
        assert got[1] == reference[1], (config, "JSON differs from the default configuration")
    return len(reference[0])


if __name__ == "__main__":
    n1 = part1()
    part1_errors()
    n2 = part2()
    print(f"OK: {n1} default generators / class tables checked on hand-written classes; "
          f"{n2} values x {len(CONFIGS)} generated configurations agree and match google.protobuf")
